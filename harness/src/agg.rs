//! `agg` set-up (C05, C10, C15, C19 aggregator halves): synthetic round histories fed to the real
//! `trippy_core::State`; every getter of every hop is dumped in the canonical format that the Lean
//! model (`TV.Agg.handle`, /verif/lean/TrippyVerif/Model/StateAgg.lean) produces for the same
//! requests.
//!
//! requests                                          answers
//!   agg new <maxSamples> <maxFlows>                   ok
//!   agg round <largestTtl> <T|L> <slots|->            brief dump: default flow + header of the round's flow
//!                                                     (+ its hops when its round count is ≤ 2 or ≡ 0 mod 8)
//!   agg dump                                          full dump: every flow, whole registry
//!   agg get <flow> <hops|target|round|count>          the getter's value | panic
//! `<slots>`: `;`-separated slots in the format of `strategy::show_slot`.
//!
//! Dump: flows separated by ` | `; in a flow the header and the hops separated by ` ; `; in a hop
//! space separated `name=value` tokens.  Tokens whose value is a float (compare with relative
//! tolerance 1e-9; printed here with 17 significant digits, by the model exactly):
//!   javg= jinta= loss= floss= bloss= avg= sd=
//! duration tokens derived from a float (`Duration::from_secs_f64`; compare ±2 ns): jitter= jmax=
//! Everything else is exact.  (`mean`/`m2` have no getter; `sd=` is `stddev_ms()`.)
//!
//! Oracle (independent of the Lean model): a straightforward re-aggregation of the history per
//! flow, with its own flow matcher, compared with the integer getters, plus the conservation laws
//! of C05, the hop window of C10 and the float getters against two-pass formulas.
//! Oracle failure kinds: `panic` (a panic on a history of `RoundWF` rounds only), `c05-*`, `c10-*`,
//! `c15-*`, `c19-nat-status`.  `c05-stddev`: `stddev_ms()²` is compared with the two-pass sample
//! variance `Σ(d − d̄)²/(n−1)`, computed exactly from the integer rtts (`(nΣd² − (Σd)²)/(n(n−1))` in
//! `u128`), relative tolerance 1e-9 (plus the cancellation floor `1e-12·d̄²` of `f64` Welford).
//! Before the repair of state.rs:637-638 (`m2` used the new mean in both factors) this check
//! failed on every hop with ≥ 2 distinct rtts (Lean: `TV.Props.C05.welford_m2_two_pass`).
//! Malformed rounds (ttl 0, ttl 255, largest_ttl < lowest or = 255) and unknown flow ids are issued
//! on purpose: the implementation panics, the model must answer `panic` too; they are not failures.
use crate::clock;
use crate::strategy::{addr_of, id_of, show_slot};
use crate::util::{guarded, Rng, Run};
use std::collections::BTreeMap;
use trippy_core::verif::{Checksum, IcmpPacketCode, ProbeFailed, StateConfig};
use trippy_core::{
    CompletionReason, Extension, Extensions, Flags, FlowEntry, FlowId, Hop, IcmpPacketType, NatStatus, Port, Probe,
    ProbeComplete, ProbeStatus, Round, RoundId, Sequence, State, TimeToLive, TraceId, TypeOfService,
    UnknownExtension,
};

// ------------------------------------------------------------------------------------------
// canonical dump of the real state
// ------------------------------------------------------------------------------------------

fn opt<T: ToString>(x: Option<T>) -> String {
    x.map_or("-".to_string(), |v| v.to_string())
}

/// nanoseconds of a duration the API only returns as `f64` milliseconds (exact below 2^53 ns)
fn ns_of_ms(ms: f64) -> u64 {
    (ms * 1e6).round() as u64
}

fn fl(x: f64) -> String {
    format!("{x:.16e}")
}

fn kind(k: Option<IcmpPacketType>) -> String {
    match k {
        None => "-".into(),
        Some(IcmpPacketType::TimeExceeded(c)) => format!("te{}", c.0),
        Some(IcmpPacketType::EchoReply(c)) => format!("er{}", c.0),
        Some(IcmpPacketType::Unreachable(c)) => format!("du{}", c.0),
        Some(IcmpPacketType::NotApplicable) => "na".into(),
    }
}

fn nat(n: NatStatus) -> &'static str {
    match n {
        NatStatus::NotApplicable => "NA",
        NatStatus::NotDetected => "ND",
        NatStatus::Detected => "D",
    }
}

/// total round-trip time in ns, recovered from `avg_ms * total_recv`
fn total_ns(h: &Hop) -> u64 {
    ns_of_ms(h.avg_ms() * h.total_recv() as f64)
}

fn show_hop(full: bool, st: &State, flow: FlowId, h: &Hop) -> String {
    let s: Vec<u64> = h.samples().iter().map(|d| d.as_nanos() as u64).collect();
    let sm = if full {
        format!("[{}]", s.iter().map(u64::to_string).collect::<Vec<_>>().join(","))
    } else {
        format!("{}/{}/{}/{}", s.len(), s.iter().sum::<u64>(), opt(s.first()), opt(s.last()))
    };
    let ad = h.addrs_with_counts().map(|(a, n)| format!("{}:{n}", crate::strategy::host_str(*a))).collect::<Vec<_>>().join(",");
    format!(
        "t={} s={} r={} f={} fw={} bw={} tt={} l={} b={} w={} jitter={} jmax={} javg={} jinta={} loss={} floss={} bloss={} avg={} sd={} sp={} dp={} sq={} k={} nat={} tos={} ext={} tg={} ir={} sm={sm} ad=[{ad}]",
        h.ttl(), h.total_sent(), h.total_recv(), h.total_failed(), h.total_forward_loss(), h.total_backward_loss(),
        total_ns(h), opt(h.last_ms().map(ns_of_ms)), opt(h.best_ms().map(ns_of_ms)), opt(h.worst_ms().map(ns_of_ms)),
        opt(h.jitter_ms().map(ns_of_ms)), opt(h.jmax_ms().map(ns_of_ms)), fl(h.javg_ms()), fl(h.jinta()),
        fl(h.loss_pct()), fl(h.forward_loss_pct()), fl(h.backward_loss_pct()), fl(h.avg_ms()), fl(h.stddev_ms()),
        h.last_src_port(), h.last_dest_port(), h.last_sequence(), kind(h.last_icmp_packet_type()),
        nat(h.last_nat_status()), opt(h.tos().map(|t| t.0)), opt(h.extensions().map(|e| e.extensions.len())),
        u8::from(st.is_target(h, flow)), u8::from(st.is_in_round(h, flow)),
    )
}

/// `mode`: 0 = header only, 1 = hops with abbreviated samples, 2 = everything
fn show_flow(mode: u8, st: &State, id: FlowId) -> String {
    let hops = st.hops_for_flow(id);
    let tgt = st.target_hop(id);
    let mut parts = vec![format!(
        "flow {} rounds={} round={} target={}:{}:{} nhops={}",
        id.0, st.round_count(id), opt(st.round(id)), tgt.ttl(), tgt.total_sent(), tgt.total_recv(), hops.len()
    )];
    if mode > 0 {
        parts.extend(hops.iter().map(|h| show_hop(mode == 2, st, id, h)));
    }
    parts.join(" ; ")
}

fn show_reg_entry(e: &(trippy_core::verif::Flow, FlowId)) -> String {
    let es = e.0.entries.iter().map(|x| match x {
        FlowEntry::Unknown => "*".to_string(),
        FlowEntry::Known(a) => crate::strategy::host_str(*a),
    });
    format!("{}:[{}]", e.1 .0, es.collect::<Vec<_>>().join(","))
}

fn show_brief(st: &State) -> String {
    let rf = st.round_flow_id();
    let mut parts = vec![show_flow(1, st, FlowId(0))];
    if rf.0 != 0 {
        // the round's own flow: hops only now and then (every flow is dumped in full by `dump`)
        let n = st.round_count(rf);
        parts.push(show_flow(u8::from(n <= 2 || n % 8 == 0), st, rf));
    }
    let reg = st.flows().iter().find(|e| e.1 == rf).map_or("-".to_string(), show_reg_entry);
    parts.push(format!("rfid={} nreg={} reg={reg}", rf.0, st.flows().len()));
    parts.join(" | ")
}

pub fn show_full(st: &State) -> String {
    let mut parts = vec![show_flow(2, st, FlowId(0))];
    for (_, id) in st.flows() {
        parts.push(show_flow(2, st, *id));
    }
    parts.push(format!("rfid={}", st.round_flow_id().0));
    let reg = if st.flows().is_empty() { "-".to_string() } else { st.flows().iter().map(show_reg_entry).collect::<Vec<_>>().join(";") };
    parts.push(format!("reg={reg}"));
    parts.join(" | ")
}

// ------------------------------------------------------------------------------------------
// requests
// ------------------------------------------------------------------------------------------

#[derive(Clone)]
pub struct RoundRec {
    pub probes: Vec<ProbeStatus>,
    pub largest: u8,
    pub target_found: bool,
}

impl RoundRec {
    fn line(&self) -> String {
        let slots = if self.probes.is_empty() { "-".to_string() } else { self.probes.iter().map(show_slot).collect::<Vec<_>>().join(";") };
        format!("agg round {} {} {slots}", self.largest, if self.target_found { "T" } else { "L" })
    }
    fn ttls(&self) -> Vec<u8> {
        self.probes.iter().filter_map(slot_ttl).collect()
    }
    /// the Lean `TV.Reagg.RoundWF`
    fn wf(&self) -> bool {
        let t = self.ttls();
        t.iter().all(|&x| (1..=254).contains(&x))
            && t.windows(2).all(|w| w[0] < w[1])
            && (self.largest == 0 || (!t.is_empty() && t[0] <= self.largest && self.largest <= 254))
    }
}

fn slot_ttl(s: &ProbeStatus) -> Option<u8> {
    match s {
        ProbeStatus::Awaited(p) => Some(p.ttl.0),
        ProbeStatus::Complete(c) => Some(c.ttl.0),
        ProbeStatus::Failed(f) => Some(f.ttl.0),
        _ => None,
    }
}

fn parse_probe(f: &[&str]) -> Option<Probe> {
    if f.len() < 8 { return None; }
    Some(Probe {
        sequence: Sequence(f[0].parse().ok()?), identifier: TraceId(f[1].parse().ok()?), src_port: Port(f[2].parse().ok()?),
        dest_port: Port(f[3].parse().ok()?), ttl: TimeToLive(f[4].parse().ok()?), round: RoundId(f[5].parse().ok()?),
        sent: clock::time_of(f[6].parse().ok()?), flags: Flags::from_bits_truncate(f[7].parse().ok()?),
    })
}

fn parse_opt<T: std::str::FromStr>(s: &str) -> Option<Option<T>> {
    if s == "-" { Some(None) } else { s.parse().ok().map(Some) }
}

fn mk_ext(n: Option<usize>) -> Option<Extensions> {
    n.map(|n| Extensions { extensions: (0..n).map(|_| Extension::Unknown(UnknownExtension::default())).collect() })
}

/// inverse of `strategy::show_slot` (for replaying corpus lines)
fn parse_slot(s: &str) -> Option<ProbeStatus> {
    match s {
        "N" => return Some(ProbeStatus::NotSent),
        "S" => return Some(ProbeStatus::Skipped),
        _ => {}
    }
    if s.len() < 3 || !s.ends_with(')') { return None; }
    let body: Vec<&str> = s[2..s.len() - 1].split('/').collect();
    let p = parse_probe(&body)?;
    match &s[..2] {
        "A(" if body.len() == 8 => Some(ProbeStatus::Awaited(p)),
        "F(" if body.len() == 8 => Some(ProbeStatus::Failed(ProbeFailed {
            sequence: p.sequence, identifier: p.identifier, src_port: p.src_port, dest_port: p.dest_port, ttl: p.ttl, round: p.round, sent: p.sent })),
        "C(" if body.len() == 15 => {
            let k = body[10];
            let code = |k: &str| k[2..].parse::<u8>().ok().map(IcmpPacketCode);
            let icmp = match &k[..2] {
                "na" => IcmpPacketType::NotApplicable,
                "te" => IcmpPacketType::TimeExceeded(code(k)?),
                "er" => IcmpPacketType::EchoReply(code(k)?),
                "du" => IcmpPacketType::Unreachable(code(k)?),
                _ => return None,
            };
            Some(ProbeStatus::Complete(ProbeComplete {
                sequence: p.sequence, identifier: p.identifier, src_port: p.src_port, dest_port: p.dest_port, ttl: p.ttl, round: p.round, sent: p.sent,
                host: addr_of(body[8].parse().ok()?, false), received: clock::time_of(body[9].parse().ok()?), icmp_packet_type: icmp,
                tos: parse_opt::<u8>(body[11])?.map(TypeOfService), expected_udp_checksum: parse_opt::<u16>(body[12])?.map(Checksum),
                actual_udp_checksum: parse_opt::<u16>(body[13])?.map(Checksum), extensions: mk_ext(parse_opt::<usize>(body[14])?),
            }))
        }
        _ => None,
    }
}

// ------------------------------------------------------------------------------------------
// oracle: straightforward re-aggregation
// ------------------------------------------------------------------------------------------

#[derive(Default, Clone, Debug, PartialEq)]
struct HopRef {
    probed: bool,
    sent: u64,
    recv: u64,
    failed: u64,
    fwd: u64,
    bwd: u64,
    rtts: Vec<u64>,
    samples: Vec<u64>, // oldest first, unbounded
    addrs: Vec<(u64, u64)>,
    sp: u16,
    dp: u16,
    sq: u16,
    kind: String,
    nat: &'static str,
    tos: Option<u8>,
    ext: Option<usize>,
}

/// per-round classification: for each slot, forward (1) / backward (2) loss or none (0)
fn loss_kinds(probes: &[ProbeStatus]) -> Vec<u8> {
    let silent_after = |i: usize| -> bool {
        let rest: Vec<&ProbeStatus> = probes[i + 1..].iter().skip_while(|s| slot_ttl(s).is_none()).collect();
        !rest.is_empty() && rest.iter().all(|s| matches!(s, ProbeStatus::Awaited(_) | ProbeStatus::Skipped))
    };
    let first = (0..probes.len()).find(|&i| matches!(probes[i], ProbeStatus::Awaited(_)) && silent_after(i));
    (0..probes.len())
        .map(|i| match (first, &probes[i]) {
            (Some(k), ProbeStatus::Awaited(_)) if i == k => 1,
            (Some(k), ProbeStatus::Awaited(_)) if i > k => 2,
            _ => 0,
        })
        .collect()
}

/// per-round NAT classification of the completed probes carrying both checksums
fn nat_kinds(probes: &[ProbeStatus]) -> Vec<Option<&'static str>> {
    let mut prev: Option<u16> = None;
    probes
        .iter()
        .map(|s| match s {
            ProbeStatus::Complete(c) => match (c.expected_udp_checksum, c.actual_udp_checksum) {
                (Some(e), Some(a)) => {
                    let reference = prev.unwrap_or(e.0);
                    prev = Some(a.0);
                    Some(if a.0 == reference { "ND" } else { "D" })
                }
                _ => None,
            },
            _ => None,
        })
        .collect()
}

fn reagg<'a>(rounds: impl Iterator<Item = &'a RoundRec>) -> BTreeMap<u8, HopRef> {
    let mut m: BTreeMap<u8, HopRef> = BTreeMap::new();
    for r in rounds {
        let loss = loss_kinds(&r.probes);
        let nats = nat_kinds(&r.probes);
        for (i, s) in r.probes.iter().enumerate() {
            let Some(t) = slot_ttl(s) else { continue };
            let h = m.entry(t).or_insert_with(|| HopRef { nat: "NA", kind: "-".into(), ..Default::default() });
            h.probed = true;
            h.sent += 1;
            match s {
                ProbeStatus::Complete(c) => {
                    let d = c.received.duration_since(c.sent).unwrap_or_default().as_nanos() as u64;
                    h.recv += 1;
                    h.rtts.push(d);
                    h.samples.push(d);
                    let a = id_of(c.host);
                    if let Some(e) = h.addrs.iter_mut().find(|e| e.0 == a) { e.1 += 1 } else { h.addrs.push((a, 1)) }
                    (h.sp, h.dp, h.sq) = (c.src_port.0, c.dest_port.0, c.sequence.0);
                    h.kind = kind(Some(c.icmp_packet_type));
                    h.tos = c.tos.map(|t| t.0);
                    h.ext = c.extensions.as_ref().map(|e| e.extensions.len());
                    if let Some(n) = nats[i] { h.nat = n }
                }
                ProbeStatus::Awaited(p) => {
                    h.samples.push(0);
                    (h.sp, h.dp, h.sq) = (p.src_port.0, p.dest_port.0, p.sequence.0);
                    match loss[i] { 1 => h.fwd += 1, 2 => h.bwd += 1, _ => {} }
                }
                ProbeStatus::Failed(p) => {
                    h.failed += 1;
                    h.samples.push(0);
                    (h.sp, h.dp, h.sq) = (p.src_port.0, p.dest_port.0, p.sequence.0);
                }
                _ => {}
            }
        }
    }
    m
}

fn close(a: f64, b: f64) -> bool {
    (a - b).abs() <= 1e-9 * a.abs().max(b.abs()).max(1e-300) || (a - b).abs() <= 1e-12
}

/// independent flow matcher (reference for C15): stored paths are `Vec<Option<addr>>`
#[derive(Default)]
struct FlowRef {
    flows: Vec<Vec<Option<u64>>>,
    /// rounds (indices into the history) attributed to flow id `i + 1`
    attributed: Vec<Vec<usize>>,
    last: u64,
}

fn round_path(r: &RoundRec) -> Vec<Option<u64>> {
    r.probes
        .iter()
        .filter_map(|s| match s {
            // one position per probed hop: a probe that failed to send is an unknown hop, like an unanswered one
            ProbeStatus::Awaited(_) | ProbeStatus::Failed(_) => Some(None),
            ProbeStatus::Complete(c) => Some(Some(id_of(c.host))),
            _ => None,
        })
        .take(usize::from(r.largest))
        .collect()
}

impl FlowRef {
    /// returns the flow id the round belongs to, if any
    fn attribute(&mut self, idx: usize, path: &[Option<u64>], max_flows: usize) -> Option<u64> {
        let full = self.flows.len() >= max_flows;
        let compatible = |f: &Vec<Option<u64>>| f.iter().zip(path).all(|(a, b)| a.is_none() || b.is_none() || a == b);
        if let Some(i) = self.flows.iter().position(compatible) {
            let f = &mut self.flows[i];
            for (k, e) in path.iter().enumerate() {
                if k >= f.len() { f.push(*e) } else if f[k].is_none() { f[k] = *e }
            }
            self.attributed[i].push(idx);
            self.last = i as u64 + 1;
            return Some(self.last);
        }
        if full { return None; }
        self.flows.push(path.to_vec());
        self.attributed.push(vec![idx]);
        self.last = self.flows.len() as u64;
        Some(self.last)
    }
}

struct Hist {
    max_samples: usize,
    max_flows: usize,
    rounds: Vec<RoundRec>,
    fref: FlowRef,
    all_wf: bool,
}

/// compare one flow of the real state with the re-aggregation of `rounds`
fn check_flow<'a>(run: &mut Run, ctx: &str, st: &State, id: FlowId, hist: &Hist, rounds: impl Iterator<Item = &'a RoundRec> + Clone) {
    let mut fail = |k: &str, d: String| run.fail(k, format!("{ctx} | flow {} | {d}", id.0));
    let n = rounds.clone().count();
    if st.round_count(id) != n { fail("c15-round-count", format!("round_count {} expected {n}", st.round_count(id))); }
    let lowest = rounds.clone().flat_map(|r| r.ttls()).min().unwrap_or(0);
    let highest = rounds.clone().map(|r| r.largest).max().unwrap_or(0);
    let latest = rounds.clone().last().map_or(0, |r| r.largest);
    let hops = st.hops_for_flow(id);
    // C10: window
    let want_len = if lowest == 0 || highest == 0 { 0 } else { usize::from(highest) + 1 - usize::from(lowest) };
    if hops.len() != want_len { fail("c10-window", format!("len {} expected {want_len} (lowest {lowest} highest {highest})", hops.len())); return; }
    let want_round = rounds.clone().flat_map(|r| r.probes.iter().filter_map(|s| match s {
        ProbeStatus::Awaited(p) => Some(p.round.0), ProbeStatus::Complete(c) => Some(c.round.0), ProbeStatus::Failed(f) => Some(f.round.0), _ => None })).max();
    if st.round(id) != want_round { fail("c05-round", format!("round {:?} expected {want_round:?}", st.round(id))); }
    let re = reagg(rounds);
    let tgt = st.target_hop(id);
    if latest > 0 {
        let probed = re.contains_key(&latest);
        if probed && tgt.ttl() != latest { fail("c10-target", format!("target ttl {} expected {latest}", tgt.ttl())); }
        if probed && tgt.total_sent() as u64 != re[&latest].sent { fail("c10-target", "target hop is not the hop at the latest largest_ttl".into()); }
    }
    for (i, h) in hops.iter().enumerate() {
        let t = lowest + i as u8;
        let d = HopRef { nat: "NA", kind: "-".into(), ..Default::default() };
        let r = re.get(&t).unwrap_or(&d);
        let hctx = format!("ttl {t}");
        if r.probed && h.ttl() != t { fail("c10-hop-ttl", format!("{hctx}: ttl() = {}", h.ttl())); }
        if !r.probed && h.ttl() != 0 { fail("c10-hop-ttl", format!("{hctx}: unprobed hop has ttl {}", h.ttl())); }
        if st.is_target(h, id) != (h.ttl() == latest) || st.is_in_round(h, id) != (h.ttl() <= latest) { fail("c10-target-flag", hctx.clone()); }
        let got = (h.total_sent() as u64, h.total_recv() as u64, h.total_failed() as u64, h.total_forward_loss() as u64, h.total_backward_loss() as u64);
        if got != (r.sent, r.recv, r.failed, r.fwd, r.bwd) { fail("c05-counts", format!("{hctx}: sent/recv/failed/fwd/bwd {got:?} expected {:?}", (r.sent, r.recv, r.failed, r.fwd, r.bwd))); }
        let total: u64 = r.rtts.iter().sum();
        if total_ns(h) != total { fail("c05-total", format!("{hctx}: {} expected {total}", total_ns(h))); }
        let got = (h.last_ms().map(ns_of_ms), h.best_ms().map(ns_of_ms), h.worst_ms().map(ns_of_ms));
        let want = (r.rtts.last().copied(), r.rtts.iter().min().copied(), r.rtts.iter().max().copied());
        if got != want { fail("c05-last-best-worst", format!("{hctx}: {got:?} expected {want:?}")); }
        let js: Vec<u64> = r.rtts.iter().enumerate().map(|(i, &d)| if i == 0 { d } else { d.abs_diff(r.rtts[i - 1]) }).collect();
        let want_j = if js.len() >= 2 { js.last().copied() } else { None };
        let near = |a: Option<u64>, b: Option<u64>| match (a, b) { (Some(a), Some(b)) => a.abs_diff(b) <= 2, (None, None) => true, _ => false };
        if !near(h.jitter_ms().map(ns_of_ms), want_j) || !near(h.jmax_ms().map(ns_of_ms), js.iter().max().copied()) {
            fail("c05-jitter", format!("{hctx}: jitter {:?} jmax {:?} expected {want_j:?} {:?}", h.jitter_ms(), h.jmax_ms(), js.iter().max()));
        }
        let want_s: Vec<u64> = r.samples.iter().rev().take(hist.max_samples).copied().collect();
        let got_s: Vec<u64> = h.samples().iter().map(|d| d.as_nanos() as u64).collect();
        if got_s != want_s { fail("c05-samples", format!("{hctx}: {got_s:?} expected {want_s:?}")); }
        if got_s.len() > hist.max_samples { fail("c05-samples-limit", hctx.clone()); }
        let got_a: Vec<(u64, u64)> = h.addrs_with_counts().map(|(a, n)| (id_of(*a), *n as u64)).collect();
        if got_a != r.addrs { fail("c05-addrs", format!("{hctx}: {got_a:?} expected {:?}", r.addrs)); }
        if h.addr_count() != r.addrs.len() { fail("c05-addrs", hctx.clone()); }
        let got = (h.last_src_port(), h.last_dest_port(), h.last_sequence(), kind(h.last_icmp_packet_type()), nat(h.last_nat_status()), h.tos().map(|t| t.0), h.extensions().map(|e| e.extensions.len()));
        let want = (r.sp, r.dp, r.sq, r.kind.clone(), r.nat, r.tos, r.ext);
        if got != want { fail(if got.4 != want.4 { "c19-nat-status" } else { "c05-last-probe" }, format!("{hctx}: {got:?} expected {want:?}")); }
        // conservation laws
        let (s, rc, f, fw, bw) = (h.total_sent(), h.total_recv(), h.total_failed(), h.total_forward_loss(), h.total_backward_loss());
        if rc + f > s { fail("c05-law-recv-failed-sent", hctx.clone()); }
        if got_a.iter().map(|e| e.1).sum::<u64>() != rc as u64 { fail("c05-law-addr-sum", hctx.clone()); }
        if fw + bw > s - rc.min(s) - f.min(s - rc.min(s)) { fail("c05-law-loss-split", hctx.clone()); }
        if !(0.0..=100.0).contains(&h.loss_pct()) { fail("c05-law-loss-range", hctx.clone()); }
        if let (Some(b), Some(w)) = (h.best_ms(), h.worst_ms()) {
            let a = h.avg_ms();
            if !(b <= a * (1.0 + 1e-12) + 1e-12 && a <= w * (1.0 + 1e-12) + 1e-12) { fail("c05-law-best-avg-worst", format!("{hctx}: {b} {a} {w}")); }
        }
        // float getters against two-pass formulas
        if s > 0 {
            if !close(h.loss_pct(), (s - rc) as f64 / s as f64 * 100.0) || !close(h.forward_loss_pct(), fw as f64 / s as f64 * 100.0)
                || !close(h.backward_loss_pct(), bw as f64 / s as f64 * 100.0) { fail("c05-loss-pct", hctx.clone()); }
        }
        if rc > 0 {
            let ms: Vec<f64> = r.rtts.iter().map(|&d| d as f64 / 1e6).collect();
            let mean = ms.iter().sum::<f64>() / rc as f64;
            if !close(h.avg_ms(), mean) { fail("c05-avg", format!("{hctx}: {} expected {mean}", h.avg_ms())); }
            let javg = js.iter().map(|&j| j as f64 / 1e6).sum::<f64>() / rc as f64;
            if (h.javg_ms() - javg).abs() > 1e-9 * javg.abs().max(1.0) { fail("c05-javg", format!("{hctx}: {} expected {javg}", h.javg_ms())); }
            let mut ji = 0f64;
            for &j in &js { ji += (j as f64 / 1e6).max(0.5) - (ji + 8.0) / 16.0; }
            if (h.jinta() - ji).abs() > 1e-9 * ji.abs().max(1.0) { fail("c05-jinta", format!("{hctx}: {} expected {ji}", h.jinta())); }
            // sample variance in ms², exact numerator from the integer rtts (ns)
            let var = if rc > 1 {
                let n = rc as u128;
                let s1: u128 = r.rtts.iter().map(|&d| u128::from(d)).sum();
                let s2: u128 = r.rtts.iter().map(|&d| u128::from(d) * u128::from(d)).sum();
                (n * s2 - s1 * s1) as f64 / (n * (n - 1)) as f64 / 1e12
            } else { 0.0 };
            let got = h.stddev_ms() * h.stddev_ms();
            if (got - var).abs() > 1e-9 * var.abs().max(got.abs()) + 1e-12 * mean * mean {
                fail("c05-stddev", format!("{hctx}: stddev_ms² {got} but the sample variance of {rc} rtts is {var} ms²"));
            }
        }
    }
}

fn check_all(run: &mut Run, ctx: &str, st: &State, hist: &Hist, only: Option<u64>) {
    let r = guarded(|| {
        let mut sub = Run::new();
        check_flow(&mut sub, ctx, st, FlowId(0), hist, hist.rounds.iter());
        // registry against the reference matcher
        let got: Vec<(u64, Vec<Option<u64>>)> = st.flows().iter().map(|(f, id)| (id.0, f.entries.iter().map(|e| match e { FlowEntry::Known(a) => Some(id_of(*a)), FlowEntry::Unknown => None }).collect())).collect();
        let want: Vec<(u64, Vec<Option<u64>>)> = hist.fref.flows.iter().enumerate().map(|(i, f)| (i as u64 + 1, f.clone())).collect();
        if got != want { sub.fail("c15-registry", format!("{ctx} | registry {got:?} expected {want:?}")); }
        if got.len() > hist.max_flows { sub.fail("c15-max-flows", format!("{ctx} | {} flows, limit {}", got.len(), hist.max_flows)); }
        if st.round_flow_id().0 != hist.fref.last { sub.fail("c15-round-flow-id", format!("{ctx} | round_flow_id {} expected {}", st.round_flow_id().0, hist.fref.last)); }
        for (i, idxs) in hist.fref.attributed.iter().enumerate() {
            let id = i as u64 + 1;
            if only.is_some() && only != Some(id) { continue; }
            check_flow(&mut sub, ctx, st, FlowId(id), hist, idxs.iter().map(|&k| &hist.rounds[k]));
        }
        sub
    });
    match r {
        Ok(sub) => {
            for (k, d) in sub.oracle_failures { run.fail(&k, d); }
        }
        Err(p) => { if hist.all_wf { run.fail("panic", format!("{ctx} | getters ({p})")); } }
    }
}

// ------------------------------------------------------------------------------------------
// running a history
// ------------------------------------------------------------------------------------------

struct Sess {
    st: State,
    hist: Hist,
    new_line: String,
    dead: bool,
}

fn start(run: &mut Run, max_samples: usize, max_flows: usize) -> Sess {
    let new_line = format!("agg new {max_samples} {max_flows}");
    run.op(new_line.clone(), "ok".into());
    run.count("histories");
    Sess {
        st: State::new(StateConfig { max_samples, max_flows }),
        hist: Hist { max_samples, max_flows, rounds: vec![], fref: FlowRef::default(), all_wf: true },
        new_line,
        dead: false,
    }
}

impl Sess {
    fn ctx(&self) -> String {
        format!("{} | round #{} | {}", self.new_line, self.hist.rounds.len(), self.hist.rounds.last().map_or(String::new(), RoundRec::line))
    }

    fn round(&mut self, run: &mut Run, rec: RoundRec, check: bool) {
        if self.dead { return; }
        let line = rec.line();
        let wf = rec.wf();
        self.hist.all_wf &= wf;
        run.count(if wf { "rounds:wf" } else { "rounds:malformed" });
        let reason = if rec.target_found { CompletionReason::TargetFound } else { CompletionReason::RoundTimeLimitExceeded };
        let st = &mut self.st;
        let res = guarded(|| {
            st.update_from_round(&Round::new(&rec.probes, TimeToLive(rec.largest), reason));
            show_brief(st)
        });
        let idx = self.hist.rounds.len();
        let path = round_path(&rec);
        self.hist.rounds.push(rec);
        match res {
            Ok(out) => {
                run.op(line, out);
                let id = self.hist.fref.attribute(idx, &path, self.hist.max_flows);
                if id.is_none() { run.count("rounds:unattributed"); }
                if check {
                    let ctx = self.ctx();
                    check_all(run, &ctx, &self.st, &self.hist, id.or(Some(0)));
                }
            }
            Err(p) => {
                if self.hist.all_wf { run.fail("panic", format!("{} ({p})", self.ctx())); }
                run.count("outcome:panic");
                run.op(line, "panic".into());
                self.dead = true;
            }
        }
    }

    fn dump(&mut self, run: &mut Run) {
        if self.dead { return; }
        let st = &self.st;
        match guarded(|| show_full(st)) {
            Ok(out) => {
                run.op("agg dump".into(), out);
                let ctx = self.ctx();
                check_all(run, &ctx, &self.st, &self.hist, None);
            }
            Err(p) => {
                if self.hist.all_wf { run.fail("panic", format!("{} | dump ({p})", self.ctx())); }
                run.count("outcome:panic");
                run.op("agg dump".into(), "panic".into());
                self.dead = true;
            }
        }
    }

    fn get(&mut self, run: &mut Run, flow: u64, what: &str) {
        if self.dead { return; }
        let st = &self.st;
        let id = FlowId(flow);
        let res = guarded(|| match what {
            "hops" => st.hops_for_flow(id).len().to_string(),
            "target" => { let h = st.target_hop(id); format!("{}:{}:{}", h.ttl(), h.total_sent(), h.total_recv()) }
            "round" => opt(st.round(id)),
            _ => st.round_count(id).to_string(),
        });
        let known = flow == 0 || self.st.flows().iter().any(|e| e.1 .0 == flow);
        if res.is_err() && known && self.hist.all_wf { run.fail("panic", format!("{} | get {flow} {what}", self.ctx())); }
        if res.is_err() { run.count("outcome:getter-panic"); }
        run.op(format!("agg get {flow} {what}"), res.unwrap_or_else(|_| "panic".into()));
    }
}

// ------------------------------------------------------------------------------------------
// generators
// ------------------------------------------------------------------------------------------

pub struct Net {
    pub first: u8,
    /// distance of the target
    dist: u8,
    target_silent: bool,
    /// candidate responders per ttl (index ttl - 1)
    addrs: Vec<Vec<u64>>,
    silent: Vec<bool>,
    loss_pm: u64,
    fail_pm: u64,
    /// checksums present (Dublin/IPv4/UDP) and the distance of a NAT device, if any
    cks: bool,
    nat_at: Option<u8>,
    nat2_at: Option<u8>,
    rtt_mode: u8,
    flow_keys: u64,
    weird_pm: u64,
    t: u64,
    seq: u16,
}

pub const TARGET: u64 = 7;

pub fn gen_net(rng: &mut Rng, max_span: u8) -> Net {
    let first = *rng.pick(&[1u8, 1, 1, 1, 2, 4, 200, 254]);
    let span = (*rng.pick(&[0u8, 1, 2, 2, 3, 3, 5, 8, 12, 30])).min(max_span);
    let dist = (u16::from(first) + u16::from(span)).min(254) as u8;
    let ecmp = *rng.pick(&[1u64, 1, 2, 3]);
    let addrs = (0..254u64).map(|t| (0..=rng.below(ecmp)).map(|k| 100 + t * 4 + k).collect()).collect();
    let silent = (0..254).map(|_| rng.chance(1, 8)).collect();
    let cks = rng.chance(1, 2);
    let nat_at = if cks && rng.chance(1, 2) { Some(rng.range(u64::from(first), u64::from(dist) + 1) as u8) } else { None };
    let nat2_at = if nat_at.is_some() && rng.chance(1, 3) { Some(rng.range(u64::from(first), u64::from(dist) + 1) as u8) } else { None };
    Net {
        first, dist, target_silent: rng.chance(1, 5), addrs, silent,
        loss_pm: *rng.pick(&[0u64, 0, 50, 300, 900]), fail_pm: *rng.pick(&[0u64, 0, 20, 200]),
        cks, nat_at, nat2_at, rtt_mode: rng.below(6) as u8, flow_keys: *rng.pick(&[1u64, 1, 2, 3, 8, 100]),
        weird_pm: *rng.pick(&[0u64, 0, 30, 200]), t: rng.below(1_000_000) * 1000, seq: 33434,
    }
}

fn rtt(net: &Net, rng: &mut Rng, round: usize, ttl: u8) -> u64 {
    match net.rtt_mode {
        0 => 0,
        1 => 1_000_000 * u64::from(ttl),                                        // equal per hop
        2 => if round % 2 == 0 { 2_000_000 } else { 9_999_999_999 },            // alternating
        3 => 1_000 * (round as u64 + 1) + u64::from(ttl),                        // monotone increasing
        4 => 10_000_000_000u64.saturating_sub(1_999_999 * round as u64),        // monotone decreasing
        _ => match rng.below(4) { 0 => rng.below(1000), 1 => rng.below(10_000_000_000), 2 => 1_000_000 + rng.below(50_000_000), _ => rng.below(2_000_000) },
    }
}

fn mk_probe(net: &mut Net, rng: &mut Rng, round: usize, ttl: u8, key: u64) -> Probe {
    net.seq = if net.seq > 65000 { 33434 } else { net.seq + 1 };
    net.t += rng.below(3) * 1_000_000;
    Probe {
        sequence: Sequence(net.seq), identifier: TraceId(if net.cks { net.seq } else { 4242 }),
        src_port: Port(5000 + key as u16), dest_port: Port(33434 + (round % 1000) as u16), ttl: TimeToLive(ttl),
        round: RoundId(round), sent: clock::time_of(net.t), flags: Flags::from_bits_truncate(if net.cks { 0 } else { rng.below(3) as u32 }),
    }
}

fn complete(net: &Net, rng: &mut Rng, p: Probe, host: u64, is_target: bool, d: u64, back: bool) -> ProbeStatus {
    let sent_ns = clock::ns_of(p.sent);
    let received = if back { sent_ns.saturating_sub(d) } else { sent_ns + d };
    let expected = 0x1234u16.wrapping_add(p.sequence.0);
    let mut actual = expected;
    if let Some(k) = net.nat_at { if p.ttl.0 >= k { actual = 0xbeef; } }
    if let Some(k) = net.nat2_at { if p.ttl.0 >= k && Some(k) >= net.nat_at { actual = 0x0bad; } }
    let (e, a) = if net.cks { (Some(Checksum(expected)), Some(Checksum(actual))) } else if rng.chance(1, 50) { (Some(Checksum(1)), None) } else { (None, None) };
    let icmp = if is_target { *rng.pick(&[IcmpPacketType::EchoReply(IcmpPacketCode(0)), IcmpPacketType::Unreachable(IcmpPacketCode(3)), IcmpPacketType::NotApplicable]) }
        else if rng.chance(1, 12) { IcmpPacketType::Unreachable(IcmpPacketCode(rng.below(16) as u8)) } else { IcmpPacketType::TimeExceeded(IcmpPacketCode(0)) };
    ProbeStatus::Complete(ProbeComplete {
        sequence: p.sequence, identifier: p.identifier, src_port: p.src_port, dest_port: p.dest_port, ttl: p.ttl, round: p.round, sent: p.sent,
        host: addr_of(host, false), received: clock::time_of(received), icmp_packet_type: icmp,
        tos: if rng.chance(1, 3) { None } else { Some(TypeOfService(rng.next() as u8)) },
        expected_udp_checksum: e, actual_udp_checksum: a,
        extensions: mk_ext(if rng.chance(1, 5) { Some(rng.below(3) as usize) } else { None }),
    })
}

fn failed(p: &Probe) -> ProbeStatus {
    ProbeStatus::Failed(ProbeFailed { sequence: p.sequence, identifier: p.identifier, src_port: p.src_port, dest_port: p.dest_port, ttl: p.ttl, round: p.round, sent: p.sent })
}

/// a round as a conforming tracer would publish it against `net` (always `RoundWF`)
pub fn net_round(net: &mut Net, rng: &mut Rng, round: usize) -> RoundRec {
    let key = rng.below(net.flow_keys);
    let mut probes = vec![];
    let extra = rng.below(4) as u16;
    let last = (u16::from(net.dist.max(net.first)) + extra).min(254) as u8;
    let last = if rng.chance(1, 6) { rng.range(u64::from(net.first), u64::from(last)) as u8 } else { last };
    let (mut target_ttl, mut max_recv, mut max_sent): (Option<u8>, Option<u8>, u8) = (None, None, 0);
    for ttl in net.first..=last {
        if rng.below(1000) < net.weird_pm { probes.push(if rng.chance(3, 4) { ProbeStatus::Skipped } else { ProbeStatus::NotSent }); }
        if rng.below(1000) < net.weird_pm / 4 { continue; } // a gap in the ttl sequence
        let p = mk_probe(net, rng, round, ttl, key);
        max_sent = ttl;
        let is_target = ttl >= net.dist;
        let quiet = if is_target { net.target_silent } else { net.silent[usize::from(ttl) - 1] };
        let s = if rng.below(1000) < net.fail_pm { failed(&p) }
            else if quiet || rng.below(1000) < net.loss_pm { ProbeStatus::Awaited(p) }
            else {
                let cands = &net.addrs[usize::from(ttl) - 1];
                let host = if is_target { TARGET } else { cands[((key.wrapping_mul(31) + u64::from(ttl) * 7) % cands.len() as u64) as usize] };
                let d = rtt(net, rng, round, ttl);
                if is_target { target_ttl = Some(target_ttl.map_or(ttl, |t: u8| t.min(ttl))); }
                max_recv = Some(max_recv.map_or(ttl, |m: u8| m.max(ttl)));
                {
                    let back = rng.chance(1, 200);
                    complete(net, rng, p, host, is_target, d, back)
                }
            };
        probes.push(s);
    }
    let largest = target_ttl.unwrap_or_else(|| max_recv.map_or(0, |m| max_sent.min(m.saturating_add(1))));
    RoundRec { probes, largest, target_found: target_ttl.is_some() }
}

/// an arbitrary `RoundWF` round: random statuses, random (legal) `largest_ttl`
fn random_round(net: &mut Net, rng: &mut Rng, round: usize) -> RoundRec {
    let n = rng.below(9) as u16;
    let mut probes = vec![];
    let mut ttls = vec![];
    let mut ttl = u16::from(net.first);
    let key = rng.below(net.flow_keys);
    for _ in 0..n {
        if ttl > 254 { break; }
        match rng.below(12) { 0 => probes.push(ProbeStatus::Skipped), 1 => probes.push(ProbeStatus::NotSent), _ => {} }
        let p = mk_probe(net, rng, round, ttl as u8, key);
        ttls.push(ttl as u8);
        probes.push(match rng.below(10) {
            0 => failed(&p),
            1..=4 => ProbeStatus::Awaited(p),
            _ => { let d = rtt(net, rng, round, ttl as u8); let host = 100 + rng.below(3) + u64::from(ttl) * 4; complete(net, rng, p, host, false, d, false) }
        });
        ttl += 1 + u16::from(rng.chance(1, 10));
    }
    if rng.chance(1, 6) { probes.push(ProbeStatus::Skipped); }
    let largest = if ttls.is_empty() || rng.chance(1, 5) { 0 } else { rng.range(u64::from(ttls[0]), u64::from((ttl + 2).min(254) as u8).max(u64::from(ttls[0]))) as u8 };
    RoundRec { probes, largest, target_found: rng.chance(1, 2) }
}

fn history(run: &mut Run, rng: &mut Rng, rounds: usize, max_samples: usize, max_flows: usize, check_every: usize, max_span: u8, dump_every: usize) {
    let mut net = gen_net(rng, max_span);
    let mut s = start(run, max_samples, max_flows);
    // getters on the fresh state (C10: never fail before any round, also for first_ttl > 1)
    s.get(run, 0, "hops");
    s.get(run, 0, "target");
    s.dump(run);
    let drift = rng.chance(1, 3);
    let random_pm = *rng.pick(&[0u64, 0, 100, 1000]);
    for i in 0..rounds {
        if drift && rng.chance(1, 10) {
            // growing / shrinking path
            let d = i32::from(net.dist) + *rng.pick(&[-2i32, -1, 1, 2, 3]);
            net.dist = d.clamp(i32::from(net.first), (i32::from(net.first) + 2 * i32::from(max_span) + 4).min(254)) as u8;
        }
        if rng.chance(1, 200) { net.target_silent = !net.target_silent; }
        let rec = if rng.below(1000) < random_pm { random_round(&mut net, rng, i) } else { net_round(&mut net, rng, i) };
        let check = check_every == 1 || i % check_every == check_every - 1;
        s.round(run, rec, check);
        if s.dead { return; }
        if i % dump_every == dump_every - 1 || (dump_every < 100 && rng.chance(1, 100)) { s.dump(run); }
        if rng.chance(1, 50) {
            let f = rng.below(max_flows as u64 + 3);
            let what = *rng.pick(&["hops", "target", "round", "count"]);
            s.get(run, f, what);
        }
    }
    s.dump(run);
}

/// inputs outside `RoundWF`: the aggregator panics (the model must agree); not oracle failures
fn malformed(run: &mut Run, rng: &mut Rng) {
    for case in 0..6 {
        let mut net = gen_net(rng, 30);
        net.first = 5;
        net.dist = 9;
        net.weird_pm = 0;
        let mut s = start(run, 4, 4);
        for i in 0..rng.below(4) as usize { let r = net_round(&mut net, rng, i); s.round(run, r, true); }
        let mut rec = net_round(&mut net, rng, 9);
        let key = 0;
        match case {
            0 => { let p = mk_probe(&mut net, rng, 9, 0, key); rec.probes.insert(0, ProbeStatus::Awaited(p)); }
            1 => { let p = mk_probe(&mut net, rng, 9, 255, key); rec.probes.push(ProbeStatus::Awaited(p)); }
            2 => { let p = mk_probe(&mut net, rng, 9, 255, key); rec.probes.push(complete(&net, rng, p, 9, false, 5, false)); }
            3 => { rec.largest = 3; }   // largest_ttl below the lowest probed ttl: `hops()` slices [4..3]
            4 => { rec.largest = 255; } // beyond MAX_TTL: `hops()` slices [..255] of 254
            _ => { let p = mk_probe(&mut net, rng, 9, 0, key); rec.probes.push(failed(&p)); }
        }
        run.count("malformed-cases");
        s.round(run, rec, false);
        s.get(run, 0, "hops");
        s.get(run, 0, "target");
        s.dump(run);
    }
    // unknown flow ids: the `HashMap` index of the getters
    let mut s = start(run, 2, 2);
    for what in ["hops", "target", "round", "count"] { s.get(run, 1, what); s.get(run, 99, what); }
}

fn replay(run: &mut Run, corpus: &[String]) {
    let mut s: Option<Sess> = None;
    for l in corpus {
        let w: Vec<&str> = l.split_whitespace().collect();
        match w.as_slice() {
            ["agg", "new", ms, mf] => { if let (Ok(ms), Ok(mf)) = (ms.parse(), mf.parse()) { s = Some(start(run, ms, mf)); } }
            ["agg", "round", largest, reason, slots] => {
                let probes: Option<Vec<ProbeStatus>> = if *slots == "-" { Some(vec![]) } else { slots.split(';').map(parse_slot).collect() };
                if let (Some(s), Ok(largest), Some(probes)) = (s.as_mut(), largest.parse(), probes) {
                    s.round(run, RoundRec { probes, largest, target_found: *reason == "T" }, true);
                }
            }
            ["agg", "dump"] => { if let Some(s) = s.as_mut() { s.dump(run); } }
            ["agg", "get", flow, what] => { if let (Some(s), Ok(f)) = (s.as_mut(), flow.parse()) { s.get(run, f, what); } }
            _ => {}
        }
    }
}

pub fn run(rng: &mut Rng, thorough: bool, corpus: &[String]) -> Run {
    let mut run = Run::new();
    replay(&mut run, corpus);
    malformed(&mut run, rng);
    let n = if thorough { 500 } else { 60 };
    for i in 0..n {
        let max_samples = *rng.pick(&[0usize, 1, 2, 256, 256, 10]);
        let max_flows = *rng.pick(&[1usize, 2, 3, 8, 64, 64, 0]);
        let rounds = if i % 10 == 0 { rng.range(60, 200) } else { rng.range(1, 40) } as usize;
        history(&mut run, rng, rounds, max_samples, max_flows, 1, 30, 64);
    }
    // long histories (drift of the float recurrences, sample ring, flow limit)
    let long = if thorough { vec![5000usize, 5000, 3000, 2000] } else { vec![1500] };
    for (i, rounds) in long.into_iter().enumerate() {
        history(&mut run, rng, rounds, [256usize, 2, 0, 1][i % 4], [64usize, 3, 8, 1][i % 4], 257, 3, 1024);
    }
    run
}
