use trippy_packet::ipv6::Ipv6Packet;
fn main() {
    let mut buf = [0u8; 40];
    let mut p = Ipv6Packet::new(&mut buf).unwrap();
    p.set_traffic_class(0);
    p.set_flow_label(0x00F0_0000);
    println!("traffic_class after set_flow_label(0x00F00000) = {:#x} flow={:#x}", p.get_traffic_class(), p.get_flow_label());
}
