//! `tvh <component> --seed N --tier quick|thorough --out DIR [--corpus FILE]`
//! runs the real trippy code on generated inputs and writes `<component>.ops` (requests for the
//! Lean driver), `<component>.impl` (canonicalised answers of the implementation),
//! `<component>.oracle` (implementation-vs-oracle failures) and `<component>.stats`.
use tvh::util::{install_panic_hook, Rng};

fn main() {
    let args: Vec<String> = std::env::args().collect();
    if args.len() < 2 {
        eprintln!("usage: tvh <component> --seed N --tier quick|thorough --out DIR [--corpus FILE]");
        std::process::exit(2);
    }
    let comp = args[1].clone();
    let mut seed = 1u64;
    let mut thorough = false;
    let mut out = String::from(".");
    let mut corpus: Vec<String> = vec![];
    let mut i = 2;
    while i < args.len() {
        match args[i].as_str() {
            "--seed" => { seed = args[i + 1].parse().unwrap_or(1); i += 1; }
            "--tier" => { thorough = args[i + 1] == "thorough"; i += 1; }
            "--out" => { out = args[i + 1].clone(); i += 1; }
            "--corpus" => {
                if let Ok(s) = std::fs::read_to_string(&args[i + 1]) {
                    corpus.extend(s.lines().filter(|l| !l.is_empty() && !l.starts_with('#')).map(String::from));
                }
                i += 1;
            }
            _ => {}
        }
        i += 1;
    }
    install_panic_hook();
    // a stuck implementation (an operation that never returns) is reported, not waited for; the concurrency
    // component reports its own progress differently (one long operation)
    if comp != "conc" {
        let _ = std::fs::remove_file(format!("{out}/{comp}.hang"));
        tvh::util::start_watchdog(&out, &comp, if thorough { 600 } else { 180 });
    }
    let mut rng = Rng::new(seed);
    let run = match comp.as_str() {
        "packet" => tvh::packet::run(&mut rng, thorough, &corpus),
        "cksum" => tvh::cksum::run(&mut rng, thorough, &corpus),
        "ext" => tvh::ext::run(&mut rng, thorough, &corpus),
        "conc" => tvh::conc::run(&mut rng, thorough, &corpus),
        "agg" => tvh::agg::run(&mut rng, thorough, &corpus),
        "config" => tvh::config::run(&mut rng, thorough, &corpus),
        "strategy" => tvh::strategy::run(&mut rng, thorough, &corpus),
        "wire" => tvh::wire::run(&mut rng, thorough, &corpus),
        "chan" => tvh::chan::run(&mut rng, thorough, &corpus),
        "stack" => tvh::stack::run(&mut rng, thorough, &corpus),
        "tui" => tvh::tui::run(&mut rng, thorough, &corpus),
        "platform" => tvh::platform::run(&mut rng, thorough, &corpus),
        "report" => tvh::report::run(&mut rng, thorough, &corpus),
        _ => { eprintln!("unknown component {comp}"); std::process::exit(2); }
    };
    run.write(&out, &comp).expect("write outputs");
    println!("{comp}: {} ops, {} oracle failures", run.ops.len(), run.oracle_failures.len());
}
