//! The Channel layer (`crates/trippy-core/src/net/channel.rs`): the real
//! `Channel::<SimSocket>::connect(&ChannelConfig)` and its `Network` impl (`send_probe`,
//! `recv_probe`) driven under the virtual clock, compared with the Lean model `TV.Chan`.
//!
//! Request lines (stateful; answered identically by the Lean driver entry `TV.Chan.handle`):
//!   `chan connect <hexsrc> <hexdst> <size> <pattern> <priv 0|1> <tos> <i|u|t> <ext 0|1> <initialSeq>
//!                 <readTimeoutNs> <tcpConnectTimeoutNs> <t0Ns>`
//!        -> `ok <ops>` | `err <kind>` | `panic`          (ops `;`-separated, `-` when none)
//!   `chan send <seq> <ident> <sport> <dport> <ttl> <flags> <inject>`   inject = `-` | `<call>:<errkind>`
//!        -> `ok <ops> tcp=[..]` | `err <kind> <ops> tcp=[..]` | `panic` | `dead`
//!   `chan recv <dtNs> <r|n|e> <dgram> <tcpenv>`
//!        dgram  = `x` (nothing queued: `WouldBlock`) | `e` (the read fails) | `<hexsrc|->:<hexbytes>`
//!        tcpenv = `-` | one token per outstanding TCP probe, `,`-separated:
//!                 `n` not writable | `e` `is_writable` fails | `c:<hexpeer|->` connected |
//!                 `r` refused | `u:<hexaddr>` host unreachable | `o` other error | `x` `take_error` fails
//!        -> `<outcome> @<nowNs> polled=[sp/dp,..] tcp=[..]`, outcome as `wire recv`; | `panic` | `dead`
//!   `chan clock <absNs>` -> `ok`
//!   `tcp=[sp/dp/startNs;..]`: the outstanding TCP probes in order (`-` when none).
//!
//! Oracles (on the real code, independent of the Lean model):
//!   `c09-chan-capacity`        with 256 TCP probes outstanding `send_probe` does not return
//!                              `Error::InsufficientCapacity`, or makes a socket call, or changes the list;
//!   `c09-chan-capacity-panic`  `send_probe` panics (`ArrayVec::push` on a full `tcp_probes`);
//!   `c04-chan-panic`           `recv_probe` panics although the environment is legitimate;
//!   `c11-chan-dispatch`        the socket calls of `Channel::send_probe` differ from those of the
//!                              `Ipv4` / `Ipv6` dispatch function called directly (so the C11 facts
//!                              checked by `wire` hold for what goes through the Channel);
//!   `c11-chan-size-guard`      `connect` accepts a packet size above 1024 or rejects one below;
//!   `c02-chan-tcp-ports`       a completed / refused socket yields a response that does not carry
//!                              its own probe's ports, or is not removed exactly once;
//!   `c02-chan-tcp-age`         after `recv_probe` an outstanding TCP probe is older than the timeout;
//!   `c01-chan-lost`            `recv_probe` removes a TCP probe without returning a response for it
//!                              (reported as statistics `lost:*`, a failure only for `take_error` = ok).
use crate::clock;
use crate::simsock::{self, Inject, Poll, SimSocket, TcpState};
use crate::util::{guarded, hex, unhex, Rng, Run};
use crate::wire::{err_kind, io_kind_name, real_dispatch, show_recv};
use crate::wire_enc::*;
use std::net::{IpAddr, SocketAddr};
use std::time::Duration;
use trippy_core::verif::{Channel, ChannelConfig, Error, Network, ProtocolResponse, Response};
use trippy_core::{
    IcmpExtensionParseMode, PacketSize, PayloadPattern, PrivilegeMode, Probe, Protocol, Sequence, TypeOfService,
};

#[derive(Clone, Debug)]
pub struct CCfg {
    pub src: IpAddr,
    pub dst: IpAddr,
    pub size: u16,
    pub pattern: u8,
    pub privileged: bool,
    pub tos: u8,
    pub proto: char,
    pub ext: bool,
    pub initial: u16,
    pub read_timeout: u64,
    pub tcp_timeout: u64,
}

impl CCfg {
    pub fn tokens(&self) -> String {
        format!(
            "{} {} {} {} {} {} {} {} {} {} {}",
            hex(&octets(self.src)), hex(&octets(self.dst)), self.size, self.pattern, u8::from(self.privileged),
            self.tos, self.proto, u8::from(self.ext), self.initial, self.read_timeout, self.tcp_timeout
        )
    }
    pub fn real(&self) -> ChannelConfig {
        ChannelConfig {
            privilege_mode: if self.privileged { PrivilegeMode::Privileged } else { PrivilegeMode::Unprivileged },
            protocol: match self.proto { 'i' => Protocol::Icmp, 'u' => Protocol::Udp, _ => Protocol::Tcp },
            source_addr: self.src,
            target_addr: self.dst,
            packet_size: PacketSize(self.size),
            payload_pattern: PayloadPattern(self.pattern),
            initial_sequence: Sequence(self.initial),
            tos: TypeOfService(self.tos),
            icmp_extension_parse_mode: if self.ext { IcmpExtensionParseMode::Enabled } else { IcmpExtensionParseMode::Disabled },
            read_timeout: Duration::from_nanos(self.read_timeout),
            tcp_connect_timeout: Duration::from_nanos(self.tcp_timeout),
        }
    }
    /// the `wire` view of the same configuration (family of the source address)
    pub fn wire(&self) -> WCfg {
        WCfg {
            v6: self.src.is_ipv6(), src: self.src, dst: self.dst, size: self.size, pattern: self.pattern,
            privileged: self.privileged, tos: self.tos, proto: self.proto, ext: self.ext, initial: self.initial,
        }
    }
}

/// what one TCP socket of an outstanding probe does when polled
#[derive(Clone, Debug)]
pub enum SockEnv {
    NotWritable,
    WritableFails,
    Connected(Option<IpAddr>),
    Refused,
    Unreach(IpAddr),
    Other,
    TakeErrorFails,
}

impl SockEnv {
    pub fn token(&self) -> String {
        match self {
            Self::NotWritable => "n".into(),
            Self::WritableFails => "e".into(),
            Self::Connected(None) => "c:-".into(),
            Self::Connected(Some(a)) => format!("c:{}", simsock::addr_hex(*a)),
            Self::Refused => "r".into(),
            Self::Unreach(a) => format!("u:{}", simsock::addr_hex(*a)),
            Self::Other => "o".into(),
            Self::TakeErrorFails => "x".into(),
        }
    }
    pub fn apply(&self, id: usize) {
        let (w, t) = match self {
            Self::NotWritable => (Poll::No, None),
            Self::WritableFails => (Poll::Fails, None),
            Self::Connected(a) => (Poll::Yes, Some(TcpState::Connected(*a))),
            Self::Refused => (Poll::Yes, Some(TcpState::Refused)),
            Self::Unreach(a) => (Poll::Yes, Some(TcpState::Unreach(*a))),
            Self::Other => (Poll::Yes, Some(TcpState::Other)),
            Self::TakeErrorFails => (Poll::Yes, Some(TcpState::TakeErrorFails)),
        };
        simsock::set_sock(id, w, t);
    }
    pub fn writable(&self) -> bool {
        !matches!(self, Self::NotWritable | Self::WritableFails)
    }
}

#[derive(Clone, Debug)]
pub enum Dgram {
    /// nothing queued: the read reports `WouldBlock`
    None,
    ReadFails,
    Data(Option<IpAddr>, Vec<u8>),
}

/// an outstanding TCP probe as the harness observes it (a live stream socket)
#[derive(Clone, Debug, PartialEq)]
pub struct Live {
    pub id: usize,
    pub sp: u16,
    pub dp: u16,
    pub start: u64,
}

pub fn show_live(l: &[Live]) -> String {
    if l.is_empty() {
        return "-".into();
    }
    l.iter().map(|x| format!("{}/{}/{}", x.sp, x.dp, x.start)).collect::<Vec<_>>().join(";")
}

pub fn show_ops(ops: &[String]) -> String {
    let v: Vec<&String> = ops.iter().filter(|o| !o.starts_with("takeerr:")).collect();
    if v.is_empty() { "-".into() } else { v.iter().map(|s| s.as_str()).collect::<Vec<_>>().join(";") }
}

/// one scripted case: the real channel and what the harness knows about it
pub struct Case {
    pub cfg: CCfg,
    pub chan: Option<Channel<SimSocket>>,
    pub live: Vec<Live>,
    pub dead: bool,
}

pub enum SendOut {
    Ok(Vec<String>),
    Err,
    Panic(String),
}

pub enum RecvOutcome {
    Resp(Option<Response>),
    Err,
    Panic(String),
}

impl Case {
    /// `chan connect`
    pub fn connect(run: &mut Run, cfg: &CCfg, t0: u64) -> Self {
        let req = format!("chan connect {} {t0}", cfg.tokens());
        run.count("op:connect");
        clock::enable(t0);
        simsock::reset();
        let real = cfg.real();
        let r = guarded(|| Channel::<SimSocket>::connect(&real));
        let ops = simsock::take_ops();
        let mut case = Self { cfg: cfg.clone(), chan: None, live: vec![], dead: false };
        let families_differ = cfg.src.is_ipv4() != cfg.dst.is_ipv4();
        match r {
            Ok(Ok(ch)) => {
                if usize::from(cfg.size) > 1024 {
                    run.fail("c11-chan-size-guard", req.clone());
                }
                case.chan = Some(ch);
                run.op(req, format!("ok {}", show_ops(&ops)));
            }
            Ok(Err(e)) => {
                if usize::from(cfg.size) <= 1024 {
                    run.fail("c11-chan-size-guard", format!("{req} [{e}]"));
                }
                case.dead = true;
                run.op(req, format!("err {}", err_kind(&e)));
            }
            Err(loc) => {
                // the only legitimate panic: `unreachable!()` for a source / target family mismatch,
                // which `Builder::build` rejects
                if !families_differ {
                    run.fail("c04-chan-panic", format!("{req} ({loc})"));
                } else {
                    run.count("connect-family-mismatch-panic");
                }
                case.dead = true;
                run.op(req, "panic".into());
            }
        }
        case
    }

    /// `chan send`
    pub fn send(&mut self, run: &mut Run, p: &Probe, inject: Option<(&'static str, Inject)>) -> SendOut {
        let inj = inject.map_or("-".to_string(), |(c, e)| format!("{c}:{}", io_kind_name(e)));
        let req = format!("chan send {} {inj}", probe_tokens(p));
        run.count("op:send");
        let Some(ch) = self.chan.as_mut() else {
            run.op(req, "dead".into());
            return SendOut::Err;
        };
        simsock::clear_ops();
        if let Some((c, e)) = inject {
            simsock::arm(c, e);
        }
        let first_new = simsock::socket_count();
        let now = clock::now_ns();
        let full = self.cfg.proto == 't' && self.live.len() >= 256;
        let r = guarded(|| ch.send_probe(p.clone()));
        let ops = simsock::take_ops();
        // stream sockets created by this call that are still alive were pushed onto `tcp_probes`
        for id in first_new..simsock::socket_count() {
            if simsock::socket_kind(id).starts_with("new:tcp") && !simsock::is_dropped(id) {
                self.live.push(Live { id, sp: p.src_port.0, dp: p.dest_port.0, start: now });
            }
        }
        match r {
            Ok(Ok(())) => {
                if full {
                    run.fail("c09-chan-capacity", format!("{req} succeeded with 256 outstanding"));
                }
                // C11 through the Channel: the same socket calls as the direct dispatch
                if inject.is_none() {
                    self.cross_check(run, p, &ops, &req);
                }
                run.op(req, format!("ok {} tcp={}", show_ops(&ops), show_live(&self.live)));
                SendOut::Ok(ops)
            }
            Ok(Err(e)) => {
                if full {
                    // capacity: an error value, no socket call, the list untouched
                    let untouched = self.live.len() == 256 && simsock::socket_count() == first_new;
                    if !matches!(e, Error::InsufficientCapacity) || !ops.is_empty() || !untouched {
                        run.fail("c09-chan-capacity", format!("{req} [{e}] ops=[{}] outstanding={}", show_ops(&ops), self.live.len()));
                    }
                    run.count("c09-chan-capacity-checked");
                } else if matches!(e, Error::InsufficientCapacity) {
                    run.fail("c09-chan-capacity", format!("{req} capacity error with {} outstanding", self.live.len()));
                }
                run.op(req, format!("err {} {} tcp={}", chan_err_kind(&e), show_ops(&ops), show_live(&self.live)));
                SendOut::Err
            }
            Err(loc) => {
                if self.cfg.proto == 't' && self.live.len() >= 256 {
                    crate::wire::panic_fail(run, "c09-chan-capacity-panic", &format!("{req} outstanding={}", self.live.len()), &loc);
                } else {
                    crate::wire::panic_fail(run, "c04-chan-panic", &req, &loc);
                }
                self.dead = true;
                // the channel may be in an inconsistent state: leak it rather than run its destructor
                std::mem::forget(self.chan.take());
                run.op(req, "panic".into());
                SendOut::Panic(loc)
            }
        }
    }

    /// the `Ipv4` / `Ipv6` dispatch called directly must make the same socket calls
    fn cross_check(&self, run: &mut Run, p: &Probe, ops: &[String], req: &str) {
        // run the direct dispatch in a scratch socket context: remember what the real one needs
        let w = self.cfg.wire();
        let direct = crate::simsock::with_scratch(|| {
            let r = guarded(|| real_dispatch(&w, p));
            (matches!(r, Ok(Ok(()))), simsock::take_ops())
        });
        if !direct.0 || show_ops(&direct.1) != show_ops(ops) {
            run.fail("c11-chan-dispatch", format!("{req} cfg=[{}] channel=[{}] direct=[{}]", self.cfg.tokens(), show_ops(ops), show_ops(&direct.1)));
        }
        run.count("c11-chan-dispatch-checked");
    }

    /// `chan recv`
    pub fn recv(&mut self, run: &mut Run, dt: u64, readable: Poll, dgram: &Dgram, env: &[SockEnv]) -> RecvOutcome {
        let rd = match readable { Poll::Yes => "r", Poll::No => "n", Poll::Fails => "e" };
        let dg = match dgram {
            Dgram::None => "x".to_string(),
            Dgram::ReadFails => "e".to_string(),
            Dgram::Data(a, b) => format!("{}:{}", a.map_or("-".to_string(), simsock::addr_hex), hex(&b[..b.len().min(2048)])),
        };
        let envs = if env.is_empty() { "-".to_string() } else { env.iter().map(SockEnv::token).collect::<Vec<_>>().join(",") };
        let req = format!("chan recv {dt} {rd} {dg} {envs}");
        run.count("op:recv");
        let Some(ch) = self.chan.as_mut() else {
            run.op(req, "dead".into());
            return RecvOutcome::Err;
        };
        clock::advance(dt);
        simsock::clear_ops();
        simsock::set_readable(Some(readable));
        match dgram {
            Dgram::None => {}
            Dgram::ReadFails => simsock::set_read_fails(true),
            Dgram::Data(a, b) => simsock::push_datagram(b[..b.len().min(2048)].to_vec(), a.map(|a| SocketAddr::new(a, 0))),
        }
        for (l, e) in self.live.iter().zip(env) {
            e.apply(l.id);
        }
        let before = self.live.clone();
        let r = guarded(|| ch.recv_probe());
        let ops = simsock::take_ops();
        let polled: Vec<String> = simsock::take_polled()
            .iter()
            .map(|id| before.iter().find(|l| l.id == *id).map_or("?".to_string(), |l| format!("{}/{}", l.sp, l.dp)))
            .collect();
        self.live.retain(|l| !simsock::is_dropped(l.id));
        let now = clock::now_ns();
        let tail = format!("@{now} polled=[{}] tcp={}", polled.join(","), show_live(&self.live));
        match r {
            Ok(r) => {
                self.oracles(run, &req, &before, env, &ops, &r, now);
                run.op(req, format!("{} {tail}", show_recv(&r)));
                match r {
                    Ok(x) => RecvOutcome::Resp(x),
                    Err(_) => RecvOutcome::Err,
                }
            }
            Err(loc) => {
                let v4_sockaddr_on_v6 = matches!(dgram, Dgram::Data(Some(IpAddr::V4(_)), _)) && self.cfg.src.is_ipv6();
                if !v4_sockaddr_on_v6 {
                    crate::wire::panic_fail(run, "c04-chan-panic", &req, &loc);
                }
                self.dead = true;
                std::mem::forget(self.chan.take());
                run.op(req, "panic".into());
                RecvOutcome::Panic(loc)
            }
        }
    }

    /// properties of the TCP probe list, checked on the real code's observable behaviour
    fn oracles(&self, run: &mut Run, req: &str, before: &[Live], env: &[SockEnv], ops: &[String], r: &Result<Option<Response>, Error>, now: u64) {
        if self.cfg.proto != 't' {
            return;
        }
        // age: every outstanding probe is younger than the timeout
        for l in &self.live {
            if now.saturating_sub(l.start) >= self.cfg.tcp_timeout {
                run.fail("c02-chan-tcp-age", format!("{req} cfg=[{}] probe={}/{}/{}", self.cfg.tokens(), l.sp, l.dp, l.start));
            }
        }
        // which socket was handed to `recv_tcp_socket`
        let taken: Vec<usize> = ops.iter().filter_map(|o| o.strip_prefix("takeerr:").and_then(|x| x.parse().ok())).collect();
        if taken.len() > 1 {
            run.fail("c02-chan-tcp-ports", format!("{req} more than one socket completed"));
        }
        // the first retained writable socket wins
        let retained: Vec<(&Live, Option<&SockEnv>)> = before
            .iter()
            .enumerate()
            .filter(|(_, l)| now.saturating_sub(l.start) < self.cfg.tcp_timeout)
            .map(|(i, l)| (l, env.get(i)))
            .collect();
        let expect = retained.iter().find(|(_, e)| e.map_or(true, SockEnv::writable)).map(|(l, _)| (*l).clone());
        match (&expect, taken.first()) {
            (Some(l), Some(id)) if l.id == *id => {
                // removed exactly once
                if self.live.iter().any(|x| x.id == l.id) || before.iter().filter(|x| x.id == l.id).count() != 1 {
                    run.fail("c02-chan-tcp-ports", format!("{req} completed socket not removed"));
                }
                let e = env.get(before.iter().position(|x| x.id == l.id).unwrap_or(usize::MAX));
                let yields = matches!(e, Some(SockEnv::Connected(Some(_)) | SockEnv::Refused | SockEnv::Unreach(_)) | None);
                match r {
                    Ok(Some(resp)) if yields => {
                        let ok = matches!(&resp.data().proto_resp, ProtocolResponse::Tcp(t) if t.src_port == l.sp && t.dest_port == l.dp && t.dest_addr == self.cfg.dst);
                        if !ok {
                            run.fail("c02-chan-tcp-ports", format!("{req} cfg=[{}] probe={}/{}", self.cfg.tokens(), l.sp, l.dp));
                        } else {
                            run.count("c02-chan-tcp-matched");
                        }
                    }
                    _ if yields => run.fail("c02-chan-tcp-ports", format!("{req} no response for completed socket {}/{}", l.sp, l.dp)),
                    _ => {
                        // the probe left the list without a response: `Other` error (by design),
                        // missing peer address, or a failing `take_error`
                        let why = match e { Some(SockEnv::Other) => "other", Some(SockEnv::Connected(None)) => "missing-addr", _ => "take-error-fails" };
                        run.count(&format!("lost:{why}"));
                    }
                }
            }
            (None, None) => {}
            _ => run.fail("c02-chan-tcp-ports", format!("{req} expected {:?} completed, got socket {:?}", expect.map(|l| (l.sp, l.dp)), taken)),
        }
        // everything that disappeared was either too old or the completed one
        for (i, l) in before.iter().enumerate() {
            if !self.live.iter().any(|x| x.id == l.id) {
                let old = now.saturating_sub(l.start) >= self.cfg.tcp_timeout;
                if old && env.get(i).is_some_and(SockEnv::writable) {
                    // a socket that had completed is pruned by age before it is looked at
                    run.count("lost:aged-out-while-writable");
                }
                if !old && taken.first() != Some(&l.id) {
                    run.fail("c01-chan-lost", format!("{req} probe {}/{} vanished", l.sp, l.dp));
                }
            }
        }
    }

    /// `chan clock`
    pub fn set_clock(&mut self, run: &mut Run, ns: u64) {
        clock::set(ns);
        run.op(format!("chan clock {ns}"), "ok".into());
    }

    pub fn finish(mut self) {
        drop(self.chan.take());
        clock::disable();
    }
}

pub fn chan_err_kind(e: &Error) -> &'static str {
    match e {
        Error::ProbeFailed(_) => "probe-failed",
        Error::AddressInUse(_) => "addr-in-use",
        Error::InsufficientCapacity => "capacity",
        e => err_kind(e),
    }
}

pub fn parse_cfg(t: &[&str]) -> Option<CCfg> {
    if t.len() != 11 {
        return None;
    }
    let s = unhex(t[0])?;
    let d = unhex(t[1])?;
    if !(s.len() == 4 || s.len() == 16) || !(d.len() == 4 || d.len() == 16) {
        return None;
    }
    Some(CCfg {
        src: addr_from(&s),
        dst: addr_from(&d),
        size: t[2].parse().ok()?,
        pattern: t[3].parse().ok()?,
        privileged: t[4] == "1",
        tos: t[5].parse().ok()?,
        proto: t[6].chars().next()?,
        ext: t[7] == "1",
        initial: t[8].parse().ok()?,
        read_timeout: t[9].parse().ok()?,
        tcp_timeout: t[10].parse().ok()?,
    })
}

pub fn run(rng: &mut Rng, thorough: bool, _corpus: &[String]) -> Run {
    let mut run = Run::new();
    crate::chan_gen::generate(&mut run, rng, thorough);
    clock::disable();
    run
}
