//! Generators of the `chan` component (see `chan.rs`).
use crate::chan::*;
use crate::simsock::{Inject, Poll};
use crate::util::{Rng, Run};
use crate::wire_enc::*;
use std::net::IpAddr;
use trippy_core::Probe;

const MS: u64 = 1_000_000;

fn cfg_for(rng: &mut Rng, proto: char, v6: bool, privileged: bool, ext: bool, tcp_timeout: u64) -> CCfg {
    let pairs = crate::wire_gen::addr_pairs(v6, rng);
    let (src, dst) = *rng.pick(&pairs);
    CCfg {
        src, dst, size: *rng.pick(&[if v6 { 48u16 } else { 28 }, 84, 200]), pattern: rng.next() as u8, privileged,
        tos: rng.next() as u8, proto, ext, initial: *rng.pick(&[0u16, 33434, 64000]), read_timeout: 10 * MS, tcp_timeout,
    }
}

fn cell_for(rng: &mut Rng, proto: char) -> Cell {
    let cs = cells(rng);
    let v: Vec<Cell> = cs.into_iter().filter(|c| c.proto == proto).collect();
    *rng.pick(&v)
}

/// `connect`: packet-size guard, socket creation per protocol × family × privilege, family mismatch
fn gen_connect(run: &mut Run, rng: &mut Rng) {
    for proto in ['i', 'u', 't'] {
        for v6 in [false, true] {
            for privileged in [true, false] {
                for size in [0u16, 27, 28, 47, 48, 84, 1023, 1024, 1025, 2000, 65535] {
                    let ext = rng.chance(1, 2);
                    let mut cfg = cfg_for(rng, proto, v6, privileged, ext, 1000 * MS);
                    cfg.size = size;
                    let mut case = Case::connect(run, &cfg, rng.below(1000) * 1000);
                    if !case.dead {
                        // the per-family minimum is enforced at dispatch
                        let cell = cell_for(rng, proto);
                        let p = probe_for(&cell, cfg.initial, 7, cfg.initial.wrapping_add(3), 0, 5);
                        case.send(run, &p, None);
                    }
                    case.finish();
                }
            }
            // source and target of different families: `unreachable!()`
            let mut cfg = cfg_for(rng, proto, v6, true, false, 1000 * MS);
            cfg.dst = crate::wire_gen::addr_pairs(!v6, rng)[0].1;
            Case::connect(run, &cfg, 0).finish();
            let mut cfg = cfg_for(rng, proto, v6, true, false, 1000 * MS);
            cfg.size = 1025;
            cfg.dst = crate::wire_gen::addr_pairs(!v6, rng)[0].1;
            Case::connect(run, &cfg, 0).finish();
        }
    }
}

/// the `tcp_probes` capacity: 256 outstanding probes are fine, the 257th `send_probe` within the
/// connect timeout is refused with `Error::InsufficientCapacity` (before /repo 43c3120 it panicked
/// in `ArrayVec::push`)
fn gen_capacity(run: &mut Run, rng: &mut Rng, thorough: bool) {
    for v6 in [false, true] {
        let cell = cell_for(rng, 't');
        // (a) no receive at all
        let cfg = cfg_for(rng, 't', v6, true, false, 10_000 * MS);
        let mut case = Case::connect(run, &cfg, 0);
        for i in 0..258u16 {
            if case.dead { break; }
            let p = probe_for(&cell, cfg.initial, 0, cfg.initial.wrapping_add(i), usize::from(i / 30), 1 + (i % 30) as u8);
            case.send(run, &p, None);
        }
        case.finish();
        // (b) as the strategy does it: receive after every send, nothing writable, the clock advancing
        // slower than the timeout (10 s timeout, 30 ms per probe)
        let mut case = Case::connect(run, &cfg, 0);
        for i in 0..300u16 {
            if case.dead { break; }
            let p = probe_for(&cell, cfg.initial, 0, cfg.initial.wrapping_add(i), usize::from(i / 30), 1 + (i % 30) as u8);
            case.send(run, &p, None);
            if case.dead { break; }
            let env = vec![SockEnv::NotWritable; case.live.len()];
            case.recv(run, 30 * MS, Poll::No, &Dgram::None, &env);
        }
        case.finish();
        // (c) the same with a timeout the sends do not outrun: never more than 100 outstanding
        let cfg = CCfg { tcp_timeout: 3000 * MS, ..cfg };
        let mut case = Case::connect(run, &cfg, 0);
        for i in 0..if thorough { 1200u16 } else { 400 } {
            if case.dead { break; }
            let p = probe_for(&cell, cfg.initial, 0, cfg.initial.wrapping_add(i), usize::from(i / 30), 1 + (i % 30) as u8);
            case.send(run, &p, None);
            let env = vec![SockEnv::NotWritable; case.live.len()];
            case.recv(run, 30 * MS, Poll::No, &Dgram::None, &env);
        }
        case.finish();
        // (d) exactly at the boundary: 256 outstanding, then the timeout passes, then 256 more
        let cfg = CCfg { tcp_timeout: 1000 * MS, ..cfg };
        let mut case = Case::connect(run, &cfg, 5);
        for round in 0..2u16 {
            for i in 0..256u16 {
                let p = probe_for(&cell, cfg.initial, 0, cfg.initial.wrapping_add(round * 256 + i), 0, 9);
                case.send(run, &p, None);
            }
            let env = vec![SockEnv::NotWritable; case.live.len()];
            case.recv(run, 999 * MS, Poll::No, &Dgram::None, &env);
            let env = vec![SockEnv::NotWritable; case.live.len()];
            case.recv(run, MS, Poll::No, &Dgram::None, &env);
        }
        case.finish();
    }
}

/// directed scenarios for the probe list: first writable wins, one socket per call, pruning
/// before polling, failing polls, a clock that jumps backwards
fn gen_directed(run: &mut Run, rng: &mut Rng) {
    for v6 in [false, true] {
        let cell = cell_for(rng, 't');
        let cfg = CCfg { tcp_timeout: 100 * MS, ..cfg_for(rng, 't', v6, true, false, 100 * MS) };
        let probe = |i: u16| probe_for(&cell, cfg.initial, 0, cfg.initial.wrapping_add(i), 0, 1 + i as u8);
        // two completed handshakes: one per call, the second at the next call
        let mut case = Case::connect(run, &cfg, 0);
        case.send(run, &probe(0), None);
        case.send(run, &probe(1), None);
        case.send(run, &probe(2), None);
        case.recv(run, 10 * MS, Poll::No, &Dgram::None, &[SockEnv::NotWritable, SockEnv::Connected(Some(cfg.dst)), SockEnv::Refused]);
        case.recv(run, 0, Poll::No, &Dgram::None, &[SockEnv::WritableFails, SockEnv::Refused]);
        case.recv(run, 0, Poll::No, &Dgram::None, &[SockEnv::WritableFails]);
        case.finish();
        // late completion: both connected at 99 ms, the second is pruned at 100 ms unreported
        let mut case = Case::connect(run, &cfg, 0);
        case.send(run, &probe(0), None);
        case.send(run, &probe(1), None);
        case.recv(run, 99 * MS, Poll::No, &Dgram::None, &[SockEnv::Connected(Some(cfg.dst)), SockEnv::Connected(Some(cfg.dst))]);
        case.recv(run, MS, Poll::No, &Dgram::None, &[SockEnv::Connected(Some(cfg.dst))]);
        case.finish();
        // the wall clock steps back: probes sent before the step do not age until it catches up
        let mut case = Case::connect(run, &cfg, 3_600_000 * MS);
        case.send(run, &probe(0), None);
        case.set_clock(run, 0);
        case.send(run, &probe(1), None);
        case.recv(run, 500 * MS, Poll::No, &Dgram::None, &[SockEnv::NotWritable, SockEnv::NotWritable]);
        case.recv(run, 3_600_000 * MS, Poll::No, &Dgram::None, &[SockEnv::NotWritable]);
        case.finish();
        // a TCP response takes precedence over a queued ICMP datagram; `Other` falls through to it
        let mut case = Case::connect(run, &cfg, 0);
        case.send(run, &probe(0), None);
        case.send(run, &probe(1), None);
        let junk = Dgram::Data(Some(responder(v6, rng)), rng.bytes(60));
        case.recv(run, MS, Poll::Yes, &junk, &[SockEnv::Refused, SockEnv::Other]);
        case.recv(run, MS, Poll::Yes, &junk, &[SockEnv::Other]);
        case.finish();
    }
}

fn responder(v6: bool, rng: &mut Rng) -> IpAddr {
    crate::wire_gen::responder(v6, rng)
}

pub fn sock_env(rng: &mut Rng, v6: bool, dst: IpAddr) -> SockEnv {
    match rng.below(16) {
        0..=6 => SockEnv::NotWritable,
        7 => SockEnv::WritableFails,
        8 | 9 => SockEnv::Connected(Some(dst)),
        10 => SockEnv::Connected(None),
        11 | 12 => SockEnv::Refused,
        13 => SockEnv::Unreach(responder(v6, rng)),
        14 => SockEnv::Other,
        _ => SockEnv::TakeErrorFails,
    }
}

/// a genuine ICMP error for one of the probes sent through the channel
pub fn genuine(rng: &mut Rng, cfg: &CCfg, sent: &[(Probe, Sent)]) -> Option<Dgram> {
    let w = cfg.wire();
    let (p, s) = rng.pick(sent);
    let d = wire_datagram(&w, p, s, rng)?;
    let min = min_quote(&w, p.flags.bits() & 2 != 0);
    if d.len() < min { return None; }
    let n = rng.range(min as u64, d.len().min(200) as u64) as usize;
    let q = quote(&w, &d, n, rng);
    let (ext, _) = ext_structure(rng);
    let mode = *rng.pick(&[ExtMode::None, ExtMode::Compliant, ExtMode::Legacy]);
    let (la, body) = icmp_body(w.v6, &q, mode, &ext);
    let from = responder(w.v6, rng);
    let (ty, code) = if rng.chance(3, 4) { (ty_te(w.v6), 0) } else { (ty_du(w.v6), rng.below(16) as u8) };
    let icmp = icmp_message(&w, ty, code, la, &body, from);
    Some(Dgram::Data(Some(from), deliver(&w, &icmp, from, rng)))
}

const CALLS: [&str; 7] = ["new", "bind", "ttl", "tos", "hops", "send", "conn"];

fn random_inject(rng: &mut Rng) -> (&'static str, Inject) {
    let errs = [
        Inject::Errno(libc::EINPROGRESS), Inject::Errno(libc::EHOSTUNREACH), Inject::Errno(libc::ENETUNREACH),
        Inject::Errno(libc::EADDRINUSE), Inject::Errno(libc::EADDRNOTAVAIL), Inject::Errno(libc::EINVAL),
        Inject::Errno(libc::EACCES), Inject::Kind(std::io::ErrorKind::Other),
    ];
    (*rng.pick(&CALLS), *rng.pick(&errs))
}

/// scripted runs: sends, injected socket errors, receives with arbitrary environments
fn gen_scripts(run: &mut Run, rng: &mut Rng, thorough: bool) {
    for proto in ['i', 'u', 't'] {
        for v6 in [false, true] {
            for privileged in [true, false] {
                for ext in [false, true] {
                    let reps = if proto == 't' { if thorough { 60 } else { 10 } } else if thorough { 8 } else { 2 };
                    for _ in 0..reps {
                        let timeout = *rng.pick(&[50 * MS, 1000 * MS, 1, 0]);
                        let cfg = cfg_for(rng, proto, v6, privileged, ext, timeout);
                        let cell = if proto == 'u' && !privileged {
                            Cell { proto: 'u', strat: 'c', pd: Pd::Src(5000) }
                        } else {
                            cell_for(rng, proto)
                        };
                        let mut case = Case::connect(run, &cfg, rng.below(1000) * 1000);
                        let mut sent: Vec<(Probe, Sent)> = vec![];
                        let mut seq = cfg.initial;
                        for _ in 0..if thorough { 150 } else { 60 } {
                            if case.dead { break; }
                            match rng.below(10) {
                                0..=4 => {
                                    let p = probe_for(&cell, cfg.initial, 77, seq, rng.below(3) as usize, rng.range(1, 254) as u8);
                                    seq = seq.wrapping_add(1);
                                    let inject = if rng.chance(1, 8) { Some(random_inject(rng)) } else { None };
                                    if let SendOut::Ok(ops) = case.send(run, &p, inject) {
                                        sent.push((p, parse_ops(&ops)));
                                    }
                                }
                                5 if rng.chance(1, 6) => {
                                    let now = crate::clock::now_ns();
                                    case.set_clock(run, now.saturating_sub(rng.below(100) * MS));
                                }
                                _ => {
                                    let dt = *rng.pick(&[0, MS, timeout / 3, timeout.saturating_sub(1), timeout, timeout + 1, 7 * MS]);
                                    let readable = *rng.pick(&[Poll::Yes, Poll::Yes, Poll::No, Poll::Fails]);
                                    let dgram = match rng.below(8) {
                                        0 => Dgram::None,
                                        1 => Dgram::ReadFails,
                                        2 | 3 => {
                                            let n = rng.below(120) as usize;
                                            Dgram::Data(if rng.chance(1, 10) { None } else { Some(responder(v6, rng)) }, rng.bytes(n))
                                        }
                                        4 => Dgram::Data(Some(responder(v6, rng)), rng.bytes(1500)),
                                        _ => if sent.is_empty() { Dgram::None } else { genuine(rng, &cfg, &sent).unwrap_or(Dgram::None) },
                                    };
                                    let env: Vec<SockEnv> = (0..case.live.len()).map(|_| sock_env(rng, v6, cfg.dst)).collect();
                                    case.recv(run, dt, readable, &dgram, &env);
                                }
                            }
                        }
                        case.finish();
                    }
                }
            }
        }
    }
}

pub fn generate(run: &mut Run, rng: &mut Rng, thorough: bool) {
    gen_connect(run, rng);
    gen_capacity(run, rng, thorough);
    gen_directed(run, rng);
    gen_scripts(run, rng, thorough);
}
