//! C13 correspondence + oracle: the six public functions of `trippy_packet::checksum`.
//!
//! request line : `cksum <fn> <hexdata> <hexsrc> <hexdst>`   (`-` = empty octet string)
//! answer line  : `ok <u16 decimal>` | `panic`
//!
//! Oracle (independent of the Lean model and of the implementation's folding loop): an RFC 1071
//! *receiver*.  The pseudo header (RFC 768 / 9293 / 8200 §8.1) is prepended, the computed checksum
//! is stored big-endian in the checksum field of the data and the 16-bit big-endian words (odd
//! tail padded with a zero octet) are added up in a `u64`; the datagram verifies iff that plain
//! sum is a non-zero multiple of 0xFFFF (⇔ its one's complement sum is 0xFFFF).  When the data is
//! too short to contain the field the checksum is appended as one more word instead.
use crate::util::{guarded, hex, unhex, Rng, Run};
use std::net::{Ipv4Addr, Ipv6Addr};
use trippy_packet::checksum::{
    icmp_ipv4_checksum, icmp_ipv6_checksum, ipv4_header_checksum, tcp_ipv4_checksum, udp_ipv4_checksum,
    udp_ipv6_checksum,
};

/// (name, checksum field word index, address family (0 = no pseudo header), protocol number)
const FNS: [(&str, usize, u8, u8); 6] = [
    ("ipv4_header_checksum", 5, 0, 0),
    ("icmp_ipv4_checksum", 1, 0, 0),
    ("icmp_ipv6_checksum", 1, 6, 58),
    ("udp_ipv4_checksum", 3, 4, 17),
    ("tcp_ipv4_checksum", 8, 4, 6),
    ("udp_ipv6_checksum", 3, 6, 17),
];

/// the largest upper-layer length an IP datagram can carry; beyond it the `u32` accumulator may
/// overflow (a dev-profile panic the model reproduces) and no RFC statement is claimed
const MAX_LEN: usize = 65535;

fn v4(a: &[u8]) -> Ipv4Addr {
    Ipv4Addr::new(a[0], a[1], a[2], a[3])
}

fn v6(a: &[u8]) -> Ipv6Addr {
    let mut o = [0u8; 16];
    o.copy_from_slice(a);
    Ipv6Addr::from(o)
}

/// call the real function; `None` if the address operands do not fit the function
fn call(f: &str, data: &[u8], src: &[u8], dst: &[u8]) -> Option<Result<u16, String>> {
    let fam = FNS.iter().find(|x| x.0 == f)?.2;
    let want = match fam { 4 => 4, 6 => 16, _ => 0 };
    if src.len() != want || dst.len() != want {
        return None;
    }
    Some(guarded(|| match f {
        "ipv4_header_checksum" => ipv4_header_checksum(data),
        "icmp_ipv4_checksum" => icmp_ipv4_checksum(data),
        "icmp_ipv6_checksum" => icmp_ipv6_checksum(data, v6(src), v6(dst)),
        "udp_ipv4_checksum" => udp_ipv4_checksum(data, v4(src), v4(dst)),
        "tcp_ipv4_checksum" => tcp_ipv4_checksum(data, v4(src), v4(dst)),
        "udp_ipv6_checksum" => udp_ipv6_checksum(data, v6(src), v6(dst)),
        _ => unreachable!(),
    }))
}

/// plain (unfolded) sum of the big-endian 16-bit words, odd tail padded on the right with zero
fn plain_sum(b: &[u8]) -> u64 {
    b.chunks(2).map(|c| (u64::from(c[0]) << 8) | u64::from(*c.get(1).unwrap_or(&0))).sum()
}

fn pseudo_header(fam: u8, proto: u8, src: &[u8], dst: &[u8], len: usize) -> Vec<u8> {
    let mut p = vec![];
    match fam {
        4 => {
            p.extend_from_slice(src);
            p.extend_from_slice(dst);
            p.push(0);
            p.push(proto);
            p.extend_from_slice(&(len as u16).to_be_bytes());
        }
        6 => {
            p.extend_from_slice(src);
            p.extend_from_slice(dst);
            p.extend_from_slice(&(len as u32).to_be_bytes());
            p.extend_from_slice(&[0, 0, 0, proto]);
        }
        _ => {}
    }
    p
}

/// the datagram as a receiver sees it: pseudo header ++ data with `ck` in the checksum field
fn assemble(f: &str, data: &[u8], src: &[u8], dst: &[u8], ck: u16) -> Vec<u8> {
    let &(_, iw, fam, proto) = FNS.iter().find(|x| x.0 == f).unwrap();
    let mut d = pseudo_header(fam, proto, src, dst, data.len());
    debug_assert!(d.len() % 2 == 0);
    let off = d.len();
    d.extend_from_slice(data);
    let [hi, lo] = ck.to_be_bytes();
    if 2 * iw + 1 < data.len() {
        d[off + 2 * iw] = hi;
        d[off + 2 * iw + 1] = lo;
    } else {
        // the field is (partly) outside the data: what exists of it counts as zero and the
        // checksum travels as an extra word
        if 2 * iw < data.len() {
            d[off + 2 * iw] = 0;
        }
        if d.len() % 2 == 1 {
            d.push(0);
        }
        d.push(hi);
        d.push(lo);
    }
    d
}

fn rfc1071_verifies(datagram: &[u8]) -> bool {
    let s = plain_sum(datagram);
    s != 0 && s % 0xFFFF == 0
}

fn one(run: &mut Run, f: &str, data: &[u8], src: &[u8], dst: &[u8]) {
    let Some(r) = call(f, data, src, dst) else { return };
    let op = format!("cksum {f} {} {} {}", hex(data), hex(src), hex(dst));
    // the empty input of a function without addresses has a single request: issue it once
    if data.is_empty() && src.is_empty() && run.ops.iter().any(|o| *o == op) {
        return;
    }
    match &r {
        Ok(ck) => {
            if data.len() <= MAX_LEN && !rfc1071_verifies(&assemble(f, data, src, dst, *ck)) {
                run.fail("verify", op.clone());
            }
        }
        Err(p) => {
            if data.len() <= MAX_LEN {
                run.fail("panic", format!("{op} ({p})"));
            }
        }
    }
    run.count(&format!("fn:{f}"));
    let out = match r {
        Ok(ck) => format!("ok {ck}"),
        Err(_) => "panic".into(),
    };
    run.op(op, out);
}

/// an address of `n` 16-bit words whose words sum to exactly `total` (spread at random): the
/// pseudo-header accumulator then hits the chosen carry pattern whatever the code does in between
pub fn addr_with_word_sum(rng: &mut Rng, n: usize, total: u32) -> Vec<u8> {
    let mut left = total.min(0xffff * n as u32);
    let mut words = vec![0u32; n];
    // fill to the brim from a random rotation, then move random amounts between words
    let start = rng.below(n as u64) as usize;
    for k in 0..n {
        let i = (start + k) % n;
        let w = left.min(0xffff);
        words[i] = w;
        left -= w;
    }
    for _ in 0..n {
        let (a, b) = (rng.below(n as u64) as usize, rng.below(n as u64) as usize);
        let room = 0xffff - words[b];
        let d = if words[a].min(room) == 0 { 0 } else { rng.below(u64::from(words[a].min(room)) + 1) as u32 };
        words[a] -= d;
        words[b] += d;
    }
    words.iter().flat_map(|w| [(*w >> 8) as u8, *w as u8]).collect()
}

/// word sums at which a one's-complement accumulator changes its carry pattern: around every
/// multiple of 0x10000 and around the values whose once-folded sum carries again
pub const CARRY_SUMS: [u32; 14] = [
    0xffff, 0x1_0000, 0x1_0001, 0x1_fffe, 0x1_ffff, 0x2_0000, 0x2_fffd, 0x2_fffe, 0x3_fffc, 0x3_fffd, 0x4_fffb, 0x6_fff9,
    0x7_fff7, 0x7_fff8,
];

/// 16 + 14 address pairs, as (v4 src, v4 dst, v6 src, v6 dst); the first ones are the extremes and the
/// repository's test vectors, then random ones, then pairs built for the carry patterns of the
/// pseudo-header sum
fn address_pairs(rng: &mut Rng) -> Vec<[Vec<u8>; 4]> {
    let h = |s: &str| unhex(s).unwrap();
    let mut v: Vec<[Vec<u8>; 4]> = vec![
        [vec![0; 4], vec![0; 4], vec![0; 16], vec![0; 16]],
        [vec![0xff; 4], vec![0xff; 4], vec![0xff; 16], vec![0xff; 16]],
        [vec![0; 4], vec![0xff; 4], vec![0; 16], vec![0xff; 16]],
        [vec![0xff; 4], vec![0; 4], vec![0xff; 16], vec![0; 16]],
        [h("c0a801c9"), h("8efa422e"), h("fe80000000000000081103f676016c3f"), h("fe800000000000001c8d7d69d0b68182")],
        [h("0a000067"), h("0a000001"), h("2406da1805992d01fa2598be5ab187a5"), h("2404680040030c02000000000000008b")],
        [h("7f000001"), h("7f000001"), h("00000000000000000000000000000001"), h("00000000000000000000000000000001")],
        [h("ffff0000"), h("0000ffff"), h("ffff0000ffff0000ffff0000ffff0000"), h("0000ffff0000ffff0000ffff0000ffff")],
    ];
    while v.len() < 16 {
        v.push([rng.bytes(4), rng.bytes(4), rng.bytes(16), rng.bytes(16)]);
    }
    for (k, s) in CARRY_SUMS.iter().enumerate() {
        // one address carries the pattern, the other is small or another pattern
        let other = if k % 2 == 0 { 1 } else { CARRY_SUMS[(k * 5 + 3) % CARRY_SUMS.len()] };
        let (a4, b4) = (addr_with_word_sum(rng, 2, *s), addr_with_word_sum(rng, 2, other));
        let (a6, b6) = (addr_with_word_sum(rng, 8, *s), addr_with_word_sum(rng, 8, other));
        v.push(if k % 3 == 0 { [b4, a4, b6, a6] } else { [a4, b4, a6, b6] });
    }
    v
}

fn addrs<'a>(fam: u8, p: &'a [Vec<u8>; 4]) -> (&'a [u8], &'a [u8]) {
    match fam {
        4 => (&p[0], &p[1]),
        6 => (&p[2], &p[3]),
        _ => (&[], &[]),
    }
}

const PATTERNS: [&str; 4] = ["ones", "carry", "random", "sparse"];

/// the data patterns of the sweep.  `carry`: all-ones data in which one word (not the checksum
/// field) is tuned so that the 32-bit sum over pseudo header and data has low half 0xFFFF and a
/// non-zero high half, i.e. the first end-around fold produces a further carry and the
/// `while` in `finalize_checksum` must iterate twice (an `if` would be wrong).
fn pattern(rng: &mut Rng, pat: &str, len: usize, f: &str, src: &[u8], dst: &[u8]) -> Vec<u8> {
    match pat {
        "ones" => vec![0xff; len],
        "random" => rng.bytes(len),
        "sparse" => {
            let mut d = vec![0u8; len];
            if len > 0 {
                for _ in 0..rng.below(4) {
                    let i = rng.below(len as u64) as usize;
                    d[i] = rng.next() as u8;
                }
            }
            d
        }
        _ => {
            let &(_, iw, fam, proto) = FNS.iter().find(|x| x.0 == f).unwrap();
            let mut d = vec![0xffu8; len];
            let words = len / 2;
            let cand: Vec<usize> = (0..words).filter(|j| *j != iw).collect();
            if let Some(&j) = cand.last() {
                d[2 * j] = 0;
                d[2 * j + 1] = 0;
                let mut z = d.clone();
                for k in [2 * iw, 2 * iw + 1] {
                    if k < len {
                        z[k] = 0;
                    }
                }
                let s = plain_sum(&pseudo_header(fam, proto, src, dst, len)) + plain_sum(&z);
                let w = (0xFFFF - (s & 0xFFFF)) as u16;
                d[2 * j..2 * j + 2].copy_from_slice(&w.to_be_bytes());
            }
            d
        }
    }
}

pub fn run(rng: &mut Rng, thorough: bool, corpus: &[String]) -> Run {
    let mut run = Run::new();
    // corpus first: lines `cksum <fn> <hexdata> <hexsrc> <hexdst>`
    for l in corpus {
        let p: Vec<&str> = l.split(' ').collect();
        if p.len() != 5 || p[0] != "cksum" {
            continue;
        }
        let (Some(d), Some(s), Some(t)) = (unhex(p[2]), unhex(p[3]), unhex(p[4])) else { continue };
        if FNS.iter().any(|x| x.0 == p[1]) {
            one(&mut run, p[1], &d, &s, &t);
            run.count("corpus");
        }
    }
    let pairs = address_pairs(rng);
    // every address pair on short data, every function: lengths around each checksum field
    let short: Vec<usize> = if thorough { (0..=64).collect() } else { vec![0, 1, 2, 3, 4, 7, 8, 9, 11, 12, 17, 18, 19, 20, 63, 64] };
    for &len in &short {
        for (pi, pat) in PATTERNS.iter().enumerate() {
            if !thorough && pi % 2 == 1 && len > 20 {
                continue;
            }
            for &(f, _, fam, _) in &FNS {
                for (k, p) in pairs.iter().enumerate() {
                    if fam == 0 && k > 0 {
                        break;
                    }
                    let (s, t) = addrs(fam, p);
                    let d = pattern(rng, pat, len, f, s, t);
                    one(&mut run, f, &d, s, t);
                    run.count(&format!("pattern:{pat}"));
                }
            }
        }
    }
    // every length 0..=1024, four patterns (thorough: random and sparse drawn three times), every
    // function, address pairs in rotation (thorough: two per case)
    for len in 0..=1024usize {
        for (pi, pat) in PATTERNS.iter().enumerate() {
            let reps = if thorough && pi >= 2 { 3 } else { 1 };
            for rep in 0..reps {
                for (fi, &(f, _, fam, _)) in FNS.iter().enumerate() {
                    let npairs = if thorough && fam != 0 { 2 } else { 1 };
                    for q in 0..npairs {
                        let p = &pairs[(len + 5 * pi + 3 * fi + 7 * rep + 8 * q) % pairs.len()];
                        let (s, t) = addrs(fam, p);
                        let d = pattern(rng, pat, len, f, s, t);
                        one(&mut run, f, &d, s, t);
                        run.count(&format!("pattern:{pat}"));
                    }
                }
            }
        }
    }
    // the bound of the no-overflow theorem: jumbo and maximal upper-layer lengths, all ones
    let mut big = vec![1500usize, 9000, MAX_LEN - 1, MAX_LEN];
    if thorough {
        big.extend([1025, 1499, 4096, 32767, 32768]);
    }
    for len in big {
        for &(f, _, fam, _) in &FNS {
            for k in [1usize, 4] {
                let (s, t) = addrs(fam, &pairs[k]);
                let d = if k == 1 { vec![0xff; len] } else { rng.bytes(len) };
                one(&mut run, f, &d, s, t);
                run.count("pattern:big");
            }
        }
    }
    // beyond any IP datagram: with 131 076 all-ones octets (65 537 summed words) the `u32`
    // accumulator reaches exactly 0xFFFF_FFFF, two octets more and it overflows (dev profile:
    // panic); correspondence only, no oracle
    for len in [131_076usize, 131_078] {
        one(&mut run, "ipv4_header_checksum", &vec![0xff; len], &[], &[]);
        run.count("pattern:overflow");
    }
    run
}
