//! Virtual time: the harness binary defines `clock_gettime`, which the statically linked std
//! resolves to, so both `SystemTime::now()` and `Instant::now()` follow the virtual clock while
//! it is enabled.  Time advances only when the harness says so (inside the simulated wait of
//! `recv_probe` / `is_readable`).
use std::sync::atomic::{AtomicBool, AtomicU64, Ordering};
use std::time::{Duration, SystemTime, UNIX_EPOCH};

static ENABLED: AtomicBool = AtomicBool::new(false);
static NOW_NS: AtomicU64 = AtomicU64::new(0);
/// virtual epoch: 2001-09-09T01:46:40Z
pub const BASE_S: u64 = 1_000_000_000;

#[no_mangle]
pub unsafe extern "C" fn clock_gettime(clk: libc::clockid_t, ts: *mut libc::timespec) -> libc::c_int {
    if ENABLED.load(Ordering::SeqCst) {
        let ns = NOW_NS.load(Ordering::SeqCst);
        (*ts).tv_sec = (BASE_S + ns / 1_000_000_000) as libc::time_t;
        (*ts).tv_nsec = (ns % 1_000_000_000) as libc::c_long;
        0
    } else {
        libc::syscall(libc::SYS_clock_gettime, clk, ts) as libc::c_int
    }
}

pub fn enable(start_ns: u64) {
    NOW_NS.store(start_ns, Ordering::SeqCst);
    ENABLED.store(true, Ordering::SeqCst);
}
pub fn disable() {
    ENABLED.store(false, Ordering::SeqCst);
}
pub fn now_ns() -> u64 {
    NOW_NS.load(Ordering::SeqCst)
}
pub fn advance(ns: u64) {
    NOW_NS.fetch_add(ns, Ordering::SeqCst);
}
pub fn set(ns: u64) {
    NOW_NS.store(ns, Ordering::SeqCst);
}
/// virtual nanoseconds of a `SystemTime` produced under the virtual clock
pub fn ns_of(t: SystemTime) -> u64 {
    let d = t.duration_since(UNIX_EPOCH).unwrap_or_default();
    (d.as_nanos() as u64).saturating_sub(BASE_S * 1_000_000_000)
}
pub fn time_of(ns: u64) -> SystemTime {
    UNIX_EPOCH + Duration::from_secs(BASE_S) + Duration::from_nanos(ns)
}
