//! C20 stress oracle: the real `Tracer` state behind its `RwLock`, a publisher thread applying
//! rounds exactly as the tracer thread does (`verif_apply_round` = `handler`), reader threads
//! calling `snapshot()` and a thread calling `clear()`; the publisher also records an error every 16
//! rounds (`verif_handle_error` = `handle_error`).  Every snapshot must equal a whole number
//! of consecutive rounds applied to an empty state.  (Schedules are sampled, not enumerated: the
//! deciding argument is the Lean theorem over the translated lock programs.)
use crate::util::{Rng, Run};
use std::net::{IpAddr, Ipv4Addr};
use std::sync::atomic::{AtomicBool, AtomicU64, Ordering};
use std::sync::{Arc, Mutex};
use std::time::{Duration, SystemTime, UNIX_EPOCH};
use trippy_core::{
    Builder, CompletionReason, FlowId, IcmpPacketType, Port, ProbeComplete, ProbeStatus, Round, RoundId, Sequence,
    State, TimeToLive, TraceId,
};

const HOPS: u8 = 12;
const MAX_SAMPLES: usize = 4;
const MAX_FLOWS: usize = 7;

fn rtt_ns(round: u64, hop: u8) -> u64 {
    (round + 1) * 1000 + u64::from(hop)
}

fn make_round(k: u64) -> Vec<ProbeStatus> {
    let base = UNIX_EPOCH + Duration::from_secs(1_000_000);
    (0..HOPS)
        .map(|h| {
            ProbeStatus::Complete(ProbeComplete {
                sequence: Sequence(33434 + u16::from(h)),
                identifier: TraceId(1),
                src_port: Port(0),
                dest_port: Port(0),
                ttl: TimeToLive(h + 1),
                round: RoundId(k as usize),
                sent: base,
                host: IpAddr::V4(Ipv4Addr::new(10, 0, 0, h + 1)),
                received: base + Duration::from_nanos(rtt_ns(k, h)),
                icmp_packet_type: IcmpPacketType::NotApplicable,
                tos: None,
                expected_udp_checksum: None,
                actual_udp_checksum: None,
                extensions: None,
            })
        })
        .collect()
}

/// `Some(description)` if the snapshot is not a whole number of consecutive rounds
fn check_snapshot(st: &State, floor: u64) -> Option<String> {
    let n = st.round_count(FlowId(0));
    let hops = st.hops();
    if n == 0 {
        return if hops.is_empty() { None } else { Some(format!("round_count 0 but {} hops", hops.len())) };
    }
    if hops.len() != usize::from(HOPS) {
        return Some(format!("round_count {n} but {} hops", hops.len()));
    }
    // the state is the published rounds applied to an *empty state of this tracer*: its limits included
    if st.max_samples() != MAX_SAMPLES || st.max_flows() != MAX_FLOWS {
        return Some(format!("snapshot has max_samples {} / max_flows {}, the tracer was built with {MAX_SAMPLES} / {MAX_FLOWS}", st.max_samples(), st.max_flows()));
    }
    let mut latest: Option<u64> = None;
    for (i, hop) in hops.iter().enumerate() {
        let h = i as u8;
        if hop.samples().len() != n.min(MAX_SAMPLES) {
            return Some(format!("hop {} holds {} samples after {n} rounds (max_samples {MAX_SAMPLES})", h + 1, hop.samples().len()));
        }
        if hop.total_sent() != n || hop.total_recv() != n {
            return Some(format!("hop {} sent {} recv {} but round_count {n} (partial round)", h + 1, hop.total_sent(), hop.total_recv()));
        }
        let last_ns = (hop.last_ms().unwrap_or(0.0) * 1_000_000.0).round() as u64;
        let best_ns = (hop.best_ms().unwrap_or(0.0) * 1_000_000.0).round() as u64;
        let j = (last_ns - u64::from(h)) / 1000 - 1;
        if rtt_ns(j, h) != last_ns {
            return Some(format!("hop {} last rtt {last_ns} is not a round value", h + 1));
        }
        if let Some(l) = latest {
            if l != j {
                return Some(format!("hops disagree on the latest round: {l} vs {j} (mixture of rounds)"));
            }
        }
        latest = Some(j);
        // the oldest round still counted must be j - n + 1 (consecutive rounds since the last clear)
        if (n as u64) <= j + 1 && j + 1 - (n as u64) < floor {
            return Some(format!("snapshot taken after clear() returned still holds round {} (a round applied before that clear; clear floor {floor}): {n} rounds ending at round {j}", j + 1 - n as u64));
        }
        if (n as u64) > j + 1 || best_ns != rtt_ns(j + 1 - n as u64, h) {
            return Some(format!("hop {}: {n} rounds ending at round {j} but best rtt {best_ns} (rounds not consecutive / mixture across a clear)", h + 1));
        }
    }
    None
}

/// Crash points and clock steps: rounds in which the wall clock stepped backwards between the sending of a probe
/// and the arrival of its answer (`received < sent`: legal, `SystemTime` is not monotonic) are applied through the
/// tracer's own handler; whatever happens inside — including a panic of the tracer thread, which does not poison
/// the `parking_lot` lock — every later snapshot must still show a whole number of rounds.
fn backstep_phase(run: &mut Run) {
    let tracer = Builder::new(IpAddr::V4(Ipv4Addr::new(10, 0, 0, 98))).max_samples(MAX_SAMPLES).max_flows(MAX_FLOWS).build().expect("builder");
    let mut max_largest = 0u8;
    for k in 0..120u64 {
        let mut probes = make_round(k);
        if k % 7 == 3 {
            let i = (k % u64::from(HOPS)) as usize;
            if let ProbeStatus::Complete(c) = &mut probes[i] {
                c.received = c.sent - Duration::from_millis(40);
            }
        }
        // the slots a TCP round has after a local port collision: an abandoned (`Skipped`) slot in the middle of
        // the round, and trailing slots that were never used
        if k % 5 == 2 {
            probes.insert(1 + (k % u64::from(HOPS - 1)) as usize, ProbeStatus::Skipped);
            probes.push(ProbeStatus::NotSent);
        }
        // rounds of different length with silent hops: round 0 reports the path [h1, ?, h3, ?], round 1 the shorter
        // path [h1, h2, ?] — a shorter flow that fills an unknown entry of the registered one (merged, not a new flow)
        let mut largest = HOPS;
        let mut silent: Vec<usize> = vec![];
        if k == 0 || k % 10 == 5 { silent = vec![1, 3]; largest = 4; }
        if k == 1 || k % 10 == 6 { silent = vec![2]; largest = 3; }
        for &i in &silent {
            if let ProbeStatus::Complete(c) = probes[i].clone() {
                probes[i] = ProbeStatus::Awaited(trippy_core::Probe {
                    sequence: c.sequence, identifier: c.identifier, src_port: c.src_port, dest_port: c.dest_port, ttl: c.ttl,
                    round: c.round, sent: c.sent, flags: trippy_core::Flags::empty(),
                });
            }
        }
        let plain = silent.is_empty() && k % 7 != 3 && k % 5 != 2;
        let t = tracer.clone();
        let r = crate::util::guarded(move || t.verif_apply_round(&Round::new(&probes, TimeToLive(largest), CompletionReason::TargetFound)));
        let st = tracer.snapshot();
        let n = st.round_count(FlowId(0));
        // every round is attributed to exactly one flow (the limit of 7 flows is never reached here): the per-flow
        // round counts add up to the default flow's
        let per_flow: usize = st.flows().iter().map(|(_, id)| st.round_count(*id)).sum();
        if per_flow != n {
            run.fail("c20-partial-round", format!("round {k}: the default flow counts {n} round(s) but the flows {:?} count {per_flow} together{}", st.flows().iter().map(|(f, id)| format!("{}:{f}", id.0)).collect::<Vec<_>>(), if r.is_err() { " — the handler panicked while holding the write lock" } else { "" }));
            return;
        }
        let _ = plain;
        let torn = st.hops().iter().find(|h| h.total_sent() != n);
        if let Some(h) = torn {
            run.fail("c20-partial-round", format!("round {k} (every 7th round: the answer of hop {} time-stamped 40 ms before its probe; every 5th: a Skipped slot in mid-round): the snapshot after it shows round_count {n} but hop ttl {} has sent {} recv {} samples {}{}",
                (k % u64::from(HOPS)) + 1, h.ttl(), h.total_sent(), h.total_recv(), h.samples().len(), if r.is_err() { " — the handler panicked while holding the write lock" } else { "" }));
            return;
        }
        max_largest = max_largest.max(largest);
        if st.hops().len() != usize::from(max_largest) && n > 0 {
            run.fail("c20-partial-round", format!("round {k}: round_count {n} but {} hops (greatest path length reported {max_largest})", st.hops().len()));
            return;
        }
        run.count("c20:backstep-rounds-checked");
    }
}

pub fn run(rng: &mut Rng, thorough: bool, _corpus: &[String]) -> Run {
    let mut run = Run::new();
    backstep_phase(&mut run);
    let rounds: u64 = if thorough { 400_000 } else { 40_000 };
    let tracer = Builder::new(IpAddr::V4(Ipv4Addr::new(10, 0, 0, 99))).max_samples(MAX_SAMPLES).max_flows(MAX_FLOWS).build().expect("builder");
    let stop = Arc::new(AtomicBool::new(false));
    let checked = Arc::new(AtomicU64::new(0));
    let clears = Arc::new(AtomicU64::new(0));
    // rounds fully applied so far / a lower bound on the oldest round any later snapshot may hold
    let applied = Arc::new(AtomicU64::new(0));
    let floor = Arc::new(AtomicU64::new(0));
    let failures: Arc<Mutex<Vec<String>>> = Arc::new(Mutex::new(vec![]));
    let rounds_done = AtomicU64::new(0);
    let mut errors_recorded = 0u64;
    let seed = rng.next();
    let started = SystemTime::now();
    std::thread::scope(|sc| {
        for r in 0..4u64 {
            let (tracer, stop, checked, failures, floor) = (tracer.clone(), stop.clone(), checked.clone(), failures.clone(), floor.clone());
            sc.spawn(move || {
                let mut spin = seed ^ r;
                while !stop.load(Ordering::Relaxed) {
                    let f = floor.load(Ordering::SeqCst);
                    let st = tracer.snapshot();
                    if let Some(d) = check_snapshot(&st, f) {
                        let mut f = failures.lock().unwrap();
                        if f.len() < 20 { f.push(d); }
                    }
                    checked.fetch_add(1, Ordering::Relaxed);
                    spin = spin.wrapping_mul(6364136223846793005).wrapping_add(1);
                    if spin % 7 == 0 { std::thread::yield_now(); }
                }
            });
        }
        {
            let (tracer, stop, clears, applied, floor) = (tracer.clone(), stop.clone(), clears.clone(), applied.clone(), floor.clone());
            sc.spawn(move || {
                let mut spin = seed ^ 0xabc;
                while !stop.load(Ordering::Relaxed) {
                    let a = applied.load(Ordering::SeqCst);
                    tracer.clear();
                    floor.fetch_max(a, Ordering::SeqCst);
                    clears.fetch_add(1, Ordering::Relaxed);
                    spin = spin.wrapping_mul(6364136223846793005).wrapping_add(1);
                    for _ in 0..(spin % 200) { std::hint::spin_loop(); }
                    if spin % 5 == 0 { std::thread::yield_now(); }
                }
            });
        }
        // the publisher keeps going until it has applied `rounds` rounds AND the readers have checked
        // `want` snapshots (so that the amount of checking does not depend on how the OS schedules
        // the readers), bounded by a wall-clock cap
        let want: u64 = if thorough { 500_000 } else { 50_000 };
        let mut k = 0u64;
        let err_text = "simulated failure ".repeat(64);
        while (k < rounds || checked.load(Ordering::Relaxed) < want)
            && started.elapsed().map_or(true, |d| d.as_secs() < if thorough { 600 } else { 120 })
        {
            let probes = make_round(k);
            tracer.verif_apply_round(&Round::new(&probes, TimeToLive(HOPS), CompletionReason::TargetFound));
            applied.store(k + 1, Ordering::SeqCst);
            k += 1;
            // the tracer thread records an error (`handle_error`, what `Tracer::run` does when the run
            // fails) while other threads read and clear: recording must not resurrect cleared rounds
            if k % 16 == 0 {
                let _ = tracer.verif_handle_error(trippy_core::verif::Error::Other(err_text.clone()));
                errors_recorded += 1;
            }
            if k % 8 == 0 { std::thread::yield_now(); }
        }
        rounds_done.store(k, Ordering::Relaxed);
        stop.store(true, Ordering::Relaxed);
    });
    for d in failures.lock().unwrap().iter() {
        run.fail("c20-torn-snapshot", d.clone());
    }
    *run.stats.entry("snapshots_checked".into()).or_default() = checked.load(Ordering::Relaxed);
    *run.stats.entry("clears".into()).or_default() = clears.load(Ordering::Relaxed);
    *run.stats.entry("errors_recorded".into()).or_default() = errors_recorded;
    let rounds = rounds_done.load(Ordering::Relaxed);
    *run.stats.entry("rounds_applied".into()).or_default() = rounds;
    *run.stats.entry("wall_ms".into()).or_default() = started.elapsed().map_or(0, |d| d.as_millis() as u64);
    run.samples.push(format!("{} snapshots by 4 readers against {} rounds and {} clears", checked.load(Ordering::Relaxed), rounds, clears.load(Ordering::Relaxed)));
    // one request so that the driver / diff machinery has a line to agree on
    run.op("conc noop".into(), "ok".into());
    run
}
