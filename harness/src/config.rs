//! C16 — option precedence (CLI over file over default) and "accepted configurations can run".
//!
//! (i)  `cfgb build …` lines: the full product protocol × strategy × port direction × family ×
//!      privilege × source address (none / IPv4 / IPv6) × first_ttl × max_ttl × initial_sequence
//!      through the real `trippy_core::Builder`;
//!      the Lean model (`TV.Builder.build`) answers the same lines.  Every accepted configuration is
//!      then RUN for three rounds (once against a silent network, once against a network that
//!      answers every probe) through the real `Strategy` under the virtual clock; a panic is an
//!      oracle failure `c16-accepted-config-panics`.
//!      `cfgb cli …` lines: the strategy-relevant validators of the real
//!      `TrippyConfig::build_config` against the Lean model `TV.Builder.cliConfig`.
//!      A source address of the other address family than the target must be rejected by the
//!      builder (`c16-source-family-accepted` otherwise; `Channel::connect` — tried over a
//!      do-nothing `Socket`, no real sockets — runs into `unreachable!()` for such a pair).
//! (ii) precedence: every layered option absent / in the file only / on the command line only /
//!      both, pairwise with a second option, through the real `build_config`
//!      (`verif_build_config`); the effective value must be CLI > file > default (oracle only).
use crate::clock;
use crate::util::{guarded, Rng, Run};
use std::cell::Cell;
use std::net::{IpAddr, Ipv4Addr, Ipv6Addr, SocketAddr};
use std::time::Duration;
use trippy_core::verif::{
    Channel, Error, IcmpPacketCode, IcmpProtocolResponse, IoResult, Network, ProtocolResponse, Response,
    ResponseData, Socket, SocketError, StrategyConfig, TcpProtocolResponse, UdpProtocolResponse, VerifState,
};
use trippy_core::{
    Builder, MultipathStrategy, PortDirection, PrivilegeMode, Probe, Protocol, Round, Strategy,
};
use trippy_privilege::Privilege;
use trippy_tui::verif::{
    verif_build_config, AddressFamilyConfig, AddressMode, Args, AsMode, ConfigDns, ConfigFile, ConfigReport,
    ConfigStrategy, ConfigTrippy, ConfigTui, DnsResolveMethodConfig, GeoIpMode, IcmpExtensionMode, LogFormat,
    LogSpanEvents, Mode, MultipathStrategyConfig, ProtocolConfig, TrippyConfig, TuiColumns,
};

pub const PID: u16 = 4242;

// ------------------------------------------------------------------------------------------------
// (i) the builder
// ------------------------------------------------------------------------------------------------

fn target(v6: bool) -> IpAddr {
    if v6 {
        IpAddr::V6(Ipv6Addr::new(0xfd00, 0, 0, 0, 0, 0, 0, 7))
    } else {
        IpAddr::V4(Ipv4Addr::new(10, 0, 0, 7))
    }
}

fn hop(v6: bool, ttl: u8) -> IpAddr {
    if v6 {
        IpAddr::V6(Ipv6Addr::new(0xfd00, 0, 0, 0, 0, 0, 1, u16::from(ttl)))
    } else {
        IpAddr::V4(Ipv4Addr::new(10, 0, 1, ttl))
    }
}

fn pd_token(pd: PortDirection) -> String {
    match pd {
        PortDirection::None => "n".into(),
        PortDirection::FixedSrc(p) => format!("s:{}", p.0),
        PortDirection::FixedDest(p) => format!("d:{}", p.0),
        PortDirection::FixedBoth(s, d) => format!("b:{}:{}", s.0, d.0),
    }
}

const fn proto_token(p: Protocol) -> char {
    match p {
        Protocol::Icmp => 'i',
        Protocol::Udp => 'u',
        Protocol::Tcp => 't',
    }
}

const fn strat_token(s: MultipathStrategy) -> char {
    match s {
        MultipathStrategy::Classic => 'c',
        MultipathStrategy::Paris => 'p',
        MultipathStrategy::Dublin => 'd',
    }
}

/// A network that accepts every probe and either stays silent or answers the probe just sent the way
/// a conforming path of length 3 would.
struct EchoNet {
    cfg: StrategyConfig,
    answer: bool,
    dt: u64,
    last: Option<Probe>,
    sent: usize,
}

impl EchoNet {
    fn response(&self, p: &Probe) -> Response {
        let cfg = &self.cfg;
        let v6 = cfg.target_addr.is_ipv6();
        let is_target = p.ttl.0 >= 3;
        let host = if is_target { cfg.target_addr } else { hop(v6, p.ttl.0) };
        let dublin6 = cfg.multipath_strategy == MultipathStrategy::Dublin && v6;
        let proto = match cfg.protocol {
            Protocol::Icmp => ProtocolResponse::Icmp(IcmpProtocolResponse::new(p.identifier.0, p.sequence.0, None)),
            Protocol::Udp => {
                let act = if cfg.multipath_strategy == MultipathStrategy::Paris { p.sequence.0 } else { 0x1234 };
                let plen = if dublin6 { p.sequence.0.wrapping_sub(cfg.initial_sequence.0) } else { 0 };
                ProtocolResponse::Udp(UdpProtocolResponse::new(
                    p.identifier.0, cfg.target_addr, p.src_port.0, p.dest_port.0, None, act, act, plen, dublin6,
                ))
            }
            Protocol::Tcp => {
                ProtocolResponse::Tcp(TcpProtocolResponse::new(cfg.target_addr, p.src_port.0, p.dest_port.0, None))
            }
        };
        let data = ResponseData::new(clock::time_of(clock::now_ns()), host, proto);
        if !is_target {
            Response::TimeExceeded(data, IcmpPacketCode(0), None)
        } else {
            match cfg.protocol {
                Protocol::Icmp => Response::EchoReply(data, IcmpPacketCode(0)),
                Protocol::Udp => Response::DestinationUnreachable(data, IcmpPacketCode(3), None),
                Protocol::Tcp => Response::TcpReply(data),
            }
        }
    }
}

impl Network for EchoNet {
    fn send_probe(&mut self, probe: Probe) -> Result<(), Error> {
        self.sent += 1;
        self.last = Some(probe);
        Ok(())
    }
    fn recv_probe(&mut self) -> Result<Option<Response>, Error> {
        clock::advance(self.dt);
        match self.last.take() {
            Some(p) if self.answer => Ok(Some(self.response(&p))),
            _ => Ok(None),
        }
    }
}

/// run `cfg` for up to `rounds` rounds; returns (rounds published, probes sent) or the panic text
fn run_rounds(cfg: StrategyConfig, answer: bool, rounds: usize) -> Result<Result<(usize, usize), String>, String> {
    clock::enable(1_000_000);
    let res = guarded(|| {
        let published = Cell::new(0usize);
        let strategy = Strategy::new(&cfg, |_r: &Round<'_>| published.set(published.get() + 1));
        let mut st = VerifState::new(cfg);
        let mut net = EchoNet { cfg, answer, dt: 7_000_000, last: None, sent: 0 };
        let mut iters = 0;
        while !st.finished(cfg.max_rounds) && published.get() < rounds && iters < 5000 {
            if let Err(e) = strategy.verif_iterate(&mut net, &mut st) {
                return Err(format!("{e}"));
            }
            iters += 1;
        }
        Ok((published.get(), net.sent))
    });
    clock::disable();
    res
}

/// A `Socket` that does nothing (every constructor and call succeeds, nothing is ever readable).
struct NullSock;

impl Socket for NullSock {
    fn new_icmp_send_socket_ipv4(_raw: bool) -> IoResult<Self> { Ok(Self) }
    fn new_icmp_send_socket_ipv6(_raw: bool) -> IoResult<Self> { Ok(Self) }
    fn new_udp_send_socket_ipv4(_raw: bool) -> IoResult<Self> { Ok(Self) }
    fn new_udp_send_socket_ipv6(_raw: bool) -> IoResult<Self> { Ok(Self) }
    fn new_recv_socket_ipv4(_addr: Ipv4Addr, _raw: bool) -> IoResult<Self> { Ok(Self) }
    fn new_recv_socket_ipv6(_addr: Ipv6Addr, _raw: bool) -> IoResult<Self> { Ok(Self) }
    fn new_stream_socket_ipv4() -> IoResult<Self> { Ok(Self) }
    fn new_stream_socket_ipv6() -> IoResult<Self> { Ok(Self) }
    fn new_udp_dgram_socket_ipv4() -> IoResult<Self> { Ok(Self) }
    fn new_udp_dgram_socket_ipv6() -> IoResult<Self> { Ok(Self) }
    fn bind(&mut self, _address: SocketAddr) -> IoResult<()> { Ok(()) }
    fn set_tos(&mut self, _tos: u32) -> IoResult<()> { Ok(()) }
    fn set_ttl(&mut self, _ttl: u32) -> IoResult<()> { Ok(()) }
    fn set_reuse_port(&mut self, _reuse: bool) -> IoResult<()> { Ok(()) }
    fn set_header_included(&mut self, _included: bool) -> IoResult<()> { Ok(()) }
    fn set_unicast_hops_v6(&mut self, _hops: u8) -> IoResult<()> { Ok(()) }
    fn connect(&mut self, _address: SocketAddr) -> IoResult<()> { Ok(()) }
    fn send_to(&mut self, _buf: &[u8], _addr: SocketAddr) -> IoResult<()> { Ok(()) }
    fn is_readable(&mut self, _timeout: Duration) -> IoResult<bool> { Ok(false) }
    fn is_writable(&mut self) -> IoResult<bool> { Ok(false) }
    fn recv_from(&mut self, _buf: &mut [u8]) -> IoResult<(usize, Option<SocketAddr>)> { Ok((0, None)) }
    fn read(&mut self, _buf: &mut [u8]) -> IoResult<usize> { Ok(0) }
    fn shutdown(&mut self) -> IoResult<()> { Ok(()) }
    fn peer_addr(&mut self) -> IoResult<Option<SocketAddr>> { Ok(None) }
    fn take_error(&mut self) -> IoResult<Option<SocketError>> { Ok(None) }
    fn icmp_error_info(&mut self) -> IoResult<IpAddr> { Ok(IpAddr::V4(Ipv4Addr::UNSPECIFIED)) }
}

fn builder_product(run: &mut Run) {
    let protos = [Protocol::Icmp, Protocol::Udp, Protocol::Tcp];
    let strats = [MultipathStrategy::Classic, MultipathStrategy::Paris, MultipathStrategy::Dublin];
    let pds = [
        PortDirection::None,
        PortDirection::new_fixed_src(5000),
        PortDirection::new_fixed_dest(80),
        PortDirection::new_fixed_both(5000, 80),
    ];
    for proto in protos {
        for strat in strats {
            for pd in pds {
                for v6 in [false, true] {
                    for privileged in [true, false] {
                        for src in [None, Some(false), Some(true)] {
                            for first in [0u8, 1, 2, 254, 255] {
                                for max in [0u8, 1, 254, 255] {
                                    for initial in [0u16, 33434, 64511, 64512, 65535] {
                                        builder_case(run, proto, strat, pd, v6, privileged, src, first, max, initial);
                                    }
                                }
                            }
                        }
                    }
                }
            }
        }
    }
}

#[allow(clippy::too_many_arguments)]
fn builder_case(
    run: &mut Run, proto: Protocol, strat: MultipathStrategy, pd: PortDirection, v6: bool, privileged: bool,
    src: Option<bool>, first: u8, max: u8, initial: u16,
) {
    let op = format!(
        "cfgb build {} {} {} {first} {max} {initial} {} {} {}",
        proto_token(proto), strat_token(strat), pd_token(pd), u8::from(v6), u8::from(privileged),
        match src { None => "-", Some(false) => "4", Some(true) => "6" }
    );
    let source_addr = src.map(|s6| if s6 { IpAddr::V6(Ipv6Addr::LOCALHOST) } else { IpAddr::V4(Ipv4Addr::LOCALHOST) });
    let built = guarded(|| {
        Builder::new(target(v6))
            .source_addr(source_addr)
            .protocol(proto)
            .multipath_strategy(strat)
            .port_direction(pd)
            .privilege_mode(if privileged { PrivilegeMode::Privileged } else { PrivilegeMode::Unprivileged })
            .first_ttl(first)
            .max_ttl(max)
            .initial_sequence(initial)
            .trace_identifier(PID)
            .max_rounds(Some(3))
            .min_round_duration(Duration::from_millis(10))
            .max_round_duration(Duration::from_millis(60))
            .grace_duration(Duration::from_millis(5))
            .build()
    });
    match built {
        Err(p) => {
            run.fail("c16-builder-panics", format!("{op} ({p})"));
            run.op(op, "panic".into());
        }
        Ok(Err(e)) => {
            if !matches!(e, Error::BadConfig(_)) {
                run.fail("c16-builder-error-kind", format!("{op} ({e})"));
            }
            run.count("build:err");
            run.op(op, "err".into());
        }
        Ok(Ok(tracer)) => {
            run.count("build:ok");
            if src.is_some_and(|s6| s6 != v6) {
                run.fail("c16-source-family-accepted", op.clone());
            }
            let cfg = tracer.verif_strategy_config();
            for answer in [false, true] {
                match run_rounds(cfg, answer, 3) {
                    Err(p) => run.fail("c16-accepted-config-panics", format!("{op} answer={answer} ({p})")),
                    Ok(Err(e)) => run.fail("c16-accepted-config-errors", format!("{op} answer={answer} ({e})")),
                    Ok(Ok((rounds, sent))) => {
                        run.count("run:completed");
                        if rounds < 3 {
                            run.fail("c16-accepted-config-no-progress", format!("{op} answer={answer} rounds={rounds}"));
                        }
                        if sent > 0 { run.count("run:with-probes"); } else { run.count("run:no-probe-sent"); }
                    }
                }
            }
            run.op(op, "ok".into());
        }
    }
}

/// a source address of the other family than the target: the builder must reject it with a
/// configuration error (if it does not, what `Channel::connect` does with it is recorded too)
fn source_family(run: &mut Run) {
    for proto in [Protocol::Icmp, Protocol::Udp, Protocol::Tcp] {
        for target_v6 in [false, true] {
            for mismatch in [true, false] {
                let src_v6 = target_v6 != mismatch;
                let src = if src_v6 { IpAddr::V6(Ipv6Addr::LOCALHOST) } else { IpAddr::V4(Ipv4Addr::LOCALHOST) };
                let pd = if proto == Protocol::Icmp { PortDirection::None } else { PortDirection::new_fixed_dest(80) };
                let desc = format!("protocol={proto:?} target={} source_addr={src}", target(target_v6));
                let built = Builder::new(target(target_v6)).source_addr(Some(src)).protocol(proto).port_direction(pd).build();
                match (built, mismatch) {
                    (Err(Error::BadConfig(_)), true) => run.count("srcfam:mismatch-rejected"),
                    (Err(e), _) => run.fail("c16-source-family-error", format!("{desc} ({e})")),
                    (Ok(tracer), _) => {
                        if mismatch {
                            run.fail("c16-source-family-accepted", format!("{desc} accepted by Builder::build"));
                        } else {
                            run.count("srcfam:same-family-accepted");
                        }
                        let cc = tracer.verif_channel_config(src);
                        match guarded(|| Channel::<NullSock>::connect(&cc).map(|_| ())) {
                            Err(p) => {
                                run.count("srcfam:connect-panics");
                                run.fail("c16-source-family-panic", format!("{desc} Channel::connect panics ({p})"));
                            }
                            Ok(Err(_)) => run.count("srcfam:connect-error"),
                            Ok(Ok(())) => run.count("srcfam:connect-ok"),
                        }
                    }
                }
            }
        }
    }
}

// ------------------------------------------------------------------------------------------------
// the command-line layer: argument / file construction
// ------------------------------------------------------------------------------------------------

/// `Args` with nothing given (what clap produces for `trip example.com`)
pub fn base_args() -> Args {
    Args {
        targets: vec![String::from("example.com")],
        config_file: None,
        mode: None,
        unprivileged: false,
        protocol: None,
        udp: false,
        tcp: false,
        icmp: false,
        addr_family: None,
        ipv4: false,
        ipv6: false,
        target_port: None,
        source_port: None,
        source_address: None,
        interface: None,
        min_round_duration: None,
        max_round_duration: None,
        grace_duration: None,
        initial_sequence: None,
        multipath_strategy: None,
        max_inflight: None,
        first_ttl: None,
        max_ttl: None,
        packet_size: None,
        payload_pattern: None,
        tos: None,
        icmp_extensions: false,
        read_timeout: None,
        dns_resolve_method: None,
        dns_resolve_all: false,
        dns_timeout: None,
        dns_ttl: None,
        dns_lookup_as_info: false,
        max_samples: None,
        max_flows: None,
        tui_address_mode: None,
        tui_as_mode: None,
        tui_custom_columns: None,
        tui_icmp_extension_mode: None,
        tui_geoip_mode: None,
        tui_max_addrs: None,
        tui_preserve_screen: false,
        tui_refresh_rate: None,
        tui_privacy_max_ttl: None,
        tui_locale: None,
        tui_timezone: None,
        tui_theme_colors: vec![],
        print_tui_theme_items: false,
        tui_key_bindings: vec![],
        print_tui_binding_commands: false,
        report_cycles: None,
        geoip_mmdb_file: None,
        generate: None,
        generate_man: false,
        print_config_template: false,
        print_locales: false,
        log_format: None,
        log_filter: None,
        log_span_events: None,
        verbose: false,
    }
}

/// the layered sections of a configuration file, nothing given
pub struct Sections {
    pub trippy: ConfigTrippy,
    pub strategy: ConfigStrategy,
    pub tui: ConfigTui,
    pub dns: ConfigDns,
    pub report: ConfigReport,
}

fn empty_trippy() -> ConfigTrippy {
    ConfigTrippy { mode: None, unprivileged: None, log_format: None, log_filter: None, log_span_events: None }
}
fn empty_strategy() -> ConfigStrategy {
    ConfigStrategy {
        protocol: None, addr_family: None, target_port: None, source_port: None, source_address: None,
        interface: None, min_round_duration: None, max_round_duration: None, initial_sequence: None,
        multipath_strategy: None, grace_duration: None, max_inflight: None, first_ttl: None, max_ttl: None,
        packet_size: None, payload_pattern: None, tos: None, icmp_extensions: None, read_timeout: None,
        max_samples: None, max_flows: None,
    }
}
fn empty_tui() -> ConfigTui {
    ConfigTui {
        tui_preserve_screen: None, tui_refresh_rate: None, tui_privacy_max_ttl: None, tui_address_mode: None,
        tui_as_mode: None, tui_icmp_extension_mode: None, tui_geoip_mode: None, tui_max_addrs: None,
        geoip_mmdb_file: None, tui_custom_columns: None, tui_locale: None, tui_timezone: None,
        deprecated_tui_max_samples: None, deprecated_tui_max_flows: None,
    }
}
fn empty_dns() -> ConfigDns {
    ConfigDns { dns_resolve_method: None, dns_resolve_all: None, dns_lookup_as_info: None, dns_timeout: None, dns_ttl: None }
}
const fn empty_report() -> ConfigReport {
    ConfigReport { report_cycles: None }
}

impl Sections {
    pub fn new() -> Self {
        Self { trippy: empty_trippy(), strategy: empty_strategy(), tui: empty_tui(), dns: empty_dns(), report: empty_report() }
    }
    /// `absent_empty`: a section in which nothing is given is left out of the file altogether
    /// (`unwrap_or_default()` path) instead of being present and empty
    pub fn into_file(self, absent_empty: bool) -> ConfigFile {
        let keep = |empty: bool| !(absent_empty && empty);
        ConfigFile {
            trippy: if keep(self.trippy == empty_trippy()) { Some(self.trippy) } else { None },
            strategy: if keep(self.strategy == empty_strategy()) { Some(self.strategy) } else { None },
            theme_colors: None,
            bindings: None,
            tui: if keep(self.tui == empty_tui()) { Some(self.tui) } else { None },
            dns: if keep(self.dns == empty_dns()) { Some(self.dns) } else { None },
            report: if keep(self.report == empty_report()) { Some(self.report) } else { None },
        }
    }
}

impl Default for Sections {
    fn default() -> Self {
        Self::new()
    }
}

pub fn privilege() -> Privilege {
    // has privileges, does not need them: both privilege modes pass `validate_privilege`
    Privilege::new(true, false)
}

// ------------------------------------------------------------------------------------------------
// `cfgb cli` lines
// ------------------------------------------------------------------------------------------------

#[derive(Clone, Copy)]
struct CliCase {
    flags: (bool, bool, bool),
    proto: char,
    strat: char,
    unpriv: bool,
    sp: Option<u16>,
    tp: Option<u16>,
    first: u8,
    max: u8,
    inflight: u8,
    psize: u16,
    fam4: bool,
    initial: u16,
    pid: u16,
}

fn opt_tok<T: ToString>(x: Option<T>) -> String {
    x.map_or("-".to_string(), |v| v.to_string())
}

fn cli_case(run: &mut Run, c: CliCase) {
    let op = format!(
        "cfgb cli {}{}{} {} {} {} {} {} {} {} {} {} {} {} {}",
        u8::from(c.flags.0), u8::from(c.flags.1), u8::from(c.flags.2), c.proto, c.strat, u8::from(c.unpriv),
        opt_tok(c.sp), opt_tok(c.tp), c.first, c.max, c.inflight, c.psize, if c.fam4 { "4" } else { "o" }, c.initial, c.pid
    );
    let mut a = base_args();
    (a.udp, a.tcp, a.icmp) = c.flags;
    a.protocol = Some(match c.proto { 'i' => ProtocolConfig::Icmp, 'u' => ProtocolConfig::Udp, _ => ProtocolConfig::Tcp });
    a.multipath_strategy = Some(match c.strat {
        'c' => MultipathStrategyConfig::Classic,
        'p' => MultipathStrategyConfig::Paris,
        _ => MultipathStrategyConfig::Dublin,
    });
    a.unprivileged = c.unpriv;
    a.source_port = c.sp;
    a.target_port = c.tp;
    a.first_ttl = Some(c.first);
    a.max_ttl = Some(c.max);
    a.max_inflight = Some(c.inflight);
    a.packet_size = Some(c.psize);
    a.addr_family = Some(if c.fam4 { AddressFamilyConfig::Ipv4 } else { AddressFamilyConfig::Ipv6ThenIpv4 });
    a.initial_sequence = Some(c.initial);
    let res = guarded(|| verif_build_config(a, Sections::new().into_file(true), &privilege(), c.pid));
    let out = match res {
        Err(p) => {
            run.fail("c16-build-config-panics", format!("{op} ({p})"));
            "panic".to_string()
        }
        Ok(Err(_)) => {
            run.count("cli:err");
            "err".to_string()
        }
        Ok(Ok(cfg)) => {
            run.count("cli:ok");
            format!(
                "ok {} {} {} {} {} {} {} {} {}",
                proto_token(cfg.protocol), strat_token(cfg.multipath_strategy), pd_token(cfg.port_direction),
                cfg.first_ttl, cfg.max_ttl, cfg.initial_sequence, cfg.packet_size, cfg.max_inflight,
                u8::from(cfg.privilege_mode == PrivilegeMode::Privileged)
            )
        }
    };
    run.op(op, out);
}

fn cli_product(run: &mut Run, rng: &mut Rng, thorough: bool) {
    let flagsets = [(false, false, false), (true, false, false), (false, true, false), (false, false, true),
                    (true, true, false), (false, true, true), (true, true, true)];
    let ttls = [(1u8, 64u8), (0, 64), (1, 0), (255, 255), (254, 254), (30, 5), (5, 5), (1, 255)];
    let sizes = [27u16, 28, 47, 48, 84, 1024, 1025];
    let variants = if thorough { 12 } else { 2 };
    for flags in flagsets {
        for proto in ['i', 'u', 't'] {
            for strat in ['c', 'p', 'd'] {
                for unpriv in [false, true] {
                    for sp in [None, Some(80u16), Some(1023), Some(1024), Some(5000)] {
                        for tp in [None, Some(80u16), Some(33434)] {
                            // the defaults for everything else, then random variants of the rest
                            cli_case(run, CliCase { flags, proto, strat, unpriv, sp, tp, first: 1, max: 64, inflight: 24,
                                psize: 84, fam4: false, initial: 33434, pid: PID });
                            for _ in 0..variants {
                                let (first, max) = *rng.pick(&ttls);
                                cli_case(run, CliCase {
                                    flags, proto, strat, unpriv, sp, tp, first, max,
                                    inflight: *rng.pick(&[0u8, 1, 24, 255]),
                                    psize: *rng.pick(&sizes),
                                    fam4: rng.chance(1, 2),
                                    initial: *rng.pick(&[0u16, 33434, 64511, 64512, 65000]),
                                    pid: *rng.pick(&[0u16, 1, 1023, 1024, 4242, 65535]),
                                });
                            }
                        }
                    }
                }
            }
        }
    }
}

// ------------------------------------------------------------------------------------------------
// (ii) precedence
// ------------------------------------------------------------------------------------------------

/// One layered option: how to give it on the command line / in the file, how to observe its
/// effective value in the resulting `TrippyConfig`, and the three expected observations.
struct Opt {
    name: &'static str,
    /// give the option on the command line
    cli: fn(&mut Args),
    /// give the option in the file; `other` = a second value (used for flags when both are given:
    /// the file then says `false`)
    file: fn(&mut Sections, bool),
    /// the effective value as text
    get: fn(&TrippyConfig) -> String,
    want_cli: String,
    want_file: String,
    want_default: String,
    /// other settings needed for the values to be accepted / observable
    ctx: Option<fn(&mut Args)>,
    /// options whose observation the context (or this option's derived value) interferes with
    touches: &'static [&'static str],
    flag: bool,
}

fn dbg<T: std::fmt::Debug>(x: T) -> String {
    format!("{x:?}")
}
fn ms(n: u64) -> Duration {
    Duration::from_millis(n)
}
fn columns(s: &str) -> String {
    dbg(TuiColumns::try_from(s).expect("columns"))
}
fn udp_ctx(a: &mut Args) {
    a.udp = true;
}

#[allow(clippy::too_many_lines)]
fn options() -> Vec<Opt> {
    macro_rules! plain {
        ($name:literal, $sec:ident, $field:ident, $c:expr, $f:expr, |$cfg:ident| $get:expr, $wc:expr, $wf:expr, $wd:expr) => {
            Opt {
                name: $name,
                cli: |a: &mut Args| a.$field = Some($c),
                file: |s: &mut Sections, _o: bool| s.$sec.$field = Some($f),
                get: |$cfg: &TrippyConfig| $get,
                want_cli: $wc, want_file: $wf, want_default: $wd,
                ctx: None, touches: &[], flag: false,
            }
        };
    }
    macro_rules! flag {
        ($name:literal, $sec:ident, $field:ident, |$cfg:ident| $get:expr, $wt:expr, $wfalse:expr) => {
            Opt {
                name: $name,
                cli: |a: &mut Args| a.$field = true,
                file: |s: &mut Sections, other: bool| s.$sec.$field = Some(!other),
                get: |$cfg: &TrippyConfig| $get,
                want_cli: $wt, want_file: $wt, want_default: $wfalse,
                ctx: None, touches: &[], flag: true,
            }
        };
    }
    let s = |x: &str| x.to_string();
    let mut v = vec![
        plain!("mode", trippy, mode, Mode::Silent, Mode::Pretty, |c| dbg(c.mode), s("Silent"), s("Pretty"), s("Tui")),
        flag!("unprivileged", trippy, unprivileged, |c| dbg(c.privilege_mode), s("Unprivileged"), s("Privileged")),
        flag!("dns_resolve_all", dns, dns_resolve_all, |c| dbg(c.dns_resolve_all), s("true"), s("false")),
        plain!("log_format", trippy, log_format, LogFormat::Json, LogFormat::Compact, |c| dbg(c.log_format), s("Json"), s("Compact"), s("Pretty")),
        plain!("log_filter", trippy, log_filter, String::from("a=info"), String::from("b=warn"), |c| c.log_filter.clone(), s("a=info"), s("b=warn"), s("trippy=debug")),
        plain!("log_span_events", trippy, log_span_events, LogSpanEvents::Full, LogSpanEvents::Active, |c| dbg(c.log_span_events), s("Full"), s("Active"), s("Off")),
        plain!("protocol", strategy, protocol, ProtocolConfig::Udp, ProtocolConfig::Tcp, |c| dbg(c.protocol), s("Udp"), s("Tcp"), s("Icmp")),
        plain!("addr_family", strategy, addr_family, AddressFamilyConfig::Ipv6, AddressFamilyConfig::Ipv4, |c| dbg(c.addr_family), s("Ipv6Only"), s("Ipv4Only"), s("Ipv4thenIpv6")),
        plain!("target_port", strategy, target_port, 443u16, 8080u16, |c| dbg(c.port_direction.dest().map(|p| p.0)), s("Some(443)"), s("Some(8080)"), s("None")),
        plain!("source_port", strategy, source_port, 5000u16, 6000u16, |c| dbg(c.port_direction.src().map(|p| p.0)), s("Some(5000)"), s("Some(6000)"), format!("Some({PID})")),
        plain!("source_address", strategy, source_address, IpAddr::V4(Ipv4Addr::new(127, 0, 0, 1)), IpAddr::V4(Ipv4Addr::new(127, 0, 0, 2)), |c| dbg(c.source_addr), s("Some(127.0.0.1)"), s("Some(127.0.0.2)"), s("None")),
        plain!("interface", strategy, interface, String::from("eth7"), String::from("wlan9"), |c| dbg(&c.interface), s("Some(\"eth7\")"), s("Some(\"wlan9\")"), s("None")),
        plain!("min_round_duration", strategy, min_round_duration, ms(500), ms(800), |c| dbg(c.min_round_duration), s("500ms"), s("800ms"), s("1s")),
        plain!("max_round_duration", strategy, max_round_duration, ms(2000), ms(3000), |c| dbg(c.max_round_duration), s("2s"), s("3s"), s("1s")),
        plain!("initial_sequence", strategy, initial_sequence, 1000u16, 2000u16, |c| dbg(c.initial_sequence), s("1000"), s("2000"), s("33434")),
        plain!("multipath_strategy", strategy, multipath_strategy, MultipathStrategyConfig::Paris, MultipathStrategyConfig::Dublin, |c| dbg(c.multipath_strategy), s("Paris"), s("Dublin"), s("Classic")),
        plain!("grace_duration", strategy, grace_duration, ms(50), ms(200), |c| dbg(c.grace_duration), s("50ms"), s("200ms"), s("100ms")),
        plain!("max_inflight", strategy, max_inflight, 10u8, 12u8, |c| dbg(c.max_inflight), s("10"), s("12"), s("24")),
        plain!("first_ttl", strategy, first_ttl, 2u8, 3u8, |c| dbg(c.first_ttl), s("2"), s("3"), s("1")),
        plain!("max_ttl", strategy, max_ttl, 30u8, 40u8, |c| dbg(c.max_ttl), s("30"), s("40"), s("64")),
        plain!("packet_size", strategy, packet_size, 100u16, 200u16, |c| dbg(c.packet_size), s("100"), s("200"), s("84")),
        plain!("payload_pattern", strategy, payload_pattern, 1u8, 2u8, |c| dbg(c.payload_pattern), s("1"), s("2"), s("0")),
        plain!("tos", strategy, tos, 8u8, 16u8, |c| dbg(c.tos), s("8"), s("16"), s("0")),
        flag!("icmp_extensions", strategy, icmp_extensions, |c| dbg(c.icmp_extension_parse_mode), s("Enabled"), s("Disabled")),
        plain!("read_timeout", strategy, read_timeout, ms(20), ms(30), |c| dbg(c.read_timeout), s("20ms"), s("30ms"), s("10ms")),
        plain!("max_samples", strategy, max_samples, 10usize, 20usize, |c| dbg(c.max_samples), s("10"), s("20"), s("256")),
        plain!("max_flows", strategy, max_flows, 5usize, 6usize, |c| dbg(c.max_flows), s("5"), s("6"), s("64")),
        flag!("tui_preserve_screen", tui, tui_preserve_screen, |c| dbg(c.tui_preserve_screen), s("true"), s("false")),
        plain!("tui_refresh_rate", tui, tui_refresh_rate, ms(200), ms(300), |c| dbg(c.tui_refresh_rate), s("200ms"), s("300ms"), s("100ms")),
        plain!("tui_privacy_max_ttl", tui, tui_privacy_max_ttl, 3u8, 4u8, |c| dbg(c.tui_privacy_max_ttl), s("Some(3)"), s("Some(4)"), s("None")),
        // the boundary: a privacy TTL of 0 is a value of its own (hide the source, hide no hop), not "unset"
        Opt {
            name: "tui_privacy_max_ttl=0",
            cli: |a: &mut Args| a.tui_privacy_max_ttl = Some(0),
            file: |s: &mut Sections, _o: bool| s.tui.tui_privacy_max_ttl = Some(1),
            get: |c: &TrippyConfig| dbg(c.tui_privacy_max_ttl),
            want_cli: s("Some(0)"), want_file: s("Some(1)"), want_default: s("None"),
            ctx: None, touches: &["tui_privacy_max_ttl"], flag: false,
        },
        Opt {
            name: "tui_privacy_max_ttl=0 (file)",
            cli: |a: &mut Args| a.tui_privacy_max_ttl = Some(2),
            file: |s: &mut Sections, _o: bool| s.tui.tui_privacy_max_ttl = Some(0),
            get: |c: &TrippyConfig| dbg(c.tui_privacy_max_ttl),
            want_cli: s("Some(2)"), want_file: s("Some(0)"), want_default: s("None"),
            ctx: None, touches: &["tui_privacy_max_ttl", "tui_privacy_max_ttl=0"], flag: false,
        },
        plain!("tui_address_mode", tui, tui_address_mode, AddressMode::Ip, AddressMode::Both, |c| dbg(c.tui_address_mode), s("Ip"), s("Both"), s("Host")),
        plain!("tui_as_mode", tui, tui_as_mode, AsMode::Prefix, AsMode::Name, |c| dbg(c.tui_as_mode), s("Prefix"), s("Name"), s("Asn")),
        plain!("tui_custom_columns", tui, tui_custom_columns, String::from("hol"), String::from("hols"), |c| dbg(&c.tui_custom_columns), columns("hol"), columns("hols"), columns("holsravbwdt")),
        plain!("tui_icmp_extension_mode", tui, tui_icmp_extension_mode, IcmpExtensionMode::Full, IcmpExtensionMode::Mpls, |c| dbg(c.tui_icmp_extension_mode), s("Full"), s("Mpls"), s("Off")),
        plain!("tui_geoip_mode", tui, tui_geoip_mode, GeoIpMode::Short, GeoIpMode::Long, |c| dbg(c.tui_geoip_mode), s("Short"), s("Long"), s("Off")),
        plain!("tui_max_addrs", tui, tui_max_addrs, 3u8, 4u8, |c| dbg(c.tui_max_addrs), s("Some(3)"), s("Some(4)"), s("None")),
        plain!("dns_resolve_method", dns, dns_resolve_method, DnsResolveMethodConfig::Google, DnsResolveMethodConfig::Cloudflare, |c| dbg(c.dns_resolve_method), s("Google"), s("Cloudflare"), s("System")),
        plain!("tui_locale", tui, tui_locale, String::from("fr"), String::from("de"), |c| dbg(&c.tui_locale), s("Some(\"fr\")"), s("Some(\"de\")"), s("None")),
        plain!("tui_timezone", tui, tui_timezone, String::from("UTC"), String::from("Europe/London"), |c| dbg(c.tui_timezone), s("Some(UTC)"), s("Some(Europe/London)"), s("None")),
        flag!("dns_lookup_as_info", dns, dns_lookup_as_info, |c| dbg(c.dns_lookup_as_info), s("true"), s("false")),
        plain!("dns_timeout", dns, dns_timeout, ms(1000), ms(2000), |c| dbg(c.dns_timeout), s("1s"), s("2s"), s("5s")),
        plain!("dns_ttl", dns, dns_ttl, ms(10_000), ms(20_000), |c| dbg(c.dns_ttl), s("10s"), s("20s"), s("300s")),
        plain!("report_cycles", report, report_cycles, 3usize, 4usize, |c| dbg(c.report_cycles), s("3"), s("4"), s("10")),
        plain!("geoip_mmdb_file", tui, geoip_mmdb_file, String::from("a.mmdb"), String::from("b.mmdb"), |c| dbg(&c.geoip_mmdb_file), s("Some(\"a.mmdb\")"), s("Some(\"b.mmdb\")"), s("None")),
    ];
    for o in &mut v {
        match o.name {
            // the strategies other than classic are only accepted for UDP
            "multipath_strategy" => { o.ctx = Some(udp_ctx); o.touches = &["protocol"]; }
            // the ports are only observable (through `port_direction`) for UDP / TCP; both at once is a
            // derived-value matter (FixedBoth / error), not layering
            "source_port" => { o.ctx = Some(udp_ctx); o.touches = &["protocol", "target_port"]; }
            "target_port" => { o.ctx = Some(udp_ctx); o.touches = &["protocol", "source_port"]; }
            "tui_geoip_mode" => { o.ctx = Some(|a: &mut Args| a.geoip_mmdb_file = Some(String::from("ctx.mmdb"))); o.touches = &["geoip_mmdb_file"]; }
            "dns_lookup_as_info" => { o.ctx = Some(|a: &mut Args| a.dns_resolve_method = Some(DnsResolveMethodConfig::Resolv)); o.touches = &["dns_resolve_method"]; }
            _ => {}
        }
    }
    v
}

#[derive(Clone, Copy, PartialEq, Eq, Debug)]
enum St {
    Absent,
    File,
    Cli,
    Both,
}
const STATES: [St; 4] = [St::Absent, St::File, St::Cli, St::Both];

fn apply(o: &Opt, st: St, a: &mut Args, s: &mut Sections) {
    match st {
        St::Absent => {}
        St::File => (o.file)(s, false),
        St::Cli => (o.cli)(a),
        St::Both => {
            (o.cli)(a);
            (o.file)(s, true);
        }
    }
}

fn expected(o: &Opt, st: St) -> &str {
    match st {
        St::Absent => &o.want_default,
        St::File => &o.want_file,
        St::Cli | St::Both => &o.want_cli,
    }
}

fn precedence(run: &mut Run, rng: &mut Rng, thorough: bool) {
    let opts = options();
    let mut observed = vec![[0u64; 4]; opts.len()];
    let mut check = |run: &mut Run, ia: usize, sa: St, other: Option<(usize, St)>, absent_empty: bool| {
        let a_opt = &opts[ia];
        let mut args = base_args();
        let mut secs = Sections::new();
        if let Some(ctx) = a_opt.ctx { ctx(&mut args); }
        if let Some((ib, _)) = other { if let Some(ctx) = opts[ib].ctx { ctx(&mut args); } }
        apply(a_opt, sa, &mut args, &mut secs);
        if let Some((ib, sb)) = other { apply(&opts[ib], sb, &mut args, &mut secs); }
        let desc = format!(
            "option={} state={sa:?} other={} sections-absent-when-empty={absent_empty}",
            a_opt.name, other.map_or("-".to_string(), |(ib, sb)| format!("{}:{sb:?}", opts[ib].name))
        );
        match guarded(|| verif_build_config(args, secs.into_file(absent_empty), &privilege(), PID)) {
            Err(p) => run.fail("c16-build-config-panics", format!("{desc} ({p})")),
            Ok(Err(_)) => run.count("prec:combination-rejected"),
            Ok(Ok(cfg)) => {
                run.count("prec:checked");
                observed[ia][STATES.iter().position(|s| *s == sa).unwrap_or(0)] += 1;
                let got = (a_opt.get)(&cfg);
                let want = expected(a_opt, sa);
                if got != want {
                    run.fail("c16-precedence", format!("{desc}: effective value {got}, expected {want}"));
                }
                if let Some((ib, sb)) = other {
                    let got = (opts[ib].get)(&cfg);
                    let want = expected(&opts[ib], sb);
                    if got != want {
                        run.fail("c16-precedence", format!("{desc}: effective value of {} is {got}, expected {want}", opts[ib].name));
                    }
                }
            }
        }
    };
    // every option alone, both ways of leaving the other sections out
    for ia in 0..opts.len() {
        for sa in STATES {
            for absent_empty in [false, true] {
                check(run, ia, sa, None, absent_empty);
            }
        }
    }
    // pairwise
    for ia in 0..opts.len() {
        for ib in 0..opts.len() {
            if ia == ib { continue; }
            let (a, b) = (&opts[ia], &opts[ib]);
            if a.touches.contains(&b.name) || b.touches.contains(&a.name) {
                run.count("prec:pair-skipped-derived");
                continue;
            }
            for sa in STATES {
                for sb in STATES {
                    if !thorough && ia > ib && rng.chance(1, 2) { continue; }
                    check(run, ia, sa, Some((ib, sb)), rng.chance(1, 2));
                }
            }
        }
    }
    for (ia, o) in opts.iter().enumerate() {
        for (k, st) in STATES.iter().enumerate() {
            if observed[ia][k] == 0 {
                run.fail("c16-precedence-unobserved", format!("option={} state={st:?} never accepted", o.name));
            }
        }
        debug_assert!(o.flag || o.want_cli != o.want_file);
    }
    // all options at once: everything on the command line and (other values) in the file
    for (cli_all, file_all) in [(true, true), (true, false), (false, true), (false, false)] {
        let mut args = base_args();
        let mut secs = Sections::new();
        let skip = ["unprivileged", "dns_resolve_all", "mode", "source_port", "target_port", "protocol"];
        args.udp = true;
        args.geoip_mmdb_file = Some(String::from("ctx.mmdb"));
        for o in &opts {
            if skip.contains(&o.name) || o.name == "geoip_mmdb_file" || o.name.contains('=') { continue; }
            if cli_all { (o.cli)(&mut args); }
            if file_all { (o.file)(&mut secs, cli_all); }
        }
        match guarded(|| verif_build_config(args, secs.into_file(false), &privilege(), PID)) {
            Err(p) => run.fail("c16-build-config-panics", format!("all options cli={cli_all} file={file_all} ({p})")),
            Ok(Err(e)) => run.fail("c16-precedence", format!("all options cli={cli_all} file={file_all} rejected: {e}")),
            Ok(Ok(cfg)) => {
                for o in &opts {
                    if skip.contains(&o.name) || o.name == "geoip_mmdb_file" || o.name.contains('=') { continue; }
                    let st = match (cli_all, file_all) { (true, true) => St::Both, (true, false) => St::Cli, (false, true) => St::File, _ => St::Absent };
                    let got = (o.get)(&cfg);
                    if got != expected(o, st) {
                        run.fail("c16-precedence", format!("all options cli={cli_all} file={file_all}: {} is {got}, expected {}", o.name, expected(o, st)));
                    }
                    run.count("prec:all-at-once-checked");
                }
            }
        }
    }
}

pub fn run(rng: &mut Rng, thorough: bool, corpus: &[String]) -> Run {
    let mut run = Run::new();
    let _ = corpus;
    builder_product(&mut run);
    source_family(&mut run);
    cli_product(&mut run, rng, thorough);
    precedence(&mut run, rng, thorough);
    multi_target(&mut run);
    item_tables(&mut run);
    privilege_checks(&mut run);
    config_files(&mut run);
    locale_precedence(&mut run);
    dns_timeout_in_force(&mut run);
    timing_and_modes(&mut run);
    command_lines(&mut run);
    run
}

/// C16 begins at the command line: the documented spellings of the options (long names, the short letters of the
/// manual page, `item=value` lists, humantime durations, the `-4` / `-6` / `--udp` / `--tcp` shorthands) parsed by the
/// program's own `clap` definition give the `Args` the rest of this component constructs directly — and, through
/// `build_config`, the effective values.  Written from `trip --help`, not from cmd.rs.
fn command_lines(run: &mut Run) {
    use clap::Parser as _;
    let d = |x: &dyn std::fmt::Debug| format!("{x:?}");
    type Get = fn(&Args) -> String;
    let cases: Vec<(&[&str], Get, String)> = vec![
        (&["-f", "3"], |a| format!("{:?}", a.first_ttl), d(&Some(3u8))),
        (&["--first-ttl", "3"], |a| format!("{:?}", a.first_ttl), d(&Some(3u8))),
        (&["-t", "20"], |a| format!("{:?}", a.max_ttl), d(&Some(20u8))),
        (&["--max-ttl=20"], |a| format!("{:?}", a.max_ttl), d(&Some(20u8))),
        (&["-U", "7"], |a| format!("{:?}", a.max_inflight), d(&Some(7u8))),
        (&["-i", "250ms"], |a| format!("{:?}", a.min_round_duration), d(&Some(Duration::from_millis(250)))),
        (&["--min-round-duration", "2s"], |a| format!("{:?}", a.min_round_duration), d(&Some(Duration::from_secs(2)))),
        (&["-T", "1m 30s"], |a| format!("{:?}", a.max_round_duration), d(&Some(Duration::from_secs(90)))),
        (&["-g", "50000us"], |a| format!("{:?}", a.grace_duration), d(&Some(Duration::from_millis(50)))),
        (&["--read-timeout", "20ms"], |a| format!("{:?}", a.read_timeout), d(&Some(Duration::from_millis(20)))),
        (&["--dns-timeout", "3s"], |a| format!("{:?}", a.dns_timeout), d(&Some(Duration::from_secs(3)))),
        (&["--dns-ttl", "5m"], |a| format!("{:?}", a.dns_ttl), d(&Some(Duration::from_secs(300)))),
        (&["--tui-refresh-rate", "200ms"], |a| format!("{:?}", a.tui_refresh_rate), d(&Some(Duration::from_millis(200)))),
        (&["-P", "443"], |a| format!("{:?}", a.target_port), d(&Some(443u16))),
        (&["-S", "5000"], |a| format!("{:?}", a.source_port), d(&Some(5000u16))),
        (&["-A", "10.1.2.3"], |a| format!("{:?}", a.source_address), d(&Some(IpAddr::V4(Ipv4Addr::new(10, 1, 2, 3))))),
        (&["-A", "fd00::1"], |a| format!("{:?}", a.source_address), d(&Some("fd00::1".parse::<IpAddr>().unwrap()))),
        (&["-I", "eth7"], |a| format!("{:?}", a.interface), d(&Some("eth7".to_string()))),
        (&["--packet-size", "100"], |a| format!("{:?}", a.packet_size), d(&Some(100u16))),
        (&["--payload-pattern", "165"], |a| format!("{:?}", a.payload_pattern), d(&Some(165u8))),
        (&["-Q", "46"], |a| format!("{:?}", a.tos), d(&Some(46u8))),
        (&["--initial-sequence", "40000"], |a| format!("{:?}", a.initial_sequence), d(&Some(40000u16))),
        (&["-C", "5"], |a| format!("{:?}", a.report_cycles), d(&Some(5usize))),
        (&["-s", "99"], |a| format!("{:?}", a.max_samples), d(&Some(99usize))),
        (&["--max-flows", "9"], |a| format!("{:?}", a.max_flows), d(&Some(9usize))),
        (&["-M", "4"], |a| format!("{:?}", a.tui_max_addrs), d(&Some(4u8))),
        (&["--tui-privacy-max-ttl", "0"], |a| format!("{:?}", a.tui_privacy_max_ttl), d(&Some(0u8))),
        (&["--tui-locale", "fr"], |a| format!("{:?}", a.tui_locale), d(&Some("fr".to_string()))),
        (&["-G", "/x/y.mmdb"], |a| format!("{:?}", a.geoip_mmdb_file), d(&Some("/x/y.mmdb".to_string()))),
        (&["-c", "/x/trippy.toml"], |a| format!("{:?}", a.config_file), d(&Some("/x/trippy.toml".to_string()))),
        (&["-u"], |a| format!("{:?}", a.unprivileged), d(&true)),
        (&["-e"], |a| format!("{:?}", a.icmp_extensions), d(&true)),
        (&["-y"], |a| format!("{:?}", a.dns_resolve_all), d(&true)),
        (&["-z"], |a| format!("{:?}", a.dns_lookup_as_info), d(&true)),
        (&["-4"], |a| format!("{:?}/{:?}", a.ipv4, a.ipv6), "true/false".to_string()),
        (&["-6"], |a| format!("{:?}/{:?}", a.ipv4, a.ipv6), "false/true".to_string()),
        (&["--udp"], |a| format!("{:?}/{:?}/{:?}", a.udp, a.tcp, a.icmp), "true/false/false".to_string()),
        (&["--tcp"], |a| format!("{:?}/{:?}/{:?}", a.udp, a.tcp, a.icmp), "false/true/false".to_string()),
        (&["--icmp"], |a| format!("{:?}/{:?}/{:?}", a.udp, a.tcp, a.icmp), "false/false/true".to_string()),
        (&["-p", "udp"], |a| format!("{:?}", a.protocol), d(&Some(ProtocolConfig::Udp))),
        (&["-p", "tcp"], |a| format!("{:?}", a.protocol), d(&Some(ProtocolConfig::Tcp))),
        (&["-R", "dublin"], |a| format!("{:?}", a.multipath_strategy), d(&Some(MultipathStrategyConfig::Dublin))),
        (&["-R", "paris"], |a| format!("{:?}", a.multipath_strategy), d(&Some(MultipathStrategyConfig::Paris))),
        (&["-F", "ipv6"], |a| format!("{:?}", a.addr_family), d(&Some(AddressFamilyConfig::Ipv6))),
        (&["-r", "google"], |a| format!("{:?}", a.dns_resolve_method), d(&Some(DnsResolveMethodConfig::Google))),
        (&["-m", "json"], |a| format!("{:?}", a.mode), d(&Some(Mode::Json))),
        (&["-a", "both"], |a| format!("{:?}", a.tui_address_mode), d(&Some(AddressMode::Both))),
        (&["--tui-geoip-mode", "long"], |a| format!("{:?}", a.tui_geoip_mode), d(&Some(GeoIpMode::Long))),
        (&["--tui-custom-columns", "holsr"], |a| format!("{:?}", a.tui_custom_columns), d(&Some("holsr".to_string()))),
        (&["--tui-theme-colors", "bg-color=red,text-color=0a1b2c"], |a| format!("{:?}", a.tui_theme_colors.iter().map(|(i, c)| format!("{i:?}={c:?}")).collect::<Vec<_>>()), d(&vec!["BgColor=Red".to_string(), "TextColor=Rgb(10, 27, 44)".to_string()])),
        (&["--tui-key-bindings", "toggle-help=x,quit=ctrl+c"], |a| format!("{:?}", a.tui_key_bindings.iter().map(|(i, b)| format!("{i:?}={b}")).collect::<Vec<_>>()), d(&vec!["ToggleHelp=x".to_string(), "Quit=ctrl+c".to_string()])),
        // the `=` key is an ordinary key (the default of chart-zoom-in): the item ends at the *first* `=`
        (&["--tui-key-bindings", "chart-zoom-in=alt+9,toggle-freeze=="], |a| format!("{:?}", a.tui_key_bindings.iter().map(|(i, b)| format!("{i:?}={b}")).collect::<Vec<_>>()), d(&vec!["ChartZoomIn=alt+9".to_string(), "ToggleFreeze==".to_string()])),
        (&["--tui-key-bindings", "toggle-freeze=ctrl+="], |a| format!("{:?}", a.tui_key_bindings.iter().map(|(i, b)| format!("{i:?}={b}")).collect::<Vec<_>>()), d(&vec!["ToggleFreeze=ctrl+=".to_string()])),
        (&["--tui-key-bindings", "contract-hosts-min={,expand-hosts-max=}"], |a| format!("{:?}", a.tui_key_bindings.iter().map(|(i, b)| format!("{i:?}={b}")).collect::<Vec<_>>()), d(&vec!["ContractHostsMin={".to_string(), "ExpandHostsMax=}".to_string()])),
    ];
    for (argv, get, want) in cases {
        let mut full: Vec<&str> = vec!["trip"];
        full.extend(argv.iter().copied());
        full.push("example.com");
        run.count("cli:parsed");
        match guarded(|| Args::try_parse_from(&full)) {
            Err(p) => run.fail("c16-build-config-panics", format!("parsing `{}`: {p}", full.join(" "))),
            Ok(Err(e)) => run.fail("c16-cli-parse", format!("`{}` is refused: {}", full.join(" "), e.to_string().lines().next().unwrap_or(""))),
            Ok(Ok(a)) => {
                let got = get(&a);
                if got != want || a.targets != ["example.com"] {
                    run.fail("c16-cli-parse", format!("`{}`: the option reads {got}, expected {want}; targets {:?}", full.join(" "), a.targets));
                }
            }
        }
    }
    // what must be refused at the command line
    for argv in [&["--tui-key-bindings", "toggle-privacy=p"][..], &["-A", "10.0.0.1", "-I", "eth0"], &["--first-ttl", "256"], &["-i", "fast"], &["--tui-theme-colors", "bg-color"], &["-p", "sctp"]] {
        let mut full: Vec<&str> = vec!["trip"];
        full.extend(argv.iter().copied());
        full.push("example.com");
        if let Ok(Ok(_)) = guarded(|| Args::try_parse_from(&full)) {
            run.fail("c16-cli-parse", format!("`{}` is accepted", full.join(" ")));
        }
        run.count("cli:refused-checked");
    }
}

/// C16, the validators of `build_config` that do not concern the strategy: timing ranges (every duration just inside
/// and just outside its documented range, the round's minimum against its maximum, report cycles) and the mode /
/// resolver / GeoIP combinations — the real `build_config` against `Builder.validateTiming` / `validateFlows` /
/// `validateDns` / `validateGeoip`, and against the documented ranges directly (`c16-timing-range`).
fn timing_and_modes(run: &mut Run) {
    let ms = Duration::from_millis;
    for rt in [9u64, 10, 50, 100, 101] {
        for (mn, mx) in [(1000u64, 1000u64), (1001, 1000), (0, 0), (500, 1000), (1, 0)] {
            for g in [9u64, 10, 100, 1000, 1001] {
                for rf in [49u64, 50, 100, 1000, 1001] {
                    for cy in [0usize, 1, 10] {
                        let mut a = base_args();
                        a.read_timeout = Some(ms(rt));
                        a.min_round_duration = Some(ms(mn));
                        a.max_round_duration = Some(ms(mx));
                        a.grace_duration = Some(ms(g));
                        a.tui_refresh_rate = Some(ms(rf));
                        a.report_cycles = Some(cy);
                        let op = format!("cfgb timing {} {} {} {} {} {cy}", rt * 1_000_000, mn * 1_000_000, mx * 1_000_000, g * 1_000_000, rf * 1_000_000);
                        let got = guarded(|| verif_build_config(a, Sections::new().into_file(true), &privilege(), PID)).ok().map(|r| r.is_ok());
                        let want = (10..=100).contains(&rt) && mn <= mx && (10..=1000).contains(&g) && (50..=1000).contains(&rf) && cy > 0;
                        match got {
                            None => run.fail("c16-build-config-panics", op.clone()),
                            Some(ok) if ok != want => run.fail("c16-timing-range", format!(
                                "read-timeout {rt}ms min-round {mn}ms max-round {mx}ms grace {g}ms refresh {rf}ms report-cycles {cy}: accepted={ok}, the documented ranges say {want}")),
                            Some(_) => {}
                        }
                        run.op(op, match got { None => "panic", Some(true) => "ok", Some(false) => "err" }.to_string());
                    }
                }
            }
        }
    }
    let modes = [("tui", Mode::Tui), ("stream", Mode::Stream), ("pretty", Mode::Pretty), ("markdown", Mode::Markdown), ("csv", Mode::Csv),
                 ("json", Mode::Json), ("dot", Mode::Dot), ("flows", Mode::Flows), ("silent", Mode::Silent)];
    for (mname, mode) in modes {
        for strat in ['c', 'p', 'd'] {
            for system in [true, false] {
                for as_info in [false, true] {
                    for geo_off in [true, false] {
                        for mmdb in [false, true] {
                            let mut a = base_args();
                            a.mode = Some(mode);
                            a.udp = true;
                            a.multipath_strategy = Some(match strat { 'c' => MultipathStrategyConfig::Classic, 'p' => MultipathStrategyConfig::Paris, _ => MultipathStrategyConfig::Dublin });
                            a.dns_resolve_method = Some(if system { DnsResolveMethodConfig::System } else { DnsResolveMethodConfig::Google });
                            a.dns_lookup_as_info = as_info;
                            a.tui_geoip_mode = Some(if geo_off { GeoIpMode::Off } else { GeoIpMode::Short });
                            a.geoip_mmdb_file = if mmdb { Some("/nonexistent/GeoLite2-City.mmdb".to_string()) } else { None };
                            let op = format!("cfgb modes {mname} {strat} {} {} {} {}", u8::from(system), u8::from(as_info), u8::from(geo_off), u8::from(mmdb));
                            let got = guarded(|| verif_build_config(a, Sections::new().into_file(true), &privilege(), PID)).ok().map(|r| r.is_ok());
                            if got.is_none() { run.fail("c16-build-config-panics", op.clone()); }
                            run.op(op, match got { None => "panic", Some(true) => "ok", Some(false) => "err" }.to_string());
                        }
                    }
                }
            }
        }
    }
}

/// C16 one step further than `TrippyConfig`: the value of `--dns-timeout` is in force in the resolver the application
/// starts from it (`start_dns_resolver`: `DnsResolver::start(Config::new(method, family, timeout, ttl))`) — for the
/// `resolv` method, whose options are read from the system configuration first.  Only where `/etc/resolv.conf` names
/// the loopback address as its sole name server and port 53 can be bound: a name server that never answers is put
/// there, and a blocking reverse look-up with a 150 ms time-out has to give up within a few multiples of it (the
/// system configuration's own time-out is 5 s per attempt).
fn dns_timeout_in_force(run: &mut Run) {
    let conf = std::fs::read_to_string("/etc/resolv.conf").unwrap_or_default();
    let servers: Vec<&str> = conf.lines().filter_map(|l| l.trim().strip_prefix("nameserver")).map(str::trim).collect();
    if servers != ["127.0.0.1"] {
        run.count("dns:resolv-conf-not-loopback");
        return;
    }
    let Ok(sock) = std::net::UdpSocket::bind("127.0.0.1:53") else {
        run.count("dns:port-53-unavailable");
        return;
    };
    let _ = sock.set_read_timeout(Some(Duration::from_millis(50)));
    let stop = std::sync::Arc::new(std::sync::atomic::AtomicBool::new(false));
    let s2 = stop.clone();
    let server = std::thread::spawn(move || {
        let mut buf = [0u8; 1500];
        let mut seen = 0usize;
        while !s2.load(std::sync::atomic::Ordering::SeqCst) {
            if sock.recv_from(&mut buf).is_ok() { seen += 1; }
        }
        seen
    });
    let mut args = base_args();
    args.dns_resolve_method = Some(DnsResolveMethodConfig::Resolv);
    args.dns_timeout = Some(Duration::from_millis(150));
    if let Ok(Ok(cfg)) = guarded(|| verif_build_config(args, Sections::new().into_file(true), &privilege(), PID)) {
        // (the resolver is started and asked on a thread of its own: if the time-out is not in force the look-up blocks
        // for the system configuration's 5 s per attempt, or for the cache lifetime, and is not waited for)
        let (method, family, timeout, ttl) = (cfg.dns_resolve_method, cfg.addr_family, cfg.dns_timeout, cfg.dns_ttl);
        let (tx, rx) = std::sync::mpsc::channel();
        let t0 = std::time::Instant::now();
        std::thread::spawn(move || {
            use trippy_dns::Resolver as _;
            // exactly the call of `app::start_dns_resolver`
            let out = match trippy_dns::DnsResolver::start(trippy_dns::Config::new(method, family, timeout, ttl)) {
                Ok(resolver) => format!("{:?}", resolver.reverse_lookup(IpAddr::V4(Ipv4Addr::new(10, 11, 12, 13)))),
                Err(e) => format!("resolver not started: {e}"),
            };
            let _ = tx.send(out);
        });
        match rx.recv_timeout(Duration::from_secs(4)) {
            Ok(out) if out.starts_with("resolver not started") => run.count("dns:resolver-unavailable"),
            Ok(_) => run.count("dns:timeout-checked"),
            Err(_) => {
                run.count("dns:timeout-checked");
                run.fail("c16-dns-timeout-not-in-force", format!(
                    "--dns-resolve-method resolv --dns-timeout 150ms, a name server that does not answer: the reverse look-up is still waiting after {:?}", t0.elapsed()));
            }
        }
    }
    stop.store(true, std::sync::atomic::Ordering::SeqCst);
    if server.join().unwrap_or(0) == 0 { run.count("dns:no-query-seen"); }
}

/// C16 for the UI locale, whose default is not a constant but the *system* locale: `--tui-locale` (or `tui-locale` in
/// the file) over the system locale (`LANG` & co.) over English; an unsupported region falls back to its language, an
/// unsupported language to English.  The option travels the application's way (`build_config` → `cfg.tui_locale` →
/// `set_locale`, as `run_trippy` calls it) under several values of the locale environment variables.
fn locale_precedence(run: &mut Run) {
    let vars = ["LANGUAGE", "LC_ALL", "LC_MESSAGES", "LANG"];
    let saved: Vec<(&str, Option<std::ffi::OsString>)> = vars.iter().map(|k| (*k, std::env::var_os(k))).collect();
    let available = trippy_tui::verif::available_locales();
    let language = |l: &str| l.split(['-', '_', '.']).next().unwrap_or("en").to_string();
    // what a requested / system locale resolves to, from the list of locales the program ships
    let resolve = |l: &str| -> String {
        let l = l.split('.').next().unwrap_or(l).replace('_', "-");
        if available.contains(&l.as_str()) { l } else if available.contains(&language(&l).as_str()) { language(&l) } else { "en".to_string() }
    };
    for sys in [None, Some("de_DE.UTF-8"), Some("fr_FR.UTF-8"), Some("C"), Some("ja_JP.UTF-8"), Some("zh_CN.UTF-8")] {
        for v in vars { std::env::remove_var(v); }
        if let Some(s) = sys { std::env::set_var("LANG", s); }
        // the system locale as the program's own dependency reports it (an environment in which it cannot be read is skipped)
        let requested: [(Option<&str>, bool); 7] = [(None, false), (Some("fr"), false), (Some("zh"), true), (Some("pt-BR"), false), (Some("de"), true), (Some("xx"), false), (Some("en"), false)];
        for (req, in_file) in requested {
            let mut args = base_args();
            let mut secs = Sections::new();
            if let Some(r) = req {
                if in_file { secs.tui.tui_locale = Some(r.to_string()); } else { args.tui_locale = Some(r.to_string()); }
            }
            let Ok(Ok(cfg)) = guarded(|| verif_build_config(args, secs.into_file(true), &privilege(), PID)) else {
                run.count("locale:config-rejected");
                continue;
            };
            let Ok(got) = guarded(|| trippy_tui::verif::set_locale(cfg.tui_locale.as_deref())) else {
                run.fail("c16-build-config-panics", format!("set_locale({:?}) with LANG={sys:?}", cfg.tui_locale));
                continue;
            };
            run.count("locale:checked");
            let want = match (req, sys) {
                (Some(r), _) => resolve(r),
                (None, Some(s)) => resolve(s),
                (None, None) => "en".to_string(),
            };
            // (with no request and no LANG the system locale may still come from elsewhere: not judged)
            if (req.is_some() || sys.is_some()) && got != want {
                run.fail("c16-locale-precedence", format!(
                    "tui-locale {} with LANG={}: the UI runs in [{got}], expected [{want}] (command line / file over the system locale over English)",
                    req.map_or("not given".to_string(), |r| format!("= {r} ({})", if in_file { "file" } else { "command line" })), sys.unwrap_or("unset")));
            }
        }
    }
    for (k, v) in saved {
        match v { Some(v) => std::env::set_var(k, v), None => std::env::remove_var(k) }
    }
    let _ = trippy_tui::verif::set_locale(Some("en"));
}

/// C16, the file layer as the program reads it (`TrippyConfig::from`): a configuration file in any of the documented
/// default locations — `trippy.toml` or `.trippy.toml` in the current directory, the home directory, the XDG
/// configuration directory (`$XDG_CONFIG_HOME`, else `~/.config`) and its `trippy` sub-directory — is in force when
/// no `--config-file` is given; of several the first in that order is used; `--config-file` names the file outright;
/// a command-line value still beats the file's.  Every location is tried alone and against every later one, in a
/// scratch directory tree with HOME / XDG_CONFIG_HOME / the current directory pointing into it.
fn config_files(run: &mut Run) {
    let root = std::env::temp_dir().join(format!("tvh-cfgfiles-{}", std::process::id()));
    let (cwd, home, xdg) = (root.join("cwd"), root.join("home"), root.join("xdg"));
    let saved_cwd = std::env::current_dir().ok();
    let saved_env: Vec<(&str, Option<std::ffi::OsString>)> = ["HOME", "XDG_CONFIG_HOME"].iter().map(|k| (*k, std::env::var_os(k))).collect();
    let first_ttl = |args: Args| -> Option<Result<u8, String>> {
        guarded(|| TrippyConfig::from(args, &privilege(), PID)).ok().map(|r| r.map(|c| c.first_ttl).map_err(|e| e.to_string()))
    };
    for xdg_set in [true, false] {
        // (description, directory) in the documented order of precedence
        let xdg_dir = if xdg_set { xdg.clone() } else { home.join(".config") };
        let xdg_name = if xdg_set { "$XDG_CONFIG_HOME" } else { "~/.config" };
        let mut locations: Vec<(String, std::path::PathBuf)> = vec![];
        for (dname, dir) in [("the current directory".to_string(), cwd.clone()), ("the home directory".to_string(), home.clone()),
                             (xdg_name.to_string(), xdg_dir.clone()), (format!("{xdg_name}/trippy"), xdg_dir.join("trippy"))] {
            for fname in ["trippy.toml", ".trippy.toml"] {
                locations.push((format!("{fname} in {dname}"), dir.join(fname)));
            }
        }
        let reset = |present: &[(usize, u8)]| -> bool {
            let _ = std::fs::remove_dir_all(&root);
            for d in [&cwd, &home, &xdg, &xdg_dir, &xdg_dir.join("trippy")] {
                if std::fs::create_dir_all(d).is_err() { return false; }
            }
            for (i, ttl) in present {
                if std::fs::write(&locations[*i].1, format!("[strategy]\nfirst-ttl = {ttl}\n")).is_err() { return false; }
            }
            std::env::set_var("HOME", &home);
            if xdg_set { std::env::set_var("XDG_CONFIG_HOME", &xdg); } else { std::env::remove_var("XDG_CONFIG_HOME"); }
            std::env::set_current_dir(&cwd).is_ok()
        };
        // nothing anywhere: the default
        if !reset(&[]) {
            run.count("cfgfiles:scratch-unavailable");
            break;
        }
        if let Some(Ok(t)) = first_ttl(base_args()) {
            if t != 1 { run.fail("c16-config-file-location", format!("no configuration file anywhere: first-ttl {t}, default 1")); }
        }
        // the file in the encodings the reader accepts (byte-order-mark sniffing), and with CRLF line ends
        if xdg_set {
            let text = "[strategy]\r\nfirst-ttl = 9\r\n\r\n[tui]\r\ntui-privacy-max-ttl = 3\r\n";
            let utf16 = |be: bool| -> Vec<u8> {
                let mut v: Vec<u8> = if be { vec![0xfe, 0xff] } else { vec![0xff, 0xfe] };
                for u in text.encode_utf16() { v.extend(if be { u.to_be_bytes() } else { u.to_le_bytes() }); }
                v
            };
            let forms: [(&str, Vec<u8>); 4] = [
                ("UTF-8, CRLF", text.as_bytes().to_vec()),
                ("UTF-8 with a byte-order mark", [&[0xef, 0xbb, 0xbf][..], text.as_bytes()].concat()),
                ("UTF-16 little-endian with a byte-order mark", utf16(false)),
                ("UTF-16 big-endian with a byte-order mark", utf16(true)),
            ];
            for (what, bytes) in forms {
                if !reset(&[]) || std::fs::write(&locations[0].1, &bytes).is_err() { continue; }
                run.count("cfgfiles:encoding");
                let got = guarded(|| TrippyConfig::from(base_args(), &privilege(), PID)).ok().map(|r| r.map(|c| (c.first_ttl, c.tui_privacy_max_ttl)).map_err(|e| e.to_string()));
                match got {
                    Some(Ok((9, Some(3)))) => {}
                    other => run.fail("c16-config-file-location", format!("configuration file in the current directory, {what}, setting first-ttl = 9 and tui-privacy-max-ttl = 3: effective {other:?}")),
                }
            }
        }
        for i in 0..locations.len() {
            let ttl_i = 2 + i as u8;
            // alone
            if !reset(&[(i, ttl_i)]) { continue; }
            run.count("cfgfiles:location");
            match first_ttl(base_args()) {
                Some(Ok(t)) if t == ttl_i => {}
                other => run.fail("c16-config-file-location", format!(
                    "the only configuration file is {} (XDG_CONFIG_HOME {}), it sets first-ttl = {ttl_i}: effective first-ttl {other:?}",
                    locations[i].0, if xdg_set { "set" } else { "not set" })),
            }
            // the command line beats it, other options of the file stay (here: none) — and an explicit file beats the default one
            let mut a = base_args();
            a.first_ttl = Some(20);
            match first_ttl(a) {
                Some(Ok(20)) => {}
                other => run.fail("c16-config-file-location", format!("--first-ttl 20 with {} setting first-ttl = {ttl_i}: effective {other:?}", locations[i].0)),
            }
            let explicit = root.join("explicit.toml");
            if std::fs::write(&explicit, "[strategy]\nfirst-ttl = 30\n").is_ok() {
                let mut a = base_args();
                a.config_file = Some(explicit.to_string_lossy().into_owned());
                match first_ttl(a) {
                    Some(Ok(30)) => {}
                    other => run.fail("c16-config-file-location", format!("--config-file (first-ttl = 30) with {} also present: effective {other:?}", locations[i].0)),
                }
            }
            // against every later location: the earlier one is used
            for j in i + 1..locations.len() {
                let ttl_j = 2 + j as u8;
                if !reset(&[(i, ttl_i), (j, ttl_j)]) { continue; }
                run.count("cfgfiles:pair");
                match first_ttl(base_args()) {
                    Some(Ok(t)) if t == ttl_i => {}
                    other => run.fail("c16-config-file-location", format!(
                        "configuration files {} (first-ttl = {ttl_i}) and {} (first-ttl = {ttl_j}): effective first-ttl {other:?}, the first is documented to be used",
                        locations[i].0, locations[j].0)),
                }
            }
        }
    }
    if let Some(d) = saved_cwd { let _ = std::env::set_current_dir(d); }
    for (k, v) in saved_env {
        match v { Some(v) => std::env::set_var(k, v), None => std::env::remove_var(k) }
    }
    let _ = std::fs::remove_dir_all(&root);
}

/// C16 ("an unsupported combination is rejected up front"): privileges.  (i) the acceptance matrix of
/// `build_config` over privilege mode x has-privileges x platform-needs-privileges: privileged mode needs the
/// privileges, unprivileged mode needs a platform that supports it; (ii) what `Privilege::discover()` reports for
/// this process against the kernel's own account (`CapEff` bit 13 = CAP_NET_RAW in /proc/self/status; Linux has no
/// unprivileged ICMP socket with IP_HDRINCL, so it always needs privileges); (iii) with the discovered privileges
/// `--unprivileged` is refused on this platform.  Read-only: nothing is acquired or dropped.
fn privilege_checks(run: &mut Run) {
    let accepts = |unprivileged: bool, p: &Privilege| -> Option<bool> {
        let mut a = base_args();
        a.unprivileged = unprivileged;
        guarded(|| verif_build_config(a, Sections::new().into_file(true), p, PID)).ok().map(|r| r.is_ok())
    };
    for unprivileged in [false, true] {
        for has in [false, true] {
            for needs in [false, true] {
                run.count("privilege:matrix");
                let want = if unprivileged { !needs } else { has };
                let got = accepts(unprivileged, &Privilege::new(has, needs));
                run.op(format!("cfgb priv {} {} {}", u8::from(unprivileged), u8::from(has), u8::from(needs)),
                    match got { None => "panic", Some(true) => "ok", Some(false) => "err" }.to_string());
                match got {
                    None => run.fail("c16-build-config-panics", format!("unprivileged={unprivileged} has={has} needs={needs}")),
                    Some(got) if got != want => run.fail("c16-privilege-matrix", format!(
                        "unprivileged={unprivileged} has_privileges={has} needs_privileges={needs}: accepted={got}, expected {want}")),
                    Some(_) => {}
                }
            }
        }
    }
    if !cfg!(target_os = "linux") {
        run.count("privilege:discover-skipped-not-linux");
        return;
    }
    let cap_eff = std::fs::read_to_string("/proc/self/status").ok().and_then(|s| {
        s.lines().find_map(|l| l.strip_prefix("CapEff:").and_then(|v| u64::from_str_radix(v.trim(), 16).ok()))
    });
    let (Some(cap_eff), Ok(p)) = (cap_eff, Privilege::discover()) else {
        run.count("privilege:discover-unavailable");
        return;
    };
    run.count("privilege:discover");
    let truth_has = cap_eff & (1 << 13) != 0;
    if p.has_privileges() != truth_has || !p.needs_privileges() {
        run.fail("c16-privilege-discovery", format!(
            "Privilege::discover() = (has {}, needs {}); the kernel says CAP_NET_RAW effective = {truth_has}, and Linux always needs privileges for raw ICMP",
            p.has_privileges(), p.needs_privileges()));
    }
    if accepts(true, &p) == Some(true) {
        run.fail("c16-privilege-discovery", format!(
            "--unprivileged is accepted with the discovered privileges (has {}, needs {}) on a platform without unprivileged ICMP sockets",
            p.has_privileges(), p.needs_privileges()));
    }
}

/// top-level `field: value` pairs of a `Debug`-formatted struct (`Name { a: X, b: Y { .. }, .. }`)
fn debug_fields(s: &str) -> Vec<(String, String)> {
    let Some(open) = s.find('{') else { return vec![] };
    let body = &s[open + 1..s.rfind('}').unwrap_or(s.len())];
    let (mut out, mut depth, mut cur) = (vec![], 0i32, String::new());
    let mut chars = body.chars();
    while let Some(ch) = chars.next() {
        match ch {
            // a character literal (`Char('{')`): copied, not interpreted
            '\'' => {
                cur.push(ch);
                if let Some(c1) = chars.next() {
                    cur.push(c1);
                    if c1 == '\\' { if let Some(c2) = chars.next() { cur.push(c2); } }
                    if let Some(q) = chars.next() { cur.push(q); }
                }
            }
            '{' | '(' | '[' => { depth += 1; cur.push(ch); }
            '}' | ')' | ']' => { depth -= 1; cur.push(ch); }
            ',' if depth == 0 => { out.push(std::mem::take(&mut cur)); }
            _ => cur.push(ch),
        }
    }
    if !cur.trim().is_empty() { out.push(cur); }
    out.into_iter().filter_map(|f| f.split_once(':').map(|(k, v)| (k.trim().to_string(), v.trim().to_string()))).collect()
}

/// the `key = "value"` lines of one section of the documented sample configuration file
fn sample_section(section: &str) -> Vec<(String, String)> {
    let repo = std::env::var("VERIF_REPO").unwrap_or_else(|_| "/repo".into());
    let Ok(text) = std::fs::read_to_string(format!("{repo}/trippy-config-sample.toml")) else { return vec![] };
    let mut inside = false;
    let mut out = vec![];
    for line in text.lines() {
        let l = line.trim();
        if l.starts_with('[') { inside = l == format!("[{section}]"); continue; }
        if !inside || l.starts_with('#') { continue; }
        if let Some((k, v)) = l.split_once('=') {
            out.push((k.trim().to_string(), v.trim().trim_matches('"').to_string()));
        }
    }
    out
}

/// C16 for the two item tables that are layered outside `build_config`'s `cfg_layer` calls: the theme colours
/// (`--tui-theme-colors item=colour`, `[theme-colors]`) and the key bindings (`--tui-key-bindings command=key`,
/// `[bindings]`).  The items and their documented defaults are read from the repository's sample configuration
/// file; for every item: nothing given => the documented default; file only => the file's value; command line
/// only => its value; both => the command line's; and every *other* item keeps its default (independence).
/// The effective values are read from the `Debug` rendering of `TuiTheme` / `TuiBindings`, field = item name
/// (without the `-color` suffix for colours); an item whose field cannot be found that way is counted, not failed.
fn item_tables(run: &mut Run) {
    for (section, suffix, values) in [("theme-colors", "-color", ["red", "blue", "magenta"]), ("bindings", "", ["alt+x", "alt+y", "alt+w"])] {
        let items = sample_section(section);
        if items.is_empty() {
            run.count(&format!("items:{section}:sample-file-unreadable"));
            continue;
        }
        let render = |cli: Option<(&str, &str)>, file: Option<(&str, &str)>| -> Option<Vec<(String, String)>> {
            let mut args = base_args();
            let mut cf = Sections::new().into_file(true);
            if let Some((k, v)) = cli {
                if section == "theme-colors" {
                    args.tui_theme_colors = vec![(k.parse().ok()?, TryFrom::try_from(v.to_string()).ok()?)];
                } else {
                    args.tui_key_bindings = vec![(k.parse().ok()?, TryFrom::try_from(v).ok()?)];
                }
            }
            if let Some((k, v)) = file {
                let text = format!("{k} = \"{v}\"\n");
                if section == "theme-colors" {
                    cf.theme_colors = Some(toml::from_str(&text).ok()?);
                } else {
                    cf.bindings = Some(toml::from_str(&text).ok()?);
                }
            }
            match guarded(|| verif_build_config(args, cf, &privilege(), PID)) {
                Ok(Ok(cfg)) => {
                    let mut fields = debug_fields(&if section == "theme-colors" { dbg(&cfg.tui_theme) } else { dbg(&cfg.tui_bindings) });
                    // … and what the user interface is handed (`make_tui_config`: `Theme::from(TuiTheme)`,
                    // `Bindings::from(TuiBindings)`), field by field under the name `ui.<field>`
                    if let Ok(tc) = guarded(|| trippy_tui::verif::verif_make_tui_config(&cfg, "en".to_string())) {
                        let ui = debug_fields(&if section == "theme-colors" { dbg(&tc.theme) } else { dbg(&tc.bindings) });
                        fields.extend(ui.into_iter().map(|(k, v)| (format!("ui.{k}"), v)));
                    }
                    Some(fields)
                }
                _ => None,
            }
        };
        let Some(base) = render(None, None) else {
            run.count(&format!("items:{section}:default-config-rejected"));
            continue;
        };
        let field_of = |k: &str| k.strip_suffix(suffix).unwrap_or(k).replace('-', "_");
        let lookup = |fields: &[(String, String)], f: &str| fields.iter().find(|(k, _)| k == f).map(|(_, v)| v.clone());
        // the Debug text of a value given as documented text: through the command line at the item itself
        for (k, documented) in &items {
            let f = field_of(k);
            let Some(default_shown) = lookup(&base, &f) else {
                run.count(&format!("items:{section}:field-not-found:{k}"));
                continue;
            };
            run.count(&format!("items:{section}"));
            // value texts different from the documented default
            let vs: Vec<&str> = values.iter().copied().filter(|v| v != documented).take(2).collect();
            let (vf, vc) = (vs[0], vs[1]);
            let shown = |v: &str| render(Some((k, v)), None).and_then(|r| lookup(&r, &f));
            let cases: [(&str, Option<(&str, &str)>, Option<(&str, &str)>, Option<&str>); 4] = [
                ("default", None, None, None),
                ("file", None, Some((k, vf)), Some(vf)),
                ("cli", Some((k, vc)), None, Some(vc)),
                ("both", Some((k, vc)), Some((k, vf)), Some(vc)),
            ];
            // what the documented default looks like when given explicitly
            if let Some(d) = shown(documented) {
                if d != default_shown {
                    run.fail("c16-item-default", format!("[{section}] {k}: nothing given => {default_shown}, the documented default \"{documented}\" is {d}"));
                }
            }
            // a colour given as six hexadecimal digits is that colour (red, green, blue in this order)
            if section == "theme-colors" {
                for (text, want) in [("0a1b2c", "Rgb(10, 27, 44)"), ("ff0080", "Rgb(255, 0, 128)")] {
                    for cli in [true, false] {
                        let r = if cli { render(Some((k, text)), None) } else { render(None, Some((k, text))) };
                        match r.and_then(|r| lookup(&r, &f)) {
                            Some(got) if got != want => run.fail("c16-item-value", format!("[{section}] {k} = \"{text}\" ({}): effective value {got}, expected {want}", if cli { "cli" } else { "file" })),
                            _ => run.count("items:hex-colour"),
                        }
                    }
                }
            }
            for (what, cli, file, want) in cases {
                let Some(got) = render(cli, file) else {
                    run.count(&format!("items:{section}:rejected"));
                    continue;
                };
                run.count("items:checked");
                if let Some(wv) = want {
                    // the expected rendering of the value: the same text given the other way round (file <-> cli)
                    let expect = if what == "file" { shown(wv) } else { render(None, Some((k, wv))).and_then(|r| lookup(&r, &f)) };
                    let here = lookup(&got, &f);
                    if here.as_deref() == Some(default_shown.as_str()) {
                        run.fail("c16-item-precedence", format!("[{section}] {k} given as \"{wv}\" ({what}): the effective value is still the default {default_shown}"));
                    } else if expect.is_some() && here != expect && what != "both" {
                        run.fail("c16-item-precedence", format!("[{section}] {k} = \"{wv}\" ({what}): effective value {here:?}, the same text given the other way gives {expect:?}"));
                    }
                    if what == "both" {
                        let cli_only = render(cli, None).and_then(|r| lookup(&r, &f));
                        if here != cli_only {
                            run.fail("c16-item-precedence", format!("[{section}] {k}: command line \"{vc}\" and file \"{vf}\": effective value {here:?}, command line alone gives {cli_only:?}"));
                        }
                    }
                }
                // the user interface is handed the same option under the same name: its field changes exactly when the
                // option is given, and two ways of giving one value agree
                let uif = format!("ui.{f}");
                if let (Some(ub), Some(ug)) = (lookup(&base, &uif), lookup(&got, &uif)) {
                    if want.is_some() && ug == ub {
                        run.fail("c16-item-precedence", format!("[{section}] {k} given ({what}): the user interface's {f} is still the default {ub}"));
                    }
                    if what == "default" && ug != ub {
                        run.fail("c16-item-precedence", format!("[{section}] {k} not given: the user interface's {f} is {ug}, was {ub}"));
                    }
                } else {
                    run.count(&format!("items:{section}:ui-field-not-found"));
                }
                // independence: every other item keeps its default
                for (of, ov) in &got {
                    if *of != f && *of != uif && lookup(&base, of).as_ref() != Some(ov) {
                        run.fail("c16-item-independence", format!("[{section}] {k} given ({what}): item field {of} changed from {:?} to {ov}", lookup(&base, of)));
                    }
                }
            }
        }
    }
}

/// C03 / C16: UDP and TCP probes carry no trace identifier, so two tracers of one invocation could not tell their
/// answers apart — the command line refuses more than one target (or `--dns-resolve-all`) for those protocols, in
/// every mode; report modes take one target whatever the protocol.  The real `build_config` on the full product.
fn multi_target(run: &mut Run) {
    let modes = [Mode::Tui, Mode::Stream, Mode::Pretty, Mode::Markdown, Mode::Csv, Mode::Json, Mode::Dot, Mode::Flows, Mode::Silent];
    for mode in modes {
        for proto in ['i', 'u', 't'] {
            for n_targets in [1usize, 2, 3] {
                for resolve_all in [false, true] {
                    let mut a = base_args();
                    a.mode = Some(mode);
                    a.udp = proto == 'u';
                    a.tcp = proto == 't';
                    // dot / flows need a multipath strategy, which needs UDP: otherwise leave the default
                    if matches!(mode, Mode::Dot | Mode::Flows) && proto == 'u' { a.multipath_strategy = Some(MultipathStrategyConfig::Paris); }
                    a.targets = (0..n_targets).map(|k| format!("host{k}.example")).collect();
                    a.dns_resolve_all = resolve_all;
                    let desc = format!("mode={mode:?} protocol={proto} targets={n_targets} dns-resolve-all={resolve_all}");
                    let several = n_targets > 1 || resolve_all;
                    let single_only_mode = matches!(mode, Mode::Stream | Mode::Pretty | Mode::Markdown | Mode::Csv | Mode::Json);
                    let r = guarded(|| verif_build_config(a, Sections::new().into_file(true), &privilege(), PID));
                    // the model of `validate_multi` answers the same question (where no other validator interferes)
                    if !(matches!(mode, Mode::Dot | Mode::Flows) && proto != 'u') {
                        let m = format!("{mode:?}").to_lowercase();
                        run.op(format!("cfgb multi {m} {proto} {n_targets} {}", u8::from(resolve_all)),
                            match &r { Ok(Ok(_)) => "ok".into(), Ok(Err(_)) => "err".into(), Err(_) => "panic".into() });
                    }
                    match r {
                        Err(p) => run.fail("c16-build-config-panics", format!("{desc} ({p})")),
                        Ok(Ok(_)) => {
                            if several && (proto != 'i' || single_only_mode) {
                                run.fail("c03-several-targets-accepted", format!("{desc}: accepted, although {} cannot serve several targets", if proto != 'i' { "UDP / TCP tracing (no trace identifier in the probes)" } else { "this mode" }));
                            }
                            run.count("multi:accepted");
                        }
                        Ok(Err(_)) => {
                            if !several && !(matches!(mode, Mode::Dot | Mode::Flows) && proto != 'u') { run.fail("c16-single-target-rejected", desc); }
                            run.count("multi:rejected");
                        }
                    }
                }
            }
        }
    }
}
