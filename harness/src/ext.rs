//! C14: ICMP multi-part extensions (RFC 4884) and MPLS label stacks (RFC 4950).
//!
//! Request lines (answered identically by the Lean driver, `TV.Ext.handle`):
//!   `ext split <len> <hexpayload>`        -> `<hexA> <hexB|none>` | `panic`
//!   `ext te4|te6|du4|du6 <hexicmp>`       -> `payload <hex> ext <hex|none>` | `err` | `panic`
//!   `ext exts <hexext>`                   -> `ok <canonical list>` | `err` | `panic`
//! canonical list: `M[label/exp/bos/ttl,...];U[class/sub/hexbytes];...`, `-` when empty.
//!
//! Oracle (independent of the Lean model): messages are built by the RFC encoder below, parsed by
//! the real code and compared with what was encoded (`roundtrip`); results on arbitrary octets
//! must lie inside the message without overlapping (`bounds`); no call may panic (`panic`).
use crate::util::{guarded, hex, unhex, Rng, Run};
use trippy_core::{Extension, Extensions};
use trippy_packet::icmp_extension::extension_splitter::split;

// ---------------------------------------------------------------- canonical answers

fn show_opt(e: Option<&[u8]>) -> String {
    e.map_or_else(|| "none".to_string(), hex)
}

fn show_exts(x: &Extensions) -> String {
    if x.extensions.is_empty() {
        return "-".into();
    }
    x.extensions
        .iter()
        .map(|e| match e {
            Extension::Unknown(u) => format!("U[{}/{}/{}]", u.class_num, u.class_subtype, hex(&u.bytes)),
            Extension::Mpls(m) => format!(
                "M[{}]",
                m.members
                    .iter()
                    .map(|m| format!("{}/{}/{}/{}", m.label, m.exp, m.bos, m.ttl))
                    .collect::<Vec<_>>()
                    .join(",")
            ),
        })
        .collect::<Vec<_>>()
        .join(";")
}

// ---------------------------------------------------------------- calls into the real code

enum IcmpOut {
    Ok(Vec<u8>, Option<Vec<u8>>, Vec<u8>),
    Err,
    Panic(String),
}

macro_rules! icmp_view {
    ($ty:ty, $buf:expr) => {{
        match <$ty>::new_view($buf) {
            Err(_) => IcmpOut::Err,
            Ok(p) => match guarded(|| {
                (p.payload().to_vec(), p.extension().map(<[u8]>::to_vec), p.payload_raw().to_vec())
            }) {
                Ok((a, e, r)) => IcmpOut::Ok(a, e, r),
                Err(loc) => IcmpOut::Panic(loc),
            },
        }
    }};
}

fn call_icmp(kind: &str, icmp: &[u8]) -> Option<IcmpOut> {
    Some(match kind {
        "te4" => icmp_view!(trippy_packet::icmpv4::time_exceeded::TimeExceededPacket<'_>, icmp),
        "du4" => {
            icmp_view!(trippy_packet::icmpv4::destination_unreachable::DestinationUnreachablePacket<'_>, icmp)
        }
        "te6" => icmp_view!(trippy_packet::icmpv6::time_exceeded::TimeExceededPacket<'_>, icmp),
        "du6" => {
            icmp_view!(trippy_packet::icmpv6::destination_unreachable::DestinationUnreachablePacket<'_>, icmp)
        }
        _ => return None,
    })
}

fn is_prefix(a: &[u8], b: &[u8]) -> bool {
    a.len() <= b.len() && b[..a.len()] == *a
}
fn is_suffix(a: &[u8], b: &[u8]) -> bool {
    a.len() <= b.len() && b[b.len() - a.len()..] == *a
}

/// quoted datagram and extension lie inside `body` and do not overlap
fn bounds_ok(p: &[u8], e: Option<&[u8]>, body: &[u8]) -> bool {
    is_prefix(p, body)
        && e.map_or(true, |e| e.len() >= 4 && is_suffix(e, body) && p.len() + e.len() <= body.len())
}

/// Record a panic of the real code.  Every panic counts as an oracle failure
/// (`oracle_fail:panic`), but at most 12 requests per (operation, panic location) are listed so
/// that one defect hit thousands of times by the sweeps does not crowd out everything else.
fn panic_fail(run: &mut Run, what: &str, req: &str, loc: &str) {
    let site = loc.split(' ').next().unwrap_or("");
    let key = format!("panic@{what}:{site}");
    run.count(&key);
    if run.stats.get(&key).copied().unwrap_or(0) <= 12 {
        run.fail("panic", format!("{req} ({loc})"));
    } else {
        run.count("oracle_fail:panic");
    }
}

/// `ext split <len> <hex>`
fn op_split(run: &mut Run, len: usize, payload: &[u8]) {
    let req = format!("ext split {len} {}", hex(payload));
    run.count("op:split");
    match guarded(|| {
        let (a, e) = split(len, payload);
        (a.to_vec(), e.map(<[u8]>::to_vec))
    }) {
        Ok((a, e)) => {
            if !bounds_ok(&a, e.as_deref(), payload) {
                run.fail("bounds", req.clone());
            }
            run.op(req, format!("{} {}", hex(&a), show_opt(e.as_deref())));
        }
        Err(loc) => {
            panic_fail(run, "split", &req, &loc);
            run.op(req, "panic".into());
        }
    }
}

/// `ext te4|te6|du4|du6 <hex>`; returns (payload, extension) when the call returned normally
fn op_icmp(run: &mut Run, kind: &str, icmp: &[u8]) -> Option<(Vec<u8>, Option<Vec<u8>>)> {
    let out = call_icmp(kind, icmp)?;
    let req = format!("ext {kind} {}", hex(icmp));
    run.count(&format!("op:{kind}"));
    match out {
        IcmpOut::Ok(p, e, raw) => {
            if icmp.len() < 8 || raw != icmp[8..] || !bounds_ok(&p, e.as_deref(), &icmp[8..]) {
                run.fail("bounds", req.clone());
            }
            run.op(req, format!("payload {} ext {}", hex(&p), show_opt(e.as_deref())));
            Some((p, e))
        }
        IcmpOut::Err => {
            if icmp.len() >= 8 {
                run.fail("constructor", req.clone());
            }
            run.op(req, "err".into());
            None
        }
        IcmpOut::Panic(loc) => {
            panic_fail(run, kind, &req, &loc);
            run.op(req, "panic".into());
            None
        }
    }
}

/// `ext exts <hex>`; `Some(Ok(..))`/`Some(Err(()))` for a normal return, `None` for a panic
fn op_exts(run: &mut Run, ext: &[u8]) -> Option<Result<Extensions, ()>> {
    let req = format!("ext exts {}", hex(ext));
    run.count("op:exts");
    match guarded(|| Extensions::try_from(ext).map_err(|_| ())) {
        Ok(Ok(x)) => {
            // every object occupies 4 + payload octets of the buffer behind the 4-octet header
            let used: usize = x
                .extensions
                .iter()
                .map(|e| match e {
                    Extension::Unknown(u) => 4 + u.bytes.len(),
                    Extension::Mpls(m) => 4 + 4 * m.members.len(),
                })
                .sum();
            if ext.len() < 4 || used + 4 > ext.len() {
                run.fail("bounds", req.clone());
            }
            run.op(req, format!("ok {}", show_exts(&x)));
            Some(Ok(x))
        }
        Ok(Err(())) => {
            run.count("exts:err");
            // the only error left is a missing extension header
            if ext.len() >= 4 {
                run.fail("exts-err", req.clone());
            }
            run.op(req, "err".into());
            Some(Err(()))
        }
        Err(loc) => {
            panic_fail(run, "exts", &req, &loc);
            run.op(req, "panic".into());
            None
        }
    }
}

// ---------------------------------------------------------------- RFC 4884 / RFC 4950 encoder

/// an MPLS label stack entry as the sender describes it: (label, exp, s, ttl)
type Member = (u32, u8, u8, u8);

#[derive(Clone, Debug, PartialEq, Eq)]
enum SpecObj {
    Mpls(Vec<Member>),
    Other(u8, u8, Vec<u8>),
}

/// RFC 4950 section 3: `label(20) | exp(3) | s(1) | ttl(8)`, one 32-bit word in network order
fn enc_member(m: Member) -> [u8; 4] {
    let w: u32 = (m.0 << 12) | (u32::from(m.1) << 9) | (u32::from(m.2) << 8) | u32::from(m.3);
    w.to_be_bytes()
}

/// RFC 4884 section 7.2: length (header included), class-num, c-type, payload
fn enc_object(class: u8, sub: u8, payload: &[u8]) -> Vec<u8> {
    let len = u16::try_from(4 + payload.len()).expect("object fits 16 bits");
    let mut v = len.to_be_bytes().to_vec();
    v.push(class);
    v.push(sub);
    v.extend_from_slice(payload);
    v
}

fn enc_spec(o: &SpecObj) -> Vec<u8> {
    match o {
        SpecObj::Mpls(ms) => {
            let p: Vec<u8> = ms.iter().flat_map(|m| enc_member(*m)).collect();
            enc_object(1, 1, &p)
        }
        SpecObj::Other(c, s, p) => enc_object(*c, *s, p),
    }
}

/// extension structure: version 2 header, then the objects; returns the start offset of every
/// object as well (for the corruption stream)
fn enc_ext(ck: [u8; 2], objs: &[SpecObj]) -> (Vec<u8>, Vec<usize>) {
    let mut v = vec![0x20, 0x00, ck[0], ck[1]];
    let mut starts = vec![];
    for o in objs {
        starts.push(v.len());
        v.extend(enc_spec(o));
    }
    (v, starts)
}

#[derive(Clone, Copy, PartialEq, Eq)]
enum Mode {
    Compliant,
    Legacy,
}

/// octets per length-attribute unit and offset of the attribute
fn fam_params(kind: &str) -> (usize, usize) {
    if kind.ends_with('6') { (8, 4) } else { (4, 5) }
}

/// the RFC 4884 "original datagram" field and the length attribute
fn orig_field(kind: &str, mode: Mode, orig: &[u8]) -> (Vec<u8>, usize) {
    let (unit, _) = fam_params(kind);
    match mode {
        Mode::Compliant => {
            let padded = orig.len().div_ceil(unit).max(128 / unit) * unit;
            let mut f = orig.to_vec();
            f.resize(padded, 0);
            (f, padded / unit)
        }
        Mode::Legacy => {
            let mut f = orig[..orig.len().min(128)].to_vec();
            f.resize(128, 0);
            (f, 0)
        }
    }
}

fn icmp_header(rng: &mut Rng, kind: &str, length_attr: u8) -> [u8; 8] {
    let (_, off) = fam_params(kind);
    let (ty, code) = match kind {
        "te4" => (11, 0),
        "du4" => (3, rng.below(16) as u8),
        "te6" => (3, 0),
        _ => (1, rng.below(8) as u8),
    };
    let mut h = [ty, code, rng.next() as u8, rng.next() as u8, 0, 0, 0, 0];
    if kind == "du4" {
        h[6] = rng.next() as u8;
        h[7] = rng.next() as u8;
    }
    h[off] = length_attr;
    h
}

fn build_icmp(rng: &mut Rng, kind: &str, mode: Mode, orig: &[u8], ext: &[u8]) -> (Vec<u8>, Vec<u8>) {
    let (field, attr) = orig_field(kind, mode, orig);
    let mut v = icmp_header(rng, kind, u8::try_from(attr).expect("length attribute fits")).to_vec();
    v.extend_from_slice(&field);
    v.extend_from_slice(ext);
    (v, field)
}

// ---------------------------------------------------------------- generators

fn gen_stack(rng: &mut Rng, n: usize) -> Vec<Member> {
    (0..n)
        .map(|i| {
            let label = match rng.below(6) {
                0 => 0,
                1 => 0xf_ffff,
                2 => 1 << rng.below(20),
                _ => (rng.next() & 0xf_ffff) as u32,
            };
            let exp = rng.below(8) as u8;
            let r = rng.next() as u8;
            let ttl = *rng.pick(&[0u8, 1, 2, 64, 127, 128, 254, 255, r]);
            (label, exp, u8::from(i + 1 == n), ttl)
        })
        .collect()
}

fn gen_objs(rng: &mut Rng, big: bool) -> Vec<SpecObj> {
    let n = rng.below(7) as usize;
    (0..n)
        .map(|_| {
            if rng.chance(1, 2) {
                let k = rng.below(9) as usize;
                SpecObj::Mpls(gen_stack(rng, k))
            } else {
                let class = loop {
                    let r = rng.next() as u8;
                    let c = *rng.pick(&[0u8, 2, 3, 4, 5, 0x99, 255, r]);
                    if c != 1 {
                        break c;
                    }
                };
                let plen = if big && rng.chance(1, 40) {
                    *rng.pick(&[65531usize, 65530, 4093, 1021])
                } else {
                    let r = rng.below(64) as usize;
                    *rng.pick(&[0usize, 1, 2, 3, 4, 5, 7, 8, 12, 40, r])
                };
                SpecObj::Other(class, rng.next() as u8, rng.bytes(plen))
            }
        })
        .collect()
}

fn expected_of(objs: &[SpecObj]) -> Extensions {
    use trippy_core::{MplsLabelStack, MplsLabelStackMember, UnknownExtension};
    Extensions {
        extensions: objs
            .iter()
            .map(|o| match o {
                SpecObj::Mpls(ms) => Extension::Mpls(MplsLabelStack {
                    members: ms
                        .iter()
                        .map(|m| MplsLabelStackMember { label: m.0, exp: m.1, bos: m.2, ttl: m.3 })
                        .collect(),
                }),
                SpecObj::Other(c, s, p) => {
                    Extension::Unknown(UnknownExtension { class_num: *c, class_subtype: *s, bytes: p.clone() })
                }
            })
            .collect(),
    }
}

const KINDS: [&str; 4] = ["te4", "te6", "du4", "du6"];

fn body_lengths() -> Vec<usize> {
    let mut v: Vec<usize> = (0..=8).collect();
    v.extend(124..=136);
    v.extend(252..=260);
    v.extend(508..=516);
    v.push(1016);
    v
}

/// build per the RFC, parse with the real code, compare
fn roundtrip(run: &mut Run, rng: &mut Rng, kind: &str, mode: Mode, orig: &[u8], objs: &[SpecObj]) {
    let ck = [rng.next() as u8, rng.next() as u8];
    let (ext, _) = enc_ext(ck, objs);
    let (icmp, field) = build_icmp(rng, kind, mode, orig, &ext);
    run.count("roundtrip");
    let req = format!("ext {kind} {}", hex(&icmp));
    match op_icmp(run, kind, &icmp) {
        Some((p, e)) => {
            if p != field || e.as_deref() != Some(&ext[..]) {
                run.fail("roundtrip", req);
            }
        }
        // a panic has already been recorded by `op_icmp`
        None => run.count("roundtrip:panic"),
    }
    // the extension structure on its own, whatever the split did
    let want = expected_of(objs);
    match op_exts(run, &ext) {
        Some(Ok(got)) if got == want => {}
        Some(_) => run.fail("roundtrip", format!("ext exts {}", hex(&ext))),
        None => {}
    }
}

fn flip(v: &[u8], byte: usize, bit: u32) -> Vec<u8> {
    let mut w = v.to_vec();
    w[byte] ^= 1 << bit;
    w
}

/// bit flips in every length field (ICMP length attribute, every object length), in the version
/// nibble, the class octets and the S bits; truncations at every octet
fn corruptions(run: &mut Run, rng: &mut Rng, kind: &str, mode: Mode, orig: &[u8], objs: &[SpecObj], trunc: bool) {
    let (ext, starts) = enc_ext([0, 0], objs);
    let (icmp, field) = build_icmp(rng, kind, mode, orig, &ext);
    let (_, off) = fam_params(kind);
    let ext_at = 8 + field.len();
    let mut variants: Vec<Vec<u8>> = vec![];
    for bit in 0..8 {
        variants.push(flip(&icmp, off, bit));
        variants.push(flip(&icmp, ext_at, bit)); // version nibble + reserved
    }
    for &s in &starts {
        for bit in 0..8 {
            variants.push(flip(&icmp, ext_at + s, bit));
            variants.push(flip(&icmp, ext_at + s + 1, bit));
            variants.push(flip(&icmp, ext_at + s + 2, bit)); // class
        }
        // S bit of every entry of the object (if it is a label stack) and of the octet behind
        let end = starts.iter().copied().find(|&x| x > s).unwrap_or(ext.len());
        let mut m = s + 4;
        while m + 4 <= end {
            variants.push(flip(&icmp, ext_at + m + 2, 0));
            m += 4;
        }
    }
    if trunc {
        for cut in ext_at.saturating_sub(2)..icmp.len() {
            variants.push(icmp[..cut].to_vec());
        }
    }
    for v in variants {
        run.count("corruption");
        if let Some((_, Some(e))) = op_icmp(run, kind, &v) {
            op_exts(run, &e);
        }
        // the extension part on its own too (the split may have hidden it)
        if v.len() > ext_at {
            op_exts(run, &v[ext_at..]);
        }
    }
}

pub fn run(rng: &mut Rng, thorough: bool, corpus: &[String]) -> Run {
    let mut run = Run::new();

    // ---- corpus first
    for l in corpus {
        let p: Vec<&str> = l.split(' ').collect();
        if p.first() != Some(&"ext") {
            continue;
        }
        match p.as_slice() {
            ["ext", "split", n, h] => {
                if let (Ok(n), Some(b)) = (n.parse::<usize>(), unhex(h)) {
                    op_split(&mut run, n, &b);
                    run.count("corpus");
                }
            }
            ["ext", "exts", h] => {
                if let Some(b) = unhex(h) {
                    op_exts(&mut run, &b);
                    run.count("corpus");
                }
            }
            ["ext", kind, h] if KINDS.contains(kind) => {
                if let Some(b) = unhex(h) {
                    op_icmp(&mut run, kind, &b);
                    run.count("corpus");
                }
            }
            _ => {}
        }
    }

    // ---- fixed witnesses (the inputs of the repaired defects F2, F3, F14; also in the Lean file)
    op_icmp(&mut run, "te4", &[11, 0, 0, 0, 0, 64, 0, 0]);
    op_icmp(&mut run, "te6", &[3, 0, 0, 0, 32, 0, 0, 0]);
    op_exts(&mut run, &[0x20, 0, 0, 0, 0, 4, 1, 1]);
    op_exts(&mut run, &[0x20, 0, 0, 0, 0, 6, 1, 1, 9, 9, 0, 8, 2, 1, 1, 2, 3, 4]);
    for obj in [[0u8, 3, 0, 0], [0, 8, 0, 0]] {
        // `ExtensionObjectPacket::payload()` on a view that did not come from the iterator
        use trippy_packet::icmp_extension::extension_object::ExtensionObjectPacket;
        if let Err(loc) = guarded(|| ExtensionObjectPacket::new_view(&obj).map(|o| o.payload().to_vec())) {
            run.fail("panic", format!("ExtensionObjectPacket::payload {} ({loc})", hex(&obj)));
        }
    }
    op_exts(&mut run, &[0x20, 0, 0x96, 0x53, 0, 0x0c, 1, 1, 6, 0x9f, 0x18, 1, 0, 0, 0x29, 0xff]);
    for len in 0..8 {
        op_icmp(&mut run, "te4", &vec![0u8; len]);
        op_exts(&mut run, &vec![0x20u8; len]);
    }

    // ---- round trips: RFC encoder -> real parser
    let origs4: Vec<usize> = vec![0, 1, 20, 28, 48, 64, 127, 128, 129, 130, 131, 132, 136, 200, 248, 249, 252, 253, 256, 257, 500, 576, 1016, 1017, 1020];
    let origs6: Vec<usize> = vec![0, 1, 40, 48, 121, 127, 128, 129, 135, 136, 137, 200, 241, 248, 249, 256, 257, 576, 1232, 2033, 2040];
    let rounds = if thorough { 40 } else { 3 };
    for round in 0..rounds {
        for kind in KINDS {
            let origs = if kind.ends_with('6') { &origs6 } else { &origs4 };
            for &ol in origs {
                for mode in [Mode::Compliant, Mode::Legacy] {
                    let orig = rng.bytes(ol);
                    let objs = gen_objs(rng, thorough && round % 8 == 0);
                    roundtrip(&mut run, rng, kind, mode, &orig, &objs);
                }
            }
        }
    }
    // label stacks of every size 0..=8, alone and between two other objects
    for n in 0..=8usize {
        for kind in KINDS {
            let st = SpecObj::Mpls(gen_stack(rng, n));
            let orig = rng.bytes(28);
            roundtrip(&mut run, rng, kind, Mode::Compliant, &orig, std::slice::from_ref(&st));
            let three = vec![SpecObj::Other(2, 1, rng.bytes(8)), st, SpecObj::Other(3, 2, rng.bytes(4))];
            roundtrip(&mut run, rng, kind, Mode::Legacy, &orig, &three);
        }
    }
    // largest objects
    {
        let big = vec![SpecObj::Other(4, 1, rng.bytes(65531)), SpecObj::Mpls(gen_stack(rng, 3))];
        let orig = rng.bytes(28);
        roundtrip(&mut run, rng, "te4", Mode::Compliant, &orig, &big);
        if thorough {
            let stack = vec![SpecObj::Mpls(gen_stack(rng, 16382))];
            roundtrip(&mut run, rng, "te6", Mode::Legacy, &orig, &stack);
        }
    }

    // ---- corruption stream
    let crounds = if thorough { 24 } else { 2 };
    for round in 0..crounds {
        for kind in KINDS {
            for mode in [Mode::Compliant, Mode::Legacy] {
                let ol = *rng.pick(&[28usize, 128, 132, 200]);
                let orig = rng.bytes(ol);
                let mut objs = gen_objs(rng, false);
                if objs.is_empty() {
                    objs.push(SpecObj::Mpls(gen_stack(rng, 2)));
                }
                corruptions(&mut run, rng, kind, mode, &orig, &objs, round == 0);
            }
        }
    }

    // ---- arbitrary octets as an extension structure
    let nrand = if thorough { 20000 } else { 1500 };
    for i in 0..nrand {
        let len = if i % 50 == 0 { rng.below(600) as usize } else { rng.below(41) as usize };
        let mut b = rng.bytes(len);
        if len > 0 && rng.chance(7, 8) {
            b[0] = 0x20 | (b[0] & 0x0f);
        }
        // small lengths and interesting classes make deep parses likely
        let mut k = 4;
        while k + 4 <= b.len() && rng.chance(3, 4) {
            b[k] = 0;
            b[k + 1] = *rng.pick(&[0u8, 3, 4, 5, 7, 8, 9, 12, 16, 255]);
            if rng.chance(1, 2) {
                b[k + 2] = 1;
            }
            k += usize::from(b[k + 1]).max(4);
        }
        op_exts(&mut run, &b);
    }

    // ---- `split` on its own: boundary lengths x body lengths
    let lens = body_lengths();
    for &bl in &lens {
        let body = rng.bytes(bl);
        let mut ns: Vec<usize> = vec![0, 1, 3, 4, 8, 124, 127, 128, 129, 131, 132, 133, 136, 252, 256, 1020, 2040, 65535];
        for d in 0..=5 {
            ns.push(bl.saturating_sub(d));
        }
        ns.push(bl + 1);
        ns.push(usize::MAX);
        ns.sort_unstable();
        ns.dedup();
        for n in ns {
            op_split(&mut run, n, &body);
        }
    }

    // ---- every length attribute x body length x extension present / absent / short
    let sample_ext = enc_ext([0x12, 0x34], &[SpecObj::Mpls(vec![(27121, 4, 0, 1), (2, 4, 1, 255)]), SpecObj::Other(2, 1, vec![1, 2, 3, 4])]).0;
    let kinds: &[&str] = if thorough { &KINDS } else { &KINDS[..2] };
    let quick_lens: Vec<usize> = vec![0, 1, 4, 8, 124, 127, 128, 129, 132, 136, 252, 256, 260, 512, 1016];
    for kind in kinds {
        // the Destination Unreachable views share the code shape: coarser grid for them
        let sweep_lens = if thorough && kind.starts_with("te") { &lens } else { &quick_lens };
        for attr in 0..=255u8 {
            for (i, &bl) in sweep_lens.iter().enumerate() {
                for xk in 0..3usize {
                    // the quick tier takes one of the three extension kinds per cell
                    if !thorough && xk != (usize::from(attr) + i) % 3 {
                        continue;
                    }
                    let mut icmp = icmp_header(rng, kind, attr).to_vec();
                    icmp.extend(rng.bytes(bl));
                    match xk {
                        0 => {}
                        1 => icmp.extend(rng.bytes(1 + (usize::from(attr) + i) % 3)),
                        _ => icmp.extend_from_slice(&sample_ext),
                    }
                    run.count("sweep");
                    if let Some((_, Some(e))) = op_icmp(&mut run, kind, &icmp) {
                        if xk == 2 {
                            op_exts(&mut run, &e);
                        }
                    }
                }
            }
        }
    }
    run
}
