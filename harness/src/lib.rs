pub mod gen_packet;
pub mod packet;
pub mod util;
pub mod clock;
pub mod strategy;
pub mod cksum;
pub mod ext;
pub mod conc;
