pub mod gen_packet;
pub mod packet;
pub mod util;
