//! C12 correspondence + oracle: every translated accessor of trippy-packet, called on buffers
//! with arbitrary pre-existing contents; the spec table (RFC positions) is the oracle.
use crate::gen_packet::{call, Out, FNS, SPEC, TYPES};
use crate::util::{guarded, hex, unhex, Rng, Run};

fn out_str(o: Result<Option<Out>, String>, buf: &[u8]) -> String {
    match o {
        Err(_) => "panic".into(),
        Ok(None) => "bad-op".into(),
        Ok(Some(Out::U(x))) => format!("ok {x}"),
        Ok(Some(Out::Bytes(b))) => format!("ok {}", hex(&b)),
        Ok(Some(Out::Buf)) => format!("ok {}", hex(buf)),
        Ok(Some(Out::Err)) => "err".into(),
    }
}

fn word(buf: &[u8], k: usize, n: usize) -> u64 {
    buf[k..k + n].iter().fold(0u64, |a, b| (a << 8) | u64::from(*b))
}

/// bit-level RFC oracle for a setter call on a buffer of at least the minimum size
fn oracle_set(run: &mut Run, ns: &str, f: &str, old: &[u8], new: &[u8], arg_u: u64, arg_b: &[u8]) {
    let field = &f[4..];
    let Some(&(_, _, k, n, sh, w, ty)) = SPEC.iter().find(|s| s.0 == ns && s.1 == field) else {
        run.fail("unspecified-field", format!("{ns} {f}"));
        return;
    };
    let desc = || format!("pkt {ns} {f} {} {}", hex(old), if ty == "bytes" { hex(arg_b) } else { arg_u.to_string() });
    if old.len() != new.len() {
        run.fail("length-changed", desc());
        return;
    }
    for (i, (a, b)) in old.iter().zip(new).enumerate() {
        if (i < k || i >= k + n) && a != b {
            run.fail("frame-octet", format!("{} (octet {i} changed)", desc()));
            return;
        }
    }
    if ty == "bytes" {
        if &new[k..k + n] != arg_b {
            run.fail("position", desc());
        }
        return;
    }
    let (wo, wn) = (word(old, k, n), word(new, k, n));
    let mask = if w == 64 { u64::MAX } else { ((1u64 << w) - 1) << sh };
    if (wo & !mask) != (wn & !mask) {
        run.fail("frame-bits", format!("{} (bits outside the field changed)", desc()));
    }
    if (wn & mask) >> sh != arg_u & (mask >> sh) {
        run.fail("position", format!("{} (field bits are not the value truncated to {w} bits)", desc()));
    }
}

fn oracle_get(run: &mut Run, ns: &str, f: &str, buf: &[u8], got: &Out) {
    let field = &f[4..];
    let Some(&(_, _, k, n, sh, w, ty)) = SPEC.iter().find(|s| s.0 == ns && s.1 == field) else {
        run.fail("unspecified-field", format!("{ns} {f}"));
        return;
    };
    let desc = || format!("pkt {ns} {f} {} -", hex(buf));
    match got {
        Out::Bytes(b) => {
            if ty != "bytes" || b[..] != buf[k..k + n] {
                run.fail("position", desc());
            }
        }
        Out::U(x) => {
            let mask = ((1u64 << w) - 1) << sh;
            if ty == "bytes" || *x != (word(buf, k, n) & mask) >> sh {
                run.fail("position", desc());
            }
        }
        _ => run.fail("getter-result", desc()),
    }
}

fn do_call(run: &mut Run, ns: &str, f: &str, kind: &str, ty: &str, buf: &[u8], arg_u: u64, arg_b: &[u8], min: usize) {
    let mut work = buf.to_vec();
    let r = guarded(|| call(ns, f, &mut work, arg_u, arg_b));
    let arg = if kind == "set" { if ty.starts_with("bytes") { hex(arg_b) } else { arg_u.to_string() } } else { "-".into() };
    let op = format!("pkt {ns} {f} {} {arg}", hex(buf));
    if buf.len() >= min || kind == "ctor" {
        if let Ok(Some(o)) = &r {
            match kind {
                "set" => oracle_set(run, ns, f, buf, &work, arg_u, arg_b),
                "get" => {
                    oracle_get(run, ns, f, buf, o);
                    if work != buf {
                        run.fail("getter-wrote", op.clone());
                    }
                }
                "ctor" => {
                    let want = u64::from(buf.len() >= crate::gen_packet::SPEC_MIN.iter().find(|s| s.0 == ns).map_or(usize::MAX, |s| s.1));
                    if !matches!(o, Out::U(x) if *x == want) {
                        run.fail("constructor", op.clone());
                    }
                }
                _ => {}
            }
        }
        if let Err(p) = &r {
            run.fail("panic", format!("{op} ({p})"));
        }
        let s = match (kind, &r) {
            ("ctor", Ok(Some(Out::U(x)))) => (if *x == 1 { "true" } else { "false" }).to_string(),
            _ => out_str(r, &work),
        };
        run.count(&format!("kind:{kind}"));
        run.op(op, s);
    }
}

pub fn run(rng: &mut Rng, thorough: bool, corpus: &[String]) -> Run {
    let mut run = Run::new();
    // corpus first: lines `pkt ns fn hexbuf arg`
    for l in corpus {
        let p: Vec<&str> = l.split(' ').collect();
        if p.len() != 5 || p[0] != "pkt" { continue; }
        let Some(&(ns, f, kind, ty)) = FNS.iter().find(|x| x.0 == p[1] && x.1 == p[2]) else { continue };
        let Some(buf) = unhex(p[3]) else { continue };
        let min = TYPES.iter().find(|t| t.0 == ns).map_or(0, |t| t.1);
        let (au, ab) = if ty.starts_with("bytes") { (0, unhex(p[4]).unwrap_or_default()) } else { (p[4].parse().unwrap_or(0), vec![]) };
        do_call(&mut run, ns, f, kind, ty, &buf, au, &ab, min);
        run.count("corpus");
    }
    for &(ns, f, kind, ty) in FNS {
        let min = TYPES.iter().find(|t| t.0 == ns).map_or(0, |t| t.1);
        // buffers: zero, all-ones, random; lengths min, min+1, min+37, 1024
        let mut bufs: Vec<Vec<u8>> = vec![vec![0; min], vec![0xff; min]];
        let nrand = if thorough { 24 } else { 6 };
        for i in 0..nrand {
            let len = match i % 4 { 0 => min, 1 => min + 1, 2 => min + 37, _ => if thorough { 1024 } else { min + 3 } };
            bufs.push(rng.bytes(len));
        }
        match kind {
            "ctor" => {
                for len in [0usize, 1, min.saturating_sub(1), min, min + 1, 1024] {
                    let b = rng.bytes(len);
                    do_call(&mut run, ns, f, kind, ty, &b, 0, &[], min);
                }
            }
            "get" => {
                for b in &bufs {
                    do_call(&mut run, ns, f, kind, ty, b, 0, &[], min);
                }
            }
            _ => {
                if ty.starts_with("bytes") {
                    let n: usize = ty[5..].parse().unwrap();
                    for b in &bufs {
                        for v in [vec![0u8; n], vec![0xff; n], rng.bytes(n)] {
                            do_call(&mut run, ns, f, kind, ty, b, 0, &v, min);
                        }
                    }
                } else {
                    let bits: u32 = match ty { "u16" => 16, "u32" => 32, _ => 8 };
                    let mut vals: Vec<u64> = vec![];
                    if bits == 8 || (bits == 16 && thorough) {
                        vals.extend(0..(1u64 << bits));
                    } else {
                        let top = (1u64 << bits) - 1;
                        vals.extend([0, 1, 2, top, top - 1, top >> 1, (top >> 1) + 1, 0x5555_5555 & top, 0xaaaa_aaaa & top, 0x00f0_0000 & top, 0xfff0_0000 & top, 0x0100 & top, 0x01ff & top, 0xfe00 & top]);
                        for s in 0..bits { vals.push(1u64 << s); }
                        let nr = if thorough { 4096 } else { 48 };
                        for _ in 0..nr { vals.push(rng.next() & top); }
                    }
                    let nb = if bits == 8 && !thorough { 3 } else if bits == 16 && thorough { 3 } else { bufs.len() };
                    for b in bufs.iter().take(nb.max(3)) {
                        for &v in &vals {
                            do_call(&mut run, ns, f, kind, ty, b, v, &[], min);
                        }
                    }
                }
            }
        }
    }
    // the payload mutators (not translated: implementation-only read-back oracle)
    crate::wire_gen::gen_set_payload(&mut run, rng, thorough);
    run
}
