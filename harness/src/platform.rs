//! `platform`: the real platform socket (`SocketImpl`, net/platform/unix.rs) and the real kernel, which the other
//! components replace by `SimSocket`.  What `SimSocket` assumes of the socket layer — and what the tracing loop
//! relies on — is checked against the real thing on the loopback interface:
//!
//!  * readiness: `is_readable(timeout)` is `Ok(false)` when nothing arrives, `Ok(true)` when a datagram is queued,
//!    and — the loop waits here most of its life — an interrupted wait (a handled signal: SIGWINCH on resize,
//!    SIGCHLD, a timer of an embedding program) is not an error (`c09-platform-interrupted-wait`); `recv_from`
//!    returns the datagram and its source (`c04-platform-recv`); `is_writable` likewise;
//!  * whole runs through `Tracer::run` with the production sockets (needs CAP_NET_RAW; counted as skipped without it):
//!    ICMP, UDP and TCP traces of 127.0.0.1 and ::1 with a round limit n publish exactly n rounds, return `Ok`, show
//!    no error and find the target at the first hop — quiet, and with a handled signal delivered to the tracing
//!    thread every few milliseconds, and with the source address taken from the loopback interface by name
//!    (`c09-platform-run`).
//!
//! No model is involved (one `conc noop` request keeps the stream non-empty); real time, no virtual clock.
use crate::util::{guarded, Rng, Run};
use std::net::{IpAddr, Ipv4Addr, Ipv6Addr, SocketAddr, UdpSocket};
use std::sync::atomic::{AtomicBool, AtomicU64, Ordering};
use std::sync::Arc;
use std::time::{Duration, Instant};
use trippy_core::verif::{Socket, SocketImpl};
use trippy_core::{Builder, PortDirection, Protocol};

static SIGNALS: AtomicU64 = AtomicU64::new(0);

extern "C" fn on_signal(_: libc::c_int) {
    SIGNALS.fetch_add(1, Ordering::Relaxed);
}

/// installs a no-op SIGUSR1 handler *without* SA_RESTART (as crossterm's SIGWINCH handler or any plain `signal()`
/// handler is), so that blocking calls are interrupted
fn install_handler() {
    unsafe {
        let mut sa: libc::sigaction = std::mem::zeroed();
        sa.sa_sigaction = on_signal as *const () as usize;
        sa.sa_flags = 0;
        libc::sigemptyset(&mut sa.sa_mask);
        libc::sigaction(libc::SIGUSR1, &sa, std::ptr::null_mut());
    }
}

/// delivers SIGUSR1 to the calling thread every `every` until dropped
struct Bomber {
    stop: Arc<AtomicBool>,
    handle: Option<std::thread::JoinHandle<()>>,
}

impl Bomber {
    fn start(every: Duration) -> Self {
        let target = unsafe { libc::pthread_self() } as usize;
        let stop = Arc::new(AtomicBool::new(false));
        let s2 = stop.clone();
        let handle = std::thread::spawn(move || {
            while !s2.load(Ordering::SeqCst) {
                unsafe { libc::pthread_kill(target as libc::pthread_t, libc::SIGUSR1); }
                std::thread::sleep(every);
            }
        });
        Self { stop, handle: Some(handle) }
    }
}

impl Drop for Bomber {
    fn drop(&mut self) {
        self.stop.store(true, Ordering::SeqCst);
        if let Some(h) = self.handle.take() { let _ = h.join(); }
    }
}

fn free_port() -> u16 {
    UdpSocket::bind("127.0.0.1:0").and_then(|s| s.local_addr()).map_or(47123, |a| a.port())
}

fn readiness(run: &mut Run) {
    let port = free_port();
    let addr = SocketAddr::new(IpAddr::V4(Ipv4Addr::LOCALHOST), port);
    let Ok(mut sock) = SocketImpl::new_udp_dgram_socket_ipv4() else {
        run.count("platform:udp-socket-unavailable");
        return;
    };
    if sock.bind(addr).is_err() {
        run.count("platform:bind-failed");
        return;
    }
    run.count("platform:readiness");
    // nothing arrives
    let t0 = Instant::now();
    match sock.is_readable(Duration::from_millis(30)) {
        Ok(false) => {}
        other => run.fail("c09-platform-wait", format!("is_readable(30ms) on an idle socket = {other:?}")),
    }
    if t0.elapsed() < Duration::from_millis(20) {
        run.fail("c08-platform-wait", format!("is_readable(30ms) on an idle socket returned after {:?}", t0.elapsed()));
    }
    // interrupted waits
    {
        let before = SIGNALS.load(Ordering::Relaxed);
        let _b = Bomber::start(Duration::from_millis(2));
        for i in 0..40 {
            match sock.is_readable(Duration::from_millis(10)) {
                Ok(false) => {}
                other => {
                    run.fail("c09-platform-interrupted-wait", format!(
                        "wait {i}: is_readable(10ms) on an idle socket while a handled signal (SIGUSR1, no SA_RESTART) is delivered to the waiting thread every 2ms = {other:?}"));
                    break;
                }
            }
            match sock.is_writable() {
                Ok(_) => {}
                Err(e) => {
                    run.fail("c09-platform-interrupted-wait", format!("wait {i}: is_writable() under signals = Err({e})"));
                    break;
                }
            }
        }
        drop(_b);
        if SIGNALS.load(Ordering::Relaxed) == before {
            run.count("platform:no-signal-delivered");
        } else {
            run.count("platform:signals-delivered");
        }
    }
    // a datagram arrives
    let sender = UdpSocket::bind("127.0.0.1:0");
    if let Ok(sender) = sender {
        let payload = [0xde, 0xad, 0xbe, 0xef, 1, 2, 3];
        let _ = sender.send_to(&payload, addr);
        match sock.is_readable(Duration::from_millis(200)) {
            Ok(true) => {}
            other => run.fail("c09-platform-wait", format!("is_readable(200ms) with a datagram queued = {other:?}")),
        }
        let mut buf = [0u8; 64];
        match sock.recv_from(&mut buf) {
            Ok((n, from)) => {
                if buf[..n] != payload || from != sender.local_addr().ok() {
                    run.fail("c04-platform-recv", format!("recv_from = {:?} from {from:?}, sent {payload:?} from {:?}", &buf[..n], sender.local_addr().ok()));
                }
            }
            Err(e) => run.fail("c04-platform-recv", format!("recv_from with a datagram queued = Err({e})")),
        }
        match sock.is_readable(Duration::from_millis(5)) {
            Ok(false) => {}
            other => run.fail("c09-platform-wait", format!("is_readable(5ms) after the only datagram was read = {other:?}")),
        }
    }
}

fn trace(run: &mut Run, proto: Protocol, target: IpAddr, signals: bool, rounds: usize, interface: Option<&str>) {
    trace_from(run, proto, target, signals, rounds, interface, None);
}

fn trace_from(run: &mut Run, proto: Protocol, target: IpAddr, signals: bool, rounds: usize, interface: Option<&str>, source: Option<IpAddr>) {
    let ctx = format!("Tracer::run, production sockets, {proto:?} trace of {target}{}, {rounds} rounds, {}", interface.map_or(String::new(), |i| format!(" from interface {i}")) + &source.map_or(String::new(), |a| format!(" from source address {a}")), if signals { "a handled signal every 3ms to the tracing thread" } else { "quiet" });
    let pd = match proto {
        Protocol::Icmp => PortDirection::None,
        // a port nobody listens on: the kernel answers for the target (port unreachable / connection refused)
        _ => PortDirection::new_fixed_dest(free_port()),
    };
    let built = Builder::new(target)
        .protocol(proto)
        .port_direction(pd)
        .max_rounds(Some(rounds))
        .min_round_duration(Duration::from_millis(40))
        .max_round_duration(Duration::from_millis(150))
        .grace_duration(Duration::from_millis(10))
        .read_timeout(Duration::from_millis(5))
        .max_ttl(4)
        .interface(interface)
        .source_addr(source)
        .build();
    let tracer = match built {
        Ok(t) => t,
        Err(e) => {
            run.count(&format!("platform:build-rejected:{e}").chars().take(60).collect::<String>());
            return;
        }
    };
    let bomber = signals.then(|| Bomber::start(Duration::from_millis(3)));
    let res = guarded(|| tracer.run());
    drop(bomber);
    match res {
        Err(p) => run.fail("c09-platform-run", format!("{ctx}: panic {p}")),
        Ok(Err(e)) => {
            let s = e.to_string();
            // no privileges / no such address family here: not a verdict on the code
            if !signals && (s.contains("Operation not permitted") || s.contains("Permission denied") || s.contains("not supported") || s.contains("Cannot assign") || s.contains("unreachable") || s.contains("Address family") || s.contains("No such device") || s.contains("nknown interface")) {
                run.count("platform:run-unavailable");
                return;
            }
            run.fail("c09-platform-run", format!("{ctx}: ended with [{e}]"));
        }
        Ok(Ok(())) => {
            run.count(if signals { "platform:run-with-signals" } else { "platform:run-quiet" });
            let st = tracer.snapshot();
            if st.round_count(trippy_core::State::default_flow_id()) != rounds || st.error().is_some() {
                run.fail("c09-platform-run", format!("{ctx}: returned Ok with {} rounds in the snapshot, error {:?}", st.round_count(trippy_core::State::default_flow_id()), st.error()));
            }
            // the source address discovered for a loopback target is that loopback address (same family, this host's)
            match tracer.source_addr() {
                Some(src) if src == target || source.is_some_and(|a| a == src) => {}
                other => run.fail("c09-platform-run", format!("{ctx}: the source address of the trace is {other:?}, the route to {target} starts at {target}")),
            }
            // the target is one hop away
            let hops = st.hops();
            let at_target = hops.first().is_some_and(|h| h.ttl() == 1 && h.addrs().any(|a| *a == target));
            if hops.len() != 1 || !at_target {
                run.fail("c10-platform-run", format!("{ctx}: hops {:?}", hops.iter().map(|h| (h.ttl(), h.addrs().copied().collect::<Vec<_>>(), h.total_sent(), h.total_recv())).collect::<Vec<_>>()));
            }
        }
    }
}

/// `Tracer::spawn` / `spawn_with` (what the application uses): the handle joins with `Ok`, the returned tracer shows the
/// rounds, the callback saw each of them once and in order
fn spawned(run: &mut Run, rounds: usize) {
    use std::sync::{Arc, Mutex};
    for with_callback in [false, true] {
        let target = IpAddr::V4(Ipv4Addr::LOCALHOST);
        let built = Builder::new(target)
            .max_rounds(Some(rounds))
            .min_round_duration(Duration::from_millis(40))
            .max_round_duration(Duration::from_millis(150))
            .grace_duration(Duration::from_millis(10))
            .read_timeout(Duration::from_millis(5))
            .max_ttl(4)
            .build();
        let Ok(tracer) = built else { run.count("platform:build-rejected"); continue };
        let seen: Arc<Mutex<Vec<usize>>> = Arc::new(Mutex::new(vec![]));
        let s2 = seen.clone();
        let res = guarded(move || {
            let (t, h) = if with_callback {
                tracer.spawn_with(move |r| { if let Some(p) = r.probes.iter().find_map(|p| match p { trippy_core::ProbeStatus::Complete(c) => Some(c.round.0), trippy_core::ProbeStatus::Awaited(a) => Some(a.round.0), _ => None }) { s2.lock().unwrap().push(p); } })
            } else {
                tracer.spawn()
            }.map_err(|e| e.to_string())?;
            let joined = h.join().map_err(|_| "the tracer thread panicked".to_string())?;
            Ok::<_, String>((t, joined.map_err(|e| e.to_string())))
        });
        let ctx = format!("Tracer::{} of 127.0.0.1, {rounds} rounds", if with_callback { "spawn_with" } else { "spawn" });
        match res {
            Err(p) => run.fail("c09-platform-run", format!("{ctx}: panic {p}")),
            Ok(Err(e)) => run.fail("c09-platform-run", format!("{ctx}: {e}")),
            Ok(Ok((_, Err(e)))) => {
                if e.contains("not permitted") || e.contains("Permission denied") { run.count("platform:run-unavailable"); } else { run.fail("c09-platform-run", format!("{ctx}: ended with [{e}]")); }
            }
            Ok(Ok((t, Ok(())))) => {
                run.count("platform:spawned");
                let st = t.snapshot();
                let n = st.round_count(trippy_core::State::default_flow_id());
                let cb = seen.lock().unwrap().clone();
                if n != rounds || st.error().is_some() || (with_callback && cb != (0..rounds).collect::<Vec<_>>()) {
                    run.fail("c09-platform-run", format!("{ctx}: joined with Ok; the returned tracer shows {n} rounds, error {:?}; the callback saw rounds {cb:?}", st.error()));
                }
            }
        }
    }
}

/// an accepted configuration must not crash the tracer: an IPv4-mapped IPv6 source address with an IPv6 target is
/// accepted by `Builder::build` (both are IPv6 addresses); whatever the run then does — trace, or fail with an error —
/// it must not panic (C16)
fn mapped_source(run: &mut Run, target: IpAddr, rounds: usize) {
    let source: IpAddr = "::ffff:127.0.0.1".parse().unwrap();
    let built = Builder::new(target).source_addr(Some(source)).max_rounds(Some(rounds))
        .min_round_duration(Duration::from_millis(40)).max_round_duration(Duration::from_millis(150))
        .grace_duration(Duration::from_millis(10)).read_timeout(Duration::from_millis(5)).max_ttl(4).build();
    let Ok(tracer) = built else { run.count("platform:mapped-source-rejected"); return };
    match guarded(|| tracer.run()) {
        Err(p) => run.fail("c09-platform-run", format!("Tracer::run, ICMP trace of {target} from source address {source} (accepted by Builder::build): panic {p}")),
        Ok(r) => run.count(if r.is_ok() { "platform:mapped-source-ran" } else { "platform:mapped-source-error" }),
    }
}

pub fn run(_rng: &mut Rng, thorough: bool, _corpus: &[String]) -> Run {
    let mut run = Run::new();
    run.op("conc noop".into(), "ok".into());
    crate::clock::disable();
    install_handler();
    readiness(&mut run);
    let rounds = if thorough { 8 } else { 3 };
    spawned(&mut run, rounds);
    for target in [IpAddr::V4(Ipv4Addr::LOCALHOST), IpAddr::V6(Ipv6Addr::LOCALHOST)] {
        for proto in [Protocol::Icmp, Protocol::Udp, Protocol::Tcp] {
            // the quiet run decides whether this kind of trace is possible here at all
            let before = run.oracle_failures.len();
            let unavailable_before = run_count(&run, "platform:run-unavailable");
            trace(&mut run, proto, target, false, rounds, None);
            if run.oracle_failures.len() == before && run_count(&run, "platform:run-unavailable") == unavailable_before {
                trace(&mut run, proto, target, true, rounds, None);
                // the source address taken from a named interface (the loopback interface carries both families)
                trace(&mut run, proto, target, false, rounds, Some("lo"));
                // … and given outright: the loopback address itself, and for IPv6 also its IPv4-mapped spelling
                // (`::ffff:127.0.0.1`: an IPv6 address for the builder, bindable on a dual-stack host)
                trace_from(&mut run, proto, target, false, rounds, None, Some(target));
                if target.is_ipv6() && proto == Protocol::Icmp {
                    mapped_source(&mut run, target, rounds);
                }
            }
        }
    }
    run
}

fn run_count(run: &Run, k: &str) -> u64 {
    run.stats.get(k).copied().unwrap_or(0)
}
