//! `report`: the report generators of trippy-tui (`--mode csv|json|pretty|markdown|dot|flows|silent`), which print the
//! hop table of a finished trace.  C10 as a user of a report sees it: the rows are the hop table — one row per hop,
//! gap-free ascending from the lowest TTL ever probed, each row carrying its own hop's TTL, addresses and counts —
//! and producing a report never fails, including with first-ttl greater than one.
//!
//! Rounds as a conforming tracer publishes them against a generated network (the `agg` generator: any first TTL,
//! silent hops, losses, failed sends, several responders per hop) are applied to a real `Tracer` built by the real
//! `Builder`; every generator is run on it with standard output redirected to a scratch file, and its rows are compared
//! with `State::hops()` (which C10's theorems and the `agg` component are about) and with what was probed.
//! Oracles: `c19-report-nat` (the JSON report's `nat` field), `c10-report-rows`, `c10-report-fails`, `c05-report-stats` (same hops, other addresses or counts: not the
//! statistics of all published rounds).  No model is involved (one `conc noop` request).
use crate::agg::{gen_net, net_round, TARGET};
use crate::strategy::addr_of;
use crate::util::{guarded, Rng, Run};
use std::io::Write;
use trippy_core::{Builder, CompletionReason, ProbeStatus, Round, TimeToLive};
use trippy_dns::DnsResolver;
use trippy_tui::verif::{report, TraceInfo};

/// runs `f` with file descriptor 1 redirected to a scratch file; returns what was written
fn capture<R>(f: impl FnOnce() -> R) -> (R, String) {
    use std::os::unix::io::AsRawFd;
    let path = std::env::temp_dir().join(format!("tvh-report-{}.out", std::process::id()));
    let _ = std::io::stdout().flush();
    let Ok(file) = std::fs::File::create(&path) else { return (f(), String::new()) };
    let saved = unsafe { libc::dup(1) };
    unsafe { libc::dup2(file.as_raw_fd(), 1); }
    let r = f();
    let _ = std::io::stdout().flush();
    unsafe { libc::dup2(saved, 1); libc::close(saved); }
    drop(file);
    let text = std::fs::read_to_string(&path).unwrap_or_default();
    let _ = std::fs::remove_file(&path);
    (r, text)
}

#[derive(Debug, Clone, PartialEq, Eq)]
struct Row {
    ttl: String,
    ips: Vec<String>,
    sent: String,
    recv: String,
}

fn rows_csv(text: &str) -> Vec<Row> {
    text.lines().skip(1).filter(|l| !l.trim().is_empty()).map(|l| {
        let f: Vec<&str> = l.split(',').collect();
        let g = |i: usize| f.get(i).copied().unwrap_or("").to_string();
        Row { ttl: g(2), ips: if g(3) == "???" { vec![] } else { g(3).split(':').map(String::from).collect() }, sent: g(6), recv: g(7) }
    }).collect()
}

fn rows_table(text: &str) -> Vec<Row> {
    let mut rows: Vec<Row> = vec![];
    for line in text.lines() {
        let line = line.replace('┆', "|").replace('│', "|");
        if !line.starts_with('|') { continue; }
        let cells: Vec<String> = line.trim_matches('|').split('|').map(|c| c.trim().to_string()).collect();
        if cells.len() < 6 || cells[0] == "Hop" || cells[0].starts_with('-') { continue; }
        if cells[0].is_empty() {
            // a further address of the same hop
            if let Some(last) = rows.last_mut() { if !cells[1].is_empty() { last.ips.push(cells[1].clone()); } }
        } else {
            rows.push(Row { ttl: cells[0].clone(), ips: if cells[1] == "???" { vec![] } else { vec![cells[1].clone()] }, sent: cells[4].clone(), recv: cells[5].clone() });
        }
    }
    rows
}

fn rows_json(text: &str) -> Vec<Row> {
    let num_after = |seg: &str, key: &str| -> String {
        seg.find(key).map_or(String::new(), |i| seg[i + key.len()..].trim_start().chars().take_while(char::is_ascii_digit).collect())
    };
    let Some(h) = text.find("\"hops\"") else { return vec![] };
    text[h..].split("\"ttl\":").skip(1).map(|seg| {
        let ttl: String = seg.trim_start().chars().take_while(char::is_ascii_digit).collect();
        let ips = seg.split("\"ip\":").skip(1).map(|s| s.trim_start().trim_start_matches('"').chars().take_while(|c| *c != '"').collect()).collect();
        Row { ttl, ips, sent: num_after(seg, "\"sent\":"), recv: num_after(seg, "\"recv\":") }
    }).collect()
}

/// the statistics columns of every row, as printed
fn stats_shown(kind: &str, text: &str) -> Vec<Vec<String>> {
    match kind {
        "csv" => text.lines().skip(1).filter(|l| !l.trim().is_empty()).map(|l| {
            let f: Vec<&str> = l.split(',').collect();
            [5usize, 8, 9, 10, 11, 12].iter().map(|i| f.get(*i).copied().unwrap_or("").to_string()).collect()
        }).collect(),
        "markdown" | "pretty" => {
            let mut out = vec![];
            for line in text.lines() {
                let line = line.replace('┆', "|").replace('│', "|");
                if !line.starts_with('|') { continue; }
                let cells: Vec<String> = line.trim_matches('|').split('|').map(|c| c.trim().to_string()).collect();
                if cells.len() < 11 || cells[0] == "Hop" || cells[0].starts_with('-') || cells[0].is_empty() { continue; }
                out.push([3usize, 6, 7, 8, 9, 10].iter().map(|i| cells[*i].clone()).collect());
            }
            out
        }
        _ => {
            let Some(h) = text.find("\"hops\"") else { return vec![] };
            text[h..].split("\"ttl\":").skip(1).map(|seg| {
                ["loss_pct", "last", "avg", "best", "worst", "stddev", "jitter", "javg", "jmax", "jinta"].iter().map(|k| {
                    let key = format!("\"{k}\":");
                    seg.find(&key).map_or(String::new(), |i| seg[i + key.len()..].trim_start().trim_start_matches('"').chars().take_while(|c| *c != '"' && *c != ',' && *c != '\n').collect())
                }).collect()
            }).collect()
        }
    }
}

/// the same columns from the hop's accessors, formatted as that report formats them
fn stats_wanted(kind: &str, h: &trippy_core::Hop) -> Vec<String> {
    let opt1 = |v: Option<f64>| v.map_or_else(|| "???".to_string(), |x| format!("{x:.1}"));
    match kind {
        "csv" => vec![format!("{:.2}", h.loss_pct()), opt1(h.last_ms()), format!("{:.2}", h.avg_ms()), opt1(h.best_ms()), opt1(h.worst_ms()), format!("{:.2}", h.stddev_ms())],
        "markdown" | "pretty" => vec![format!("{:.1}", h.loss_pct()), opt1(h.last_ms()), format!("{:.1}", h.avg_ms()), opt1(h.best_ms()), opt1(h.worst_ms()), format!("{:.1}", h.stddev_ms())],
        _ => vec![format!("{:.2}", h.loss_pct()), format!("{:.2}", h.last_ms().unwrap_or_default()), format!("{:.2}", h.avg_ms()),
                  format!("{:.2}", h.best_ms().unwrap_or_default()), format!("{:.2}", h.worst_ms().unwrap_or_default()), format!("{:.2}", h.stddev_ms()),
                  format!("{:.2}", h.jitter_ms().unwrap_or_default()), format!("{:.2}", h.javg_ms()), format!("{:.2}", h.jmax_ms().unwrap_or_default()), format!("{:.2}", h.jinta())],
    }
}

fn case(run: &mut Run, rng: &mut Rng, dns: &DnsResolver) {
    let mut net = gen_net(rng, 12);
    let target = addr_of(TARGET, false);
    let built = Builder::new(target).first_ttl(net.first).max_samples(8).max_flows(4).build();
    let Ok(tracer) = built else {
        run.count("report:builder-rejected");
        return;
    };
    let n_rounds = 1 + rng.below(4) as usize;
    let mut probed: Vec<u8> = vec![];
    let mut lines = vec![];
    for r in 0..n_rounds {
        let rec = net_round(&mut net, rng, r);
        for p in &rec.probes {
            match p {
                ProbeStatus::Awaited(x) => probed.push(x.ttl.0),
                ProbeStatus::Complete(x) => probed.push(x.ttl.0),
                ProbeStatus::Failed(x) => probed.push(x.ttl.0),
                _ => {}
            }
        }
        let reason = if rec.target_found { CompletionReason::TargetFound } else { CompletionReason::RoundTimeLimitExceeded };
        lines.push(format!("largest={} ttls={:?}", rec.largest, rec.probes.iter().filter_map(|p| match p {
            ProbeStatus::Awaited(x) => Some((x.ttl.0, 'a')), ProbeStatus::Complete(x) => Some((x.ttl.0, 'c')), ProbeStatus::Failed(x) => Some((x.ttl.0, 'f')), _ => None }).collect::<Vec<_>>()));
        if guarded(|| tracer.verif_apply_round(&Round::new(&rec.probes, TimeToLive(rec.largest), reason))).is_err() {
            run.count("report:apply-round-panicked");
            return;
        }
    }
    let info = TraceInfo::new(tracer, "target.tvmark.test".to_string());
    let st = info.data.snapshot();
    let want: Vec<Row> = st.hops().iter().map(|h| Row {
        ttl: h.ttl().to_string(), ips: h.addrs().map(ToString::to_string).collect(), sent: h.total_sent().to_string(), recv: h.total_recv().to_string(),
    }).collect();
    let ctx = format!("first-ttl {} rounds [{}]", net.first, lines.join(" | "));
    // the generators wait (spinning on snapshots) until the state has reached round `report_cycles - 1`; no tracer
    // is running here, so they are asked for exactly the rounds the state has (a round without a single probe does
    // not advance it)
    let Some(n_rounds) = st.round(trippy_core::State::default_flow_id()).map(|r| r + 1) else {
        run.count("report:no-round-in-state");
        return;
    };
    // C10 from what was probed: the first row is the lowest TTL ever probed, the rows ascend by one
    let lowest = probed.iter().min().copied();
    type Parser = fn(&str) -> Vec<Row>;
    let kinds: [(&str, Option<Parser>); 7] = [
        ("csv", Some(rows_csv)), ("json", Some(rows_json)), ("markdown", Some(rows_table)), ("pretty", Some(rows_table)),
        ("dot", None), ("flows", None), ("silent", None),
    ];
    for (kind, parser) in kinds {
        run.count(&format!("report:{kind}"));
        let (res, text) = capture(|| guarded(|| match kind {
            "csv" => report::csv(&info, n_rounds, dns),
            "json" => report::json(&info, n_rounds, dns),
            "markdown" => report::report_md(&info, n_rounds, dns),
            "pretty" => report::report_pretty(&info, n_rounds, dns),
            "dot" => report::dot(&info, n_rounds),
            "flows" => report::flows(&info, n_rounds),
            _ => report::silent(&info, n_rounds),
        }));
        match res {
            Err(p) => { run.fail("c10-report-fails", format!("{kind} report, {ctx}: panic {p}")); continue; }
            Ok(Err(e)) => { run.fail("c10-report-fails", format!("{kind} report, {ctx}: {e}")); continue; }
            Ok(Ok(())) => {}
        }
        let Some(parser) = parser else { continue };
        let got = parser(&text);
        if got != want {
            let k = got.iter().zip(&want).position(|(a, b)| a != b).unwrap_or(got.len().min(want.len()));
            // the same hops with other counts: the statistics are not those of all published rounds (C05)
            let same_hops = got.len() == want.len() && got.iter().zip(&want).all(|(a, b)| a.ttl == b.ttl);
            run.fail(if same_hops { "c05-report-stats" } else { "c10-report-rows" }, format!("{kind} report, {ctx}: {} rows for {} hops; first difference at row {k}: report {:?}, hop table {:?}",
                got.len(), want.len(), got.get(k), want.get(k)));
            continue;
        }
        if let (Some(lo), Some(first)) = (lowest, got.first()) {
            let asc = got.iter().enumerate().all(|(i, r)| r.ttl == (usize::from(lo) + i).to_string());
            // only for what a tracer can publish: every position of the table was probed at some time (the generator
            // also makes rounds with a TTL left out, which no strategy produces: that position is a default hop)
            let all_probed = (0..got.len()).all(|i| probed.contains(&((usize::from(lo) + i).min(255) as u8)));
            if !all_probed { run.count("report:table-with-unprobed-position"); }
            if all_probed && !want.is_empty() && (first.ttl != lo.to_string() || !asc) {
                run.fail("c10-report-rows", format!("{kind} report, {ctx}: rows {:?} are not the run of TTLs from the lowest probed ({lo})", got.iter().map(|r| r.ttl.clone()).collect::<Vec<_>>()));
            }
        }
        run.count("report:rows-compared");
        // C05 as the report shows it: every statistics column is the hop's own figure (loss, last, mean, best, worst,
        // standard deviation; the JSON report also the jitter figures)
        let shown = stats_shown(kind, &text);
        let wanted: Vec<Vec<String>> = st.hops().iter().map(|h| stats_wanted(kind, h)).collect();
        if shown != wanted {
            let k = shown.iter().zip(&wanted).position(|(a, b)| a != b).unwrap_or(shown.len().min(wanted.len()));
            run.fail("c05-report-stats", format!("{kind} report, {ctx}: statistics of row {k} are {:?}, the hop's are {:?} (loss, last, mean, best, worst, stddev{})",
                shown.get(k), wanted.get(k), if kind == "json" { ", jitter, javg, jmax, jinta" } else { "" }));
        } else {
            run.count("report:stats-compared");
        }
        // C19 in the JSON report: `nat` is null / false / true as the hop's status is not applicable / not detected / detected
        if kind == "json" {
            let shown: Vec<String> = text.split("\"ttl\":").skip(1).map(|seg| {
                seg.find("\"nat\":").map_or(String::from("?"), |i| seg[i + 6..].trim_start().chars().take_while(char::is_ascii_alphabetic).collect())
            }).collect();
            let expect: Vec<String> = st.hops().iter().map(|h| match h.last_nat_status() {
                trippy_core::NatStatus::NotApplicable => "null", trippy_core::NatStatus::NotDetected => "false", trippy_core::NatStatus::Detected => "true",
            }.to_string()).collect();
            if shown != expect {
                run.fail("c19-report-nat", format!("json report, {ctx}: nat fields {shown:?}, hop statuses {expect:?}"));
            }
            for e in &expect { run.count(&format!("report:nat-{e}")); }
        }
        if !got.is_empty() { run.count("report:nonempty"); }
        if got.iter().any(|r| r.ips.len() > 1) { run.count("report:several-addresses-in-a-row"); }
        if got.first().is_some_and(|r| r.ttl != "1") { run.count("report:first-row-above-ttl-1"); }
        *run.stats.entry("report:rows".into()).or_default() += got.len() as u64;
    }
}

pub fn run(rng: &mut Rng, thorough: bool, _corpus: &[String]) -> Run {
    let mut run = Run::new();
    run.op("conc noop".into(), "ok".into());
    // host names: the harness's offline `getnameinfo` stub (no marker addresses here: every address stays unresolved)
    crate::tui::DNS_STUB.store(true, std::sync::atomic::Ordering::SeqCst);
    let Ok(dns) = DnsResolver::start(trippy_dns::Config::default()) else {
        run.count("report:resolver-unavailable");
        return run;
    };
    for _ in 0..if thorough { 600 } else { 80 } {
        case(&mut run, rng, &dns);
    }
    crate::tui::DNS_STUB.store(false, std::sync::atomic::Ordering::SeqCst);
    run
}
