//! A simulated `Socket` for driving the real `Ipv4` / `Ipv6` dispatch and receive code.
//!
//! The constructors of the `Socket` trait are static, so the simulation context lives in a
//! `thread_local!`.  Every call is recorded as one canonical `SockOp` text (the same text the
//! Lean `TV.Wire.showOp` prints); `read` / `recv_from` are served from a queue of injected
//! datagrams; one error may be armed for the next call of a given name (`inject`).
use crate::util::hex;
use std::cell::RefCell;
use std::collections::VecDeque;
use std::io;
use std::net::{IpAddr, Ipv4Addr, Ipv6Addr, SocketAddr};
use std::time::Duration;
use trippy_core::verif::{IoError, IoOperation, IoResult, Socket, SocketError};

/// what a writable TCP socket reports
#[derive(Clone, Debug)]
pub enum TcpState {
    /// `take_error() = None`, `peer_addr()`
    Connected(Option<IpAddr>),
    Refused,
    /// `SocketError::HostUnreachable`, `icmp_error_info()`
    Unreach(IpAddr),
    Other,
    /// `take_error()` itself fails with an I/O error
    TakeErrorFails,
}

/// what `is_writable` / `is_readable` answer
#[derive(Clone, Copy, Debug, PartialEq)]
pub enum Poll {
    Yes,
    No,
    Fails,
}

/// per-socket state of the sockets created through the static constructors
#[derive(Clone, Debug)]
pub struct SockState {
    pub kind: String,
    pub writable: Poll,
    pub tcp: Option<TcpState>,
}

/// an error to return from a socket call
#[derive(Clone, Copy, Debug)]
pub enum Inject {
    Errno(i32),
    Kind(io::ErrorKind),
}

impl Inject {
    pub fn make(self) -> io::Error {
        match self {
            Self::Errno(e) => io::Error::from_raw_os_error(e),
            Self::Kind(k) => io::Error::from(k),
        }
    }
}

pub struct Ctx {
    pub ops: Vec<String>,
    pub queue: VecDeque<(Vec<u8>, Option<SocketAddr>)>,
    /// (call name, error): consumed by the next call of that name
    pub inject: Option<(&'static str, Inject)>,
    pub tcp: TcpState,
    /// sockets by id (creation order), ids of dropped sockets, ids polled with `is_writable`
    pub socks: Vec<SockState>,
    pub dropped: Vec<usize>,
    pub polled: Vec<usize>,
    /// `None`: `is_readable` is true iff a datagram is queued (the `wire` behaviour)
    pub readable: Option<Poll>,
    /// the next `read` / `recv_from` fails with an error other than `WouldBlock`
    pub read_fails: bool,
    /// errors armed for successive dispatches (the `stack` component): the head is consumed by the
    /// next call of its name, then the next entry becomes the head
    pub inject_queue: VecDeque<(&'static str, Inject)>,
    /// number of `is_readable` calls (the closed-loop run of `stack` delimits iterations with it)
    pub readable_calls: u64,
    /// what a socket answers to `is_writable` until it is scripted (`set_sock`)
    pub default_writable: Poll,
}

impl Ctx {
    fn fresh() -> Self {
        Self {
            ops: vec![], queue: VecDeque::new(), inject: None, tcp: TcpState::Other,
            socks: vec![], dropped: vec![], polled: vec![], readable: None, read_fails: false,
            inject_queue: VecDeque::new(), readable_calls: 0, default_writable: Poll::Yes,
        }
    }
}

thread_local! {
    static CTX: RefCell<Ctx> = RefCell::new(Ctx::fresh());
}

/// run `f` in a fresh simulation context and restore the current one afterwards
pub fn with_scratch<T>(f: impl FnOnce() -> T) -> T {
    let saved = CTX.with(|c| std::mem::replace(&mut *c.borrow_mut(), Ctx::fresh()));
    let r = f();
    CTX.with(|c| *c.borrow_mut() = saved);
    r
}

/// clear the recorded calls, the datagram queue and any armed error
pub fn reset() {
    CTX.with(|c| {
        let mut c = c.borrow_mut();
        c.ops.clear();
        c.queue.clear();
        c.inject = None;
        c.tcp = TcpState::Other;
        c.socks.clear();
        c.dropped.clear();
        c.polled.clear();
        c.readable = None;
        c.read_fails = false;
        c.inject_queue.clear();
        c.readable_calls = 0;
        c.default_writable = Poll::Yes;
    });
}
pub fn set_default_writable(p: Poll) {
    CTX.with(|c| c.borrow_mut().default_writable = p);
}
/// forget the recorded calls of the previous operation, keep the sockets
pub fn clear_ops() {
    CTX.with(|c| {
        let mut c = c.borrow_mut();
        c.ops.clear();
        c.polled.clear();
        c.queue.clear();
        c.inject = None;
        c.read_fails = false;
        c.inject_queue.clear();
    });
}
/// arm errors for successive dispatches
pub fn arm_queue(q: &[(&'static str, Inject)]) {
    CTX.with(|c| c.borrow_mut().inject_queue = q.iter().copied().collect());
}
pub fn clear_inject() {
    CTX.with(|c| {
        let mut c = c.borrow_mut();
        c.inject = None;
        c.inject_queue.clear();
    });
}
/// per-`is_readable` hook of the closed-loop run: called with the number of the call, returns the
/// answer (the hook advances the virtual clock and queues datagrams itself)
pub type ReadableHook = Box<dyn FnMut(u64) -> Poll>;
thread_local! {
    static HOOK: RefCell<Option<ReadableHook>> = const { RefCell::new(None) };
}
pub fn set_readable_hook(h: Option<ReadableHook>) {
    HOOK.with(|x| *x.borrow_mut() = h);
}
pub fn socket_count() -> usize {
    CTX.with(|c| c.borrow().socks.len())
}
pub fn socket_kind(id: usize) -> String {
    CTX.with(|c| c.borrow().socks.get(id).map(|s| s.kind.clone()).unwrap_or_default())
}
pub fn is_dropped(id: usize) -> bool {
    CTX.with(|c| c.borrow().dropped.contains(&id))
}
pub fn take_polled() -> Vec<usize> {
    CTX.with(|c| std::mem::take(&mut c.borrow_mut().polled))
}
pub fn set_sock(id: usize, writable: Poll, tcp: Option<TcpState>) {
    CTX.with(|c| {
        if let Some(s) = c.borrow_mut().socks.get_mut(id) {
            s.writable = writable;
            s.tcp = tcp;
        }
    });
}
pub fn set_readable(p: Option<Poll>) {
    CTX.with(|c| c.borrow_mut().readable = p);
}
pub fn set_read_fails(b: bool) {
    CTX.with(|c| c.borrow_mut().read_fails = b);
}
pub fn take_ops() -> Vec<String> {
    CTX.with(|c| std::mem::take(&mut c.borrow_mut().ops))
}
pub fn push_datagram(bytes: Vec<u8>, from: Option<SocketAddr>) {
    CTX.with(|c| c.borrow_mut().queue.push_back((bytes, from)));
}
pub fn arm(call: &'static str, e: Inject) {
    CTX.with(|c| c.borrow_mut().inject = Some((call, e)));
}
pub fn armed() -> bool {
    CTX.with(|c| c.borrow().inject.is_some())
}
pub fn set_tcp(s: TcpState) {
    CTX.with(|c| c.borrow_mut().tcp = s);
}

pub fn addr_hex(a: IpAddr) -> String {
    match a {
        IpAddr::V4(a) => hex(&a.octets()),
        IpAddr::V6(a) => hex(&a.octets()),
    }
}

fn record(op: String) {
    CTX.with(|c| c.borrow_mut().ops.push(op));
}

/// the armed error, if it is for this call
fn failing(call: &str) -> Option<io::Error> {
    CTX.with(|c| {
        let mut c = c.borrow_mut();
        match c.inject {
            Some((name, e)) if name == call => {
                c.inject = None;
                Some(e.make())
            }
            Some(_) => None,
            None => match c.inject_queue.front().copied() {
                Some((name, e)) if name == call => {
                    c.inject_queue.pop_front();
                    Some(e.make())
                }
                _ => None,
            },
        }
    })
}

pub struct SimSocket {
    /// index into `Ctx::socks`; `usize::MAX` for a socket made with `SimSocket::anon()`
    pub id: usize,
}

impl SimSocket {
    /// a socket that was not created through the trait's constructors (used by `wire`, which
    /// hands sockets to `Ipv4` / `Ipv6` directly)
    pub const fn anon() -> Self {
        Self { id: usize::MAX }
    }
    fn tcp_state(&self) -> TcpState {
        CTX.with(|c| {
            let c = c.borrow();
            c.socks.get(self.id).and_then(|s| s.tcp.clone()).unwrap_or_else(|| c.tcp.clone())
        })
    }
}

impl Drop for SimSocket {
    fn drop(&mut self) {
        if self.id != usize::MAX {
            let id = self.id;
            let _ = CTX.try_with(|c| {
                if let Ok(mut c) = c.try_borrow_mut() {
                    c.dropped.push(id);
                }
            });
        }
    }
}

fn new_socket(text: String) -> IoResult<SimSocket> {
    let kind = text.clone();
    record(text);
    match failing("new") {
        Some(e) => Err(IoError::Other(e, IoOperation::NewSocket)),
        None => Ok(CTX.with(|c| {
            let mut c = c.borrow_mut();
            let w = c.default_writable;
            c.socks.push(SockState { kind, writable: w, tcp: None });
            SimSocket { id: c.socks.len() - 1 }
        })),
    }
}

impl Socket for SimSocket {
    fn new_icmp_send_socket_ipv4(raw: bool) -> IoResult<Self> {
        new_socket(format!("new:icmp4:{}", u8::from(raw)))
    }
    fn new_icmp_send_socket_ipv6(raw: bool) -> IoResult<Self> {
        new_socket(format!("new:icmp6:{}", u8::from(raw)))
    }
    fn new_udp_send_socket_ipv4(raw: bool) -> IoResult<Self> {
        new_socket(format!("new:udp4:{}", u8::from(raw)))
    }
    fn new_udp_send_socket_ipv6(raw: bool) -> IoResult<Self> {
        new_socket(format!("new:udp6:{}", u8::from(raw)))
    }
    fn new_recv_socket_ipv4(addr: Ipv4Addr, raw: bool) -> IoResult<Self> {
        new_socket(format!("new:recv4:{}:{}", hex(&addr.octets()), u8::from(raw)))
    }
    fn new_recv_socket_ipv6(addr: Ipv6Addr, raw: bool) -> IoResult<Self> {
        new_socket(format!("new:recv6:{}:{}", hex(&addr.octets()), u8::from(raw)))
    }
    fn new_stream_socket_ipv4() -> IoResult<Self> {
        new_socket("new:tcp4".into())
    }
    fn new_stream_socket_ipv6() -> IoResult<Self> {
        new_socket("new:tcp6".into())
    }
    fn new_udp_dgram_socket_ipv4() -> IoResult<Self> {
        new_socket("new:dgram4".into())
    }
    fn new_udp_dgram_socket_ipv6() -> IoResult<Self> {
        new_socket("new:dgram6".into())
    }
    fn bind(&mut self, address: SocketAddr) -> IoResult<()> {
        record(format!("bind:{}:{}", addr_hex(address.ip()), address.port()));
        failing("bind").map_or(Ok(()), |e| Err(IoError::Bind(e, address)))
    }
    fn set_tos(&mut self, tos: u32) -> IoResult<()> {
        record(format!("tos:{tos}"));
        failing("tos").map_or(Ok(()), |e| Err(IoError::Other(e, IoOperation::SetTos)))
    }
    fn set_ttl(&mut self, ttl: u32) -> IoResult<()> {
        record(format!("ttl:{ttl}"));
        failing("ttl").map_or(Ok(()), |e| Err(IoError::Other(e, IoOperation::SetTtl)))
    }
    fn set_reuse_port(&mut self, reuse: bool) -> IoResult<()> {
        record(format!("reuse:{}", u8::from(reuse)));
        Ok(())
    }
    fn set_header_included(&mut self, included: bool) -> IoResult<()> {
        record(format!("hdrincl:{}", u8::from(included)));
        Ok(())
    }
    fn set_unicast_hops_v6(&mut self, hops: u8) -> IoResult<()> {
        record(format!("hops:{hops}"));
        failing("hops").map_or(Ok(()), |e| Err(IoError::Other(e, IoOperation::SetUnicastHopsV6)))
    }
    fn connect(&mut self, address: SocketAddr) -> IoResult<()> {
        record(format!("conn:{}:{}", addr_hex(address.ip()), address.port()));
        failing("conn").map_or(Ok(()), |e| Err(IoError::Connect(e, address)))
    }
    fn send_to(&mut self, buf: &[u8], addr: SocketAddr) -> IoResult<()> {
        record(format!("send:{}:{}:{}", hex(buf), addr_hex(addr.ip()), addr.port()));
        failing("send").map_or(Ok(()), |e| Err(IoError::SendTo(e, addr)))
    }
    fn is_readable(&mut self, _timeout: Duration) -> IoResult<bool> {
        let n = CTX.with(|c| { let mut c = c.borrow_mut(); c.readable_calls += 1; c.readable_calls });
        let hooked = HOOK.with(|h| h.borrow_mut().as_mut().map(|f| f(n)));
        if let Some(p) = hooked {
            return match p {
                Poll::Yes => Ok(true),
                Poll::No => Ok(false),
                Poll::Fails => Err(IoError::Other(io::Error::from(io::ErrorKind::PermissionDenied), IoOperation::Select)),
            };
        }
        match CTX.with(|c| { let c = c.borrow(); c.readable.unwrap_or(if c.queue.is_empty() { Poll::No } else { Poll::Yes }) }) {
            Poll::Yes => Ok(true),
            Poll::No => Ok(false),
            Poll::Fails => Err(IoError::Other(io::Error::from(io::ErrorKind::PermissionDenied), IoOperation::Select)),
        }
    }
    fn is_writable(&mut self) -> IoResult<bool> {
        let id = self.id;
        let w = CTX.with(|c| {
            let mut c = c.borrow_mut();
            c.polled.push(id);
            c.socks.get(id).map_or(Poll::Yes, |s| s.writable)
        });
        match w {
            Poll::Yes => Ok(true),
            Poll::No => Ok(false),
            Poll::Fails => Err(IoError::Other(io::Error::from(io::ErrorKind::PermissionDenied), IoOperation::Select)),
        }
    }
    fn recv_from(&mut self, buf: &mut [u8]) -> IoResult<(usize, Option<SocketAddr>)> {
        if CTX.with(|c| std::mem::take(&mut c.borrow_mut().read_fails)) {
            return Err(IoError::Other(io::Error::from(io::ErrorKind::PermissionDenied), IoOperation::RecvFrom));
        }
        match CTX.with(|c| c.borrow_mut().queue.pop_front()) {
            Some((d, from)) => {
                let n = d.len().min(buf.len());
                buf[..n].copy_from_slice(&d[..n]);
                Ok((n, from))
            }
            None => Err(IoError::Other(io::Error::from(io::ErrorKind::WouldBlock), IoOperation::RecvFrom)),
        }
    }
    fn read(&mut self, buf: &mut [u8]) -> IoResult<usize> {
        if CTX.with(|c| std::mem::take(&mut c.borrow_mut().read_fails)) {
            return Err(IoError::Other(io::Error::from(io::ErrorKind::PermissionDenied), IoOperation::Read));
        }
        match CTX.with(|c| c.borrow_mut().queue.pop_front()) {
            Some((d, _)) => {
                let n = d.len().min(buf.len());
                buf[..n].copy_from_slice(&d[..n]);
                Ok(n)
            }
            None => Err(IoError::Other(io::Error::from(io::ErrorKind::WouldBlock), IoOperation::Read)),
        }
    }
    fn shutdown(&mut self) -> IoResult<()> {
        Ok(())
    }
    fn peer_addr(&mut self) -> IoResult<Option<SocketAddr>> {
        Ok(match self.tcp_state() {
            TcpState::Connected(a) => a.map(|a| SocketAddr::new(a, 0)),
            _ => None,
        })
    }
    fn take_error(&mut self) -> IoResult<Option<SocketError>> {
        record(format!("takeerr:{}", self.id));
        Ok(match self.tcp_state() {
            TcpState::Connected(_) => None,
            TcpState::Refused => Some(SocketError::ConnectionRefused),
            TcpState::Unreach(_) => Some(SocketError::HostUnreachable),
            TcpState::Other => Some(SocketError::Other(io::Error::from(io::ErrorKind::TimedOut))),
            TcpState::TakeErrorFails => {
                return Err(IoError::Other(io::Error::from(io::ErrorKind::PermissionDenied), IoOperation::TakeError))
            }
        })
    }
    fn icmp_error_info(&mut self) -> IoResult<IpAddr> {
        Ok(match self.tcp_state() {
            TcpState::Unreach(a) => a,
            _ => IpAddr::V4(Ipv4Addr::UNSPECIFIED),
        })
    }
}
