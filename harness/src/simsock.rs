//! A simulated `Socket` for driving the real `Ipv4` / `Ipv6` dispatch and receive code.
//!
//! The constructors of the `Socket` trait are static, so the simulation context lives in a
//! `thread_local!`.  Every call is recorded as one canonical `SockOp` text (the same text the
//! Lean `TV.Wire.showOp` prints); `read` / `recv_from` are served from a queue of injected
//! datagrams; one error may be armed for the next call of a given name (`inject`).
use crate::util::hex;
use std::cell::RefCell;
use std::collections::VecDeque;
use std::io;
use std::net::{IpAddr, Ipv4Addr, Ipv6Addr, SocketAddr};
use std::time::Duration;
use trippy_core::verif::{IoError, IoOperation, IoResult, Socket, SocketError};

/// what a writable TCP socket reports
#[derive(Clone, Debug)]
pub enum TcpState {
    /// `take_error() = None`, `peer_addr()`
    Connected(Option<IpAddr>),
    Refused,
    /// `SocketError::HostUnreachable`, `icmp_error_info()`
    Unreach(IpAddr),
    Other,
}

/// an error to return from a socket call
#[derive(Clone, Copy, Debug)]
pub enum Inject {
    Errno(i32),
    Kind(io::ErrorKind),
}

impl Inject {
    pub fn make(self) -> io::Error {
        match self {
            Self::Errno(e) => io::Error::from_raw_os_error(e),
            Self::Kind(k) => io::Error::from(k),
        }
    }
}

pub struct Ctx {
    pub ops: Vec<String>,
    pub queue: VecDeque<(Vec<u8>, Option<SocketAddr>)>,
    /// (call name, error): consumed by the next call of that name
    pub inject: Option<(&'static str, Inject)>,
    pub tcp: TcpState,
}

thread_local! {
    static CTX: RefCell<Ctx> = RefCell::new(Ctx {
        ops: vec![], queue: VecDeque::new(), inject: None, tcp: TcpState::Other,
    });
}

/// clear the recorded calls, the datagram queue and any armed error
pub fn reset() {
    CTX.with(|c| {
        let mut c = c.borrow_mut();
        c.ops.clear();
        c.queue.clear();
        c.inject = None;
        c.tcp = TcpState::Other;
    });
}
pub fn take_ops() -> Vec<String> {
    CTX.with(|c| std::mem::take(&mut c.borrow_mut().ops))
}
pub fn push_datagram(bytes: Vec<u8>, from: Option<SocketAddr>) {
    CTX.with(|c| c.borrow_mut().queue.push_back((bytes, from)));
}
pub fn arm(call: &'static str, e: Inject) {
    CTX.with(|c| c.borrow_mut().inject = Some((call, e)));
}
pub fn armed() -> bool {
    CTX.with(|c| c.borrow().inject.is_some())
}
pub fn set_tcp(s: TcpState) {
    CTX.with(|c| c.borrow_mut().tcp = s);
}

pub fn addr_hex(a: IpAddr) -> String {
    match a {
        IpAddr::V4(a) => hex(&a.octets()),
        IpAddr::V6(a) => hex(&a.octets()),
    }
}

fn record(op: String) {
    CTX.with(|c| c.borrow_mut().ops.push(op));
}

/// the armed error, if it is for this call
fn failing(call: &str) -> Option<io::Error> {
    CTX.with(|c| {
        let mut c = c.borrow_mut();
        match c.inject {
            Some((name, e)) if name == call => {
                c.inject = None;
                Some(e.make())
            }
            _ => None,
        }
    })
}

pub struct SimSocket;

fn new_socket(text: String) -> IoResult<SimSocket> {
    record(text);
    match failing("new") {
        Some(e) => Err(IoError::Other(e, IoOperation::NewSocket)),
        None => Ok(SimSocket),
    }
}

impl Socket for SimSocket {
    fn new_icmp_send_socket_ipv4(raw: bool) -> IoResult<Self> {
        new_socket(format!("new:icmp4:{}", u8::from(raw)))
    }
    fn new_icmp_send_socket_ipv6(raw: bool) -> IoResult<Self> {
        new_socket(format!("new:icmp6:{}", u8::from(raw)))
    }
    fn new_udp_send_socket_ipv4(raw: bool) -> IoResult<Self> {
        new_socket(format!("new:udp4:{}", u8::from(raw)))
    }
    fn new_udp_send_socket_ipv6(raw: bool) -> IoResult<Self> {
        new_socket(format!("new:udp6:{}", u8::from(raw)))
    }
    fn new_recv_socket_ipv4(addr: Ipv4Addr, raw: bool) -> IoResult<Self> {
        new_socket(format!("new:recv4:{}:{}", hex(&addr.octets()), u8::from(raw)))
    }
    fn new_recv_socket_ipv6(addr: Ipv6Addr, raw: bool) -> IoResult<Self> {
        new_socket(format!("new:recv6:{}:{}", hex(&addr.octets()), u8::from(raw)))
    }
    fn new_stream_socket_ipv4() -> IoResult<Self> {
        new_socket("new:tcp4".into())
    }
    fn new_stream_socket_ipv6() -> IoResult<Self> {
        new_socket("new:tcp6".into())
    }
    fn new_udp_dgram_socket_ipv4() -> IoResult<Self> {
        new_socket("new:dgram4".into())
    }
    fn new_udp_dgram_socket_ipv6() -> IoResult<Self> {
        new_socket("new:dgram6".into())
    }
    fn bind(&mut self, address: SocketAddr) -> IoResult<()> {
        record(format!("bind:{}:{}", addr_hex(address.ip()), address.port()));
        failing("bind").map_or(Ok(()), |e| Err(IoError::Bind(e, address)))
    }
    fn set_tos(&mut self, tos: u32) -> IoResult<()> {
        record(format!("tos:{tos}"));
        failing("tos").map_or(Ok(()), |e| Err(IoError::Other(e, IoOperation::SetTos)))
    }
    fn set_ttl(&mut self, ttl: u32) -> IoResult<()> {
        record(format!("ttl:{ttl}"));
        failing("ttl").map_or(Ok(()), |e| Err(IoError::Other(e, IoOperation::SetTtl)))
    }
    fn set_reuse_port(&mut self, reuse: bool) -> IoResult<()> {
        record(format!("reuse:{}", u8::from(reuse)));
        Ok(())
    }
    fn set_header_included(&mut self, included: bool) -> IoResult<()> {
        record(format!("hdrincl:{}", u8::from(included)));
        Ok(())
    }
    fn set_unicast_hops_v6(&mut self, hops: u8) -> IoResult<()> {
        record(format!("hops:{hops}"));
        failing("hops").map_or(Ok(()), |e| Err(IoError::Other(e, IoOperation::SetUnicastHopsV6)))
    }
    fn connect(&mut self, address: SocketAddr) -> IoResult<()> {
        record(format!("conn:{}:{}", addr_hex(address.ip()), address.port()));
        failing("conn").map_or(Ok(()), |e| Err(IoError::Connect(e, address)))
    }
    fn send_to(&mut self, buf: &[u8], addr: SocketAddr) -> IoResult<()> {
        record(format!("send:{}:{}:{}", hex(buf), addr_hex(addr.ip()), addr.port()));
        failing("send").map_or(Ok(()), |e| Err(IoError::SendTo(e, addr)))
    }
    fn is_readable(&mut self, _timeout: Duration) -> IoResult<bool> {
        Ok(CTX.with(|c| !c.borrow().queue.is_empty()))
    }
    fn is_writable(&mut self) -> IoResult<bool> {
        Ok(true)
    }
    fn recv_from(&mut self, buf: &mut [u8]) -> IoResult<(usize, Option<SocketAddr>)> {
        match CTX.with(|c| c.borrow_mut().queue.pop_front()) {
            Some((d, from)) => {
                let n = d.len().min(buf.len());
                buf[..n].copy_from_slice(&d[..n]);
                Ok((n, from))
            }
            None => Err(IoError::Other(io::Error::from(io::ErrorKind::WouldBlock), IoOperation::RecvFrom)),
        }
    }
    fn read(&mut self, buf: &mut [u8]) -> IoResult<usize> {
        match CTX.with(|c| c.borrow_mut().queue.pop_front()) {
            Some((d, _)) => {
                let n = d.len().min(buf.len());
                buf[..n].copy_from_slice(&d[..n]);
                Ok(n)
            }
            None => Err(IoError::Other(io::Error::from(io::ErrorKind::WouldBlock), IoOperation::Read)),
        }
    }
    fn shutdown(&mut self) -> IoResult<()> {
        Ok(())
    }
    fn peer_addr(&mut self) -> IoResult<Option<SocketAddr>> {
        Ok(CTX.with(|c| match &c.borrow().tcp {
            TcpState::Connected(a) => a.map(|a| SocketAddr::new(a, 0)),
            _ => None,
        }))
    }
    fn take_error(&mut self) -> IoResult<Option<SocketError>> {
        Ok(CTX.with(|c| match &c.borrow().tcp {
            TcpState::Connected(_) => None,
            TcpState::Refused => Some(SocketError::ConnectionRefused),
            TcpState::Unreach(_) => Some(SocketError::HostUnreachable),
            TcpState::Other => Some(SocketError::Other(io::Error::from(io::ErrorKind::TimedOut))),
        }))
    }
    fn icmp_error_info(&mut self) -> IoResult<IpAddr> {
        Ok(CTX.with(|c| match &c.borrow().tcp {
            TcpState::Unreach(a) => *a,
            _ => IpAddr::V4(Ipv4Addr::UNSPECIFIED),
        }))
    }
}
