//! The whole library stack: the real `Builder` → `Tracer` → `Channel<SimSocket>` → `Strategy` →
//! `State`, driven under the virtual clock over the simulated socket and compared with the Lean
//! model `TV.Stack` (`Model/Stack.lean`), which composes the channel, strategy and aggregator
//! models.  What is compared is the *glue* the per-layer components do not see: how
//! `make_channel_config` / `make_strategy_config` / `make_state_config` split the builder's values,
//! what each `Error` of `Channel::send_probe` means to `Strategy::do_send`, the `Response` handed to
//! `validate` / `StrategyResponse::from`, the handler folding published rounds into the `State`,
//! `handle_error`.
//!
//! Two set-ups:
//! * **open loop** (`stack it`): `Channel::connect(&tracer.verif_channel_config(src))`, then per
//!   iteration `verif_send_request` / (advance the clock, script the sockets) / `verif_recv_response`
//!   / `verif_update_round` with `tracer.verif_apply_round` as the publisher — everything the
//!   iteration did is compared: socket calls per `send_probe`, the log of calls with their meaning,
//!   the response, the TCP probes polled and outstanding, the published round, the tracer state.
//! * **closed loop** (`stack itq`): the real `Tracer::verif_run_with::<SimSocket>` runs to completion
//!   on its own (`Strategy::run`); an iteration is delimited by its `is_readable` call; compared are
//!   the socket calls and the published round of every iteration, the result of the run and the
//!   final hop table; oracles: exactly `max_rounds` rounds, numbered in order, `Ok(())`, bounded
//!   virtual time (C09), a fatal error is returned and visible in the snapshot.
//!
//! Request lines (answered identically by `TV.Stack.handle`):
//!   `stack new <11 connect tokens> <14 strategy tokens> <maxSamples> <maxFlows> <t0Ns>`
//!   `stack it <injs> <dtNs> <r|n|e> <dgram> <tcpenv>` / `stack itq …` / `stack dump`
//!
//! Oracles (on the real code): `c09-stack-panic`, `c09-stack-rounds` (closed loop: not exactly n rounds
//! / not in order / not `Ok`), `c09-stack-not-terminated`, `c09-stack-error-invisible`,
//! `c01-stack-ground-truth` (a published Complete entry without a delivered genuine response for that
//! probe, or a wrong responder / receive time; a delivered genuine response whose probe is not
//! reported complete), `c01-stack-totals` (hop totals ≠ sums of the published outcomes).
use crate::chan::{chan_err_kind, show_live, show_ops, CCfg, Dgram, Live, SockEnv};
use crate::clock;
use crate::simsock::{self, Inject, Poll, SimSocket};
use crate::strategy::{show_probe, show_round, Pd};
use crate::util::{guarded, hex, Rng, Run};
use crate::wire::{io_kind_name, show_recv};
use crate::wire_enc::*;
use std::cell::RefCell;
use std::collections::BTreeMap;
use std::net::{IpAddr, SocketAddr};
use std::rc::Rc;
use std::time::Duration;
use trippy_core::verif::{Channel, Error, Network, Response, VerifState};
use trippy_core::{
    Builder, IcmpExtensionParseMode, MultipathStrategy, PortDirection, PrivilegeMode, Probe, ProbeStatus, Protocol,
    Round, Strategy, Tracer,
};

const MS: u64 = 1_000_000;

/// everything the builder is given
#[derive(Clone, Debug)]
pub struct SCfg {
    pub src: IpAddr,
    pub dst: IpAddr,
    pub proto: char,
    pub strat: char,
    pub pd: Pd,
    pub privileged: bool,
    pub size: u16,
    pub pattern: u8,
    pub tos: u8,
    pub ext: bool,
    pub initial: u16,
    pub trace_id: u16,
    pub max_rounds: Option<usize>,
    pub first: u8,
    pub max: u8,
    pub inflight: u8,
    pub grace: u64,
    pub min_round: u64,
    pub max_round: u64,
    pub read_timeout: u64,
    pub tcp_timeout: u64,
    pub max_samples: usize,
    pub max_flows: usize,
}

impl SCfg {
    pub fn v6(&self) -> bool {
        self.src.is_ipv6()
    }
    /// the channel's share, as the model is told (independently of `make_channel_config`)
    pub fn ccfg(&self) -> CCfg {
        CCfg {
            src: self.src, dst: self.dst, size: self.size, pattern: self.pattern, privileged: self.privileged,
            tos: self.tos, proto: self.proto, ext: self.ext, initial: self.initial, read_timeout: self.read_timeout,
            tcp_timeout: self.tcp_timeout,
        }
    }
    /// the strategy's share (independently of `make_strategy_config`)
    fn strat_tokens(&self) -> String {
        let pd = match &self.pd {
            Pd::None => "n".to_string(),
            Pd::Src(p) => format!("s:{p}"),
            Pd::Dest(p) => format!("d:{p}"),
            Pd::Both(a, b) => format!("b:{a}:{b}"),
        };
        format!(
            "{} {} {} {} {} {} {} {} {} {} {} {} {} {}",
            u8::from(self.v6()), addr_num(self.dst), self.proto, self.trace_id,
            self.max_rounds.map_or("-".to_string(), |m| m.to_string()), self.first, self.max, self.grace,
            self.inflight, self.initial, self.strat, pd, self.min_round, self.max_round
        )
    }
    pub fn new_line(&self, t0: u64) -> String {
        format!("stack new {} {} {} {} {t0}", self.ccfg().tokens(), self.strat_tokens(), self.max_samples, self.max_flows)
    }
    pub fn build(&self) -> Result<Tracer, Error> {
        let b = Builder::new(self.dst)
            .source_addr(Some(self.src))
            .protocol(match self.proto { 'i' => Protocol::Icmp, 'u' => Protocol::Udp, _ => Protocol::Tcp })
            .multipath_strategy(match self.strat { 'c' => MultipathStrategy::Classic, 'p' => MultipathStrategy::Paris, _ => MultipathStrategy::Dublin })
            .port_direction(match self.pd {
                Pd::None => PortDirection::None,
                Pd::Src(p) => PortDirection::new_fixed_src(p),
                Pd::Dest(p) => PortDirection::new_fixed_dest(p),
                Pd::Both(a, b) => PortDirection::new_fixed_both(a, b),
            })
            .privilege_mode(if self.privileged { PrivilegeMode::Privileged } else { PrivilegeMode::Unprivileged })
            .packet_size(self.size)
            .payload_pattern(self.pattern)
            .tos(self.tos)
            .icmp_extension_parse_mode(if self.ext { IcmpExtensionParseMode::Enabled } else { IcmpExtensionParseMode::Disabled })
            .initial_sequence(self.initial)
            .trace_identifier(self.trace_id)
            .max_rounds(self.max_rounds)
            .first_ttl(self.first)
            .max_ttl(self.max)
            .max_inflight(self.inflight)
            .grace_duration(Duration::from_nanos(self.grace))
            .min_round_duration(Duration::from_nanos(self.min_round))
            .max_round_duration(Duration::from_nanos(self.max_round))
            .read_timeout(Duration::from_nanos(self.read_timeout));
        // a library user who does not set the TCP connect timeout gets the documented default of one second: that value
        // in a configuration means "not set" here (what the layers are then configured with is compared with 1 s)
        let b = if self.tcp_timeout == 1000 * MS { b } else { b.tcp_connect_timeout(Duration::from_nanos(self.tcp_timeout)) };
        b.max_samples(self.max_samples)
            .max_flows(self.max_flows)
            .build()
    }
}

/// the channel with a tap: what went through `send_probe` / `recv_probe`
struct Spy {
    inner: Channel<SimSocket>,
    /// (probe, outcome letter, socket calls) of every `send_probe` call of the iteration
    sends: Vec<(Probe, char, Vec<String>)>,
    recv: Option<String>,
    last_resp: Option<Response>,
}

impl Network for Spy {
    fn send_probe(&mut self, probe: Probe) -> Result<(), Error> {
        let first_new = simsock::socket_count();
        let r = self.inner.send_probe(probe.clone());
        let ops = simsock::take_ops();
        let _ = first_new;
        let oc = match &r {
            Ok(()) => 'o',
            Err(Error::ProbeFailed(_)) => 'f',
            Err(Error::AddressInUse(_)) => 'a',
            Err(_) => 'x',
        };
        self.sends.push((probe, oc, ops));
        r
    }
    fn recv_probe(&mut self) -> Result<Option<Response>, Error> {
        let r = self.inner.recv_probe();
        self.recv = Some(show_recv(&r));
        if let Ok(Some(resp)) = &r {
            self.last_resp = Some(resp.clone());
        }
        r
    }
}

fn inj_tokens(injs: &[(&'static str, Inject)]) -> String {
    if injs.is_empty() { "-".into() } else { injs.iter().map(|(c, e)| format!("{c}:{}", io_kind_name(*e))).collect::<Vec<_>>().join(",") }
}

fn dgram_token(d: &Dgram) -> String {
    match d {
        Dgram::None => "x".to_string(),
        Dgram::ReadFails => "e".to_string(),
        Dgram::Data(a, b) => format!("{}:{}", a.map_or("-".to_string(), simsock::addr_hex), hex(&b[..b.len().min(2048)])),
    }
}

fn show_state(max_rounds: Option<trippy_core::MaxRounds>, st: &VerifState) -> String {
    let o = |x: Option<String>| x.unwrap_or_else(|| "-".into());
    format!("{},{},{},{},{},{},{},{},{} fin={}",
        st.sequence().0, st.round_sequence().0, st.ttl().0, st.round().0, clock::ns_of(st.round_start()),
        u8::from(st.target_found()), o(st.max_received_ttl().map(|t| t.0.to_string())), o(st.target_ttl().map(|t| t.0.to_string())),
        o(st.received_time().map(|t| clock::ns_of(t).to_string())), u8::from(st.finished(max_rounds)))
}

/// ground truth kept by the harness for the C01 oracle: what was really sent and delivered
#[derive(Default)]
struct Truth {
    /// per round: sequence → (ttl, outcome letter, send time)
    sent: BTreeMap<u16, (u8, char, u64)>,
    /// genuine responses delivered in the current round: sequence → (responder, receive time)
    answered: BTreeMap<u16, (IpAddr, u64)>,
    /// per ttl: (sent, received, failed) over all published rounds
    totals: BTreeMap<u8, (u64, u64, u64)>,
    /// the greatest path length any published round reported, the lowest ttl probed, and whether the target
    /// answered in the round in progress (C06: nothing is sent after that)
    max_largest: u8,
    min_ttl: u8,
    target_answered: bool,
}

impl Truth {
    fn check_round(&mut self, run: &mut Run, ctx: &str, probes: &[ProbeStatus]) {
        for s in probes {
            match s {
                ProbeStatus::Complete(c) => {
                    match self.answered.get(&c.sequence.0) {
                        Some((host, recv)) if *host == c.host && *recv == clock::ns_of(c.received) => {}
                        other => run.fail("c01-stack-ground-truth", format!("{ctx}: seq {} reported complete from {} at {} but the network delivered {:?}", c.sequence.0, c.host, clock::ns_of(c.received), other)),
                    }
                    let t = self.totals.entry(c.ttl.0).or_default();
                    t.0 += 1;
                    t.1 += 1;
                }
                ProbeStatus::Awaited(p) => {
                    if self.answered.contains_key(&p.sequence.0) {
                        run.fail("c01-stack-ground-truth", format!("{ctx}: seq {} was answered by a genuine response but is reported awaited", p.sequence.0));
                    }
                    self.totals.entry(p.ttl.0).or_default().0 += 1;
                }
                ProbeStatus::Failed(f) => {
                    let t = self.totals.entry(f.ttl.0).or_default();
                    t.0 += 1;
                    t.2 += 1;
                }
                _ => {}
            }
        }
        // none dropped: every probe whose send succeeded or failed transiently is in the round
        for (seq, (_, oc, _)) in &self.sent {
            if *oc == 'o' || *oc == 'f' {
                let found = probes.iter().any(|s| match s {
                    ProbeStatus::Complete(c) => c.sequence.0 == *seq,
                    ProbeStatus::Awaited(p) => p.sequence.0 == *seq,
                    ProbeStatus::Failed(f) => f.sequence.0 == *seq,
                    _ => false,
                });
                if !found {
                    run.fail("c01-stack-ground-truth", format!("{ctx}: seq {seq} was sent in this round but is not in the published round"));
                }
            }
        }
        for s in probes {
            let t = match s { ProbeStatus::Complete(c) => c.ttl.0, ProbeStatus::Awaited(p) => p.ttl.0, ProbeStatus::Failed(f) => f.ttl.0, _ => continue };
            if self.min_ttl == 0 || t < self.min_ttl { self.min_ttl = t; }
        }
        self.sent.clear();
        self.answered.clear();
        self.target_answered = false;
    }
    fn check_totals(&self, run: &mut Run, ctx: &str, tracer: &Tracer) {
        let snap = tracer.snapshot();
        check_limits(run, ctx, tracer);
        // C10 / C01: every hop from the lowest ttl probed up to the greatest path length any round reported is in the
        // table (hops that were probed and answered in earlier rounds do not drop out when later rounds are shorter)
        if self.min_ttl >= 1 {
            for t in self.min_ttl..=self.max_largest {
                if !snap.hops().iter().any(|h| h.ttl() == t) {
                    let tt = self.totals.get(&t).copied().unwrap_or_default();
                    run.fail("c01-stack-totals", format!("{ctx}: the hop table has no entry for ttl {t} (lowest ttl probed {}, greatest path length reported {}); the published outcomes for it sum to {}/{}/{}", self.min_ttl, self.max_largest, tt.0, tt.1, tt.2));
                    break;
                }
            }
        }
        for h in snap.hops() {
            let t = self.totals.get(&h.ttl()).copied().unwrap_or_default();
            if (h.total_sent() as u64, h.total_recv() as u64, h.total_failed() as u64) != t {
                run.fail("c01-stack-totals", format!("{ctx}: hop ttl {} has sent/recv/failed {}/{}/{} but the published outcomes sum to {}/{}/{}", h.ttl(), h.total_sent(), h.total_recv(), h.total_failed(), t.0, t.1, t.2));
            }
        }
    }
}

/// the configured limits hold in every snapshot, also after `Tracer::clear` (C05: sample history,
/// C15: number of flows)
fn check_limits(run: &mut Run, ctx: &str, tracer: &Tracer) {
    let snap = tracer.snapshot();
    if snap.flows().len() > tracer.max_flows() {
        run.fail("c15-stack-flow-limit", format!("{ctx}: {} flows, max_flows {}", snap.flows().len(), tracer.max_flows()));
    }
    let mut ids = vec![trippy_core::FlowId(0)];
    ids.extend(snap.flows().iter().map(|f| f.1));
    for id in ids {
        for h in snap.hops_for_flow(id) {
            if h.samples().len() > tracer.max_samples() {
                run.fail("c05-stack-sample-limit", format!("{ctx}: flow {} hop ttl {} holds {} samples, max_samples {}", id.0, h.ttl(), h.samples().len(), tracer.max_samples()));
            }
        }
    }
}

/// C19: NAT detection applies to IPv4/UDP/Dublin only — every hop of every other configuration reports
/// not-applicable; and the simulated network of this component rewrites nothing, so an IPv4/UDP/Dublin trace
/// never reports NAT detected
fn check_nat(run: &mut Run, ctx: &str, cfg: &SCfg, tracer: &Tracer) {
    let applicable = !cfg.v6() && cfg.proto == 'u' && cfg.strat == 'd';
    let Ok(snap) = guarded(|| tracer.snapshot()) else { return };
    let mut ids = vec![trippy_core::FlowId(0)];
    ids.extend(snap.flows().iter().map(|f| f.1));
    for id in ids {
        for h in snap.hops_for_flow(id) {
            let n = h.last_nat_status();
            if !applicable && !matches!(n, trippy_core::NatStatus::NotApplicable) {
                run.fail("c19-stack-nat-applicable", format!("{ctx}: flow {} hop ttl {} reports {n:?} (not an IPv4/UDP/Dublin trace)", id.0, h.ttl()));
                return;
            }
            if applicable && matches!(n, trippy_core::NatStatus::Detected) {
                run.fail("c19-stack-nat-without-rewrite", format!("{ctx}: flow {} hop ttl {} reports NAT although nothing rewrites datagrams", id.0, h.ttl()));
                return;
            }
        }
    }
    run.count("c19:stack-nat-checked");
}

/// the kind of the error recorded in the state, or `-`
fn error_token(tracer: &Tracer, expect: Option<&Error>, run: &mut Run, ctx: &str) -> String {
    let snap = tracer.snapshot();
    match (snap.error(), expect) {
        (None, None) => "-".into(),
        (Some(s), Some(e)) => {
            if s != e.to_string() {
                run.fail("c09-stack-error-invisible", format!("{ctx}: snapshot shows [{s}] for error [{e}]"));
            }
            chan_err_kind(e).to_string()
        }
        (None, Some(e)) => {
            run.fail("c09-stack-error-invisible", format!("{ctx}: the run ended with [{e}] but the snapshot shows no error"));
            "-".into()
        }
        (Some(s), None) => {
            run.fail("c09-stack-error-invisible", format!("{ctx}: snapshot shows error [{s}] although the run did not fail"));
            "other".into()
        }
    }
}

/// a plan for one open-loop iteration, made by the generator with a view of the live state
pub struct Plan {
    pub injs: Vec<(&'static str, Inject)>,
    pub dt: u64,
    pub readable: Poll,
    pub dgram: Dgram,
    pub env: Vec<SockEnv>,
    /// the sequence a genuine datagram answers (for the ground truth), with its responder
    pub answers: Option<(u16, IpAddr)>,
}

/// what the generator may look at when planning the next iteration
pub struct View<'a> {
    pub cfg: &'a SCfg,
    pub live: &'a [Live],
    /// probes sent successfully in the current round, with the bytes dispatched for them
    pub outstanding: &'a [(Probe, Sent)],
    /// probes of the round published last (a late answer to one of them must change nothing)
    pub previous: &'a [(Probe, Sent)],
    pub now: u64,
    pub iteration: usize,
}

/// run one case open loop; `plan` is asked before every iteration
pub fn open_loop(run: &mut Run, cfg: &SCfg, t0: u64, iters: usize, clears: bool, plan: &mut dyn FnMut(&View<'_>, &mut Rng) -> Plan, rng: &mut Rng) {
    crate::strategy::set_addr_num(true);
    let ctx = cfg.new_line(t0);
    clock::enable(t0);
    simsock::reset();
    run.count("stack:case");
    let tracer = match guarded(|| cfg.build()) {
        Ok(Ok(t)) => t,
        Ok(Err(e)) => {
            run.fail("c16-stack-builder-rejects", format!("{ctx} [{e}]"));
            clock::disable();
            return;
        }
        Err(loc) => {
            run.fail("c09-stack-panic", format!("{ctx} Builder::build ({loc})"));
            clock::disable();
            return;
        }
    };
    let cc = tracer.verif_channel_config(cfg.src);
    let sc = tracer.verif_strategy_config();
    // C16: every value given to the builder reaches the layer that uses it, unchanged and under its own name
    {
        let ns = |d: Duration| d.as_nanos() as u64;
        let mut lost: Vec<String> = vec![];
        let mut chk = |name: &str, got: String, want: String| if got != want { lost.push(format!("{name}: {got} instead of {want}")); };
        chk("grace_duration", ns(sc.grace_duration).to_string(), cfg.grace.to_string());
        chk("min_round_duration", ns(sc.min_round_duration).to_string(), cfg.min_round.to_string());
        chk("max_round_duration", ns(sc.max_round_duration).to_string(), cfg.max_round.to_string());
        chk("first_ttl", sc.first_ttl.0.to_string(), cfg.first.to_string());
        chk("max_ttl", sc.max_ttl.0.to_string(), cfg.max.to_string());
        chk("max_inflight", sc.max_inflight.0.to_string(), cfg.inflight.to_string());
        chk("initial_sequence (strategy)", sc.initial_sequence.0.to_string(), cfg.initial.to_string());
        chk("initial_sequence (channel)", cc.initial_sequence.0.to_string(), cfg.initial.to_string());
        chk("trace_identifier", sc.trace_identifier.0.to_string(), cfg.trace_id.to_string());
        chk("max_rounds", format!("{:?}", sc.max_rounds.map(|m| m.0.get())), format!("{:?}", cfg.max_rounds));
        chk("packet_size", cc.packet_size.0.to_string(), cfg.size.to_string());
        chk("payload_pattern", cc.payload_pattern.0.to_string(), cfg.pattern.to_string());
        chk("tos", cc.tos.0.to_string(), cfg.tos.to_string());
        chk("read_timeout", ns(cc.read_timeout).to_string(), cfg.read_timeout.to_string());
        chk("tcp_connect_timeout", ns(cc.tcp_connect_timeout).to_string(), cfg.tcp_timeout.to_string());
        chk("target_addr", format!("{} / {}", cc.target_addr, sc.target_addr), format!("{} / {}", cfg.dst, cfg.dst));
        chk("source_addr", cc.source_addr.to_string(), cfg.src.to_string());
        if !lost.is_empty() {
            run.fail("c16-stack-option-lost", format!("{ctx}: the tracer runs with {}", lost.join("; ")));
        }
        run.count("c16:stack-config-checked");
    }
    let chan = guarded(|| Channel::<SimSocket>::connect(&cc));
    let ops = simsock::take_ops();
    let chan = match chan {
        Ok(Ok(c)) => {
            // C11: the socket probes are handed to is of the trace's own protocol and family (the kernel fills in the
            // next header / protocol of what a raw socket sends from the socket's type, not from the bytes)
            let fam = if cfg.v6() { '6' } else { '4' };
            let want: Option<String> = match cfg.proto {
                'i' => Some(format!("new:icmp{fam}:{}", u8::from(cfg.privileged))),
                'u' => Some(format!("new:udp{fam}:{}", u8::from(cfg.privileged))),
                _ => None,
            };
            let send_socks: Vec<&String> = ops.iter().filter(|o| o.starts_with("new:icmp") || o.starts_with("new:udp")).collect();
            if let Some(w) = want {
                if send_socks.len() != 1 || !send_socks[0].starts_with(&w) {
                    run.fail("c11-stack-send-socket", format!("{ctx}: probes of this trace are sent through {send_socks:?}, expected one socket `{w}…`"));
                }
            } else if !send_socks.is_empty() {
                run.fail("c11-stack-send-socket", format!("{ctx}: a raw send socket {send_socks:?} for a trace that sends through per-probe sockets"));
            }
            run.op(ctx.clone(), format!("ok {}", show_ops(&ops)));
            c
        }
        Ok(Err(e)) => {
            run.op(ctx.clone(), format!("err {}", chan_err_kind(&e)));
            clock::disable();
            return;
        }
        Err(loc) => {
            run.fail("c09-stack-panic", format!("{ctx} Channel::connect ({loc})"));
            run.op(ctx.clone(), "panic".into());
            clock::disable();
            return;
        }
    };
    let published: Rc<RefCell<Vec<(String, Vec<ProbeStatus>)>>> = Rc::new(RefCell::new(vec![]));
    let pubs = published.clone();
    let tref = &tracer;
    let strategy = Strategy::new(&sc, move |round: &Round<'_>| {
        tref.verif_apply_round(round);
        pubs.borrow_mut().push((show_round(round), round.probes.to_vec()));
    });
    let mut st = VerifState::new(sc);
    let mut spy = Spy { inner: chan, sends: vec![], recv: None, last_resp: None };
    let mut live: Vec<Live> = vec![];
    let mut outstanding: Vec<(Probe, Sent)> = vec![];
    let mut previous: Vec<(Probe, Sent)> = vec![];
    let mut truth = Truth::default();
    let mut failed: Option<Error> = None;
    let mut alive = true;
    let mut cleared_once = false;
    for it in 0..iters {
        if st.finished(sc.max_rounds) {
            run.count("stack:finished");
            break;
        }
        // now and then the user clears the trace data (`Tracer::clear`, another thread in the real program)
        if clears && (rng.chance(1, 40) || (!cleared_once && published.borrow().len() == 1)) {
            cleared_once = true;
            tracer.clear();
            truth.totals.clear();
            truth.max_largest = 0;
            truth.min_ttl = 0;
            run.op("stack clear".into(), "ok".into());
            run.count("stack:clear");
            if rng.chance(1, 2) {
                check_limits(run, &ctx, &tracer);
                let s = guarded(|| crate::agg::show_full(&tracer.snapshot())).unwrap_or_else(|_| "panic".into());
                run.op("stack dump".into(), format!("{s} error=-"));
            }
        }
        let pl = plan(&View { cfg, live: &live, outstanding: &outstanding, previous: &previous, now: clock::now_ns(), iteration: it }, rng);
        let rd = match pl.readable { Poll::Yes => "r", Poll::No => "n", Poll::Fails => "e" };
        let envs = if pl.env.is_empty() { "-".to_string() } else { pl.env.iter().map(SockEnv::token).collect::<Vec<_>>().join(",") };
        let req = format!("stack it {} {} {rd} {} {envs}", inj_tokens(&pl.injs), pl.dt, dgram_token(&pl.dgram));
        crate::util::inflight(&format!("{ctx} | {req}"));
        run.count("op:it");
        // --- send
        simsock::clear_ops();
        simsock::arm_queue(&pl.injs);
        spy.sends.clear();
        spy.recv = None;
        spy.last_resp = None;
        let first_new = simsock::socket_count();
        let now = clock::now_ns();
        let r = guarded(|| strategy.verif_send_request(&mut spy, &mut st));
        simsock::clear_inject();
        // stream sockets created by this step that are still alive are outstanding TCP probes
        {
            let mut ids = (first_new..simsock::socket_count()).filter(|id| simsock::socket_kind(*id).starts_with("new:tcp"));
            for (p, _, ops) in &spy.sends {
                if ops.len() >= 2 || (ops.len() == 1 && !ops[0].starts_with("new:")) {
                    if let Some(id) = ids.next() {
                        if !simsock::is_dropped(id) {
                            live.push(Live { id, sp: p.src_port.0, dp: p.dest_port.0, start: now });
                        }
                    }
                }
            }
        }
        // C09: an error the channel reports as fatal (neither a failed probe nor an address in use) ends the run
        if spy.sends.iter().any(|(_, oc, _)| *oc == 'x') && matches!(r, Ok(Ok(()))) {
            run.fail("c09-stack-fatal-swallowed", format!("{ctx} … {req}: send_probe returned a fatal error for [{}], send_request carried on",
                spy.sends.iter().filter(|(_, oc, _)| *oc == 'x').map(|(p, _, _)| format!("seq {} ttl {}", p.sequence.0, p.ttl.0)).collect::<Vec<_>>().join(", ")));
        }
        // C06: never after the target has answered in this round
        if truth.target_answered && !spy.sends.is_empty() {
            run.fail("c06-stack-sent-after-target", format!("{ctx} … {req}: probe(s) [{}] handed to send_probe although the target's answer was delivered to the tracer earlier in this round",
                spy.sends.iter().map(|(p, _, _)| format!("seq {} ttl {}", p.sequence.0, p.ttl.0)).collect::<Vec<_>>().join(", ")));
            truth.target_answered = false;
        }
        for (p, oc, ops) in &spy.sends {
            // C11 on what the real strategy handed to the real channel: the bytes decode to a datagram that
            // carries this probe's sequence in the field its strategy prescribes, TTL, TOS, sizes, checksums
            if *oc == 'o' {
                let cell = Cell {
                    proto: cfg.proto, strat: cfg.strat,
                    pd: match cfg.pd { Pd::None => crate::wire_enc::Pd::None, Pd::Src(a) => crate::wire_enc::Pd::Src(a), Pd::Dest(a) => crate::wire_enc::Pd::Dest(a), Pd::Both(a, b) => crate::wire_enc::Pd::Both(a, b) },
                };
                let w = cfg.ccfg().wire();
                for (kind, what) in c11_check(&w, p, Some(&cell), &parse_ops(ops)) {
                    // the two known findings about a zero UDP checksum over IPv6 are reported by the wire component
                    if kind == "c11-udp6-zero-checksum" { continue; }
                    run.fail(&format!("{kind}-stack"), format!("{ctx} … probe [{}] cell {}: {what}", probe_tokens(p), cell.name()));
                }
                run.count("c11:stack-checked");
            }
            truth.sent.insert(p.sequence.0, (p.ttl.0, *oc, now));
            if *oc == 'o' {
                outstanding.push((p.clone(), parse_ops(ops)));
            }
            run.count(&format!("stack:send:{oc}"));
        }
        match r {
            Err(loc) => {
                run.fail("c09-stack-panic", format!("{ctx} … {req} send_request ({loc})"));
                run.op(req.clone(), "panic".into());
                alive = false;
            }
            Ok(Err(e)) => {
                run.op(req.clone(), format!("err {}", chan_err_kind(&e)));
                run.count(&format!("stack:send-err:{}", chan_err_kind(&e)));
                failed = Some(tracer.verif_handle_error(e));
                alive = false;
            }
            Ok(Ok(())) => {}
        }
        if !alive { break; }
        let calls = if spy.sends.is_empty() { "-".to_string() } else { spy.sends.iter().map(|(_, _, ops)| show_ops(ops)).collect::<Vec<_>>().join("|") };
        let sent = spy.sends.iter().map(|(p, oc, _)| format!("{}/{oc}", show_probe(p))).collect::<Vec<_>>().join(";");
        // --- wait and receive
        let now_before_wait = clock::now_ns();
        let sc_tcp_timeout = cfg.tcp_timeout;
        clock::advance(pl.dt);
        simsock::clear_ops();
        simsock::set_readable(Some(pl.readable));
        match &pl.dgram {
            Dgram::None => {}
            Dgram::ReadFails => simsock::set_read_fails(true),
            Dgram::Data(a, b) => simsock::push_datagram(b[..b.len().min(2048)].to_vec(), a.map(|a| SocketAddr::new(a, 0))),
        }
        // a probe sent in this very iteration has no scripted answer yet: not writable (as in the model)
        for (i, l) in live.iter().enumerate() {
            pl.env.get(i).unwrap_or(&SockEnv::NotWritable).apply(l.id);
        }
        let before = live.clone();
        // C03: a datagram that answers no probe of the round in progress changes nothing
        let junk = matches!(&pl.dgram, Dgram::Data(..)) && pl.answers.is_none() && pl.env.iter().all(|e| !e.writable());
        let snap = |st: &VerifState| format!("{} {:?}", show_state(sc.max_rounds, st), st.probes().iter().map(crate::strategy::show_slot).collect::<Vec<_>>());
        let snap_before = if junk { Some(snap(&st)) } else { None };
        let r = guarded(|| strategy.verif_recv_response(&mut spy, &mut st));
        if let (Some(b), Ok(Ok(()))) = (&snap_before, &r) {
            let a = snap(&st);
            if *b != a {
                run.fail("c03-stack-junk-changed-state", format!("{ctx} … {req} | before: {b} | after: {a}"));
            }
            run.count("c03:stack-junk-checked");
        }
        let _ = simsock::take_ops();
        let polled_ids = simsock::take_polled();
        let polled: Vec<String> = polled_ids
            .iter()
            .map(|id| before.iter().find(|l| l.id == *id).map_or("?".to_string(), |l| format!("{}/{}", l.sp, l.dp)))
            .collect();
        // ground truth of the TCP handshake, from the network's side: a probe's socket that was scripted to complete
        // (connected / refused), was polled and is gone has delivered the target's answer to the tracer
        for (i, l) in before.iter().enumerate() {
            if matches!(pl.env.get(i), Some(SockEnv::Connected(Some(_)) | SockEnv::Refused)) && polled_ids.contains(&l.id) && simsock::is_dropped(l.id)
                && now_before_wait.saturating_add(pl.dt).saturating_sub(l.start) <= sc_tcp_timeout {
                let seq = match cfg.pd { Pd::Src(_) => l.dp, _ => l.sp };
                if truth.sent.get(&seq).is_some_and(|x| x.1 == 'o') {
                    if std::env::var_os("TVH_DEBUG").is_some() { eprintln!("DEBUG answered(1) seq {seq} socket {}/{} env {:?} {req}", l.sp, l.dp, pl.env.get(i).map(SockEnv::token)); }
                    // (only the first answer to a probe counts: the socket of a probe that a router's Time Exceeded has
                    // already answered may still complete or be refused later — a duplicate the strategy rightly ignores)
                    if !truth.answered.contains_key(&seq) { truth.target_answered = true; }
                    truth.answered.entry(seq).or_insert((cfg.dst, clock::now_ns()));
                    run.count("stack:tcp-answer-consumed");
                }
            }
        }
        live.retain(|l| !simsock::is_dropped(l.id));
        match r {
            Err(loc) => {
                let v4_sockaddr_on_v6 = matches!(&pl.dgram, Dgram::Data(Some(IpAddr::V4(_)), _)) && cfg.v6();
                if !v4_sockaddr_on_v6 {
                    run.fail("c09-stack-panic", format!("{ctx} … {req} recv_response ({loc})"));
                }
                run.op(req, "panic".into());
                std::mem::forget(spy);
                clock::disable();
                return;
            }
            Ok(Err(e)) => {
                run.op(req, format!("err {}", chan_err_kind(&e)));
                run.count(&format!("stack:recv-err:{}", chan_err_kind(&e)));
                failed = Some(tracer.verif_handle_error(e));
                break;
            }
            Ok(Ok(())) => {}
        }
        // C09: a failing readiness poll of the receive socket is a fatal socket error (unless the socket of a TCP probe
        // answered first and the receive socket was never polled)
        if pl.readable == Poll::Fails && !(cfg.proto == 't' && pl.env.iter().any(SockEnv::writable)) && failed.is_none() && alive {
            run.fail("c09-stack-fatal-swallowed", format!("{ctx} … {req}: the readiness poll of the receive socket failed, recv_response carried on"));
        }
        // C02 through the whole stack: a genuine quotation that the receive socket really delivered (readable, nothing
        // else competing for this call) is recognised by the channel as a response from its sender
        if let (Some((seq, from)), Dgram::Data(..), Poll::Yes) = (pl.answers, &pl.dgram, pl.readable) {
            let tcp_first = cfg.proto == 't' && pl.env.iter().any(SockEnv::writable);
            if !tcp_first && failed.is_none() {
                match &spy.last_resp {
                    Some(resp) if resp.data().addr == from => run.count("c02:stack-recognised"),
                    other => run.fail("c02-stack-not-recognised", format!("{ctx} … {req}: a genuine answer to the probe with sequence {seq} from {from} was delivered, recv_probe returned {}", other.as_ref().map_or("nothing".to_string(), |r| format!("a response from {}", r.data().addr)))),
                }
            }
        }
        // ground truth: a genuine datagram that was really handed over answers its probe
        if let (Some((seq, from)), Some(resp)) = (pl.answers, &spy.last_resp) {
            // (what recv_probe returned must be that datagram: when the handshake of another probe completes in the same
            // iteration the channel returns the target's TCP answer first — from the same address — and the datagram
            // is not read in this call)
            let handshake = matches!(resp, Response::TcpReply(_) | Response::TcpRefused(_));
            if !handshake && resp.data().addr == from && truth.sent.get(&seq).is_some_and(|x| x.1 == 'o') {
                if std::env::var_os("TVH_DEBUG").is_some() { eprintln!("DEBUG answered(2) seq {seq} {req}"); }
                if from == cfg.dst && !truth.answered.contains_key(&seq) { truth.target_answered = true; }
                truth.answered.entry(seq).or_insert((from, clock::now_ns()));
                run.count("stack:genuine-delivered");
                if rng.chance(4, 5) {
                    outstanding.retain(|(p, _)| p.sequence.0 != seq);
                }
            }
        }
        if let Some(resp) = &spy.last_resp {
            // TCP handshake answers are genuine by construction: recorded from what the socket said
            if let trippy_core::verif::ProtocolResponse::Tcp(t) = &resp.data().proto_resp {
                if matches!(resp, Response::TcpReply(_) | Response::TcpRefused(_)) {
                    let seq = match cfg.pd { Pd::Src(_) => t.dest_port, _ => t.src_port };
                    if truth.sent.contains_key(&seq) {
                        if std::env::var_os("TVH_DEBUG").is_some() { eprintln!("DEBUG answered(3) seq {seq} {req}"); }
                        truth.answered.entry(seq).or_insert((resp.data().addr, clock::now_ns()));
                    }
                }
            }
        }
        // --- round end
        let npub = published.borrow().len();
        let r = guarded(|| strategy.verif_update_round(&mut st));
        if let Err(loc) = r {
            run.fail("c09-stack-panic", format!("{ctx} … {req} update_round ({loc})"));
            run.op(req, "panic".into());
            std::mem::forget(spy);
            clock::disable();
            return;
        }
        let pubs_now = published.borrow();
        let pub_s = if pubs_now.len() > npub { pubs_now[npub].0.clone() } else { "none".to_string() };
        if pubs_now.len() > npub {
            if let Some(l) = pubs_now[npub].0.split('/').nth(1).and_then(|x| x.parse::<u8>().ok()) { truth.max_largest = truth.max_largest.max(l); }
            truth.check_round(run, &format!("{ctx} … {req}"), &pubs_now[npub].1);
            previous = std::mem::take(&mut outstanding);
            check_limits(run, &ctx, &tracer);
            run.count("stack:round-published");
        }
        drop(pubs_now);
        run.op(req, format!(
            "calls={calls} sent=[{sent}] recv={} polled=[{}] tcp={} pub={pub_s} st={}",
            spy.recv.clone().unwrap_or_else(|| "ok none".into()), polled.join(","), show_live(&live), show_state(sc.max_rounds, &st)
        ));
    }
    let et = error_token(&tracer, failed.as_ref(), run, &ctx);
    truth.check_totals(run, &ctx, &tracer);
    check_nat(run, &ctx, cfg, &tracer);
    // C15: on a path that never changes (every hop always answers from the same address) all rounds belong to one flow
    if FIXED_RESPONDERS.with(std::cell::Cell::get) {
        let snap = tracer.snapshot();
        if snap.flows().len() > 1 {
            run.fail("c15-stack-stable-path-flows", format!("{ctx}: the path never changed, yet {} flows were registered: {:?}", snap.flows().len(),
                snap.flows().iter().map(|(f, id)| format!("{}:{f}", id.0)).collect::<Vec<_>>()));
        }
        run.count("c15:stack-stable-path-checked");
    }
    let dump = match guarded(|| crate::agg::show_full(&tracer.snapshot())) {
        Ok(s) => format!("{s} error={et}"),
        Err(loc) => {
            run.fail("c09-stack-panic", format!("{ctx} dump ({loc})"));
            "panic".into()
        }
    };
    run.op("stack dump".into(), dump);
    drop(strategy);
    drop(spy);
    clock::disable();
    crate::strategy::set_addr_num(false);
}


// ------------------------------------------------------------------------------------------------
// closed loop: the real `Tracer::verif_run_with` runs on its own
// ------------------------------------------------------------------------------------------------

fn split_calls(ops: &[String]) -> Vec<Vec<String>> {
    let mut calls: Vec<Vec<String>> = vec![];
    for o in ops {
        if o.starts_with("takeerr:") { continue; }
        if o.starts_with("new:") || calls.is_empty() {
            calls.push(vec![]);
        }
        calls.last_mut().unwrap().push(o.clone());
    }
    calls
}

fn show_calls(ops: &[String]) -> String {
    let c = split_calls(ops);
    if c.is_empty() { "-".into() } else { c.iter().map(|x| x.join(";")).collect::<Vec<_>>().join("|") }
}

struct Loop {
    /// per finished `is_readable` call: (socket calls since the previous one, error armed during them, dt)
    iters: Vec<(Vec<String>, Option<(&'static str, Inject)>, u64)>,
    armed: Option<(&'static str, Inject)>,
    timed_out: bool,
}

/// run one case closed loop: no responses, the clock advances by `dts` (cyclically) in every wait, a
/// socket error is armed from iteration `fault.0` on until a send consumes it
pub fn closed_loop(run: &mut Run, cfg: &SCfg, t0: u64, dts: &[u64], fault: Option<(usize, &'static str, Inject)>) {
    closed_loop_noise(run, cfg, t0, dts, fault, None);
}

/// an ICMP Time Exceeded from a router on somebody else's path, quoting a TCP SYN from this host to another
/// target (what a second `trip --tcp` on the same host causes): never for this tracer
fn foreign_tcp_time_exceeded(cfg: &SCfg, rng: &mut Rng) -> (IpAddr, Vec<u8>) {
    let w = cfg.ccfg().wire();
    let from = IpAddr::V4(std::net::Ipv4Addr::new(10, 9, 9, 9));
    let mut q = vec![0x45, 0, 0, 40, 0x12, 0x34, 0x40, 0, 1, 6, 0, 0];
    q.extend(crate::wire_enc::octets(cfg.src));
    q.extend([10, 0, 0, 77]);
    q.extend([0x9c, 0x40, 0x01, 0xbb, 0, 0, 0, 1, 0, 0, 0, 0, 0x50, 0x02, 0xff, 0xff, 0, 0, 0, 0]);
    let (la, body) = icmp_body(false, &q, ExtMode::None, &[]);
    let icmp = icmp_message(&w, ty_te(false), 0, la, &body, from);
    (from, deliver(&w, &icmp, from, rng))
}

/// Implementation only (the model's clock only moves forward): a closed-loop run in which the wall clock steps
/// backwards in some iterations — while TCP probes are outstanding (their age is `start.elapsed()`), in mid-round and
/// across round boundaries.  The run must neither panic nor fail, and still ends after its rounds.
pub fn closed_loop_clock_steps(run: &mut Run, cfg: &SCfg, t0: u64, rng: &mut Rng) {
    crate::strategy::set_addr_num(true);
    let ctx = cfg.new_line(t0);
    clock::enable(t0);
    simsock::reset();
    simsock::set_default_writable(Poll::No);
    let Ok(Ok(tracer)) = guarded(|| cfg.build()) else { clock::disable(); return };
    let steps: Vec<(u64, u64)> = (0..6).map(|_| (rng.range(2, 60), *rng.pick(&[1u64, MS, cfg.grace + 1, cfg.tcp_timeout + 1, cfg.max_round + 1, 3_000 * MS]))).collect();
    let steps_h = steps.clone();
    let gave_up = Rc::new(RefCell::new(false));
    let g2 = gave_up.clone();
    simsock::set_readable_hook(Some(Box::new(move |n: u64| {
        if n > 20_000 { *g2.borrow_mut() = true; return Poll::Fails; }
        match steps_h.iter().find(|(k, _)| *k == n) {
            Some((_, back)) => clock::set(clock::now_ns().saturating_sub(*back)),
            None => clock::advance(7 * MS),
        }
        Poll::No
    })));
    crate::util::inflight(&format!("{ctx} | closed loop with backward clock steps {steps:?}"));
    let rounds = Rc::new(RefCell::new(0usize));
    let r2 = rounds.clone();
    let r = guarded(|| tracer.verif_run_with::<SimSocket, _>(cfg.src, |_round: &Round<'_>| { *r2.borrow_mut() += 1; }));
    simsock::set_readable_hook(None);
    let what = format!("{ctx}: closed loop, clock advances 7 ms per iteration, stepped back at (iteration, ns) {steps:?}");
    match r {
        Err(loc) => run.fail("c09-stack-panic", format!("{what} ({loc})")),
        Ok(Err(e)) if *gave_up.borrow() => run.fail("c09-stack-not-terminated", format!("{what}: {} rounds after 20000 iterations [{e}]", rounds.borrow())),
        Ok(Err(e)) => run.fail("c09-stack-rounds", format!("{what}: the run failed [{e}] without a socket error")),
        Ok(Ok(())) => {
            if Some(*rounds.borrow()) != cfg.max_rounds { run.fail("c09-stack-rounds", format!("{what}: Ok(()) after {} rounds, limit {:?}", rounds.borrow(), cfg.max_rounds)); }
            run.count("stack:clock-step-run-ok");
        }
    }
    clock::disable();
    simsock::reset();
    crate::strategy::set_addr_num(false);
}

/// as `closed_loop`; with `noise` the receive socket is readable in every iteration and delivers that datagram
pub fn closed_loop_noise(run: &mut Run, cfg: &SCfg, t0: u64, dts: &[u64], fault: Option<(usize, &'static str, Inject)>, noise: Option<(IpAddr, Vec<u8>)>) {
    crate::strategy::set_addr_num(true);
    let ctx = cfg.new_line(t0);
    run.count("stack:closed-case");
    clock::enable(t0);
    simsock::reset();
    simsock::set_default_writable(Poll::No);
    let tracer = match guarded(|| cfg.build()) {
        Ok(Ok(t)) => t,
        _ => {
            run.fail("c16-stack-builder-rejects", ctx);
            clock::disable();
            return;
        }
    };
    let n_rounds = cfg.max_rounds.unwrap_or(1) as u64;
    let max_dt = dts.iter().copied().max().unwrap_or(0);
    let budget = t0 + (n_rounds + 1) * (cfg.max_round + max_dt + 1) + max_dt;
    let state = Rc::new(RefCell::new(Loop { iters: vec![], armed: None, timed_out: false }));
    let st2 = state.clone();
    let dts_v = dts.to_vec();
    let noise_h = noise.clone();
    let (rd_tok, dg_tok) = noise.as_ref().map_or(("n".to_string(), "x".to_string()), |(a, b)| ("r".to_string(), dgram_token(&Dgram::Data(Some(*a), b.clone()))));
    simsock::set_readable_hook(Some(Box::new(move |n: u64| {
        let mut l = st2.borrow_mut();
        let ops = simsock::take_ops();
        let dt = dts_v[(n as usize - 1) % dts_v.len()];
        let armed_during = l.armed;
        l.iters.push((ops, armed_during, dt));
        // was the armed error consumed by this iteration's sends?
        if l.armed.is_some() && !simsock::armed() {
            l.armed = None;
        }
        if let Some((k, call, e)) = fault {
            if n as usize == k {
                simsock::arm(call, e);
                l.armed = Some((call, e));
            }
        }
        clock::advance(dt);
        if clock::now_ns() > budget {
            l.timed_out = true;
            return Poll::Fails;
        }
        if let Some((from, bytes)) = &noise_h {
            simsock::push_datagram(bytes.clone(), Some(SocketAddr::new(*from, 0)));
            return Poll::Yes;
        }
        Poll::No
    })));
    let published: Rc<RefCell<Vec<(usize, String, Option<usize>)>>> = Rc::new(RefCell::new(vec![]));
    let pubs = published.clone();
    let st3 = state.clone();
    crate::util::inflight(&format!("{ctx} | closed loop dts={dts:?}"));
    let r = guarded(|| {
        tracer.verif_run_with::<SimSocket, _>(cfg.src, |round: &Round<'_>| {
            let id = round.probes.iter().find_map(|p| match p {
                ProbeStatus::Awaited(a) => Some(a.round.0),
                ProbeStatus::Complete(c) => Some(c.round.0),
                ProbeStatus::Failed(f) => Some(f.round.0),
                _ => None,
            });
            pubs.borrow_mut().push((st3.borrow().iters.len(), show_round(round), id));
        })
    });
    simsock::set_readable_hook(None);
    let tail_ops = simsock::take_ops();
    let l = state.borrow();
    let pubs = published.borrow();
    // connect: the leading socket constructors up to the receive socket
    let first_ops: Vec<String> = l.iters.first().map_or_else(|| tail_ops.clone(), |x| x.0.clone());
    let ncon = first_ops.iter().position(|o| o.starts_with("new:recv")).map_or(0, |i| i + 1);
    run.op(ctx.clone(), format!("ok {}", show_ops(&first_ops[..ncon])));
    let inj_tok = |a: &Option<(&'static str, Inject)>| a.map_or("-".to_string(), |(c, e)| format!("{c}:{}", io_kind_name(e)));
    for (i, (ops, armed, dt)) in l.iters.iter().enumerate() {
        let ops = if i == 0 { &ops[ncon..] } else { &ops[..] };
        let pub_s = pubs.iter().find(|p| p.0 == i + 1).map_or("none".to_string(), |p| p.1.clone());
        run.op(format!("stack itq {} {dt} {rd_tok} {dg_tok} -", inj_tok(armed)), format!("calls={} pub={pub_s}", show_calls(ops)));
        run.count("op:itq");
    }
    let ctxs = format!("{ctx} closed loop dts={dts:?} fault={:?}", fault.map(|f| (f.0, f.1, io_kind_name(f.2))));
    let mut failed: Option<Error> = None;
    match r {
        Err(loc) => {
            run.fail("c09-stack-panic", format!("{ctxs} ({loc})"));
        }
        Ok(Ok(())) => {
            // C08 on the real closed loop: nothing ever answers this tracer, so every round ends by the time limit — at
            // the first check after max-round-duration, i.e. it lasts more than max_round and at most max_round plus the
            // wait of the iteration that published it
            if fault.is_none() {
                let mut start = t0;
                for (i, _, _) in pubs.iter() {
                    let now: u64 = t0 + l.iters.iter().take(*i).map(|x| x.2).sum::<u64>();
                    let d = now - start;
                    let last_dt = l.iters.get(i.wrapping_sub(1)).map_or(0, |x| x.2);
                    if !(d > cfg.max_round && d <= cfg.max_round + last_dt) {
                        run.fail("c08-stack-round-duration", format!("{ctxs}: a round of a trace that nothing answers lasted {d} ns (max-round-duration {} ns, the publishing iteration waited {last_dt} ns)", cfg.max_round));
                        break;
                    }
                    start = now;
                    run.count("c08:stack-round-duration-checked");
                }
            }
            // exactly n rounds, numbered in order
            let ids: Vec<Option<usize>> = pubs.iter().map(|p| p.2).collect();
            let in_order = ids.iter().enumerate().all(|(k, id)| id.map_or(true, |x| x == k));
            if pubs.len() as u64 != n_rounds || !in_order {
                run.fail("c09-stack-rounds", format!("{ctxs}: Ok(()) after {} rounds {ids:?}, limit {n_rounds}", pubs.len()));
            }
            if tracer.snapshot().round_count(trippy_core::FlowId(0)) as u64 != n_rounds {
                run.fail("c09-stack-rounds", format!("{ctxs}: snapshot round_count {} after a run limited to {n_rounds}", tracer.snapshot().round_count(trippy_core::FlowId(0))));
            }
            run.count("stack:closed-ok");
        }
        Ok(Err(e)) => {
            if l.timed_out {
                run.fail("c09-stack-not-terminated", format!("{ctxs}: {} rounds published when the time budget for {n_rounds} rounds of at most {} ns ran out", pubs.len(), cfg.max_round));
            } else if fault.is_none() {
                run.fail("c09-stack-rounds", format!("{ctxs}: the run failed [{e}] without a socket error"));
            } else {
                // the partial iteration in which the send failed
                let armed = l.armed;
                run.op(format!("stack itq {} 0 {rd_tok} {dg_tok} -", inj_tok(&armed)), format!("err {}", chan_err_kind(&e)));
                run.count("stack:closed-err");
            }
            failed = Some(e);
        }
    }
    if !(l.timed_out) {
        let et = error_token(&tracer, failed.as_ref(), run, &ctxs);
        let dump = match guarded(|| crate::agg::show_full(&tracer.snapshot())) {
            Ok(s) => format!("{s} error={et}"),
            Err(loc) => {
                run.fail("c09-stack-panic", format!("{ctxs} dump ({loc})"));
                "panic".into()
            }
        };
        run.op("stack dump".into(), dump);
    }
    drop(pubs);
    drop(l);
    clock::disable();
    simsock::reset();
    crate::strategy::set_addr_num(false);
}

// ------------------------------------------------------------------------------------------------
// generators
// ------------------------------------------------------------------------------------------------

fn gen_cfg(rng: &mut Rng, proto: char, v6: bool) -> SCfg {
    let pairs = crate::wire_gen::addr_pairs(v6, rng);
    let (src, dst) = *rng.pick(&pairs);
    let privileged = proto != 'u' || rng.chance(3, 4);
    let strat = if proto == 'u' && privileged { *rng.pick(&['c', 'p', 'd']) } else { 'c' };
    let pd = match proto {
        'i' => Pd::None,
        't' => if rng.chance(1, 2) { Pd::Src(5000) } else { Pd::Dest(80) },
        _ => match strat {
            'c' => if rng.chance(1, 2) { Pd::Src(5000) } else { Pd::Dest(33434) },
            _ => match rng.below(3) { 0 => Pd::Src(5000), 1 => Pd::Dest(33434), _ => Pd::Both(5000, 33434) },
        },
    };
    let first = rng.range(1, 4) as u8;
    let min = if v6 { 48 } else { 28 };
    SCfg {
        src, dst, proto, strat, pd, privileged,
        size: *rng.pick(&[min, 84, 200, 1024]), pattern: rng.next() as u8, tos: rng.next() as u8, ext: rng.chance(1, 2),
        initial: *rng.pick(&[0u16, 33434, 64000, 64511]), trace_id: *rng.pick(&[1u16, 4660, 65535]),
        max_rounds: Some(rng.range(3, 9) as usize), first, max: first + rng.below(8) as u8, inflight: rng.range(1, 6) as u8,
        grace: *rng.pick(&[0, 5 * MS, 40 * MS]), min_round: *rng.pick(&[0, 20 * MS]), max_round: *rng.pick(&[50 * MS, 120 * MS]),
        read_timeout: 10 * MS, tcp_timeout: *rng.pick(&[30 * MS, 500 * MS, 1000 * MS]), max_samples: *rng.pick(&[1usize, 2, 6]),
        max_flows: *rng.pick(&[1usize, 3, 5]),
    }
}

thread_local! {
    /// directed cases: every router answers from one fixed address (a path that never changes)
    static FIXED_RESPONDERS: std::cell::Cell<bool> = const { std::cell::Cell::new(false) };
}

fn responder_at(cfg: &SCfg, ttl: u8, path_len: u8, rng: &mut Rng) -> IpAddr {
    if ttl >= path_len { return cfg.dst; }
    if FIXED_RESPONDERS.with(std::cell::Cell::get) {
        return if cfg.v6() { IpAddr::V6(std::net::Ipv6Addr::new(0xfd00, 0, 0, 0, 0, 0, 0x77, u16::from(ttl))) } else { IpAddr::V4(std::net::Ipv4Addr::new(10, 77, ttl, 1)) };
    }
    crate::wire_gen::responder(cfg.v6(), rng)
}

/// a genuine ICMP answer to `p`: a quotation of the bytes dispatched for it, from `from`
fn genuine_for(cfg: &SCfg, p: &Probe, sent: &Sent, from: IpAddr, target: bool, rng: &mut Rng) -> Option<Vec<u8>> {
    let w = cfg.ccfg().wire();
    let d = wire_datagram(&w, p, sent, rng)?;
    let dublin = p.flags.bits() & 2 != 0;
    let min = min_quote(&w, dublin);
    if d.len() < min { return None; }
    let icmp = if target && cfg.proto == 'i' {
        // the target echoes the request
        let ih = if w.v6 { 0 } else { 20 };
        let mut echo = d[if w.v6 { 40 } else { ih }..].to_vec();
        echo[0] = ty_er(w.v6);
        echo[2] = 0;
        echo[3] = 0;
        echo
    } else {
        let n = rng.range(min as u64, d.len().min(200) as u64) as usize;
        let q = quote(&w, &d, n, rng);
        let (ext, _) = ext_structure(rng);
        let mode = *rng.pick(&[ExtMode::None, ExtMode::Compliant, ExtMode::Legacy]);
        let (la, body) = icmp_body(w.v6, &q, mode, &ext);
        let (ty, code) = if target { (ty_du(w.v6), if w.v6 { 4 } else { 3 }) } else { (ty_te(w.v6), 0) };
        icmp_message(&w, ty, code, la, &body, from)
    };
    Some(deliver(&w, &icmp, from, rng))
}

const ADDR_IN_USE: Inject = Inject::Errno(libc::EADDRINUSE);

fn random_inject(cfg: &SCfg, rng: &mut Rng) -> Vec<(&'static str, Inject)> {
    let errs = [
        Inject::Errno(libc::EINPROGRESS), Inject::Errno(libc::EHOSTUNREACH), Inject::Errno(libc::ENETUNREACH),
        Inject::Errno(libc::EADDRINUSE), Inject::Errno(libc::EADDRNOTAVAIL), Inject::Errno(libc::EINVAL),
        Inject::Errno(libc::EACCES),
    ];
    // only calls the dispatch path really makes, so that an armed error strikes in its own call
    let calls: Vec<&'static str> = match (cfg.proto, cfg.privileged, cfg.v6()) {
        ('i', _, false) => vec!["send"],
        ('i', _, true) => vec!["hops", "send"],
        ('u', true, false) => vec!["send"],
        ('u', true, true) => vec!["hops", "send"],
        ('u', false, false) => vec!["new", "bind", "ttl", "tos", "send"],
        ('u', false, true) => vec!["new", "bind", "hops", "send"],
        (_, _, false) => vec!["new", "bind", "ttl", "tos", "conn"],
        (_, _, true) => vec!["new", "bind", "hops", "conn"],
    };
    let mut v = vec![];
    if cfg.proto == 't' {
        for _ in 0..rng.below(3) {
            v.push((*rng.pick(&["bind", "conn"]), ADDR_IN_USE));
        }
    }
    if rng.chance(2, 3) || v.is_empty() {
        v.push((*rng.pick(&calls), *rng.pick(&errs)));
    }
    v
}

/// a simulated path: hops answer with Time Exceeded, the target at `path_len`.
/// `faults`: 0 = a clean network (losses only); 1 = transient trouble as well (re-issued and failed
/// probes, duplicates, late answers of the previous round, foreign and junk-free noise); 2 = anything
/// (fatal socket errors, failing polls and reads, malformed datagrams — these end the run)
fn plan_path(path_len: u8, loss: u64, faults: u8) -> impl FnMut(&View<'_>, &mut Rng) -> Plan {
    move |v: &View<'_>, rng: &mut Rng| {
        let cfg = v.cfg;
        let mut injs = vec![];
        if faults >= 1 && rng.chance(1, 7) {
            if cfg.proto == 't' {
                for _ in 0..rng.range(1, 3) {
                    injs.push((*rng.pick(&["bind", "conn"]), ADDR_IN_USE));
                }
            }
            if rng.chance(1, 2) {
                // errors the mapper turns into a failed probe (or ignores)
                let call = if cfg.proto == 't' { "conn" } else { "send" };
                let e = if cfg.v6() && faults < 2 {
                    // over IPv6 every such error is fatal except a connect in progress
                    Inject::Errno(libc::EINPROGRESS)
                } else {
                    *rng.pick(&[Inject::Errno(libc::EHOSTUNREACH), Inject::Errno(libc::ENETUNREACH), Inject::Errno(libc::ENETUNREACH), Inject::Errno(libc::EINPROGRESS)])
                };
                if !(cfg.v6() && cfg.proto != 't') { injs.push((call, e)); }
            }
        }
        if faults >= 2 && rng.chance(1, 25) {
            injs = random_inject(cfg, rng);
        }
        let dt = *rng.pick(&[0, MS / 2, MS, 2 * MS, 3 * MS, 10 * MS]);
        let mut env: Vec<SockEnv> = v.live.iter().map(|_| SockEnv::NotWritable).collect();
        let mut dgram = Dgram::None;
        let mut answers = None;
        let mut readable = Poll::No;
        let kind = rng.below(20);
        if faults >= 2 && kind == 0 && rng.chance(1, 3) {
            readable = Poll::Yes;
            let n = rng.below(120) as usize;
            dgram = Dgram::Data(Some(crate::wire_gen::responder(cfg.v6(), rng)), rng.bytes(n));
        } else if faults >= 2 && kind == 1 && rng.chance(1, 4) {
            readable = *rng.pick(&[Poll::Yes, Poll::Fails]);
            if rng.chance(1, 2) { dgram = Dgram::ReadFails; }
        } else if faults >= 1 && kind == 3 && cfg.proto != 'i' && !v.outstanding.is_empty() {
            // somebody else's ping answer on the raw ICMP socket of a UDP / TCP trace, with an identifier the
            // tracer would accept (0 or its own) and the sequence of a probe that is still awaited: not an
            // answer to any probe of this trace
            let (p, _) = rng.pick(v.outstanding);
            let id = if rng.chance(1, 2) { 0 } else { cfg.trace_id };
            let w = cfg.ccfg().wire();
            let mut icmp = vec![ty_er(w.v6), 0, rng.next() as u8, rng.next() as u8];
            icmp.extend(id.to_be_bytes());
            icmp.extend(p.sequence.0.to_be_bytes());
            let pad = rng.below(24) as usize;
            icmp.extend(rng.bytes(pad));
            let from = crate::wire_gen::responder(cfg.v6(), rng);
            readable = Poll::Yes;
            dgram = Dgram::Data(Some(from), deliver(&w, &icmp, from, rng));
        } else if faults >= 1 && kind == 4 && !v.outstanding.is_empty() {
            // an answer meant for a sibling tracer on the same host: the quotation of one of our probes with the
            // ICMP identifier changed (another non-zero trace id), or with one fixed port / the target changed
            let (p, s) = rng.pick(v.outstanding);
            let w = cfg.ccfg().wire();
            if let Some(mut d) = wire_datagram(&w, p, s, rng) {
                let ih = if w.v6 { 40 } else { 20 };
                let mut ok = true;
                match cfg.proto {
                    'i' => { d[ih + 4] ^= 0x55; d[ih + 5] ^= 0x2a; let id = u16::from_be_bytes([d[ih + 4], d[ih + 5]]); ok = id != 0 && id != cfg.trace_id; }
                    _ => match cfg.pd {
                        Pd::Src(_) => d[ih + 1] ^= 1,
                        Pd::Dest(_) => d[ih + 3] ^= 1,
                        Pd::Both(..) => if rng.chance(1, 2) { d[ih + 1] ^= 1 } else { d[ih + 3] ^= 1 },
                        Pd::None => ok = false,
                    },
                }
                let min = min_quote(&w, p.flags.bits() & 2 != 0);
                if ok && d.len() >= min {
                    let n = rng.range(min as u64, d.len().min(200) as u64) as usize;
                    let q = quote(&w, &d, n, rng);
                    let from = crate::wire_gen::responder(cfg.v6(), rng);
                    let (la, body) = icmp_body(w.v6, &q, ExtMode::None, &[]);
                    let icmp = icmp_message(&w, ty_te(w.v6), 0, la, &body, from);
                    readable = Poll::Yes;
                    dgram = Dgram::Data(Some(from), deliver(&w, &icmp, from, rng));
                }
            }
        } else if faults >= 1 && kind == 2 && !v.previous.is_empty() {
            // a late answer to a probe of the round published last
            let (p, s) = rng.pick(v.previous);
            let from = responder_at(cfg, p.ttl.0, path_len, rng);
            if let Some(b) = genuine_for(cfg, p, s, from, p.ttl.0 >= path_len, rng) {
                readable = Poll::Yes;
                dgram = Dgram::Data(Some(from), b);
            }
        } else if !v.outstanding.is_empty() && !rng.chance(loss, 100) {
            // in order mostly; sometimes any outstanding probe again (duplicates, reordering)
            let (p, s) = if rng.chance(3, 4) { &v.outstanding[v.iteration % v.outstanding.len()] } else { rng.pick(v.outstanding) };
            let target = p.ttl.0 >= path_len;
            let from = responder_at(cfg, p.ttl.0, path_len, rng);
            if cfg.proto == 't' && target && rng.chance(2, 3) {
                // the handshake completes (or is refused) on the probe's own socket
                if let Some(i) = v.live.iter().position(|l| l.sp == p.src_port.0 && l.dp == p.dest_port.0) {
                    env[i] = if rng.chance(1, 2) { SockEnv::Connected(Some(cfg.dst)) } else { SockEnv::Refused };
                }
            } else if let Some(b) = genuine_for(cfg, p, s, from, target, rng) {
                readable = Poll::Yes;
                dgram = Dgram::Data(Some(from), b);
                answers = Some((p.sequence.0, from));
            }
        }
        // TCP: a router's ICMP answer is readable in the very iteration in which the target completes (or refuses)
        // the handshake of another probe — both have to reach the strategy (in this or the next iteration)
        if cfg.proto == 't' && matches!(dgram, Dgram::Data(..)) && answers.is_some() && rng.chance(1, 2) {
            if let Some((p, _)) = v.outstanding.iter().find(|(p, _)| p.ttl.0 >= path_len && Some(p.sequence.0) != answers.map(|a| a.0)) {
                if let Some(i) = v.live.iter().position(|l| l.sp == p.src_port.0 && l.dp == p.dest_port.0) {
                    env[i] = if rng.chance(1, 2) { SockEnv::Connected(Some(cfg.dst)) } else { SockEnv::Refused };
                }
            }
        }
        if faults >= 2 && cfg.proto == 't' && rng.chance(1, 12) {
            for e in env.iter_mut() {
                if rng.chance(1, 3) { *e = crate::chan_gen::sock_env(rng, cfg.v6(), cfg.dst); }
            }
        }
        Plan { injs, dt, readable, dgram, env, answers }
    }
}

pub fn run(rng: &mut Rng, thorough: bool, _corpus: &[String]) -> Run {
    let mut run = Run::new();
    // every cell of `probe_data` the builder accepts (protocol x strategy x port direction) x both families,
    // plus unprivileged UDP; quick: one case per cell, thorough: five
    let reps = if thorough { 5 } else { 1 };
    let mut cell_list: Vec<(Cell, bool)> = cells(rng).into_iter().map(|c| (c, true)).collect();
    cell_list.push((Cell { proto: 'u', strat: 'c', pd: crate::wire_enc::Pd::Src(5000) }, false));
    cell_list.push((Cell { proto: 'u', strat: 'c', pd: crate::wire_enc::Pd::Dest(33434) }, false));
    let mut k = 0usize;
    for (cell, privileged) in cell_list {
        for v6 in [false, true] {
            for _ in 0..reps {
                k += 1;
                let mut cfg = gen_cfg(rng, cell.proto, v6);
                cfg.strat = cell.strat;
                cfg.privileged = privileged;
                cfg.pd = match cell.pd {
                    crate::wire_enc::Pd::None => Pd::None,
                    crate::wire_enc::Pd::Src(a) => Pd::Src(a),
                    crate::wire_enc::Pd::Dest(a) => Pd::Dest(a),
                    crate::wire_enc::Pd::Both(a, b) => Pd::Both(a, b),
                };
                let path_len = cfg.first + rng.below(6) as u8;
                let loss = *rng.pick(&[0u64, 10, 40]);
                let mut plan = plan_path(path_len, loss, (k % 3) as u8);
                open_loop(&mut run, &cfg, rng.below(1000) * 1000, if thorough { 400 } else { 160 }, k % 2 == 1, &mut plan, rng);
            }
        }
    }
    // directed: the largest time-to-live values the builder accepts (C16: an accepted configuration runs —
    // the channel, the strategy and the hop table of the `State` all have to cope with ttl 254)
    for (first, max, v6, proto) in [(250u8, 254u8, false, 'i'), (254, 254, true, 'u'), (253, 254, false, 't'), (1, 254, true, 'i')] {
        let mut cfg = gen_cfg(rng, proto, v6);
        cfg.first = first;
        cfg.max = max;
        cfg.inflight = 24;
        cfg.max_rounds = Some(3);
        let path_len = if first == 1 { 254 } else { 255 };
        let mut plan = plan_path(path_len, 20, 0);
        run.count("directed:max-ttl");
        open_loop(&mut run, &cfg, 0, if first == 1 { 900 } else { 200 }, false, &mut plan, rng);
    }
    // directed: the limits of the `State` survive `Tracer::clear` (cleared after the first round, then
    // enough rounds with changing responders to exceed the smaller limit)
    for (v6, ms, mf) in [(false, 6usize, 1usize), (true, 1, 5), (false, 2, 5), (true, 6, 3)] {
        let mut cfg = gen_cfg(rng, 'i', v6);
        cfg.max_samples = ms;
        cfg.max_flows = mf;
        cfg.max_rounds = Some(9);
        cfg.first = 1;
        cfg.max = 4;
        let mut plan = plan_path(3, 0, 0);
        run.count("directed:clear-limits");
        open_loop(&mut run, &cfg, 0, 400, true, &mut plan, rng);
    }
    // TCP: answers arrive late and out of order, and whenever a router's ICMP answer is readable the target completes
    // (or refuses) the handshake of another probe in the same iteration: both answers count (C01), and once the
    // target's answer has been consumed nothing more is sent in that round (C06)
    for (v6, pd) in [(false, Pd::Src(5000)), (true, Pd::Dest(443)), (false, Pd::Dest(80))] {
        let mut cfg = gen_cfg(rng, 't', v6);
        cfg.pd = pd; cfg.first = 1; cfg.max = 12; cfg.inflight = 24; cfg.max_rounds = Some(6);
        cfg.min_round = 60 * MS; cfg.max_round = 120 * MS; cfg.grace = 40 * MS; cfg.tcp_timeout = 500 * MS;
        let mut base = plan_path(3, 50, 0);
        let dst = cfg.dst;
        let mut plan = move |v: &View<'_>, rng: &mut Rng| {
            let mut pl = base(v, rng);
            if matches!(pl.dgram, Dgram::Data(..)) {
                let taken = pl.answers.map(|a| a.0);
                if let Some((p, _)) = v.outstanding.iter().find(|(p, _)| p.ttl.0 >= 3 && Some(p.sequence.0) != taken) {
                    if let Some(i) = v.live.iter().position(|l| l.sp == p.src_port.0 && l.dp == p.dest_port.0) {
                        if i < pl.env.len() { pl.env[i] = if rng.chance(1, 2) { SockEnv::Connected(Some(dst)) } else { SockEnv::Refused }; }
                    }
                }
            }
            pl
        };
        run.count("directed:tcp-icmp-and-handshake-together");
        open_loop(&mut run, &cfg, 0, 400, false, &mut plan, rng);
    }
    // TCP: an early probe passes tcp_connect_timeout in the very poll in which the target completes the handshake of
    // a later probe (expiry and completion in one call of recv_probe): the completed probe — not a neighbour — is
    // reported, nothing panics (C16 / C09 / C02)
    for (v6, complete_ttl) in [(false, 3u8), (true, 6), (false, 6), (false, 4)] {
        let mut cfg = gen_cfg(rng, 't', v6);
        cfg.pd = Pd::Dest(80); cfg.first = 1; cfg.max = 6; cfg.inflight = 24; cfg.max_rounds = Some(3);
        cfg.min_round = 3000 * MS; cfg.max_round = 3000 * MS; cfg.grace = 100 * MS; cfg.tcp_timeout = 500 * MS;
        let dst = cfg.dst;
        let mut plan = move |v: &View<'_>, _rng: &mut Rng| {
            let mut env: Vec<SockEnv> = v.live.iter().map(|_| SockEnv::NotWritable).collect();
            // the probe with ttl `complete_ttl` completes in the poll after the one in which it was sent
            if let Some((p, _)) = v.outstanding.iter().find(|(p, _)| p.ttl.0 == complete_ttl) {
                if let Some(i) = v.live.iter().position(|l| l.sp == p.src_port.0 && l.dp == p.dest_port.0) {
                    if v.now.saturating_sub(v.live[i].start) >= 200 * MS { env[i] = SockEnv::Connected(Some(dst)); }
                }
            }
            Plan { injs: vec![], dt: 200 * MS, readable: Poll::No, dgram: Dgram::None, env, answers: None }
        };
        run.count("directed:tcp-expiry-and-completion-in-one-poll");
        open_loop(&mut run, &cfg, 0, 60, false, &mut plan, rng);
    }
    // a path that never changes (fixed responder per hop), with local port collisions for TCP and transient send
    // failures otherwise: one flow (C15), totals per hop (C01)
    for (proto, v6) in [('t', false), ('t', true), ('i', false), ('u', true), ('u', false)] {
        let mut cfg = gen_cfg(rng, proto, v6);
        cfg.first = 1; cfg.max = 8; cfg.inflight = 24; cfg.max_rounds = Some(8); cfg.max_flows = 5;
        let mut plan = plan_path(4, 0, 1);
        FIXED_RESPONDERS.with(|c| c.set(true));
        run.count("directed:stable-path-one-flow");
        open_loop(&mut run, &cfg, 0, 500, false, &mut plan, rng);
        FIXED_RESPONDERS.with(|c| c.set(false));
    }
    // an outage: a target that never answers (beyond max-ttl), routers that answer for a while and then fall silent
    // for the rest of the trace — the rounds report a shorter and shorter path, the hops that were probed and
    // answered before must stay in the table with their totals (C01 / C10)
    for (proto, v6) in [('i', false), ('u', true), ('i', true)] {
        let mut cfg = gen_cfg(rng, proto, v6);
        cfg.first = 1; cfg.max = 4; cfg.inflight = 6; cfg.max_rounds = Some(7);
        let mut good = plan_path(200, 0, 0);
        let mut dark = plan_path(200, 100, 0);
        let mut plan = move |v: &View<'_>, rng: &mut Rng| if v.iteration < 40 { good(v, rng) } else { dark(v, rng) };
        run.count("directed:outage");
        open_loop(&mut run, &cfg, 0, 600, false, &mut plan, rng);
    }
    // closed loop: silent network, the run has to end by itself after max_rounds rounds
    for proto in ['i', 'u', 't'] {
        for v6 in [false, true] {
            for k in 0..if thorough { 8 } else { 2 } {
                let mut cfg = gen_cfg(rng, proto, v6);
                cfg.tcp_timeout = *rng.pick(&[20 * MS, 500 * MS]);
                let dts: Vec<u64> = match k % 4 {
                    0 => vec![10 * MS],
                    1 => vec![MS, 7 * MS, 0, 30 * MS],
                    2 => vec![cfg.max_round + 1],
                    _ => vec![cfg.max_round / 3, 1, cfg.grace],
                };
                let fault = if k % 2 == 1 {
                    let call = if proto == 't' { "conn" } else { "send" };
                    Some((1 + rng.below(12) as usize, call, *rng.pick(&[Inject::Errno(libc::EACCES), Inject::Errno(libc::ENETUNREACH), Inject::Errno(libc::EADDRINUSE)])))
                } else { None };
                closed_loop(&mut run, &cfg, rng.below(1000) * 1000, &dts, fault);
            }
        }
    }
    // closed loop, UDP/Dublin over IPv6, a long silent trace: more than 1000 sequence numbers are used, so the
    // sequence has to restart at the initial sequence in time (the payload length is derived from it and must fit
    // the packet buffer) — a configuration the builder accepts must not panic however long it runs
    for initial in if thorough { vec![33434u16, 0, 64000] } else { vec![33434u16] } {
        let mut cfg = gen_cfg(rng, 'u', true);
        cfg.strat = 'd'; cfg.privileged = true; cfg.initial = initial; cfg.pd = Pd::Src(5000);
        cfg.first = 1; cfg.max = 30; cfg.inflight = 24; cfg.max_rounds = Some(50);
        cfg.min_round = 100 * MS; cfg.max_round = 100 * MS; cfg.grace = 10 * MS;
        if cfg.build().is_ok() {
            run.count("directed:dublin-v6-long-run");
            closed_loop(&mut run, &cfg, rng.below(1000) * 1000, &[4 * MS], None);
        }
    }
    // the public entry points with the real socket layer: a source address this host does not own cannot be bound, so
    // the run fails before a probe is sent — with an error value that every later snapshot shows (C09), whichever
    // entry point started the run
    for which in ["run", "run_with"] {
        for (target, source) in [(IpAddr::V4(std::net::Ipv4Addr::new(192, 0, 2, 1)), IpAddr::V4(std::net::Ipv4Addr::new(203, 0, 113, 77))),
                                 (IpAddr::V6("2001:db8::1".parse().unwrap()), IpAddr::V6("2001:db8:ffff::77".parse().unwrap()))] {
            let Ok(tracer) = Builder::new(target).source_addr(Some(source)).max_rounds(Some(1)).build() else { continue };
            let t2 = tracer.clone();
            let r = guarded(move || if which == "run" { t2.run() } else { t2.run_with(|_| ()) });
            match r {
                Err(loc) => run.fail("c09-stack-panic", format!("Tracer::{which} with the unbindable source address {source} ({loc})")),
                Ok(Ok(())) => run.count("stack:real-socket-run-unexpectedly-ok"),
                Ok(Err(e)) => {
                    match tracer.snapshot().error() {
                        Some(s) if s == e.to_string() => run.count("stack:real-socket-error-recorded"),
                        other => run.fail("c09-stack-error-invisible", format!("Tracer::{which} (source address {source}, not an address of this host) ended with [{e}] but the snapshot shows {other:?}")),
                    }
                }
            }
        }
    }
    // closed loop under a wall clock that steps backwards (implementation only)
    for proto in ['t', 'i', 'u'] {
        for v6 in [false, true] {
            let mut cfg = gen_cfg(rng, proto, v6);
            cfg.max_rounds = Some(5);
            run.count("directed:closed-loop-clock-steps");
            closed_loop_clock_steps(&mut run, &cfg, 10_000 * MS + rng.below(1000) * 1000, rng);
        }
    }
    // closed loop, TCP, a busy ICMP socket: in every iteration the receive socket delivers a Time Exceeded that
    // belongs to another tracer on the host; the connects of this tracer's probes never complete. The run still
    // publishes its n rounds (more than 256 probes in all, far fewer outstanding at any time) and returns Ok
    for k in 0..if thorough { 4 } else { 1 } {
        let mut cfg = gen_cfg(rng, 't', false);
        cfg.first = 1; cfg.max = 24 + (k as u8 % 3) * 3; cfg.inflight = 24;
        cfg.max_rounds = Some(14);
        cfg.min_round = 500 * MS; cfg.max_round = 500 * MS; cfg.grace = 10 * MS;
        cfg.tcp_timeout = 500 * MS;
        let noise = foreign_tcp_time_exceeded(&cfg, rng);
        run.count("directed:tcp-busy-icmp-socket");
        closed_loop_noise(&mut run, &cfg, rng.below(1000) * 1000, &[20 * MS], None, Some(noise));
    }
    clock::disable();
    run
}
