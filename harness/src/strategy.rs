//! `script` set-up: the real `Strategy` + `TracerState` (through the verif hooks) driven by a
//! scripted `Network` under the virtual clock; the same scripts are replayed by the Lean model.
//! Also the implementation-level monitors (oracles) for C03, C06, C07, C08, C09.
use crate::clock;
use crate::util::{guarded, Rng, Run};
use std::cell::RefCell;
use std::collections::VecDeque;
use std::net::{IpAddr, Ipv4Addr, Ipv6Addr, SocketAddr};
use std::num::NonZeroUsize;
use std::time::Duration;
use trippy_core::verif::{
    Error, IcmpPacketCode, IcmpProtocolResponse, IoError, IoOperation, Network, ProtocolResponse, Response,
    ResponseData, StrategyConfig, TcpProtocolResponse, UdpProtocolResponse, VerifState,
};
use trippy_core::{
    Extension, Extensions, IcmpPacketType, MaxInflight, MaxRounds, MultipathStrategy, PortDirection, Probe,
    ProbeStatus, Protocol, Round, Sequence, Strategy, TimeToLive, TraceId, TypeOfService, UnknownExtension,
};

#[derive(Clone, Debug, PartialEq)]
pub enum Pd {
    None,
    Src(u16),
    Dest(u16),
    Both(u16, u16),
}

#[derive(Clone, Debug)]
pub struct Cfg {
    pub v6: bool,
    pub target: u64,
    pub proto: char,
    pub trace_id: u16,
    pub max_rounds: Option<usize>,
    pub first: u8,
    pub max: u8,
    pub grace: u64,
    pub inflight: u8,
    pub initial: u16,
    pub strat: char,
    pub pd: Pd,
    pub min_round: u64,
    pub max_round: u64,
}

pub fn addr_of(id: u64, v6: bool) -> IpAddr {
    if v6 {
        IpAddr::V6(Ipv6Addr::new(0xfd00, 0, 0, 0, 0, 0, (id >> 16) as u16, id as u16))
    } else {
        IpAddr::V4(Ipv4Addr::from(0x0a00_0000u32 + id as u32))
    }
}
pub fn id_of(a: IpAddr) -> u64 {
    match a {
        IpAddr::V4(a) => u64::from(u32::from(a).wrapping_sub(0x0a00_0000)),
        IpAddr::V6(a) => {
            let s = a.segments();
            (u64::from(s[6]) << 16) | u64::from(s[7])
        }
    }
}

thread_local! {
    /// how addresses are printed: `false` = the abstract identifiers of this component (`id_of`),
    /// `true` = the address as a number (what the wire and stack models use)
    static ADDR_NUM: std::cell::Cell<bool> = const { std::cell::Cell::new(false) };
}
pub fn set_addr_num(b: bool) {
    ADDR_NUM.with(|x| x.set(b));
}
pub fn host_str(a: IpAddr) -> String {
    if ADDR_NUM.with(std::cell::Cell::get) { crate::wire_enc::addr_num(a).to_string() } else { id_of(a).to_string() }
}

impl Cfg {
    pub fn line(&self, t0: u64) -> String {
        let pd = match &self.pd {
            Pd::None => "n".to_string(),
            Pd::Src(p) => format!("s:{p}"),
            Pd::Dest(p) => format!("d:{p}"),
            Pd::Both(a, b) => format!("b:{a}:{b}"),
        };
        format!(
            "st cfg {} {} {} {} {} {} {} {} {} {} {} {} {} {} {}",
            u8::from(self.v6), self.target, self.proto, self.trace_id,
            self.max_rounds.map_or("-".to_string(), |m| m.to_string()),
            self.first, self.max, self.grace, self.inflight, self.initial, self.strat, pd,
            self.min_round, self.max_round, t0
        )
    }
    pub fn real(&self) -> StrategyConfig {
        StrategyConfig {
            target_addr: addr_of(self.target, self.v6),
            protocol: match self.proto { 'i' => Protocol::Icmp, 'u' => Protocol::Udp, _ => Protocol::Tcp },
            trace_identifier: TraceId(self.trace_id),
            max_rounds: self.max_rounds.map(|m| MaxRounds(NonZeroUsize::new(m).unwrap())),
            first_ttl: TimeToLive(self.first),
            max_ttl: TimeToLive(self.max),
            grace_duration: Duration::from_nanos(self.grace),
            max_inflight: MaxInflight(self.inflight),
            initial_sequence: Sequence(self.initial),
            multipath_strategy: match self.strat { 'c' => MultipathStrategy::Classic, 'p' => MultipathStrategy::Paris, _ => MultipathStrategy::Dublin },
            port_direction: match self.pd {
                Pd::None => PortDirection::None,
                Pd::Src(p) => PortDirection::new_fixed_src(p),
                Pd::Dest(p) => PortDirection::new_fixed_dest(p),
                Pd::Both(a, b) => PortDirection::new_fixed_both(a, b),
            },
            min_round_duration: Duration::from_nanos(self.min_round),
            max_round_duration: Duration::from_nanos(self.max_round),
        }
    }
    /// what the real `Builder::build` says about this configuration (the strategy's share of it): the monitors of
    /// a case apply exactly when the real builder lets the configuration through
    pub fn real_builder_accepts(&self) -> bool {
        let src = addr_of(3, self.v6);
        crate::util::guarded(|| {
            trippy_core::Builder::new(addr_of(self.target, self.v6))
                .source_addr(Some(src))
                .protocol(match self.proto { 'i' => Protocol::Icmp, 'u' => Protocol::Udp, _ => Protocol::Tcp })
                .multipath_strategy(match self.strat { 'c' => MultipathStrategy::Classic, 'p' => MultipathStrategy::Paris, _ => MultipathStrategy::Dublin })
                .port_direction(match self.pd {
                    Pd::None => PortDirection::None,
                    Pd::Src(p) => PortDirection::new_fixed_src(p),
                    Pd::Dest(p) => PortDirection::new_fixed_dest(p),
                    Pd::Both(a, b) => PortDirection::new_fixed_both(a, b),
                })
                .initial_sequence(self.initial)
                .trace_identifier(self.trace_id)
                .max_rounds(self.max_rounds)
                .first_ttl(self.first)
                .max_ttl(self.max)
                .max_inflight(self.inflight)
                .build()
                .is_ok()
        }).unwrap_or(false)
    }
    /// what `Builder::build` accepts (kept in sync with the Lean `CfgOk`; the builder component
    /// compares both with the real builder)
    pub fn builder_ok(&self) -> bool {
        if self.first < 1 || self.first > 254 || self.max > 254 || self.initial > 64511 { return false; }
        match (self.proto, &self.pd, self.strat) {
            ('u', Pd::None, _) | ('t', Pd::None, _) => false,
            ('u', Pd::Both(..), 'c') | ('t', Pd::Both(..), _) => false,
            _ => true,
        }
    }
}

#[derive(Clone, Debug)]
pub enum PResp {
    Icmp { id: u16, seq: u16, tos: Option<u8> },
    Udp { id: u16, dest: u64, sp: u16, dp: u16, tos: Option<u8>, exp: u16, act: u16, plen: u16, magic: bool },
    Tcp { dest: u64, sp: u16, dp: u16, tos: Option<u8> },
}

#[derive(Clone, Debug)]
pub struct Resp {
    pub kind: &'static str, // te du er tr tf
    pub code: u8,
    pub recv: u64,
    pub addr: u64,
    pub ext: Option<usize>,
    pub proto: PResp,
}

fn opt<T: ToString>(x: &Option<T>) -> String {
    x.as_ref().map_or("-".to_string(), ToString::to_string)
}

impl Resp {
    pub fn token(&self) -> String {
        let p = match &self.proto {
            PResp::Icmp { id, seq, tos } => format!("i:{id}:{seq}:{}", opt(tos)),
            PResp::Udp { id, dest, sp, dp, tos, exp, act, plen, magic } =>
                format!("u:{id}:{dest}:{sp}:{dp}:{}:{exp}:{act}:{plen}:{}", opt(tos), u8::from(*magic)),
            PResp::Tcp { dest, sp, dp, tos } => format!("t:{dest}:{sp}:{dp}:{}", opt(tos)),
        };
        format!("r:{}:{}:{}:{}:{}:{p}", self.kind, self.code, self.recv, self.addr, opt(&self.ext))
    }
    pub fn real(&self, v6: bool) -> Response {
        let proto = match &self.proto {
            PResp::Icmp { id, seq, tos } => ProtocolResponse::Icmp(IcmpProtocolResponse::new(*id, *seq, tos.map(TypeOfService))),
            PResp::Udp { id, dest, sp, dp, tos, exp, act, plen, magic } => ProtocolResponse::Udp(UdpProtocolResponse::new(
                *id, addr_of(*dest, v6), *sp, *dp, tos.map(TypeOfService), *exp, *act, *plen, *magic)),
            PResp::Tcp { dest, sp, dp, tos } => ProtocolResponse::Tcp(TcpProtocolResponse::new(addr_of(*dest, v6), *sp, *dp, tos.map(TypeOfService))),
        };
        let data = ResponseData::new(clock::time_of(self.recv), addr_of(self.addr, v6), proto);
        let ext = self.ext.map(|n| Extensions { extensions: (0..n).map(|_| Extension::Unknown(UnknownExtension::default())).collect() });
        match self.kind {
            "te" => Response::TimeExceeded(data, IcmpPacketCode(self.code), ext),
            "du" => Response::DestinationUnreachable(data, IcmpPacketCode(self.code), ext),
            "er" => Response::EchoReply(data, IcmpPacketCode(self.code)),
            "tr" => Response::TcpReply(data),
            _ => Response::TcpRefused(data),
        }
    }
}

pub enum Recv {
    None,
    Fatal,
    Resp(Resp),
}

struct ScriptNet {
    v6: bool,
    sends: VecDeque<char>,
    dt: u64,
    /// the wall clock steps *back* by this much during the wait (an NTP correction, a VM resume)
    back: u64,
    recv: Recv,
    log: Vec<(Probe, char)>,
}

fn io_err() -> IoError {
    IoError::Other(std::io::Error::from(std::io::ErrorKind::PermissionDenied), IoOperation::Select)
}

impl Network for ScriptNet {
    fn send_probe(&mut self, probe: Probe) -> Result<(), Error> {
        let o = self.sends.pop_front().unwrap_or('o');
        self.log.push((probe, o));
        match o {
            'o' => Ok(()),
            'f' => Err(Error::ProbeFailed(io_err())),
            'a' => Err(Error::AddressInUse(SocketAddr::new(IpAddr::V4(Ipv4Addr::LOCALHOST), 1))),
            _ => Err(Error::IoError(io_err())),
        }
    }
    fn recv_probe(&mut self) -> Result<Option<Response>, Error> {
        if self.back > 0 { clock::set(clock::now_ns().saturating_sub(self.back)); } else { clock::advance(self.dt); }
        match &self.recv {
            Recv::None => Ok(None),
            Recv::Fatal => Err(Error::IoError(io_err())),
            Recv::Resp(r) => Ok(Some(r.real(self.v6))),
        }
    }
}

pub fn show_probe(p: &Probe) -> String {
    format!("{}/{}/{}/{}/{}/{}/{}/{}", p.sequence.0, p.identifier.0, p.src_port.0, p.dest_port.0, p.ttl.0,
        p.round.0, clock::ns_of(p.sent), p.flags.bits())
}

pub fn show_slot(s: &ProbeStatus) -> String {
    match s {
        ProbeStatus::NotSent => "N".into(),
        ProbeStatus::Skipped => "S".into(),
        ProbeStatus::Failed(f) => format!("F({}/{}/{}/{}/{}/{}/{}/0)", f.sequence.0, f.identifier.0, f.src_port.0, f.dest_port.0, f.ttl.0, f.round.0, clock::ns_of(f.sent)),
        ProbeStatus::Awaited(p) => format!("A({})", show_probe(p)),
        ProbeStatus::Complete(c) => {
            let kind = match c.icmp_packet_type {
                IcmpPacketType::TimeExceeded(code) => format!("te{}", code.0),
                IcmpPacketType::EchoReply(code) => format!("er{}", code.0),
                IcmpPacketType::Unreachable(code) => format!("du{}", code.0),
                IcmpPacketType::NotApplicable => "na".into(),
            };
            format!("C({}/{}/{}/{}/{}/{}/{}/0/{}/{}/{kind}/{}/{}/{}/{})",
                c.sequence.0, c.identifier.0, c.src_port.0, c.dest_port.0, c.ttl.0, c.round.0, clock::ns_of(c.sent),
                host_str(c.host), clock::ns_of(c.received), opt(&c.tos.map(|t| t.0)),
                opt(&c.expected_udp_checksum.map(|x| x.0)), opt(&c.actual_udp_checksum.map(|x| x.0)),
                opt(&c.extensions.as_ref().map(|e| e.extensions.len())))
        }
    }
}

pub fn show_round(r: &Round<'_>) -> String {
    let reason = match r.reason { trippy_core::CompletionReason::TargetFound => "T", _ => "L" };
    format!("{reason}/{}/[{}]", r.largest_ttl.0, r.probes.iter().map(show_slot).collect::<Vec<_>>().join(";"))
}

fn show_state(cfg: &Cfg, st: &VerifState) -> String {
    format!("{},{},{},{},{},{},{},{},{} fin={}",
        st.sequence().0, st.round_sequence().0, st.ttl().0, st.round().0, clock::ns_of(st.round_start()),
        u8::from(st.target_found()), opt(&st.max_received_ttl().map(|t| t.0)), opt(&st.target_ttl().map(|t| t.0)),
        opt(&st.received_time().map(clock::ns_of)), u8::from(st.finished(cfg.real().max_rounds)))
}

fn err_kind(e: &Error) -> &'static str {
    match e {
        Error::IoError(_) => "io",
        Error::AddressInUse(_) => "addrinuse",
        Error::InsufficientCapacity => "capacity",
        Error::ProbeFailed(_) => "probefailed",
        _ => "other",
    }
}

/// Information the monitors keep about one case.
#[derive(Default)]
struct Monitor {
    /// per round: sequences issued
    round_seqs: Vec<u16>,
    prev_round_seqs: Vec<u16>,
    round_ttls: Vec<u8>,
    target_accepted_in_round: bool,
    rounds_published: usize,
    last_accept_time: Option<u64>,
    round_start: u64,
    last_outcome: char,
    first_iter: bool,
    /// the target's true distance has been established (its reply at ttl == path length was accepted)
    established: bool,
    established_round: usize,
}

pub struct Case {
    pub cfg: Cfg,
    pub t0: u64,
    pub lines: Vec<(String, String)>,
}

/// A probe the generator may answer: (sequence, ttl, probe) of awaited probes of the current round
fn awaited(st: &VerifState) -> Vec<Probe> {
    st.probes().iter().filter_map(|s| if let ProbeStatus::Awaited(p) = s { Some(p.clone()) } else { None }).collect()
}

/// the response a conforming network would give for probe `p` (the inverse of the strategy's
/// sequence recovery), from responder `addr`
pub fn genuine(cfg: &Cfg, p: &Probe, addr: u64, is_target: bool, recv: u64, rng: &mut Rng) -> Resp {
    let tos = if rng.chance(1, 4) { None } else { Some(rng.next() as u8) };
    let proto = match cfg.proto {
        'i' => PResp::Icmp { id: p.identifier.0, seq: p.sequence.0, tos },
        'u' => {
            let act = if cfg.strat == 'p' { p.sequence.0 } else { rng.next() as u16 };
            let exp = if rng.chance(3, 4) { act } else { rng.next() as u16 };
            PResp::Udp { id: p.identifier.0, dest: cfg.target, sp: p.src_port.0, dp: p.dest_port.0, tos, exp, act,
                plen: if cfg.strat == 'd' && cfg.v6 { p.sequence.0.wrapping_sub(cfg.initial) } else { rng.below(64) as u16 },
                magic: cfg.strat == 'd' && cfg.v6 }
        }
        _ => PResp::Tcp { dest: cfg.target, sp: p.src_port.0, dp: p.dest_port.0, tos },
    };
    let (kind, code) = if is_target {
        match cfg.proto {
            'i' => ("er", 0),
            'u' => ("du", 3),
            _ => if rng.chance(1, 2) { ("tr", 0) } else { ("tf", 0) },
        }
    } else if rng.chance(1, 12) { ("du", rng.below(16) as u8) } else { ("te", 0) };
    let ext = if kind == "te" || kind == "du" { if rng.chance(1, 5) { Some(rng.below(3) as usize) } else { None } } else { None };
    Resp { kind, code, recv, addr, ext, proto }
}

fn gen_cfg(rng: &mut Rng, thorough: bool) -> Cfg {
    let proto = *rng.pick(&['i', 'i', 'u', 'u', 'u', 't']);
    let v6 = rng.chance(1, 3);
    let strat = if proto == 'u' { *rng.pick(&['c', 'p', 'd']) } else { *rng.pick(&['c', 'c', 'p', 'd']) };
    let port = |rng: &mut Rng| *rng.pick(&[1u16, 80, 443, 33434, 5000, 65535]);
    let pd = match proto {
        'i' => if rng.chance(3, 4) { Pd::None } else { Pd::Src(port(rng)) },
        'u' => match rng.below(if strat == 'c' { 2 } else { 3 }) { 0 => Pd::Src(port(rng)), 1 => Pd::Dest(port(rng)), _ => Pd::Both(port(rng), port(rng)) },
        _ => if rng.chance(1, 2) { Pd::Src(port(rng)) } else { Pd::Dest(port(rng)) },
    };
    let grid = [1u8, 2, 3, 8, 23, 24, 25, 64, 253, 254];
    let mut first = *rng.pick(&grid[..if thorough { grid.len() } else { 7 }]);
    let mut max = *rng.pick(&[1u8, 2, 5, 12, 30, 64, 254]);
    if rng.chance(5, 6) && max < first { std::mem::swap(&mut first, &mut max); }
    let inflight = *rng.pick(&[1u8, 2, 3, 24, 24, 255]);
    let initial = match rng.below(8) {
        0 => 0, 1 => 63999, 2 => 64000, 3 => 64511, 4 => 64500, 5 => *rng.pick(&[1u16, 100, 64000 - 256, 64512, 65016, 65023, 65534]), _ => 33434,
    };
    let unit = *rng.pick(&[1u64, 1000, 1_000_000]);
    let (mut min_round, mut max_round) = (rng.below(8) * unit, rng.below(12) * unit);
    if rng.chance(5, 6) && max_round < min_round { std::mem::swap(&mut min_round, &mut max_round); }
    if rng.chance(1, 6) { max_round = min_round; }
    let grace = rng.below(5) * unit;
    Cfg {
        v6, target: 7, proto, trace_id: *rng.pick(&[0u16, 1, 1234, 65535]),
        max_rounds: if rng.chance(1, 3) { None } else { Some(rng.range(1, 6) as usize) },
        first, max, grace, inflight, initial, strat, pd, min_round, max_round,
    }
}

/// run one scripted case on the real strategy; returns request/answer lines
pub fn run_case(run: &mut Run, rng: &mut Rng, cfg: &Cfg, iters: usize, fault: bool, wrap_soak: bool) {
    run_case_plan(run, rng, cfg, iters, fault, wrap_soak, VecDeque::new());
}

thread_local! {
    /// directed scenarios: the target's distance of the next case (stable path)
    static FORCED_PATH: std::cell::Cell<Option<u8>> = const { std::cell::Cell::new(None) };
    /// (rounds, distance): after that many published rounds the target is at the new distance (a route change)
    static FORCED_CHANGE: std::cell::Cell<Option<(usize, u8)>> = const { std::cell::Cell::new(None) };
}

/// `plan`: forced (send outcomes, wait) for the first iterations of the case (directed scenarios)
pub fn run_case_plan(run: &mut Run, rng: &mut Rng, cfg: &Cfg, iters: usize, fault: bool, wrap_soak: bool, mut plan: VecDeque<(Vec<char>, u64)>) {
    let t0 = rng.below(1000) * 1000;
    // the real builder decides whether this is a configuration a user can run (C16: it agrees with CfgOk)
    let accepted = cfg.real_builder_accepts();
    if accepted != cfg.builder_ok() {
        run.fail("c16-builder-differs-from-cfgok", format!("{}: Builder::build {} it, the documented constraints (CfgOk) {}", cfg.line(t0),
            if accepted { "accepts" } else { "rejects" }, if cfg.builder_ok() { "accept" } else { "reject" }));
    }
    // the properties speak about configurations a user can run: what the monitors say about a configuration the
    // builder refuses is dropped at the end of the case (the model still has to agree with the code on it)
    let failures_before = run.oracle_failures.len();
    clock::enable(t0);
    let real = cfg.real();
    let published: RefCell<Option<String>> = RefCell::new(None);
    let pub_probes: RefCell<Vec<ProbeStatus>> = RefCell::new(vec![]);
    let strategy = Strategy::new(&real, |r: &Round<'_>| {
        *published.borrow_mut() = Some(show_round(r));
        *pub_probes.borrow_mut() = r.probes.to_vec();
    });
    let mut st = VerifState::new(real);
    run.op(cfg.line(t0), "ok".into());
    run.count(&format!("cfg:{}{}{}", cfg.proto, if cfg.v6 { 6 } else { 4 }, cfg.strat));
    let mut net = ScriptNet { v6: cfg.v6, sends: VecDeque::new(), dt: 0, back: 0, recv: Recv::None, log: vec![] };
    let forced_path = FORCED_PATH.with(|c| c.take());
    let mut path_len = rng.range(1, u64::from(cfg.max) + 3) as u8;
    // route changes: the path length may change between rounds (C10: growing / shrinking paths)
    let mut route_changes = rng.chance(1, 3);
    if let Some(d) = forced_path { path_len = d; route_changes = false; }
    let forced_change = FORCED_CHANGE.with(|c| c.take());
    let mut rounds_published = 0usize;
    // C10 after a route change that is followed by quiet rounds: (published length, true distance) of the last round
    let mut last_length: Option<(u16, u8)> = None;
    let mut exact_answered_in_round = false;
    let mut route_flapped_in_round = false;
    let mut mon = Monitor { round_start: t0, last_outcome: 'o', first_iter: true, established: false, established_round: 0, ..Default::default() };
    let mut prev_round_probes: Vec<Probe> = vec![];
    let mut answered: Vec<Resp> = vec![];
    // slots known to still hold an Awaited probe of an earlier round (index -> true)
    let mut stale: Vec<bool> = vec![false; 512];
    // C01 ground truth of the round in progress: every send_probe call with its outcome, and the probes answered
    let mut round_log: Vec<(u16, u8, char)> = vec![];
    let mut round_answered: Vec<u16> = vec![];
    // … and the response each of them was answered with (the first genuine one)
    let mut round_answered_resp: Vec<(u16, Resp)> = vec![];
    // C10: no round can report a path length beyond the highest ttl ever probed
    let mut max_ttl_ever_sent: u8 = 0;
    let unit = [cfg.max_round / 6 + 1, cfg.max_round / 2 + 1, 1, cfg.grace, cfg.grace + 1, cfg.min_round, cfg.min_round + 1, cfg.max_round, cfg.max_round + 1, 0, 10_000_000];
    for _it in 0..iters {
        if st.finished(real.max_rounds) { break; }
        // ---- choose the environment of this iteration from the *real* state
        let mut forced = plan.pop_front();
        // pseudo outcomes in a forced plan: 'N' = no response in this iteration, 'S' = a never-sent sequence
        // aimed at a slot that still holds an Awaited probe of an earlier round (junk kind 7)
        let mut force_none = false;
        let mut force_stale = false;
        let mut force_genuine = false;
        // 'P' = a late answer to a probe of the previous round (junk kind 1)
        let mut force_prev = false;
        let mut force_fatal = false;
        if let Some((fs, _)) = &mut forced {
            if fs.contains(&'N') { force_none = true; }
            if fs.contains(&'S') { force_stale = true; }
            if fs.contains(&'G') { force_genuine = true; }
            if fs.contains(&'P') { force_prev = true; }
            if fs.contains(&'X') { force_fatal = true; }
            fs.retain(|c| !matches!(*c, 'N' | 'S' | 'G' | 'X' | 'P'));
        }
        let sends: Vec<char> = if let Some((fs, _)) = &forced { fs.clone() } else if fault && rng.chance(1, 8) {
            match cfg.proto {
                't' => { let n = rng.range(1, if wrap_soak { 40 } else { 4 }); let mut v = vec!['a'; n as usize]; v.push(*rng.pick(&['o', 'o', 'f', 'x'])); v }
                _ => vec![*rng.pick(&['f', 'f', 'a', 'x'])],
            }
        } else { vec![] };
        let dt = if let Some((_, fdt)) = &forced { *fdt } else if wrap_soak { cfg.max_round + 1 } else { *rng.pick(&unit) };
        let now_after = clock::now_ns() + dt;
        let aw = awaited(&st);
        let choice = if force_stale || force_prev { 99 } else if force_genuine { 50 } else { rng.below(100) };
        let mut genuine_for: Option<Probe> = None;
        let mut genuine_is_target = false;
        let recv = if force_none || (force_genuine && aw.is_empty()) {
            Recv::None
        } else if force_fatal || (fault && rng.chance(1, 60)) {
            Recv::Fatal
        } else if choice < 30 || (aw.is_empty() && choice < 70) {
            Recv::None
        } else if choice < 72 && !aw.is_empty() {
            let p = rng.pick(&aw).clone();
            // now and then a router answers at or beyond the target's distance (a route flap in mid-round,
            // ECMP): a genuine response that is not from the target
            let flap = p.ttl.0 >= path_len && forced_path.is_none() && rng.chance(1, 7);
            let is_t = p.ttl.0 >= path_len && !flap;
            if flap { run.count("genuine:router-beyond-target"); }
            let r = genuine(cfg, &p, if is_t { cfg.target } else { 1000 + u64::from(p.ttl.0) }, is_t, now_after, rng);
            genuine_is_target = is_t;
            genuine_for = Some(p);
            answered.push(r.clone());
            Recv::Resp(r)
        } else {
            // junk: duplicate / previous round / never sent in window / out of window / foreign id / wrong tuple
            let count_after = usize::from(st.sequence().0 - st.round_sequence().0) + 1 + sends.len();
            let stale_idx: Vec<usize> = (count_after..512).filter(|i| stale[*i]).collect();
            // sequences of this round that were abandoned for a re-issue (address in use): never on the wire
            let abandoned: Vec<u16> = round_log.iter().filter(|x| x.2 == 'a').map(|x| x.0).collect();
            let k = if force_prev && !prev_round_probes.is_empty() { 1 } else if !stale_idx.is_empty() && (force_stale || rng.chance(1, 2)) { 7 } else if !abandoned.is_empty() && rng.chance(1, 2) { 8 } else { rng.below(7) };
            run.count(&format!("junk:{k}"));
            let fake = |seq: u16, rng: &mut Rng| -> Probe {
                let mut p = aw.first().cloned().or_else(|| prev_round_probes.first().cloned()).unwrap_or_else(|| Probe {
                    sequence: Sequence(seq), identifier: TraceId(cfg.trace_id), src_port: trippy_core::Port(0), dest_port: trippy_core::Port(0),
                    ttl: TimeToLive(1), round: trippy_core::RoundId(0), sent: clock::time_of(0), flags: trippy_core::Flags::empty() });
                // re-derive the tuple for sequence `seq` the way the strategy would
                let old = p.sequence.0;
                if p.src_port.0 == old { p.src_port = trippy_core::Port(seq); }
                if p.dest_port.0 == old { p.dest_port = trippy_core::Port(seq); }
                if p.identifier.0 == old && cfg.proto == 'u' { p.identifier = TraceId(seq); }
                p.sequence = Sequence(seq);
                let _ = rng;
                p
            };
            match k {
                0 if !answered.is_empty() => { let mut r = rng.pick(&answered).clone(); r.recv = now_after; Recv::Resp(r) }
                1 if !prev_round_probes.is_empty() => { let p = rng.pick(&prev_round_probes).clone(); Recv::Resp(genuine(cfg, &p, 1000 + u64::from(p.ttl.0), rng.chance(1, 2), now_after, rng)) }
                2 => { // never sent, inside [round_sequence, round_sequence + 512)
                    let lo = st.sequence().0.saturating_add(1 + sends.len() as u16); let hi = st.round_sequence().0.saturating_add(511);
                    let seq = if lo <= hi { rng.range(u64::from(lo), u64::from(hi)) as u16 } else { lo };
                    let p = fake(seq, rng); Recv::Resp(genuine(cfg, &p, 1000 + rng.below(5), rng.chance(1, 2), now_after, rng)) }
                3 => { let seq = if rng.chance(1, 2) { st.round_sequence().0.wrapping_sub(1 + rng.below(600) as u16) } else { st.round_sequence().0.wrapping_add(512 + rng.below(600) as u16) };
                    let p = fake(seq, rng); Recv::Resp(genuine(cfg, &p, 1000 + rng.below(5), rng.chance(1, 2), now_after, rng)) }
                4 if !aw.is_empty() => { // foreign trace id (ICMP) / other target (UDP, TCP)
                    let p = rng.pick(&aw).clone(); let mut r = genuine(cfg, &p, 1000 + u64::from(p.ttl.0), false, now_after, rng);
                    match &mut r.proto { PResp::Icmp { id, .. } => { *id = if cfg.trace_id == 4242 { 4243 } else { 4242 }; } PResp::Udp { dest, .. } | PResp::Tcp { dest, .. } => { *dest = 9; } }
                    Recv::Resp(r) }
                5 if !aw.is_empty() && cfg.proto != 'i' => { // wrong fixed port
                    let p = rng.pick(&aw).clone(); let mut r = genuine(cfg, &p, 1000 + u64::from(p.ttl.0), false, now_after, rng);
                    match (&mut r.proto, &cfg.pd) {
                        (PResp::Udp { sp, .. } | PResp::Tcp { sp, .. }, Pd::Src(_) | Pd::Both(..)) => { *sp = sp.wrapping_add(1); }
                        (PResp::Udp { dp, .. } | PResp::Tcp { dp, .. }, _) => { *dp = dp.wrapping_add(1); }
                        _ => {}
                    }
                    Recv::Resp(r) }
                6 if !aw.is_empty() && cfg.proto == 'u' && cfg.strat == 'd' && cfg.v6 => { // missing Dublin marker / hostile length
                    let p = rng.pick(&aw).clone(); let mut r = genuine(cfg, &p, 1000 + u64::from(p.ttl.0), false, now_after, rng);
                    if let PResp::Udp { magic, plen, .. } = &mut r.proto { if rng.chance(1, 2) { *magic = false; } else { *plen = 65000; } }
                    Recv::Resp(r) }
                7 => { // a sequence that was never sent in this round whose slot still holds an Awaited probe of an earlier round
                    let i = *rng.pick(&stale_idx);
                    let seq = st.round_sequence().0.wrapping_add(i as u16);
                    let p = fake(seq, rng); Recv::Resp(genuine(cfg, &p, 1000 + rng.below(5), rng.chance(1, 2), now_after, rng)) }
                8 => { // a response naming a sequence this round allocated but never sent (its slot is Skipped)
                    let seq = *rng.pick(&abandoned);
                    let p = fake(seq, rng); Recv::Resp(genuine(cfg, &p, 1000 + rng.below(5), rng.chance(1, 2), now_after, rng)) }
                _ => Recv::None,
            }
        };
        let is_junk = matches!(recv, Recv::Resp(_)) && genuine_for.is_none();
        let recv_tok = match &recv { Recv::None => "n".to_string(), Recv::Fatal => "x".to_string(), Recv::Resp(r) => r.token() };
        let sends_tok = if sends.is_empty() { "-".to_string() } else { sends.iter().map(char::to_string).collect::<Vec<_>>().join(",") };
        let op = format!("st it {sends_tok} {dt} {recv_tok}");
        // ---- run the three steps of the loop body on the real code
        crate::util::inflight(&format!("{} | {op}", cfg.line(t0)));
        net.sends = sends.iter().copied().collect();
        net.dt = dt;
        net.recv = recv;
        net.log.clear();
        *published.borrow_mut() = None;
        let before_round = st.round().0;
        let before_seq_start = st.round_sequence().0;
        let res = guarded(|| -> Result<(String, String), Error> {
            strategy.verif_send_request(&mut net, &mut st)?;
            let snap_a = format!("{} {:?}", show_state(cfg, &st), st.probes().iter().map(show_slot).collect::<Vec<_>>());
            strategy.verif_recv_response(&mut net, &mut st)?;
            let snap_b = format!("{} {:?}", show_state(cfg, &st), st.probes().iter().map(show_slot).collect::<Vec<_>>());
            strategy.verif_update_round(&mut st);
            Ok((snap_a, snap_b))
        });
        match res {
            Err(p) => { if accepted { run.fail("panic", format!("{} | {op} ({p})", cfg.line(t0))); } run.op(op, "panic".into()); run.count("outcome:panic"); break; }
            Ok(Err(e)) => {
                // C09: a fatal outcome ends the run with that error
                let was_fatal = sends.contains(&'x') || recv_tok == "x" || (cfg.proto != 't' && sends.contains(&'a'))
                    || (cfg.proto == 't' && matches!(e, Error::InsufficientCapacity));
                if !was_fatal { run.fail("c09-spurious-error", format!("{} | {op}", cfg.line(t0))); }
                run.count(&format!("outcome:err-{}", err_kind(&e)));
                run.op(op, format!("err {}", err_kind(&e)));
                break;
            }
            Ok(Ok((snap_a, snap_b))) => {
                let sent = net.log.iter().map(|(p, o)| format!("{}/{o}", show_probe(p))).collect::<Vec<_>>().join(";");
                let pubs = published.borrow().clone();
                let out = format!("sent=[{sent}] pub={} st={}", pubs.clone().unwrap_or_else(|| "none".into()), show_state(cfg, &st));
                // ---------------- monitors
                let nops = run.ops.len();
                let ctx = || format!("{} | iteration {} | {op}", cfg.line(t0), nops);
                // C03: a non-genuine response leaves everything but the clock unchanged
                if is_junk && snap_a != snap_b { run.fail("c03-junk-changed-state", format!("{} | before: {snap_a} | after: {snap_b}", ctx())); }
                if is_junk { run.count("c03:junk-checked"); }
                // C06 / C07: sends of this iteration
                for (p, o) in &net.log {
                    round_log.push((p.sequence.0, p.ttl.0, *o));
                    if *o != 'a' { max_ttl_ever_sent = max_ttl_ever_sent.max(p.ttl.0); }
                    let seq = p.sequence.0;
                    if let Some(&last) = mon.round_seqs.last() { if seq != last.wrapping_add(1) { run.fail("c07-not-consecutive", ctx()); } }
                    else if seq != before_seq_start { run.fail("c07-round-start", ctx()); }
                    if seq == 65535 { run.fail("c07-reached-65535", ctx()); }
                    // Dublin/IPv6: the payload length is sequence - initial sequence and must fit the 976-octet
                    // payload buffer together with the 6-octet marker
                    if cfg.proto == 'u' && cfg.strat == 'd' && cfg.v6 && (seq < cfg.initial || usize::from(seq - cfg.initial) + 6 > 976) {
                        run.fail("c07-dublin-payload-exceeds-buffer", format!("{} (sequence {seq}, initial {})", ctx(), cfg.initial));
                    }
                    mon.round_seqs.push(seq);
                    if mon.round_seqs.len() > 512 { run.fail("c07-more-than-512", ctx()); }
                    if mon.prev_round_seqs.contains(&seq) { run.fail("c07-reused-from-previous-round", ctx()); }
                    // TTL discipline: first, first+1, …; a re-issued probe (after address-in-use) keeps its TTL
                    let expect = match mon.round_ttls.last() {
                        None => cfg.first,
                        Some(&t) => if mon.last_outcome == 'a' { t } else { t.wrapping_add(1) },
                    };
                    // C09: an address-in-use failure re-issues the probe under the next sequence number with the same TTL
                    if mon.last_outcome == 'a' && mon.round_ttls.last().is_some_and(|t| *t != p.ttl.0) {
                        run.fail("c09-reissue-ttl", format!("{} (re-issued with ttl {} after ttl {})", ctx(), p.ttl.0, mon.round_ttls.last().unwrap()));
                    }
                    mon.last_outcome = *o;
                    if p.ttl.0 != expect { run.fail("c06-ttl-order", format!("{} (ttl {} expected {expect})", ctx(), p.ttl.0)); }
                    if p.ttl.0 > cfg.max { run.fail("c06-above-max-ttl", ctx()); }
                    // stable path: once the target's distance is established no later round probes beyond it
                    if mon.established && before_round > mon.established_round && p.ttl.0 > path_len {
                        run.fail("c06-above-target-distance", format!("{} (ttl {} > distance {path_len})", ctx(), p.ttl.0));
                    }
                    if mon.target_accepted_in_round { run.fail("c06-sent-after-target", ctx()); }
                    mon.round_ttls.push(p.ttl.0);
                }
                // C06 liveness: the first iteration of every round attempts the first-ttl probe
                if mon.first_iter && cfg.first <= cfg.max && cfg.inflight >= 1 && net.log.is_empty() {
                    run.fail("c06-first-probe-not-sent", ctx());
                }
                mon.first_iter = false;
                if let Some(p) = &genuine_for {
                    // accepted iff its slot was awaited (it was: chosen from awaited) → must now be complete
                    let done = if pubs.is_some() { pub_probes.borrow().iter().any(|s| matches!(s, ProbeStatus::Complete(c) if c.sequence == p.sequence)) }
                               else { st.probes().iter().any(|s| matches!(s, ProbeStatus::Complete(c) if c.sequence == p.sequence)) };
                    if !done { run.fail("c01-genuine-not-completed", ctx()); }
                    run.count("genuine");
                    round_answered.push(p.sequence.0);
                    if let Some(r) = answered.last() { round_answered_resp.push((p.sequence.0, r.clone())); }
                    mon.last_accept_time = Some(now_after);
                    if genuine_is_target { mon.target_accepted_in_round = true; }
                    if p.ttl.0 >= path_len && !genuine_is_target {
                        // the path is not stable: what was established about the target's distance is void
                        mon.established = false;
                        exact_answered_in_round = false;
                        route_flapped_in_round = true;
                    }
                    if p.ttl.0 == path_len && genuine_is_target && !mon.established && !route_flapped_in_round { mon.established = true; mon.established_round = before_round; }
                    if p.ttl.0 == path_len && genuine_is_target && !route_flapped_in_round { exact_answered_in_round = true; }
                }
                // C08: publication exactly when the policy says (independent recomputation)
                let dur = now_after.saturating_sub(mon.round_start);
                let grace_ok = mon.last_accept_time.is_some_and(|r| now_after.saturating_sub(r) > cfg.grace);
                let should = dur > cfg.max_round || (mon.target_accepted_in_round && dur > cfg.min_round && grace_ok);
                if should != pubs.is_some() { run.fail("c08-publish-condition", format!("{} (dur={dur} should={should})", ctx())); }
                if let Some(pr) = &pubs {
                    let want = if mon.target_accepted_in_round { "T/" } else { "L/" };
                    if !pr.starts_with(want) { run.fail("c08-reason", ctx()); }
                    if st.round().0 != before_round + 1 { run.fail("c09-round-id", ctx()); }
                    // C01: one entry per send_probe call, in order, each with the status the ground truth dictates
                    {
                        let pp = pub_probes.borrow();
                        if pp.len() != round_log.len() {
                            run.fail("c01-round-mismatch", format!("{} ({} entries reported, {} probes handed to send_probe)", ctx(), pp.len(), round_log.len()));
                        } else {
                            for (ps, (seq, ttl, o)) in pp.iter().zip(round_log.iter()) {
                                let ok = match (ps, o) {
                                    (ProbeStatus::Skipped, 'a') => true,
                                    (ProbeStatus::Failed(f), 'f') => f.sequence.0 == *seq && f.ttl.0 == *ttl,
                                    (ProbeStatus::Complete(c), 'o') => {
                                        // the entry carries the data of the first genuine response to that probe
                                        if let Some((_, r)) = round_answered_resp.iter().find(|(q, _)| q == seq) {
                                            let tos = match &r.proto { PResp::Icmp { tos, .. } | PResp::Udp { tos, .. } | PResp::Tcp { tos, .. } => *tos };
                                            if id_of(c.host) != r.addr || clock::ns_of(c.received) != r.recv || c.tos.map(|t| t.0) != tos {
                                                run.fail("c01-response-data", format!("{} (probe seq {seq}: reported {} but the response was from {} at {} tos {:?})", ctx(), show_slot(ps), r.addr, r.recv, tos));
                                            }
                                            // C14 through the strategy: the extension objects of a Time Exceeded / Destination Unreachable
                                            // response reach the published round (echo replies and TCP answers carry none)
                                            if matches!(r.kind, "te" | "du") && c.extensions.as_ref().map(|e| e.extensions.len()) != r.ext {
                                                run.fail("c14-extensions-not-as-received", format!("{} (probe seq {seq}: the {} response carried {:?} extension objects, the round reports {:?})", ctx(), r.kind, r.ext, c.extensions.as_ref().map(|e| e.extensions.len())));
                                            }
                                            if let (PResp::Udp { exp, act, .. }, Some(e), Some(a)) = (&r.proto, c.expected_udp_checksum, c.actual_udp_checksum) {
                                                if e.0 != *exp || a.0 != *act {
                                                    run.fail("c19-checksums-not-as-received", format!("{} (probe seq {seq}: response carried expected {exp} / quoted {act}, reported {} / {})", ctx(), e.0, a.0));
                                                    run.fail("c01-response-data", format!("{} (probe seq {seq}: checksums expected {exp} / quoted {act} reported as {} / {})", ctx(), e.0, a.0));
                                                }
                                            }
                                        }
                                        c.sequence.0 == *seq && c.ttl.0 == *ttl && round_answered.contains(seq)
                                    }
                                    (ProbeStatus::Awaited(a), 'o') => a.sequence.0 == *seq && a.ttl.0 == *ttl && !round_answered.contains(seq),
                                    _ => false,
                                };
                                if !ok { run.fail("c01-round-mismatch", format!("{} (probe seq {seq} ttl {ttl} outcome {o} reported as {})", ctx(), show_slot(ps))); break; }
                            }
                        }
                        run.count("c01:round-checked");
                    }
                    // C10 (stable path, the target answered, nothing that was sent up to the target's true distance went unanswered):
                    // the reported length is the target's true distance — in particular when the probe at that distance was
                    // abandoned (address in use) and re-issued
                    if mon.target_accepted_in_round && !route_flapped_in_round && cfg.first <= path_len {
                        if let Some(l) = pr.split('/').nth(1).and_then(|x| x.parse::<u16>().ok()) {
                            let no_loss = round_log.iter().all(|(seq, ttl, o)| *o != 'o' && *o != 'f' || *ttl > path_len || (*o == 'o' && round_answered.contains(seq)));
                            if no_loss {
                                if l != u16::from(path_len) { run.fail("c10-path-length-no-loss", format!("{} (true distance {path_len}, published {}, sends {:?})", ctx(), &pr[..pr.find('[').unwrap_or(6)], round_log)); }
                                run.count("c10:path-length-no-loss-checked");
                            }
                        }
                    }
                    round_log.clear();
                    round_answered.clear();
                    round_answered_resp.clear();
                    // C10: the reported path length never exceeds the highest ttl probed so far (no never-probed trailing hop)
                    if let Some(l) = pr.split('/').nth(1).and_then(|x| x.parse::<u16>().ok()) {
                        if l > u16::from(max_ttl_ever_sent) { run.fail("c10-length-beyond-probed", format!("{} (published {}, highest ttl ever probed {max_ttl_ever_sent})", ctx(), &pr[..pr.find('[').unwrap_or(6)])); }
                    }
                    // C10: the target at distance d answered the ttl = d probe in this round => the round reports path length d
                    if exact_answered_in_round {
                        let want = format!("/{}/[", path_len);
                        if !pr[1..].starts_with(&want) { run.fail("c10-path-length", format!("{} (true distance {path_len}, published {})", ctx(), &pr[..pr.find('[').unwrap_or(6)])); }
                        run.count("c10:path-length-checked");
                    }
                    exact_answered_in_round = false;
                    route_flapped_in_round = false;
                    rounds_published += 1;
                    last_length = pr.split('/').nth(1).and_then(|x| x.parse::<u16>().ok()).map(|l| (l, path_len));
                    if let Some((k, d2)) = forced_change {
                        if rounds_published == k {
                            path_len = d2;
                            mon.established = false;
                            run.count("route-change-forced");
                        }
                    }
                    if route_changes && rng.chance(1, 3) {
                        path_len = rng.range(1, u64::from(cfg.max) + 3) as u8;
                        mon.established = false;
                        run.count("route-change");
                    }
                    if clock::ns_of(st.round_start()) != now_after { run.fail("c08-next-round-start", ctx()); }
                    // C07: next round starts where this one ended or at the initial sequence
                    let end = mon.round_seqs.last().map_or(before_seq_start, |s| s + 1);
                    if st.round_sequence().0 != end && st.round_sequence().0 != cfg.initial { run.fail("c07-next-round-start", ctx()); }
                    for (i, ps) in pub_probes.borrow().iter().enumerate() { if i < 512 { stale[i] = matches!(ps, ProbeStatus::Awaited(_)); } }
                    prev_round_probes = pub_probes.borrow().iter().filter_map(|s| match s { ProbeStatus::Awaited(p) => Some(p.clone()), _ => None }).collect();
                    mon.prev_round_seqs = std::mem::take(&mut mon.round_seqs);
                    mon.round_ttls.clear();
                    mon.first_iter = true;
                    mon.last_outcome = 'o';
                    mon.target_accepted_in_round = false;
                    mon.last_accept_time = None;
                    mon.round_start = now_after;
                    mon.rounds_published += 1;
                    answered.clear();
                    run.count("rounds");
                    if let Some(m) = cfg.max_rounds { if mon.rounds_published > m { run.fail("c09-too-many-rounds", ctx()); } }
                } else if st.round().0 != before_round { run.fail("c09-round-advanced-without-publish", ctx()); }
                run.op(op, out);
            }
        }
    }
    // C10 after a forced route change: the directed plan ends with quiet, loss-free rounds on the new path, so the last
    // published round must report the target's new distance ("when the path is stable and the target answers, that
    // length equals the target's true distance")
    if let (Some((k, d2)), Some((l, d))) = (forced_change, last_length) {
        if rounds_published >= k + 3 && d == d2 && l != u16::from(d2) {
            run.fail("c10-length-after-route-change", format!("{}: the target moved to distance {d2} after round {k}; {} loss-free rounds later the published length is {l}",
                cfg.line(t0), rounds_published - k));
        }
        run.count("c10:length-after-route-change-checked");
    }
    if !accepted { run.oracle_failures.truncate(failures_before); }
    clock::disable();
}

/// C03, last sentence: the identifiers the CLI gives the tracers of one invocation are non-zero (zero
/// is accepted by every tracer) and pairwise distinct, for every process id, without overflow.
/// The real assignment (trippy-tui `app::trace_identifier`, through its verif hook) against the model.
/// The wall clock is not monotonic: implementation-only runs (the model's time only moves forward) in which
/// the clock steps backwards during some waits — between the sending of a probe and its answer, across a round
/// boundary, before the first response.  Nothing may panic or fail.
fn clock_backsteps(run: &mut Run, rng: &mut Rng, thorough: bool) {
    for case in 0..if thorough { 400 } else { 60 } {
        let mut cfg = gen_cfg(rng, thorough);
        while !cfg.builder_ok() { cfg = gen_cfg(rng, thorough); }
        cfg.max_rounds = None;
        let t0 = 5_000_000_000 + rng.below(1000) * 1000;
        clock::enable(t0);
        let real = cfg.real();
        let published = std::cell::Cell::new(0usize);
        let strategy = Strategy::new(&real, |_r: &Round<'_>| published.set(published.get() + 1));
        let mut st = VerifState::new(real);
        let mut net = ScriptNet { v6: cfg.v6, sends: VecDeque::new(), dt: 0, back: 0, recv: Recv::None, log: vec![] };
        let path_len = rng.range(1, u64::from(cfg.max) + 1) as u8;
        let mut last_pub_iter = 0usize;
        // C08 under clock steps: the timing policy, recomputed with the elapsed times the property speaks about
        // (time that has not passed — a timestamp in the future of the stepped-back clock — counts as zero)
        let (mut round_start, mut last_accept, mut target_in_round) = (t0, None::<u64>, false);
        for it in 0..200usize {
            net.sends.clear();
            net.log.clear();
            // sizes of the backward step: tiny, just over the grace period, part of the round's age (so that the round
            // is still older than min-round afterwards), more than a whole round, and now and then very large
            let age = clock::now_ns().saturating_sub(round_start);
            net.back = if rng.chance(1, 4) {
                if rng.chance(1, 20) { 3_000_000_000 } else {
                    *rng.pick(&[1u64, 1000, cfg.grace + 1, cfg.grace + 1, age / 2, age.saturating_sub(cfg.min_round + 1), age.saturating_sub(cfg.min_round + 2) / 2 + 1, cfg.max_round + 1]).max(&1)
                }
            } else { 0 };
            net.dt = *rng.pick(&[1u64, cfg.grace + 1, cfg.min_round + 1, cfg.max_round / 3 + 1, cfg.max_round + 1]);
            let aw = awaited(&st);
            let now_after = if net.back > 0 { clock::now_ns().saturating_sub(net.back) } else { clock::now_ns() + net.dt };
            let mut accepted_now = None;
            net.recv = if !aw.is_empty() && rng.chance(1, 2) {
                let p = rng.pick(&aw).clone();
                let is_t = p.ttl.0 >= path_len;
                // the answer is time-stamped by the network layer when it is read: at the clock reading after the
                // wait, or — the step falls between the read and the end of the wait — just before the step
                let recv_at = if net.back > 0 && rng.chance(1, 2) { clock::now_ns() } else { now_after };
                accepted_now = Some((recv_at, is_t));
                Recv::Resp(genuine(&cfg, &p, if is_t { cfg.target } else { 1000 + u64::from(p.ttl.0) }, is_t, recv_at, rng))
            } else { Recv::None };
            let desc = format!("{} | case {case} iteration {it}: clock {} -> {} during the wait", cfg.line(t0), clock::now_ns(),
                if net.back > 0 { format!("back by {}", net.back) } else { format!("forward by {}", net.dt) });
            crate::util::inflight(&desc);
            let before = published.get();
            let res = guarded(|| -> Result<(), Error> {
                strategy.verif_send_request(&mut net, &mut st)?;
                strategy.verif_recv_response(&mut net, &mut st)?;
                strategy.verif_update_round(&mut st);
                Ok(())
            });
            match res {
                Err(p) => { run.fail("c09-clock-backstep-panic", format!("{desc} ({p})")); break; }
                Ok(Err(e)) => { run.fail("c09-spurious-error", format!("{desc} [{e}]")); break; }
                Ok(Ok(())) => {}
            }
            if let Some((r, is_t)) = accepted_now { last_accept = Some(r); if is_t { target_in_round = true; } }
            let dur = now_after.saturating_sub(round_start);
            let grace_ok = last_accept.is_some_and(|r| now_after.saturating_sub(r) > cfg.grace);
            let should = dur > cfg.max_round || (target_in_round && dur > cfg.min_round && grace_ok);
            if should != (published.get() > before) {
                run.fail("c08-publish-condition-clock-step", format!("{desc}: round started at {round_start}, last response at {last_accept:?}, target answered {target_in_round}, now {now_after}: should publish = {should}, published = {}", published.get() > before));
                break;
            }
            if published.get() > before { last_pub_iter = it; round_start = now_after; last_accept = None; target_in_round = false; }
            run.count("c09:backstep-iterations");
        }
        let _ = last_pub_iter;
        if published.get() > 0 { run.count("c09:backstep-cases-with-rounds"); }
        clock::disable();
    }
}

fn trace_ids(run: &mut Run, rng: &mut Rng, thorough: bool) {
    let mut pids: Vec<u16> = vec![0, 1, 2, 1023, 1024, 32767, 32768, 65000, 65530, 65531, 65532, 65533, 65534];
    if thorough { pids = (0..=65534u16).collect(); } else { for _ in 0..60 { pids.push(rng.below(65535) as u16); } }
    for pid in pids {
        let n = if thorough { 6 } else { 24 };
        let mut seen: Vec<u16> = vec![];
        for i in (0..n).chain([255usize, 256, 65533, 65534]) {
            let req = format!("tid {pid} {i}");
            match crate::util::guarded(|| trippy_tui::verif::verif_trace_identifier(pid, i)) {
                Ok(id) => {
                    if id == 0 { run.fail("c03-trace-id-zero", req.clone()); }
                    if seen.contains(&id) { run.fail("c03-trace-id-duplicate", format!("{req} => {id}")); }
                    seen.push(id);
                    run.op(req, id.to_string());
                }
                Err(m) => { run.fail("c03-trace-id-panic", format!("{req} ({m})")); run.op(req, "panic".into()); }
            }
            run.count("op:tid");
        }
    }
}

pub fn run(rng: &mut Rng, thorough: bool, corpus: &[String]) -> Run {
    let mut run = Run::new();
    let _ = corpus;
    trace_ids(&mut run, rng, thorough);
    clock_backsteps(&mut run, rng, thorough);
    let cases = if thorough { 120_000 } else { 1500 };
    for i in 0..cases {
        let mut cfg = gen_cfg(rng, thorough);
        // most cases: builder-accepted configurations; a few outside (the model must agree on panics too)
        if i % 10 != 0 {
            let mut guard = 0;
            while !cfg.builder_ok() && guard < 50 { cfg = gen_cfg(rng, thorough); guard += 1; }
            if !cfg.builder_ok() { continue; }
        } else {
            if rng.chance(1, 3) { cfg.first = 0; }
            if rng.chance(1, 3) { cfg.pd = Pd::None; }
            if rng.chance(1, 3) { cfg.pd = Pd::Both(1, 2); }
            run.count("cfg:outside-builder");
        }
        let fault = i % 3 == 0;
        let iters = if thorough { rng.range(5, 400) } else { rng.range(5, 120) } as usize;
        run_case(&mut run, rng, &cfg, iters, fault, false);
    }
    // directed: TCP rounds that use the whole 512-sequence budget (capacity error, never an out-of-bounds access)
    for (i, n) in [509usize, 510, 511, 512, 513, 511, 300].iter().enumerate() {
        let mut cfg = gen_cfg(rng, thorough);
        while !cfg.builder_ok() { cfg = gen_cfg(rng, thorough); }
        cfg.proto = 't'; cfg.pd = if i % 2 == 0 { Pd::Src(5000) } else { Pd::Dest(80) }; cfg.first = 1; cfg.max = 30; cfg.inflight = 24;
        cfg.max_rounds = None; cfg.min_round = 1000; cfg.max_round = 1_000_000; cfg.grace = 10;
        cfg.initial = *rng.pick(&[33434u16, 64511, 0]);
        let mut plan = VecDeque::new();
        if i == 6 { // spread collisions: hops collide twice each
            for _ in 0..171 { plan.push_back((vec!['a', 'a', 'o'], 0)); }
        } else {
            let mut v = vec!['a'; *n]; v.push('o');
            plan.push_back((v, 0));
            plan.push_back((vec![], 0));
            plan.push_back((vec!['a', 'o'], 0));
        }
        run.count("directed:tcp-capacity");
        run_case_plan(&mut run, rng, &cfg, 200, false, false, plan);
    }
    // directed: TCP, stable path, nothing lost; the local port of the probe at distance k (k = the target's distance,
    // one before, one after) is in use once or twice: the re-issued probe keeps its TTL, and the round reports the
    // target's true distance (C09 re-issue semantics, C06 TTL order, C10 path length)
    for d in [1u8, 3, 5] {
        for at in [d.saturating_sub(1).max(1), d, d + 1] {
            for n_coll in [1usize, 2] {
                let mut cfg = gen_cfg(rng, thorough);
                while !cfg.builder_ok() { cfg = gen_cfg(rng, thorough); }
                cfg.proto = 't'; cfg.pd = if n_coll == 1 { Pd::Src(5000) } else { Pd::Dest(443) }; cfg.strat = 'c';
                cfg.first = 1; cfg.max = 12; cfg.inflight = 24; cfg.max_rounds = None;
                cfg.min_round = 1000; cfg.max_round = 1_000_000; cfg.grace = 10;
                let mut plan = VecDeque::new();
                for round in 0..2 {
                    let _ = round;
                    for ttl in 1..=d {
                        let mut v = if ttl == at { vec!['a'; n_coll] } else { vec![] };
                        v.push('o'); v.push('G');
                        plan.push_back((v, 0));
                    }
                    // (a response answers a probe sent in an earlier iteration: one more iteration for the last one)
                    plan.push_back((vec![if at == d + 1 { 'a' } else { 'o' }, 'o', 'G'].into_iter().skip(if at == d + 1 { 0 } else { 1 }).collect(), 0));
                    plan.push_back((vec!['N'], 2000));
                }
                FORCED_PATH.with(|c| c.set(Some(d)));
                run.count("directed:tcp-reissue-near-target");
                run_case_plan(&mut run, rng, &cfg, plan.len(), false, false, plan);
            }
        }
    }
    // directed: the target moves (a route change between rounds): found at distance d1 for two rounds, then at d2 —
    // further away or nearer — for five quiet rounds in which every probe is answered at once
    for (d1, d2) in [(3u8, 5u8), (3, 4), (2, 7), (5, 3), (1, 2)] {
        for proto in ['i', 'u', 't'] {
            let mut cfg = gen_cfg(rng, thorough);
            while !cfg.builder_ok() || cfg.proto != proto { cfg = gen_cfg(rng, thorough); }
            cfg.first = 1; cfg.max = 12; cfg.inflight = 24; cfg.max_rounds = None;
            // (a round in which the target is not found ends at the time limit: the closing wait exceeds it)
            cfg.min_round = 1000; cfg.max_round = 1500; cfg.grace = 10;
            let mut plan = VecDeque::new();
            for round in 0..7 {
                let d = if round < 2 { d1 } else { d2.max(d1) };
                for _ in 0..=(d + 2) {
                    plan.push_back((vec!['o', 'G'], 0));
                }
                plan.push_back((vec!['N'], 2000));
            }
            FORCED_PATH.with(|c| c.set(Some(d1)));
            FORCED_CHANGE.with(|c| c.set(Some((2, d2))));
            run.count("directed:target-moves");
            run_case_plan(&mut run, rng, &cfg, plan.len(), false, false, plan);
        }
    }
    // directed: initial sequences at and beyond the builder's limit (whatever the builder accepts is run): a round of
    // 8 silent probes, then rounds in which late answers to the previous round's probes arrive while the same slots
    // are awaited again — they must stay junk, and no sequence number may be used by two consecutive rounds
    for initial in [64511u16, 64512, 65000, 65016, 65022, 65023] {
        for proto in ['i', 'u'] {
            let mut cfg = gen_cfg(rng, thorough);
            while !cfg.builder_ok() || cfg.proto != proto { cfg = gen_cfg(rng, thorough); }
            cfg.initial = initial; cfg.first = 1; cfg.max = 8; cfg.inflight = 24; cfg.max_rounds = None;
            cfg.min_round = 0; cfg.max_round = 1000; cfg.grace = 0;
            if proto == 'u' { cfg.strat = 'c'; cfg.pd = Pd::Src(5000); }
            let mut plan = VecDeque::new();
            for _round in 0..4 {
                for _ in 0..7 { plan.push_back((vec!['P'], 0)); }
                plan.push_back((vec!['P'], 1001));
            }
            run.count("directed:initial-sequence-near-limit");
            run_case_plan(&mut run, rng, &cfg, plan.len(), false, false, plan);
        }
    }
    // directed: Dublin/IPv6 soak — one probe per round for 1100 rounds: the sequence has to restart at the
    // initial sequence every 512 numbers, or the payload length derived from it outgrows the packet buffer
    for initial in [33434u16, 0, 64511] {
        let mut cfg = gen_cfg(rng, thorough);
        while !cfg.builder_ok() { cfg = gen_cfg(rng, thorough); }
        cfg.proto = 'u'; cfg.strat = 'd'; cfg.v6 = true; cfg.pd = Pd::Src(5000); cfg.initial = initial;
        cfg.first = 1; cfg.max = 30; cfg.inflight = 24; cfg.max_rounds = None; cfg.min_round = 0; cfg.max_round = 1000; cfg.grace = 0;
        run.count("directed:dublin-v6-soak");
        run_case(&mut run, rng, &cfg, 1100, false, true);
    }
    // directed (known finding F7): TCP, initial sequence 64511, a round that uses all 512 sequence numbers:
    // the next round restarts at 64511 and reuses them
    {
        let mut cfg = gen_cfg(rng, thorough);
        while !cfg.builder_ok() { cfg = gen_cfg(rng, thorough); }
        cfg.proto = 't'; cfg.pd = Pd::Src(5000); cfg.first = 1; cfg.max = 30; cfg.inflight = 24; cfg.strat = 'c'; cfg.v6 = false;
        cfg.max_rounds = None; cfg.min_round = 0; cfg.max_round = 1000; cfg.grace = 0; cfg.initial = 64511;
        let mut plan = VecDeque::new();
        let mut v = vec!['a'; 511]; v.push('o');
        plan.push_back((v, 1001));
        plan.push_back((vec![], 0));
        plan.push_back((vec![], 1001));
        run.count("directed:tcp-wrap-reuse");
        run_case_plan(&mut run, rng, &cfg, 3, false, false, plan);
    }
    // directed: stale Awaited slots + sequence wrap-around: round 0 leaves many probes awaiting, then short
    // rounds until the sequence wraps back to the initial sequence, with junk aimed at the stale slots
    for i in 0..(if thorough { 12 } else { 3 }) {
        let mut cfg = gen_cfg(rng, thorough);
        while !cfg.builder_ok() || cfg.proto == 't' { cfg = gen_cfg(rng, thorough); }
        if i % 3 == 2 { cfg.proto = 'u'; cfg.strat = 'd'; cfg.v6 = true; cfg.pd = Pd::Src(5000); cfg.initial = 33434; }
        else { cfg.initial = *rng.pick(&[64500u16, 64511, 64400]); }
        cfg.first = 1; cfg.max = 30; cfg.inflight = 24; cfg.max_rounds = None;
        cfg.min_round = 0; cfg.max_round = 1000; cfg.grace = 0;
        // round 0: 13 probes, none answered; then rounds of 3 unanswered probes until the sequence wraps back
        // to the initial sequence; in the first round after the wrap the slots 3..12 still hold the Awaited
        // probes of round 0 under exactly the sequence numbers a forged response can name
        let mut plan = VecDeque::new();
        for _ in 0..12 { plan.push_back((vec!['N'], 0)); }
        plan.push_back((vec!['N'], 1001));
        let max_seq: u32 = if cfg.strat == 'd' && cfg.v6 { u32::from(cfg.initial) + 512 } else { 65023 };
        let mut seq = u32::from(cfg.initial) + 13;
        while seq < max_seq {
            plan.push_back((vec!['N'], 0)); plan.push_back((vec!['N'], 0)); plan.push_back((vec!['N'], 1001));
            seq += 3;
        }
        for _ in 0..10 { plan.push_back((vec!['S'], 0)); }
        let n = plan.len() + 40;
        run.count("directed:wrap-stale");
        run_case_plan(&mut run, rng, &cfg, n, false, false, plan);
    }
    // C09, bounded-exhaustive: every sequence of (send outcome, receive outcome, wait) of length 4 for small
    // configurations (thorough tier): 4 send outcomes x {no response, genuine response, fatal} x {no wait, past
    // the round limit}
    if thorough {
        for proto in ['i', 't', 'u'] {
            let send_opts: Vec<Vec<char>> = if proto == 't' { vec![vec!['o'], vec!['f'], vec!['a', 'o'], vec!['x']] } else { vec![vec!['o'], vec!['f'], vec!['a'], vec!['x']] };
            let recv_opts = ['N', 'G', 'X'];
            let dts = [0u64, 1001];
            let per = send_opts.len() * recv_opts.len() * dts.len();
            let len = 4u32;
            for code in 0..per.pow(len) {
                let mut cfg = gen_cfg(rng, false);
                cfg.proto = proto; cfg.v6 = false; cfg.strat = 'c';
                cfg.pd = match proto { 'i' => Pd::None, 't' => Pd::Src(5000), _ => Pd::Src(5000) };
                cfg.first = 1; cfg.max = 3; cfg.inflight = 24; cfg.max_rounds = Some(2);
                cfg.min_round = 0; cfg.max_round = 1000; cfg.grace = 0; cfg.initial = 33434;
                if !cfg.builder_ok() { continue; }
                let mut plan = VecDeque::new();
                let mut c = code;
                for _ in 0..len {
                    let k = c % per; c /= per;
                    let mut v = send_opts[k % send_opts.len()].clone();
                    v.push(recv_opts[(k / send_opts.len()) % recv_opts.len()]);
                    plan.push_back((v, dts[k / (send_opts.len() * recv_opts.len())]));
                }
                run.count("exhaustive:len4");
                run_case_plan(&mut run, rng, &cfg, len as usize, false, false, plan);
            }
        }
    }
    // sequence wrap-around soaks: many short rounds from boundary initial sequences
    let soaks = if thorough { 60 } else { 8 };
    for i in 0..soaks {
        let mut cfg = gen_cfg(rng, thorough);
        while !cfg.builder_ok() { cfg = gen_cfg(rng, thorough); }
        cfg.max_rounds = None;
        cfg.initial = *rng.pick(&[64511u16, 64000, 63999, 64400]);
        if i % 2 == 0 { cfg.proto = 'u'; cfg.strat = 'd'; cfg.v6 = true; cfg.pd = Pd::Src(5000); cfg.initial = 33434; }
        cfg.max_round = 1000; cfg.min_round = 0;
        run.count("soak");
        run_case(&mut run, rng, &cfg, if thorough { 3000 } else { 600 }, i % 3 == 0, true);
    }
    run
}
