//! C17 / C18: drive the REAL `TuiApp` (`trippy_tui::verif`) on a `ratatui::TestBackend`.
//!
//! Every case is a sequence of operations over one `TuiApp`:
//!
//!   * data updates of the live tracers (`Tracer::verif_apply_round`, `Tracer::clear`,
//!     `Tracer::verif_handle_error`) — the tracer thread of the real program,
//!   * one iteration of `run_app`: a frame (`verif_frame` = prologue + draw) optionally followed
//!     by a key (`verif_dispatch_key` with the default bindings).  As in `run_app` a key is always
//!     followed by a frame before the next key is read.
//!
//! Each operation runs under `guarded`.  After each operation the *index state* of the app is read
//! from the pub fields of `TuiApp` and written to `<tui>.impl`; the matching request line for the
//! Lean model (`TV.Tui.handle`) is written to `<tui>.ops`:
//!
//!   tui new <ntraces> <privacy|-> <maxaddrs|-> <declared item counts csv> <actual item counts csv>
//!           <columns> <snapshot shape>
//!   tui data <trace> <shape>          shape of live tracer <trace> after the real update
//!   tui key <command>                 one command of the binding table (or `ctrl_c`)
//!   tui frame <w> <h>
//!
//!   shape   = e<0|1>,m<max_flows>,<flow>;<flow>…     flow 0 first, then registry order
//!   flow    = <id>:<round_count>:<hops>              hops = `-` or <ttl>/<addr_count>,…
//!   columns = <char><+|->…                           `+` shown, `-` hidden, list order
//!
//! answer  = `panic` or
//!   sel=<n|-> addr=<n> flow=<n> trace=<n> tab=<n> item=<n|-> help=<b> set=<b> det=<b> fl=<b>
//!   chart=<b> map=<b> frz=<b> priv=<n|-> ma=<n|-> zoom=<n> fc=<id:count,…|-> cols=<columns>
//!   snap=<shape of the displayed snapshot> q=<0|1|2>
//!
//! Corpus lines (replayed first, one case per line): `<ntraces> <max_flows> <op>,<op>,…` with
//! op = `f<w>x<h>` | `k:<command>` | `r<trace>:<slot>.<slot>…` (slot = A | F | N | S | C<j>, ttl = position)
//! | `c<trace>` (tracer cleared) | `e<trace>` (tracer error).
//!
//! Oracles (implementation-vs-oracle, independent of the Lean model):
//!   c17-panic     any panic of a frame or key handler (op sequence shrunk by replay),
//!   c17-invalid   at a frame, a selection that does not refer to an entry of the displayed data
//!                 (computed directly from `app.selected_tracer_data`),
//!   c17-settings  `settings_tabs()` declares more items than `format_all_settings` renders,
//!   c18-leak      a frame contains marker text (address / stub hostname) of a hop with
//!                 ttl <= privacy_max_ttl, or the source address / source hostname while privacy is on,
//!   c18-missing   (directed sweep only) a visible responding hop is not shown in the wide hop table.
//!
//! Markers: hop (ttl < 100, j) answers from `1TT.2JJ.1KK.199` (IPv4) or `2001:db8:1TT:2JJ::c7` (IPv6);
//! the binary interposes `getnameinfo`, so that the System resolver of trippy-dns maps those
//! addresses to `hopTTaJJ.tvmark.test` and the source address to `srchost.tvmark.test` without any
//! network access.  AS information (needs a DNS TXT query to a real name server) and GeoIP text
//! (needs an mmdb file; none is shipped with the repository) cannot be stubbed offline: those
//! emitters are covered by the guard table (`Gen/Privacy.lean`) only.
use crate::util::{guarded, Rng, Run};
use crossterm::event::{KeyCode, KeyEvent, KeyModifiers};
use ratatui::backend::TestBackend;
use ratatui::Terminal;
use std::collections::BTreeSet;
use std::net::{IpAddr, Ipv4Addr, Ipv6Addr, SocketAddr};
use std::sync::atomic::{AtomicBool, Ordering};
use std::time::{Duration, SystemTime, UNIX_EPOCH};
use trippy_core::verif::{Checksum, IcmpPacketCode, IoError, IoOperation, ProbeFailed, Socket, SocketError};
use trippy_core::{
    Builder, CompletionReason, Extension, Extensions, Flags, FlowId, IcmpPacketType, MplsLabelStack,
    MplsLabelStackMember, MultipathStrategy, Port, PortDirection, Probe, ProbeComplete, ProbeStatus, Protocol,
    Round, RoundId, Sequence, State, TimeToLive, TraceId, Tracer, TypeOfService, UnknownExtension,
};
use trippy_dns::{DnsResolver, Resolver};
use trippy_tui::verif::{
    settings_tabs, verif_dispatch_key, verif_frame, verif_make_tui_config, verif_settings_item_counts, AddressMode,
    Bindings, ColumnStatus, GeoIpLookup, GeoIpMode, IcmpExtensionMode, TraceInfo, TrippyConfig, TuiApp, TuiColumns,
};

// ------------------------------------------------------------------------------------------
// offline hostname stub
// ------------------------------------------------------------------------------------------

pub static DNS_STUB: AtomicBool = AtomicBool::new(false);
const SRC_V4: Ipv4Addr = Ipv4Addr::new(199, 198, 197, 196);
const SRC_MARK: &str = "199.198.197";
const SRC_HOST_MARK: &str = "srchost";

fn stub_name(ip: IpAddr) -> Option<String> {
    match ip {
        IpAddr::V4(a) => {
            let o = a.octets();
            if a == SRC_V4 {
                Some(format!("{SRC_HOST_MARK}.tvmark.test"))
            } else if (100..200).contains(&o[0]) && o[1] >= 200 && o[3] == 199 {
                Some(format!("hop{:02}a{:02}.tvmark.test", o[0] - 100, o[1] - 200))
            } else {
                None
            }
        }
        IpAddr::V6(a) => {
            let s = a.segments();
            if s[0] == 0x2001 && s[1] == 0xdb8 && s[7] == 0xc7 {
                let dec = |g: u16| -> Option<u16> {
                    let t = format!("{g:x}");
                    if t.len() == 3 { t[1..].parse().ok() } else { None }
                };
                Some(format!("hop{:02}a{:02}.tvmark.test", dec(s[2])?, dec(s[3])?))
            } else {
                None
            }
        }
    }
}

/// `getnameinfo(3)` of the harness binary: while the stub is enabled, marker addresses resolve to
/// marker host names and everything else is `EAI_NONAME`; otherwise the libc implementation runs.
#[no_mangle]
pub unsafe extern "C" fn getnameinfo(
    sa: *const libc::sockaddr,
    salen: libc::socklen_t,
    host: *mut libc::c_char,
    hostlen: libc::socklen_t,
    serv: *mut libc::c_char,
    servlen: libc::socklen_t,
    flags: libc::c_int,
) -> libc::c_int {
    if !DNS_STUB.load(Ordering::SeqCst) {
        type F = unsafe extern "C" fn(
            *const libc::sockaddr,
            libc::socklen_t,
            *mut libc::c_char,
            libc::socklen_t,
            *mut libc::c_char,
            libc::socklen_t,
            libc::c_int,
        ) -> libc::c_int;
        let p = libc::dlsym(libc::RTLD_NEXT, b"getnameinfo\0".as_ptr().cast());
        if p.is_null() {
            return libc::EAI_FAIL;
        }
        let f: F = std::mem::transmute(p);
        return f(sa, salen, host, hostlen, serv, servlen, flags);
    }
    if sa.is_null() {
        return libc::EAI_FAIL;
    }
    let ip = match i32::from((*sa).sa_family) {
        libc::AF_INET => {
            let sin = &*(sa.cast::<libc::sockaddr_in>());
            IpAddr::V4(Ipv4Addr::from(u32::from_be(sin.sin_addr.s_addr)))
        }
        libc::AF_INET6 => {
            let sin6 = &*(sa.cast::<libc::sockaddr_in6>());
            IpAddr::V6(Ipv6Addr::from(sin6.sin6_addr.s6_addr))
        }
        _ => return libc::EAI_FAMILY,
    };
    if !serv.is_null() && servlen > 0 {
        *serv = 0;
    }
    match stub_name(ip) {
        Some(name) if !host.is_null() && (name.len() + 1) <= hostlen as usize => {
            std::ptr::copy_nonoverlapping(name.as_ptr().cast::<libc::c_char>(), host, name.len());
            *host.add(name.len()) = 0;
            0
        }
        _ => libc::EAI_NONAME,
    }
}

// ------------------------------------------------------------------------------------------
// a socket that cannot be created: `verif_run_with` records the source address and fails
// ------------------------------------------------------------------------------------------

struct FailSock;
fn nosock<T>() -> Result<T, IoError> {
    Err(IoError::Other(std::io::Error::from(std::io::ErrorKind::PermissionDenied), IoOperation::NewSocket))
}
#[allow(unused_variables)]
impl Socket for FailSock {
    fn new_icmp_send_socket_ipv4(raw: bool) -> Result<Self, IoError> { nosock() }
    fn new_icmp_send_socket_ipv6(raw: bool) -> Result<Self, IoError> { nosock() }
    fn new_udp_send_socket_ipv4(raw: bool) -> Result<Self, IoError> { nosock() }
    fn new_udp_send_socket_ipv6(raw: bool) -> Result<Self, IoError> { nosock() }
    fn new_recv_socket_ipv4(addr: Ipv4Addr, raw: bool) -> Result<Self, IoError> { nosock() }
    fn new_recv_socket_ipv6(addr: Ipv6Addr, raw: bool) -> Result<Self, IoError> { nosock() }
    fn new_stream_socket_ipv4() -> Result<Self, IoError> { nosock() }
    fn new_stream_socket_ipv6() -> Result<Self, IoError> { nosock() }
    fn new_udp_dgram_socket_ipv4() -> Result<Self, IoError> { nosock() }
    fn new_udp_dgram_socket_ipv6() -> Result<Self, IoError> { nosock() }
    fn bind(&mut self, address: SocketAddr) -> Result<(), IoError> { nosock() }
    fn set_tos(&mut self, tos: u32) -> Result<(), IoError> { nosock() }
    fn set_ttl(&mut self, ttl: u32) -> Result<(), IoError> { nosock() }
    fn set_reuse_port(&mut self, reuse: bool) -> Result<(), IoError> { nosock() }
    fn set_header_included(&mut self, included: bool) -> Result<(), IoError> { nosock() }
    fn set_unicast_hops_v6(&mut self, hops: u8) -> Result<(), IoError> { nosock() }
    fn connect(&mut self, address: SocketAddr) -> Result<(), IoError> { nosock() }
    fn send_to(&mut self, buf: &[u8], addr: SocketAddr) -> Result<(), IoError> { nosock() }
    fn is_readable(&mut self, timeout: Duration) -> Result<bool, IoError> { nosock() }
    fn is_writable(&mut self) -> Result<bool, IoError> { nosock() }
    fn recv_from(&mut self, buf: &mut [u8]) -> Result<(usize, Option<SocketAddr>), IoError> { nosock() }
    fn read(&mut self, buf: &mut [u8]) -> Result<usize, IoError> { nosock() }
    fn shutdown(&mut self) -> Result<(), IoError> { nosock() }
    fn peer_addr(&mut self) -> Result<Option<SocketAddr>, IoError> { nosock() }
    fn take_error(&mut self) -> Result<Option<SocketError>, IoError> { nosock() }
    fn icmp_error_info(&mut self) -> Result<IpAddr, IoError> { nosock() }
}

// ------------------------------------------------------------------------------------------
// operations (self-contained, so that a case can be replayed and shrunk)
// ------------------------------------------------------------------------------------------

#[derive(Clone, Debug, PartialEq)]
enum Slot {
    /// responded: address index j (255 = the target address), rtt in ms, NAT checksum mismatch, extension kind
    Complete { j: u8, rtt: u8, nat: bool, ext: u8 },
    Awaited,
    Failed,
    NotSent,
    Skipped,
}

#[derive(Clone, Debug, PartialEq)]
enum Op {
    Round { trace: usize, largest: u8, probes: Vec<(u8, Slot)> },
    ClearLive { trace: usize },
    Error { trace: usize },
    Key(&'static str),
    Frame(u16, u16),
}

#[derive(Clone, Debug)]
struct TraceSetup {
    v6: bool,
    max_flows: usize,
    first_ttl: u8,
    proto: u8, // 0 icmp, 1 udp/paris, 2 udp/dublin, 3 tcp
    with_source: bool,
}

#[derive(Clone, Debug)]
struct Setup {
    traces: Vec<TraceSetup>,
    privacy: Option<u8>,
    max_addrs: Option<u8>,
    columns: String,
    addr_mode: u8,
    geoip_mode: u8,
    ext_mode: u8,
    /// how long host names are cached (`--dns-ttl`): 0 = the default (the shared resolver), 1 = not at all (0 s),
    /// 2 = "for ever" (the largest duration the option accepts)
    dns_ttl: u8,
    /// the UI locale (`--tui-locale`): index into the available locales, 0 = English
    locale: u8,
}

impl Setup {
    fn describe(&self) -> String {
        let tr: Vec<String> = self
            .traces
            .iter()
            .map(|t| format!("{}{}f{}t{}p{}", if t.v6 { "v6" } else { "v4" }, if t.with_source { "s" } else { "" }, t.max_flows, t.first_ttl, t.proto))
            .collect();
        format!(
            "setup[traces={} privacy={} max_addrs={} columns={} addr_mode={} geoip={} ext={} dns_ttl={} locale={}]",
            tr.join("+"),
            opt(self.privacy),
            opt(self.max_addrs),
            self.columns,
            self.addr_mode,
            self.geoip_mode,
            self.ext_mode,
            self.dns_ttl,
            self.locale
        )
    }
}

fn opt<T: ToString>(x: Option<T>) -> String {
    x.map_or("-".to_string(), |v| v.to_string())
}

fn show_slot(s: &Slot) -> String {
    match s {
        Slot::Complete { j, rtt, nat, ext } => format!("C{j}.{rtt}.{}.{ext}", u8::from(*nat)),
        Slot::Awaited => "A".into(),
        Slot::Failed => "F".into(),
        Slot::NotSent => "N".into(),
        Slot::Skipped => "S".into(),
    }
}

fn show_op(op: &Op) -> String {
    match op {
        Op::Round { trace, largest, probes } => {
            let ps: Vec<String> = probes.iter().map(|(t, s)| format!("{t}{}", show_slot(s))).collect();
            format!("round(trace={trace},largest={largest},[{}])", ps.join(" "))
        }
        Op::ClearLive { trace } => format!("tracer_clear({trace})"),
        Op::Error { trace } => format!("tracer_error({trace})"),
        Op::Key(k) => format!("key({k})"),
        Op::Frame(w, h) => format!("frame({w}x{h})"),
    }
}

// ------------------------------------------------------------------------------------------
// addresses and markers
// ------------------------------------------------------------------------------------------

fn hop_addr(v6: bool, trace: usize, ttl: u8, j: u8) -> IpAddr {
    if j == 255 {
        return target_addr(v6, trace);
    }
    if ttl >= 100 {
        // beyond the marker range: plain addresses that are never searched for
        return if v6 {
            IpAddr::V6(Ipv6Addr::new(0xfd00, 0x50, 0, 0, 0, trace as u16, u16::from(ttl), u16::from(j)))
        } else {
            IpAddr::V4(Ipv4Addr::new(10, 50 + trace as u8, ttl, j))
        };
    }
    let t = ttl;
    let j = j % 56;
    if v6 {
        let g = |hi: u16, d: u8| hi * 0x100 + u16::from(d / 10) * 0x10 + u16::from(d % 10);
        IpAddr::V6(Ipv6Addr::new(0x2001, 0xdb8, g(1, t), g(2, j), 0, 0, trace as u16, 0xc7))
    } else {
        IpAddr::V4(Ipv4Addr::new(100 + t, 200 + j, 100 + trace as u8, 199))
    }
}

fn target_addr(v6: bool, trace: usize) -> IpAddr {
    if v6 {
        IpAddr::V6(Ipv6Addr::new(0xfd00, 0x77, 0, 0, 0, 0, 0, 1 + trace as u16))
    } else {
        IpAddr::V4(Ipv4Addr::new(10, 77, 0, 1 + trace as u8))
    }
}

/// the marker strings of hop (ttl, j): IPv4 text prefix, IPv6 text fragment, stub hostname prefix
fn markers(ttl: u8, j: u8) -> [String; 3] {
    let (t, j) = (ttl % 100, j % 56);
    [format!("1{t:02}.2{j:02}."), format!(":1{t:02}:2{j:02}:"), format!("hop{t:02}a{j:02}")]
}

/// short prefixes that still identify the ttl of a marker (text may be cut by a narrow column).  No other
/// number on the screen has this shape: the first digit of the second octet follows the `.2`, whereas
/// times and percentages are printed with a single decimal
fn short_markers(ttl: u8, j: u8) -> [String; 3] {
    let (t, d) = (ttl % 100, (j % 56) / 10);
    [format!("1{t:02}.2{d}"), format!(":1{t:02}:2{d}"), format!("hop{t:02}a")]
}

// ------------------------------------------------------------------------------------------
// the key table: one command per binding, in the order of `Bindings`, plus ctrl-c
// ------------------------------------------------------------------------------------------

pub const COMMANDS: [&str; 39] = [
    "toggle_help",
    "toggle_help_alt",
    "toggle_settings",
    "toggle_settings_tui",
    "toggle_settings_trace",
    "toggle_settings_dns",
    "toggle_settings_geoip",
    "toggle_settings_bindings",
    "toggle_settings_theme",
    "toggle_settings_columns",
    "previous_hop",
    "next_hop",
    "previous_trace",
    "next_trace",
    "previous_hop_address",
    "next_hop_address",
    "address_mode_ip",
    "address_mode_host",
    "address_mode_both",
    "toggle_freeze",
    "toggle_chart",
    "toggle_map",
    "toggle_flows",
    "expand_privacy",
    "contract_privacy",
    "expand_hosts",
    "contract_hosts",
    "expand_hosts_max",
    "contract_hosts_min",
    "chart_zoom_in",
    "chart_zoom_out",
    "clear_trace_data",
    "clear_dns_cache",
    "clear_selection",
    "toggle_as_info",
    "toggle_hop_details",
    "quit",
    "quit_preserve_screen",
    "ctrl_c",
];

fn key_event(b: &Bindings, name: &str) -> KeyEvent {
    macro_rules! k {
        ($f:ident) => {
            KeyEvent::new(b.$f.code, b.$f.modifiers)
        };
    }
    match name {
        "toggle_help" => k!(toggle_help),
        "toggle_help_alt" => k!(toggle_help_alt),
        "toggle_settings" => k!(toggle_settings),
        "toggle_settings_tui" => k!(toggle_settings_tui),
        "toggle_settings_trace" => k!(toggle_settings_trace),
        "toggle_settings_dns" => k!(toggle_settings_dns),
        "toggle_settings_geoip" => k!(toggle_settings_geoip),
        "toggle_settings_bindings" => k!(toggle_settings_bindings),
        "toggle_settings_theme" => k!(toggle_settings_theme),
        "toggle_settings_columns" => k!(toggle_settings_columns),
        "previous_hop" => k!(previous_hop),
        "next_hop" => k!(next_hop),
        "previous_trace" => k!(previous_trace),
        "next_trace" => k!(next_trace),
        "previous_hop_address" => k!(previous_hop_address),
        "next_hop_address" => k!(next_hop_address),
        "address_mode_ip" => k!(address_mode_ip),
        "address_mode_host" => k!(address_mode_host),
        "address_mode_both" => k!(address_mode_both),
        "toggle_freeze" => k!(toggle_freeze),
        "toggle_chart" => k!(toggle_chart),
        "toggle_map" => k!(toggle_map),
        "toggle_flows" => k!(toggle_flows),
        "expand_privacy" => k!(expand_privacy),
        "contract_privacy" => k!(contract_privacy),
        "expand_hosts" => k!(expand_hosts),
        "contract_hosts" => k!(contract_hosts),
        "expand_hosts_max" => k!(expand_hosts_max),
        "contract_hosts_min" => k!(contract_hosts_min),
        "chart_zoom_in" => k!(chart_zoom_in),
        "chart_zoom_out" => k!(chart_zoom_out),
        "clear_trace_data" => k!(clear_trace_data),
        "clear_dns_cache" => k!(clear_dns_cache),
        "clear_selection" => k!(clear_selection),
        "toggle_as_info" => k!(toggle_as_info),
        "toggle_hop_details" => k!(toggle_hop_details),
        "quit" => k!(quit),
        "quit_preserve_screen" => k!(quit_preserve_screen),
        _ => KeyEvent::new(KeyCode::Char('c'), KeyModifiers::CONTROL),
    }
}

// ------------------------------------------------------------------------------------------
// canonical dumps
// ------------------------------------------------------------------------------------------

fn shape_of(st: &State) -> String {
    let mut flows = vec![FlowId(0)];
    flows.extend(st.flows().iter().map(|(_, id)| *id));
    let fl: Vec<String> = flows
        .iter()
        .map(|&id| {
            let hops = st.hops_for_flow(id);
            let hs = if hops.is_empty() {
                "-".to_string()
            } else {
                hops.iter().map(|h| format!("{}/{}", h.ttl(), h.addr_count())).collect::<Vec<_>>().join(",")
            };
            format!("{}:{}:{}", id.0, st.round_count(id), hs)
        })
        .collect();
    format!("e{},m{},{}", u8::from(st.error().is_some()), st.max_flows(), fl.join(";"))
}

fn b(x: bool) -> u8 {
    u8::from(x)
}

fn show_columns(app: &TuiApp) -> String {
    app.tui_config
        .tui_columns
        .all_columns()
        .map(|c| {
            let ch: char = c.typ.into();
            format!("{ch}{}", if c.status == ColumnStatus::Shown { '+' } else { '-' })
        })
        .collect()
}

fn show_app(app: &TuiApp, quit: u8) -> String {
    let fc = if app.flow_counts.is_empty() {
        "-".to_string()
    } else {
        app.flow_counts.iter().map(|(id, c)| format!("{}:{c}", id.0)).collect::<Vec<_>>().join(",")
    };
    format!(
        "sel={} addr={} flow={} trace={} tab={} item={} help={} set={} det={} fl={} chart={} map={} frz={} priv={} ma={} zoom={} fc={} cols={} snap={} q={}",
        opt(app.table_state.selected()),
        app.selected_hop_address,
        app.selected_flow.0,
        app.trace_selected,
        app.settings_tab_selected,
        opt(app.setting_table_state.selected()),
        b(app.show_help),
        b(app.show_settings),
        b(app.show_hop_details),
        b(app.show_flows),
        b(app.show_chart),
        b(app.show_map),
        b(app.frozen_start.is_some()),
        opt(app.tui_config.privacy_max_ttl),
        opt(app.tui_config.max_addrs),
        app.zoom_factor,
        fc,
        show_columns(app),
        shape_of(&app.selected_tracer_data),
        quit
    )
}

/// the selection-validity oracle, computed directly from the displayed snapshot
fn validity(app: &TuiApp) -> Vec<String> {
    let mut bad = vec![];
    let st = &app.selected_tracer_data;
    let flow = app.selected_flow;
    let flow_ok = flow == FlowId(0) || st.flows().iter().any(|(_, id)| *id == flow);
    if !flow_ok {
        bad.push(format!("selected_flow {} not in snapshot", flow.0));
    }
    if flow_ok {
        let hops = st.hops_for_flow(flow);
        match app.table_state.selected() {
            Some(s) if s >= hops.len() => bad.push(format!("selected hop {s} >= hop count {}", hops.len())),
            Some(s) => {
                let ac = hops[s].addr_count().max(1);
                if app.selected_hop_address >= ac {
                    bad.push(format!("selected_hop_address {} >= max 1 addr_count {ac}", app.selected_hop_address));
                }
            }
            None => {
                if app.selected_hop_address != 0 {
                    bad.push(format!("selected_hop_address {} without a selected hop", app.selected_hop_address));
                }
            }
        }
    }
    for (id, _) in &app.flow_counts {
        if !st.flows().iter().any(|(_, i)| i == id) {
            bad.push(format!("flow_counts entry {} not in snapshot", id.0));
        }
    }
    if app.show_flows && !app.flow_counts.iter().any(|(id, _)| *id == flow) {
        bad.push(format!("flows shown but selected_flow {} not in flow_counts", flow.0));
    }
    if app.trace_selected >= app.trace_info.len() {
        bad.push(format!("trace_selected {} >= {}", app.trace_selected, app.trace_info.len()));
    }
    if app.settings_tab_selected >= 7 {
        bad.push(format!("settings_tab_selected {}", app.settings_tab_selected));
    } else if let Some(i) = app.setting_table_state.selected() {
        let counts = verif_settings_item_counts(app);
        if i >= counts[app.settings_tab_selected] {
            bad.push(format!("setting {i} >= item count {} of tab {}", counts[app.settings_tab_selected], app.settings_tab_selected));
        }
    }
    if app.tui_config.max_addrs == Some(0) {
        bad.push("max_addrs = Some(0)".to_string());
    }
    bad
}

// ------------------------------------------------------------------------------------------
// a live case
// ------------------------------------------------------------------------------------------

struct Ctx {
    resolver: DnsResolver,
    /// a hand-made MaxMind database: marker addresses whose first octet is odd (odd ttl) lie in the
    /// city `Zq<ttl>burg`, every other address has no record
    geoip_db: Option<std::path::PathBuf>,
}

// --- a minimal MaxMind DB writer (GeoIP2-City, IPv4, 24-bit records, a complete tree over the first octet)
fn mm_str(out: &mut Vec<u8>, s: &str) {
    out.push(0x40 | s.len() as u8);
    out.extend_from_slice(s.as_bytes());
}
fn mm_map(out: &mut Vec<u8>, entries: usize) {
    out.push(0xe0 | entries as u8);
}
fn mm_u16(out: &mut Vec<u8>, v: u16) {
    out.push(0xa0 | 2);
    out.extend_from_slice(&v.to_be_bytes());
}
fn mm_u32(out: &mut Vec<u8>, v: u32) {
    out.push(0xc0 | 4);
    out.extend_from_slice(&v.to_be_bytes());
}
fn mm_u64(out: &mut Vec<u8>, v: u64) {
    out.push(8);
    out.push(9 - 7);
    out.extend_from_slice(&v.to_be_bytes());
}
fn mm_f64(out: &mut Vec<u8>, v: f64) {
    out.push(0x60 | 8);
    out.extend_from_slice(&v.to_be_bytes());
}
fn mm_array(out: &mut Vec<u8>, entries: usize) {
    out.push(entries as u8);
    out.push(11 - 7);
}

/// the city of a marker hop with an odd ttl
fn geo_marker(ttl: u8) -> String {
    // hops 7 and 9 are in the same city, at different positions (two networks of one town)
    let t = if ttl % 100 == 9 { 7 } else { ttl % 100 };
    format!("Zq{t:02}burg")
}

/// the position of a marker hop with an odd ttl (distinctive decimals: no statistic prints three of them)
fn geo_coordinates(ttl: u8) -> (f64, f64) {
    (10.777 + f64::from(ttl) / 2.0, -60.333 + f64::from(ttl))
}

fn write_mmdb(path: &std::path::Path) -> std::io::Result<()> {
    let node_count: u32 = 255;
    // data section: one city record per odd first octet 101..=199
    let mut data: Vec<u8> = vec![];
    let mut offset_of = [None::<u32>; 256];
    for octet in (101u32..200).step_by(2) {
        offset_of[octet as usize] = Some(data.len() as u32);
        // the city has an English name only (as small towns have in GeoLite2); subdivision, country and continent are
        // the same for every record and are named in English and German
        mm_map(&mut data, 5);
        mm_str(&mut data, "city");
        mm_map(&mut data, 1);
        mm_str(&mut data, "names");
        mm_map(&mut data, 1);
        mm_str(&mut data, "en");
        mm_str(&mut data, &geo_marker((octet - 100) as u8));
        mm_str(&mut data, "continent");
        mm_map(&mut data, 1);
        mm_str(&mut data, "names");
        mm_map(&mut data, 2);
        mm_str(&mut data, "de");
        mm_str(&mut data, "Tvkontinent");
        mm_str(&mut data, "en");
        mm_str(&mut data, "Tvcontinent");
        mm_str(&mut data, "country");
        mm_map(&mut data, 2);
        mm_str(&mut data, "iso_code");
        mm_str(&mut data, "TV");
        mm_str(&mut data, "names");
        mm_map(&mut data, 2);
        mm_str(&mut data, "de");
        mm_str(&mut data, "Tvreich");
        mm_str(&mut data, "en");
        mm_str(&mut data, "Tvcountry");
        mm_str(&mut data, "location");
        mm_map(&mut data, 3);
        mm_str(&mut data, "accuracy_radius");
        mm_u16(&mut data, 50);
        mm_str(&mut data, "latitude");
        mm_f64(&mut data, geo_coordinates((octet - 100) as u8).0);
        mm_str(&mut data, "longitude");
        mm_f64(&mut data, geo_coordinates((octet - 100) as u8).1);
        mm_str(&mut data, "subdivisions");
        mm_array(&mut data, 1);
        mm_map(&mut data, 2);
        mm_str(&mut data, "iso_code");
        mm_str(&mut data, "TQ");
        mm_str(&mut data, "names");
        mm_map(&mut data, 2);
        mm_str(&mut data, "de");
        mm_str(&mut data, "Tvprovinz");
        mm_str(&mut data, "en");
        mm_str(&mut data, "Tvprovince");
    }
    let mut db: Vec<u8> = vec![];
    let rec = |v: u32| [(v >> 16) as u8, (v >> 8) as u8, v as u8];
    for i in 0..node_count {
        for child in [2 * i + 1, 2 * i + 2] {
            let v = if child < node_count {
                child
            } else {
                // a leaf: the first octet of the address
                match offset_of[(child - node_count) as usize] {
                    Some(off) => node_count + 16 + off,
                    None => node_count,
                }
            };
            db.extend_from_slice(&rec(v));
        }
    }
    db.extend_from_slice(&[0; 16]);
    db.extend_from_slice(&data);
    db.extend_from_slice(b"\xab\xcd\xefMaxMind.com");
    mm_map(&mut db, 9);
    mm_str(&mut db, "binary_format_major_version");
    mm_u16(&mut db, 2);
    mm_str(&mut db, "binary_format_minor_version");
    mm_u16(&mut db, 0);
    mm_str(&mut db, "build_epoch");
    mm_u64(&mut db, 1_700_000_000);
    mm_str(&mut db, "database_type");
    mm_str(&mut db, "GeoIP2-City");
    mm_str(&mut db, "description");
    mm_map(&mut db, 1);
    mm_str(&mut db, "en");
    mm_str(&mut db, "tvh marker database");
    mm_str(&mut db, "ip_version");
    mm_u16(&mut db, 4);
    mm_str(&mut db, "languages");
    mm_array(&mut db, 1);
    mm_str(&mut db, "en");
    mm_str(&mut db, "node_count");
    mm_u32(&mut db, node_count);
    mm_str(&mut db, "record_size");
    mm_u16(&mut db, 24);
    std::fs::write(path, db)
}

struct Live {
    app: TuiApp,
    setup: Setup,
    rounds: Vec<usize>,
    seq: u16,
    /// (ttl, j) of every marker address ever injected
    marks: BTreeSet<(u8, u8)>,
}

fn build_tracer(ts: &TraceSetup, trace: usize) -> Tracer {
    let b = Builder::new(target_addr(ts.v6, trace))
        .max_flows(ts.max_flows)
        .max_samples(16)
        .first_ttl(ts.first_ttl)
        .trace_identifier(4000 + trace as u16);
    let b = match ts.proto {
        1 => b.protocol(Protocol::Udp).multipath_strategy(MultipathStrategy::Paris).port_direction(PortDirection::FixedSrc(Port(5000))),
        2 => b.protocol(Protocol::Udp).multipath_strategy(MultipathStrategy::Dublin).port_direction(PortDirection::FixedBoth(Port(5000), Port(33434))),
        3 => b.protocol(Protocol::Tcp).port_direction(PortDirection::FixedDest(Port(80))),
        _ => b,
    };
    let tracer = b.build().expect("tracer config");
    if ts.with_source && !ts.v6 {
        // records the source address exactly as `run_internal` does, then fails to open a socket
        let _ = tracer.verif_run_with::<FailSock, _>(IpAddr::V4(SRC_V4), |_| {});
        tracer.clear();
    }
    tracer
}

fn new_live(ctx: &Ctx, setup: &Setup) -> Live {
    // the two options under test travel the application's own way: command line -> build_config -> TrippyConfig
    // -> make_tui_config (a value lost or altered anywhere on that way shows against the configured one)
    let mut args = crate::config::base_args();
    args.tui_privacy_max_ttl = setup.privacy;
    args.tui_max_addrs = setup.max_addrs;
    let built = trippy_tui::verif::verif_build_config(args, crate::config::Sections::new().into_file(true), &crate::config::privilege(), crate::config::PID)
        .expect("build_config accepts the base arguments");
    let cfg = TrippyConfig {
        tui_privacy_max_ttl: built.tui_privacy_max_ttl,
        tui_max_addrs: built.tui_max_addrs,
        tui_custom_columns: TuiColumns::try_from(setup.columns.as_str()).expect("columns"),
        tui_address_mode: [AddressMode::Ip, AddressMode::Host, AddressMode::Both][usize::from(setup.addr_mode % 3)],
        tui_geoip_mode: [GeoIpMode::Off, GeoIpMode::Short, GeoIpMode::Long, GeoIpMode::Location][usize::from(setup.geoip_mode % 4)],
        tui_icmp_extension_mode: [IcmpExtensionMode::Off, IcmpExtensionMode::Mpls, IcmpExtensionMode::Full, IcmpExtensionMode::All]
            [usize::from(setup.ext_mode % 4)],
        geoip_mmdb_file: if setup.geoip_mode >= 4 { ctx.geoip_db.as_ref().map(|p| p.to_string_lossy().to_string()) } else { None },
        ..TrippyConfig::default()
    };
    // the UI locale, set the way the application sets it (all texts, widths of wide characters included, follow it)
    let locales = trippy_tui::verif::available_locales();
    let locale = if setup.locale == 0 || locales.is_empty() { "en".to_string() } else { locales[usize::from(setup.locale) % locales.len()].to_string() };
    let locale = trippy_tui::verif::set_locale(Some(&locale));
    let tui_config = verif_make_tui_config(&cfg, locale);
    let traces: Vec<TraceInfo> = setup
        .traces
        .iter()
        .enumerate()
        .map(|(i, ts)| TraceInfo::new(build_tracer(ts, i), target_addr(ts.v6, i).to_string()))
        .collect();
    // `geoip_mode >= 4`: the same display mode with the marker database loaded
    let geoip = match (&ctx.geoip_db, setup.geoip_mode >= 4) {
        // `geoip_mode >= 8`: the database read under a locale in which the cities have no name (fallback to English)
        (Some(p), true) => GeoIpLookup::from_file(p, if setup.geoip_mode >= 8 { "de" } else { "en" }.to_string()).unwrap_or_else(|_| GeoIpLookup::empty()),
        _ => GeoIpLookup::empty(),
    };
    // the resolver as `start_dns_resolver` makes it, with the cache lifetime the set-up asks for
    let resolver = match setup.dns_ttl {
        0 => ctx.resolver.clone(),
        k => DnsResolver::start(trippy_dns::Config::new(
            trippy_dns::ResolveMethod::System,
            trippy_dns::IpAddrFamily::Ipv4thenIpv6,
            Duration::from_millis(200),
            if k == 1 { Duration::ZERO } else { Duration::from_secs(u64::MAX) },
        ))
        .unwrap_or_else(|_| ctx.resolver.clone()),
    };
    let app = TuiApp::new(tui_config, resolver, geoip, traces);
    Live { app, setup: setup.clone(), rounds: vec![0; setup.traces.len()], seq: 33000, marks: BTreeSet::new() }
}

impl Live {
    fn apply_round(&mut self, trace: usize, largest: u8, probes: &[(u8, Slot)]) {
        let ts = self.setup.traces[trace].clone();
        let round = self.rounds[trace];
        self.rounds[trace] += 1;
        let base = UNIX_EPOCH + Duration::from_secs(1_700_000_000 + round as u64);
        let mut out: Vec<ProbeStatus> = vec![];
        for (i, (ttl, slot)) in probes.iter().enumerate() {
            self.seq = if self.seq > 60000 { 33000 } else { self.seq + 1 };
            let sent: SystemTime = base + Duration::from_millis(i as u64);
            let p = Probe {
                sequence: Sequence(self.seq),
                identifier: TraceId(4000 + trace as u16),
                src_port: Port(5000),
                dest_port: Port(33434 + u16::from(*ttl)),
                ttl: TimeToLive(*ttl),
                round: RoundId(round),
                sent,
                flags: Flags::empty(),
            };
            out.push(match slot {
                Slot::NotSent => ProbeStatus::NotSent,
                Slot::Skipped => ProbeStatus::Skipped,
                Slot::Awaited => ProbeStatus::Awaited(p),
                Slot::Failed => ProbeStatus::Failed(ProbeFailed {
                    sequence: p.sequence,
                    identifier: p.identifier,
                    src_port: p.src_port,
                    dest_port: p.dest_port,
                    ttl: p.ttl,
                    round: p.round,
                    sent: p.sent,
                }),
                Slot::Complete { j, rtt, nat, ext } => {
                    if *j != 255 && *ttl < 100 {
                        self.marks.insert((*ttl, *j % 56));
                    }
                    let extensions = match ext {
                        1 => Some(Extensions {
                            extensions: vec![Extension::Mpls(MplsLabelStack {
                                members: vec![MplsLabelStackMember { label: 48000 + u32::from(*ttl), exp: 0, bos: 1, ttl: 1 }],
                            })],
                        }),
                        2 => Some(Extensions {
                            extensions: vec![Extension::Unknown(UnknownExtension { class_num: 2, class_subtype: 1, bytes: vec![0xb, 0xc8] })],
                        }),
                        3 => Some(Extensions { extensions: vec![] }),
                        _ => None,
                    };
                    ProbeStatus::Complete(ProbeComplete {
                        sequence: p.sequence,
                        identifier: p.identifier,
                        src_port: p.src_port,
                        dest_port: p.dest_port,
                        ttl: p.ttl,
                        round: p.round,
                        sent: p.sent,
                        host: hop_addr(ts.v6, trace, *ttl, *j),
                        received: sent + Duration::from_millis(u64::from(*rtt % 90) + 1),
                        icmp_packet_type: if *j == 255 {
                            IcmpPacketType::EchoReply(IcmpPacketCode(0))
                        } else {
                            IcmpPacketType::TimeExceeded(IcmpPacketCode(0))
                        },
                        tos: if *rtt % 3 == 0 { None } else { Some(TypeOfService(*rtt)) },
                        expected_udp_checksum: if ts.proto == 1 || ts.proto == 2 { Some(Checksum(0x1234)) } else { None },
                        actual_udp_checksum: if ts.proto == 1 || ts.proto == 2 { Some(Checksum(if *nat { 0xbeef } else { 0x1234 })) } else { None },
                        extensions,
                    })
                }
            });
        }
        let reason = if probes.iter().any(|(_, s)| matches!(s, Slot::Complete { j: 255, .. })) {
            CompletionReason::TargetFound
        } else {
            CompletionReason::RoundTimeLimitExceeded
        };
        self.app.trace_info[trace].data.verif_apply_round(&Round::new(&out, TimeToLive(largest), reason));
    }

    /// run one operation on the real code; `Err` = panic (location + message)
    fn exec(&mut self, op: &Op) -> Result<u8, String> {
        match op {
            Op::Round { trace, largest, probes } => {
                let (t, l, p) = (*trace, *largest, probes.clone());
                guarded(|| {
                    self.apply_round(t, l, &p);
                    0
                })
            }
            Op::ClearLive { trace } => guarded(|| {
                self.app.trace_info[*trace].data.clear();
                0
            }),
            Op::Error { trace } => guarded(|| {
                let _ = self.app.trace_info[*trace].data.verif_handle_error(trippy_core::Error::Other("simulated failure".to_string()));
                0
            }),
            Op::Key(name) => {
                let ev = key_event(&self.app.tui_config.bindings, name);
                let app = &mut self.app;
                guarded(|| match verif_dispatch_key(app, ev) {
                    None => 0,
                    Some(false) => 1,
                    Some(true) => 2,
                })
            }
            Op::Frame(w, h) => {
                let app = &mut self.app;
                let (w, h) = (*w, *h);
                guarded(|| {
                    let mut term = Terminal::new(TestBackend::new(w, h)).expect("terminal");
                    verif_frame(&mut term, app).expect("draw");
                    0
                })
            }
        }
    }

    /// draw a frame and return the screen rows
    fn frame_rows(&mut self, w: u16, h: u16) -> Result<Vec<String>, String> {
        let app = &mut self.app;
        guarded(|| {
            let mut term = Terminal::new(TestBackend::new(w, h)).expect("terminal");
            verif_frame(&mut term, app).expect("draw");
            screen_rows(&term)
        })
    }

    fn request(&self, op: &Op) -> String {
        match op {
            Op::Round { trace, .. } | Op::ClearLive { trace } | Op::Error { trace } => {
                format!("tui data {trace} {}", shape_of(&self.app.trace_info[*trace].data.snapshot()))
            }
            Op::Key(k) => format!("tui key {k}"),
            Op::Frame(w, h) => format!("tui frame {w} {h}"),
        }
    }

    fn new_request(&self) -> String {
        let declared: Vec<String> = settings_tabs().iter().map(|(_, n)| n.to_string()).collect();
        let actual: Vec<String> = verif_settings_item_counts(&self.app).iter().map(ToString::to_string).collect();
        format!(
            "tui new {} {} {} {} {} {} {}",
            self.app.trace_info.len(),
            // what was *configured* (the application's `TrippyConfig`), not what the frontend ended up with: the model
            // starts from the configuration, so a value lost or swapped on the way to `TuiConfig` shows as a difference
            opt(self.setup.privacy),
            opt(self.setup.max_addrs),
            declared.join(","),
            actual.join(","),
            show_columns(&self.app),
            shape_of(&self.app.selected_tracer_data)
        )
    }

    /// markers that must not be on screen under the current privacy setting
    fn hidden_markers(&self) -> Vec<String> {
        let mut v = vec![];
        if let Some(n) = self.app.tui_config.privacy_max_ttl {
            v.push(SRC_MARK.to_string());
            v.push(SRC_HOST_MARK.to_string());
            let keys: BTreeSet<(u8, u8)> = self.marks.iter().filter(|&&(t, _)| t <= n).map(|&(t, j)| (t, j / 10 * 10)).collect();
            for (t, j) in keys {
                v.extend(short_markers(t, j));
            }
            // the city of a hidden hop (only marker hops with an odd ttl have one)
            if self.setup.geoip_mode >= 4 {
                for &(t, _) in self.marks.iter().filter(|&&(t, _)| t <= n && t % 2 == 1 && t < 100) {
                    // its city, unless a hop that is shown is in the same city
                    if !self.marks.iter().any(|&(u, _)| u > n && u % 2 == 1 && u < 100 && geo_marker(u) == geo_marker(t)) {
                        v.push(geo_marker(t));
                    }
                    // and its position (the map's info panel, the location display mode)
                    let (lat, long) = geo_coordinates(t);
                    v.push(lat.to_string());
                    v.push(long.to_string());
                }
            }
            v.sort();
            v.dedup();
        }
        v
    }

    /// resolve every marker address through the (stubbed) resolver so that hostnames are cached
    fn warm_dns(&self) {
        let mut addrs: Vec<IpAddr> = vec![IpAddr::V4(SRC_V4)];
        for (k, ts) in self.setup.traces.iter().enumerate() {
            for &(t, j) in &self.marks {
                addrs.push(hop_addr(ts.v6, k, t, j));
            }
        }
        for _ in 0..200 {
            let pending = addrs
                .iter()
                .filter(|a| {
                    matches!(
                        self.app.resolver.lazy_reverse_lookup(**a),
                        trippy_dns::DnsEntry::Pending(_) | trippy_dns::DnsEntry::Timeout(_)
                    )
                })
                .count();
            if pending == 0 {
                break;
            }
            std::thread::sleep(Duration::from_millis(2));
        }
    }
}

fn screen_rows(term: &Terminal<TestBackend>) -> Vec<String> {
    let buf = term.backend().buffer();
    let w = buf.area.width as usize;
    if w == 0 {
        return vec![];
    }
    buf.content.chunks(w).map(|row| row.iter().map(ratatui::buffer::Cell::symbol).collect::<String>()).collect()
}

fn find_leaks(rows: &[String], hidden: &[String]) -> Vec<String> {
    let mut out = vec![];
    for m in hidden {
        for (y, r) in rows.iter().enumerate() {
            if r.contains(m.as_str()) {
                out.push(format!("`{m}` in row {y}: `{}`", r.trim()));
                break;
            }
        }
    }
    out
}

// ------------------------------------------------------------------------------------------
// replay + shrink
// ------------------------------------------------------------------------------------------

/// location part (`file:line`) of a `guarded` panic description
fn panic_site(p: &str) -> String {
    p.split(' ').next().unwrap_or("").to_string()
}

/// replay `ops` on a fresh app; returns the panic (if any) of the last executed op
fn replay(ctx: &Ctx, setup: &Setup, ops: &[Op]) -> Option<String> {
    let mut live = new_live(ctx, setup);
    for op in ops {
        if let Err(p) = live.exec(op) {
            return Some(p);
        }
    }
    None
}

/// greedy removal preserving "the last op panics at the same site" and the `run_app` grammar
/// (a key is always preceded by a frame): a data op, a key, a frame that is not followed by a key,
/// or a frame together with its key is removed at a time.
fn shrink(ctx: &Ctx, setup: &Setup, ops: &[Op], site: &str) -> Vec<Op> {
    let mut cur: Vec<Op> = ops.to_vec();
    let mut progress = true;
    let mut budget = 600usize;
    while progress && budget > 0 {
        progress = false;
        let mut i = 0;
        while i + 1 < cur.len() && budget > 0 {
            budget -= 1;
            let mut cand = cur.clone();
            let frame_then_key = matches!(cur[i], Op::Frame(..)) && matches!(cur.get(i + 1), Some(Op::Key(_)));
            if frame_then_key {
                if i + 2 >= cur.len() {
                    break;
                }
                cand.drain(i..i + 2);
            } else {
                cand.remove(i);
            }
            match replay(ctx, setup, &cand) {
                Some(p) if panic_site(&p) == site => {
                    // the panic may now happen earlier: cut after the panicking op
                    cur = cut_at_panic(ctx, setup, &cand);
                    progress = true;
                }
                _ => i += 1,
            }
        }
    }
    cur
}

fn cut_at_panic(ctx: &Ctx, setup: &Setup, ops: &[Op]) -> Vec<Op> {
    let mut live = new_live(ctx, setup);
    for (i, op) in ops.iter().enumerate() {
        if live.exec(op).is_err() {
            return ops[..=i].to_vec();
        }
    }
    ops.to_vec()
}

/// simplify the setup where the panic survives (fewer traces are not attempted: indices would shift)
fn shrink_setup(ctx: &Ctx, setup: &Setup, ops: &[Op], site: &str) -> Setup {
    let mut cur = setup.clone();
    let tries: Vec<Box<dyn Fn(&mut Setup)>> = vec![
        Box::new(|s| s.privacy = None),
        Box::new(|s| s.max_addrs = None),
        Box::new(|s| s.columns = "holsravbwdt".to_string()),
        Box::new(|s| s.addr_mode = 0),
        Box::new(|s| s.geoip_mode = 0),
        Box::new(|s| s.ext_mode = 0),
        Box::new(|s| s.dns_ttl = 0),
        Box::new(|s| s.locale = 0),
        Box::new(|s| s.traces.iter_mut().for_each(|t| t.proto = 0)),
        Box::new(|s| s.traces.iter_mut().for_each(|t| t.with_source = false)),
        Box::new(|s| s.traces.iter_mut().for_each(|t| t.v6 = false)),
    ];
    for f in &tries {
        let mut cand = cur.clone();
        f(&mut cand);
        if let Some(p) = replay(ctx, &cand, ops) {
            if panic_site(&p) == site {
                cur = cand;
            }
        }
    }
    cur
}

// ------------------------------------------------------------------------------------------
// generators
// ------------------------------------------------------------------------------------------

const SIZES: [(u16, u16); 5] = [(1, 1), (5, 3), (20, 10), (80, 24), (300, 100)];
const COLUMN_SETS: [&str; 5] = ["holsravbwdt", "HOLSRAVBWDTJGXISPQTCNFFBDKM", "o", "h", "holsravbwdtjgxiSPQTCNfFBDKM"];

struct Net {
    first: u8,
    len: u8,
    max_len: u8,
    /// number of alternative addresses per ttl (index = ttl)
    alts: Vec<u8>,
    silent: Vec<bool>,
    target_answers: bool,
}

fn gen_setup(rng: &mut Rng) -> Setup {
    let ntraces = if rng.chance(7, 10) { 1 } else { rng.range(2, 3) as usize };
    let traces = (0..ntraces)
        .map(|_| TraceSetup {
            v6: rng.chance(1, 6),
            max_flows: *rng.pick(&[1usize, 2, 3, 64, 64]),
            first_ttl: if rng.chance(1, 6) { rng.range(2, 4) as u8 } else { 1 },
            proto: rng.below(4) as u8,
            with_source: rng.chance(2, 3),
        })
        .collect();
    let all_cols: Vec<&str> = COLUMN_SETS.iter().copied().filter(|c| TuiColumns::try_from(*c).is_ok_and(|t| t.find_duplicates().is_empty())).collect();
    Setup {
        traces,
        privacy: if rng.chance(1, 4) { Some(rng.below(6) as u8) } else { None },
        max_addrs: if rng.chance(1, 4) { Some(rng.range(1, 4) as u8) } else { None },
        columns: (*rng.pick(&all_cols)).to_string(),
        addr_mode: rng.below(3) as u8,
        geoip_mode: rng.below(12) as u8,
        ext_mode: rng.below(4) as u8,
        dns_ttl: if rng.chance(1, 12) { 1 + rng.below(2) as u8 } else { 0 },
        locale: if rng.chance(1, 3) { rng.below(16) as u8 } else { 0 },
    }
}

fn gen_net(rng: &mut Rng, ts: &TraceSetup) -> Net {
    let max_len = ts.first_ttl + rng.range(0, 11) as u8;
    let len = if rng.chance(1, 2) { max_len } else { rng.range(u64::from(ts.first_ttl), u64::from(max_len)) as u8 };
    let multi = rng.chance(2, 3);
    let alts = (0..=max_len + 1).map(|_| if multi && rng.chance(1, 3) { rng.range(2, 3) as u8 } else { 1 }).collect();
    let silent = (0..=max_len + 1).map(|_| rng.chance(1, 8)).collect();
    Net { first: ts.first_ttl, len, max_len, alts, silent, target_answers: rng.chance(1, 2) }
}

fn gen_round(rng: &mut Rng, trace: usize, net: &mut Net) -> Op {
    if net.len < net.max_len && rng.chance(1, 3) {
        net.len = (net.len + rng.range(1, 2) as u8).min(net.max_len);
    }
    let largest = if rng.chance(1, 8) { rng.range(u64::from(net.first), u64::from(net.len)) as u8 } else { net.len };
    let key = rng.below(6) as u8;
    let mode = rng.below(20); // 0: every probe awaited, 1: with failures
    let mut probes = vec![];
    for ttl in net.first..=largest {
        let i = usize::from(ttl);
        let slot = if mode == 0 || net.silent[i] {
            Slot::Awaited
        } else if ttl == net.len && net.len == net.max_len && net.target_answers {
            Slot::Complete { j: 255, rtt: rng.below(90) as u8, nat: false, ext: 0 }
        } else if rng.chance(1, 8) {
            Slot::Awaited
        } else if mode == 1 && rng.chance(1, 4) {
            Slot::Failed
        } else if rng.chance(1, 60) {
            Slot::NotSent
        } else {
            Slot::Complete { j: key % net.alts[i], rtt: rng.below(90) as u8, nat: rng.chance(1, 12), ext: if rng.chance(1, 5) { rng.range(1, 3) as u8 } else { 0 } }
        };
        probes.push((ttl, slot));
    }
    // a round in which nothing answered: the tracer reports path length 0 unless it remembers the target's
    // distance (`publish_trace`)
    let largest = if mode == 0 && rng.chance(1, 2) { 0 } else { largest };
    Op::Round { trace, largest, probes }
}

const NAV_KEYS: [&str; 16] = [
    "next_hop",
    "previous_hop",
    "next_hop",
    "previous_hop",
    "next_trace",
    "previous_trace",
    "next_hop_address",
    "previous_hop_address",
    "toggle_flows",
    "toggle_flows",
    "toggle_freeze",
    "clear_trace_data",
    "toggle_hop_details",
    "expand_hosts_max",
    "clear_selection",
    "toggle_chart",
];

fn gen_key(rng: &mut Rng) -> &'static str {
    if rng.chance(1, 2) {
        NAV_KEYS[rng.below(NAV_KEYS.len() as u64) as usize]
    } else {
        // quitting is legal but ends nothing here: keep it rare
        let k = COMMANDS[rng.below(COMMANDS.len() as u64) as usize];
        if matches!(k, "quit" | "quit_preserve_screen" | "ctrl_c") && !rng.chance(1, 10) { "next_hop" } else { k }
    }
}

// ------------------------------------------------------------------------------------------
// running a case
// ------------------------------------------------------------------------------------------

/// C17 under a wall clock that steps backwards (implementation only: the model has no clock): the display is
/// frozen, then the clock is set back below the instant of freezing, and frames are drawn in every view — the
/// "frozen for n s" arithmetic must not panic.
fn clock_step_frames(run: &mut Run, ctx: &Ctx) {
    use Op::Key as K;
    let mut live = new_live(ctx, &simple_setup(1, 64));
    let _ = live.exec(&path(0, &[c(0), c(0), c(0)]));
    crate::clock::enable(50_000_000_000);
    let mut ops = vec![K("toggle_freeze"), Op::Frame(120, 40)];
    for back in [1u64, 1_000_000_000, 49_000_000_000] {
        ops.push(Op::Frame(120, 40));
        let _ = back;
    }
    let mut step = 0;
    for (i, op) in ops.iter().enumerate() {
        if i >= 2 {
            step += 1;
            crate::clock::set(50_000_000_000u64.saturating_sub([1u64, 1_000_000_000, 49_000_000_000][step - 1]));
        }
        let r = if let Op::Frame(w, h) = op { live.frame_rows(*w, *h).map(|_| 0) } else { live.exec(op) };
        if let Err(p) = r {
            run.fail("c17-panic", format!("frozen display, wall clock set back by {} ns below the instant of freezing: {} ({p})", if step == 0 { 0 } else { [1u64, 1_000_000_000, 49_000_000_000][step - 1] }, show_op(op)));
            break;
        }
        run.count("c17:clock-step-frames");
    }
    crate::clock::disable();
}

struct Tally {
    sites: std::collections::BTreeMap<String, u32>,
}

/// Execute `ops` on a fresh app, emitting request/answer lines and applying the oracles.
fn run_case(run: &mut Run, ctx: &Ctx, tally: &mut Tally, setup: &Setup, ops: &[Op], label: &str) {
    let mut live = new_live(ctx, setup);
    // C18: a privacy TTL configured at start-up (command line / file) is in force from the first frame
    if live.app.tui_config.privacy_max_ttl != live.setup.privacy {
        run.fail("c18-configured-privacy-not-in-force", format!("{}: tui-privacy-max-ttl {:?} was configured, the frontend runs with {:?} (tui-max-addrs configured {:?}, in force {:?})",
            live.new_request(), live.setup.privacy, live.app.tui_config.privacy_max_ttl, live.setup.max_addrs, live.app.tui_config.max_addrs));
    } else if live.app.tui_config.max_addrs != live.setup.max_addrs {
        run.fail("c16-tui-option-lost", format!("{}: tui-max-addrs {:?} was configured, the frontend runs with {:?}", live.new_request(), live.setup.max_addrs, live.app.tui_config.max_addrs));
    }
    run.op(live.new_request(), show_app(&live.app, 0));
    for k in 0..setup.traces.len() {
        run.op(format!("tui data {k} {}", shape_of(&live.app.trace_info[k].data.snapshot())), show_app(&live.app, 0));
    }
    let counts = verif_settings_item_counts(&live.app);
    for (i, (_, n)) in settings_tabs().iter().enumerate() {
        if i != 6 && *n > counts[i] {
            run.fail("c17-settings", format!("tab {i}: settings_tabs() declares {n} items, {} rendered", counts[i]));
        }
    }
    run.count("cases");
    let mut invalid_reported = false;
    for (i, op) in ops.iter().enumerate() {
        let res = if let Op::Frame(w, h) = op {
            // frame: also scan the screen
            match live.frame_rows(*w, *h) {
                Ok(rows) => {
                    if rows.iter().any(|r| r.contains("Zq") && r.contains("burg")) { run.count("frames:geoip-city-shown"); }
                    if rows.iter().any(|r| r.contains("No GeoIp data")) { run.count("frames:geoip-no-data-shown"); }
                    let leaks = find_leaks(&rows, &live.hidden_markers());
                    if !leaks.is_empty() {
                        run.fail(
                            "c18-leak",
                            format!("{label} {} ops: {} :: {}", setup.describe(), ops[..=i].iter().map(show_op).collect::<Vec<_>>().join(" | "), leaks.join("; ")),
                        );
                    }
                    Ok(0)
                }
                Err(p) => Err(p),
            }
        } else {
            live.exec(op)
        };
        run.count(match op {
            Op::Round { .. } => "op:round",
            Op::ClearLive { .. } => "op:tracer_clear",
            Op::Error { .. } => "op:tracer_error",
            Op::Key(_) => "op:key",
            Op::Frame(..) => "op:frame",
        });
        match res {
            Ok(q) => {
                run.op(live.request(op), show_app(&live.app, q));
                if matches!(op, Op::Frame(..)) {
                    let bad = validity(&live.app);
                    if !bad.is_empty() && !invalid_reported {
                        invalid_reported = true;
                        run.fail(
                            "c17-invalid",
                            format!("{label} {} ops: {} :: {}", setup.describe(), ops[..=i].iter().map(show_op).collect::<Vec<_>>().join(" | "), bad.join("; ")),
                        );
                    }
                }
            }
            Err(p) => {
                // the request line needs the live shape for data ops; after a panic in a data op the
                // tracer state is unspecified, so such a panic (aggregator, not TUI) ends the case silently
                if matches!(op, Op::Key(_) | Op::Frame(..)) {
                    run.op(live.request(op), "panic".to_string());
                    let site = panic_site(&p);
                    let seen = tally.sites.entry(site.clone()).or_insert(0);
                    *seen += 1;
                    run.count(&format!("panic:{site}"));
                    let (s_setup, s_ops) = if *seen <= 3 {
                        let o = shrink(ctx, setup, &ops[..=i], &site);
                        let s = shrink_setup(ctx, setup, &o, &site);
                        (s, o)
                    } else {
                        (setup.clone(), ops[..=i].to_vec())
                    };
                    run.fail(
                        "c17-panic",
                        format!("{p} :: {label} {} ops: {}", s_setup.describe(), s_ops.iter().map(show_op).collect::<Vec<_>>().join(" | ")),
                    );
                } else {
                    run.count("data-op-panic");
                    run.fail("c17-data-panic", format!("{p} :: {label} {}", show_op(op)));
                }
                return;
            }
        }
    }
}

fn gen_case(rng: &mut Rng, thorough: bool) -> (Setup, Vec<Op>) {
    let setup = gen_setup(rng);
    let mut nets: Vec<Net> = setup.traces.iter().map(|t| gen_net(rng, t)).collect();
    let n = if thorough { rng.range(40, 160) } else { rng.range(20, 80) } as usize;
    let mut ops = vec![];
    let mut shown = 0usize; // trace the app is (probably) showing: updates there are more interesting
    while ops.len() < n {
        let r = rng.below(100);
        if r < 30 {
            let t = if rng.chance(3, 4) { shown.min(nets.len() - 1) } else { rng.below(nets.len() as u64) as usize };
            ops.push(gen_round(rng, t, &mut nets[t]));
        } else if r < 32 {
            ops.push(Op::ClearLive { trace: rng.below(nets.len() as u64) as usize });
        } else if r < 33 {
            ops.push(Op::Error { trace: rng.below(nets.len() as u64) as usize });
        } else {
            // one iteration of run_app: frame, then maybe a key
            let (w, h) = if rng.chance(1, 2) { (80, 24) } else { *rng.pick(&SIZES) };
            ops.push(Op::Frame(w, h));
            if rng.chance(4, 5) {
                let k = gen_key(rng);
                if k == "next_trace" { shown += 1; }
                if k == "previous_trace" { shown = shown.saturating_sub(1); }
                ops.push(Op::Key(k));
            }
        }
    }
    ops.push(Op::Frame(80, 24));
    (setup, ops)
}

// ------------------------------------------------------------------------------------------
// directed scenarios (the F11 family and friends); each must end in a frame
// ------------------------------------------------------------------------------------------

fn simple_setup(ntraces: usize, max_flows: usize) -> Setup {
    Setup {
        traces: (0..ntraces).map(|_| TraceSetup { v6: false, max_flows, first_ttl: 1, proto: 0, with_source: true }).collect(),
        privacy: None,
        max_addrs: None,
        columns: "holsravbwdt".to_string(),
        addr_mode: 0,
        geoip_mode: 0,
        ext_mode: 0,
        dns_ttl: 0,
        locale: 0,
    }
}

fn c(j: u8) -> Slot {
    Slot::Complete { j, rtt: 10, nat: false, ext: 0 }
}

fn path(trace: usize, slots: &[Slot]) -> Op {
    Op::Round { trace, largest: slots.len() as u8, probes: slots.iter().enumerate().map(|(i, s)| (i as u8 + 1, s.clone())).collect() }
}

fn f() -> Op {
    Op::Frame(80, 24)
}

fn directed() -> Vec<(&'static str, Setup, Vec<Op>)> {
    use Op::Key as K;
    let geo = |privacy: Option<u8>, mode: u8| Setup { privacy, geoip_mode: 4 + mode, ..simple_setup(1, 64) };
    let walk = |n: usize| -> Vec<Op> {
        // the map and every other view, hop by hop (the info panel shows the selected hop, else the target)
        let mut v = vec![path(0, &[c(0), c(1), c(0), c(2), c(0)]), path(0, &[c(0), c(1), c(0), c(2), c(0)]), Op::Frame(120, 40), K("toggle_map"), Op::Frame(120, 40)];
        for _ in 0..n {
            v.extend([K("next_hop"), Op::Frame(120, 40)]);
        }
        v.extend([K("toggle_map"), Op::Frame(120, 40), K("toggle_hop_details"), Op::Frame(120, 40), K("previous_hop"), Op::Frame(120, 40)]);
        v
    };
    vec![
        // GeoIP database loaded: hops with an odd ttl have a city, the others "no data"; privacy hides ttl <= n
        // a blackout: rounds with answers, then a round in which nothing answers (reported path length 0),
        // drawn in every view with no hop selected (the views fall back to the target hop)
        (
            "silent-round-after-data",
            simple_setup(1, 64),
            vec![
                path(0, &[c(0), c(0), c(0)]), path(0, &[c(0), c(0), c(0)]), f(),
                Op::Round { trace: 0, largest: 0, probes: vec![(1, Slot::Awaited), (2, Slot::Awaited), (3, Slot::Awaited)] }, f(),
                K("toggle_chart"), f(), K("toggle_chart"), K("toggle_map"), f(), K("toggle_map"), K("toggle_flows"), f(), K("toggle_flows"),
                K("next_hop"), f(), K("toggle_hop_details"), f(),
                path(0, &[c(0), c(0), c(0)]), f(),
            ],
        ),
        ("geoip-map-privacy-2", geo(Some(2), 1), walk(6)),
        ("geoip-map-privacy-3-long", geo(Some(3), 2), walk(6)),
        ("geoip-map-privacy-4-location", geo(Some(4), 3), walk(6)),
        ("geoip-map-privacy-off", geo(None, 1), walk(6)),
        // every view in every available locale (Chinese, Russian, … : wide and multi-byte texts in narrow panels)
        ("locales-every-view-1", Setup { locale: 1, ..simple_setup(1, 64) }, { let mut v = walk(3); v.extend([K("toggle_help"), Op::Frame(30, 8), K("toggle_help"), K("toggle_settings"), Op::Frame(40, 10), Op::Frame(120, 40), K("toggle_settings"), K("toggle_flows"), Op::Frame(20, 6), K("toggle_chart"), Op::Frame(25, 7)]); v }),
        ("locales-every-view-2", Setup { locale: 2, ..simple_setup(1, 64) }, { let mut v = walk(3); v.extend([K("toggle_help"), Op::Frame(30, 8), K("toggle_help"), K("toggle_settings"), Op::Frame(40, 10), K("toggle_settings")]); v }),
        ("locales-every-view-3", Setup { locale: 3, ..simple_setup(1, 64) }, { let mut v = walk(3); v.extend([K("toggle_help"), Op::Frame(30, 8), K("toggle_help"), K("toggle_settings"), Op::Frame(40, 10), K("toggle_settings")]); v }),
        ("locales-every-view-4", Setup { locale: 4, ..simple_setup(1, 64) }, { let mut v = walk(3); v.extend([K("toggle_help"), Op::Frame(30, 8), K("toggle_help"), K("toggle_settings"), Op::Frame(40, 10), K("toggle_settings")]); v }),
        ("locales-every-view-5", Setup { locale: 5, ..simple_setup(1, 64) }, { let mut v = walk(3); v.extend([K("toggle_help"), Op::Frame(30, 8), K("toggle_help"), K("toggle_settings"), Op::Frame(40, 10), K("toggle_settings")]); v }),
        ("locales-every-view-6", Setup { locale: 6, ..simple_setup(1, 64) }, { let mut v = walk(3); v.extend([K("toggle_help"), Op::Frame(30, 8), K("toggle_help"), K("toggle_settings"), Op::Frame(40, 10), K("toggle_settings")]); v }),
        ("locales-every-view-7", Setup { locale: 7, ..simple_setup(1, 64) }, { let mut v = walk(3); v.extend([K("toggle_help"), Op::Frame(30, 8), K("toggle_help"), K("toggle_settings"), Op::Frame(40, 10), K("toggle_settings")]); v }),
        ("locales-every-view-8", Setup { locale: 8, ..simple_setup(1, 64) }, { let mut v = walk(3); v.extend([K("toggle_help"), Op::Frame(30, 8), K("toggle_help"), K("toggle_settings"), Op::Frame(40, 10), K("toggle_settings")]); v }),
        ("locales-every-view-9", Setup { locale: 9, ..simple_setup(1, 64) }, { let mut v = walk(3); v.extend([K("toggle_help"), Op::Frame(30, 8), K("toggle_help"), K("toggle_settings"), Op::Frame(40, 10), K("toggle_settings")]); v }),
        // host names cached "for ever" and not at all: frames before and after the names have arrived
        ("dns-ttl-for-ever", Setup { dns_ttl: 2, ..simple_setup(1, 64) }, walk(4)),
        ("dns-ttl-zero", Setup { dns_ttl: 1, ..simple_setup(1, 64) }, walk(4)),
        // two hops of one city at different positions, the first of them hidden
        ("geoip-map-same-city-hidden-and-shown", geo(Some(7), 2), {
            let ten = [c(0), c(0), c(0), c(0), c(0), c(0), c(0), c(0), c(0), c(0)];
            let mut v = vec![path(0, &ten), path(0, &ten), Op::Frame(120, 40), K("toggle_map"), Op::Frame(120, 40)];
            for _ in 0..10 {
                v.extend([K("next_hop"), Op::Frame(120, 40)]);
            }
            v
        }),
        // the database read under a locale in which no city has a name: hops of different cities in one province
        ("geoip-map-privacy-1-other-locale", geo(Some(1), 4 + 2), walk(6)),
        ("geoip-map-privacy-2-other-locale", geo(Some(2), 4 + 1), walk(6)),
        ("geoip-map-privacy-3-other-locale-location", geo(Some(3), 4 + 3), walk(6)),
        // F11(a): flows shown, trace data cleared
        ("flows-clear", simple_setup(1, 64), vec![path(0, &[c(0), c(0), c(0)]), f(), K("toggle_flows"), f(), K("clear_trace_data"), f()]),
        // F11(b): frozen, cleared, selected, unfrozen
        (
            "freeze-clear-select-unfreeze",
            simple_setup(1, 64),
            vec![path(0, &[c(0), c(0), c(0)]), f(), K("toggle_freeze"), f(), K("clear_trace_data"), f(), K("next_hop"), f(), K("toggle_freeze"), f()],
        ),
        // F11(c): next_hop_address on a hop without responses
        ("next-addr-silent-hop", simple_setup(1, 64), vec![path(0, &[Slot::Awaited, c(0)]), f(), K("next_hop"), f(), K("next_hop_address"), f()]),
        // expand_hosts_max while no hop has responded, then a response arrives
        (
            "hosts-max-zero",
            simple_setup(1, 64),
            vec![path(0, &[Slot::Awaited, Slot::Awaited]), f(), K("expand_hosts_max"), f(), path(0, &[c(0), Slot::Awaited]), f()],
        ),
        // frozen: switching to a shorter flow with a selected hop beyond its end
        (
            "frozen-flow-switch",
            simple_setup(1, 64),
            vec![
                path(0, &[c(0), c(0), c(0), c(0)]),
                path(0, &[c(0), c(0), c(0), c(0)]),
                path(0, &[c(1), c(1)]),
                f(),
                K("toggle_flows"),
                f(),
                K("previous_hop"),
                f(),
                K("toggle_freeze"),
                f(),
                K("next_trace"),
                f(),
            ],
        ),
        // frozen: entering the flows view with a selected hop beyond the end of flow 1
        (
            "frozen-toggle-flows",
            simple_setup(1, 64),
            vec![
                path(0, &[c(0), c(0)]),
                path(0, &[c(1), c(1), c(1), c(1)]),
                f(),
                K("previous_hop"),
                f(),
                K("toggle_freeze"),
                f(),
                K("toggle_flows"),
                f(),
            ],
        ),
        // frozen: clear, select the last hop of the stale snapshot and its third address, then
        // unfreeze over a shorter path: the hop is clamped but the address index is not
        (
            "stale-hop-address",
            simple_setup(1, 1),
            vec![
                path(0, &[c(0), c(0), c(0), c(0)]),
                path(0, &[c(0), c(0), c(0), c(1)]),
                path(0, &[c(0), c(0), c(0), c(2)]),
                f(),
                K("toggle_freeze"),
                f(),
                K("clear_trace_data"),
                f(),
                K("previous_hop"),
                f(),
                K("next_hop_address"),
                f(),
                K("next_hop_address"),
                f(),
                path(0, &[c(0), c(0)]),
                K("toggle_hop_details"),
                f(),
                K("toggle_freeze"),
                f(),
            ],
        ),
        // selection, then the live tracer is cleared from outside (not reachable from the keyboard alone)
        ("select-external-clear", simple_setup(1, 64), vec![path(0, &[c(0), c(0)]), f(), K("next_hop"), f(), Op::ClearLive { trace: 0 }, f()]),
        // everything before the first round
        (
            "empty-all-keys",
            simple_setup(1, 64),
            COMMANDS.iter().filter(|k| !k.starts_with("quit") && **k != "ctrl_c").flat_map(|k| vec![f(), K(k)]).chain(std::iter::once(f())).collect(),
        ),
        // multi target: select, switch trace, other trace empty
        (
            "multi-target-switch",
            simple_setup(3, 64),
            vec![path(0, &[c(0), c(0), c(0)]), f(), K("previous_hop"), f(), K("next_trace"), f(), K("next_hop"), f(), K("next_trace"), f(), K("next_trace"), f(), K("previous_trace"), f()],
        ),
        // error state with selection and flows
        (
            "error-state",
            simple_setup(1, 64),
            vec![path(0, &[c(0), c(0)]), f(), K("toggle_flows"), f(), K("next_hop"), f(), Op::Error { trace: 0 }, f(), K("next_hop"), f(), K("toggle_map"), f(), K("toggle_chart"), f()],
        ),
        // settings: walk every tab to its last item, move and toggle columns
        (
            "settings-walk",
            simple_setup(1, 64),
            {
                let mut v = vec![f(), K("toggle_settings")];
                for _ in 0..8 {
                    for _ in 0..40 {
                        v.push(f());
                        v.push(K("next_hop"));
                    }
                    v.extend([f(), K("toggle_chart"), f(), K("next_hop_address"), f(), K("previous_hop_address"), f(), K("next_trace")]);
                }
                for _ in 0..8 {
                    v.extend([f(), K("previous_hop"), f(), K("previous_trace")]);
                }
                v.push(f());
                v
            },
        ),
        // hide every column, render every view
        (
            "no-columns",
            simple_setup(1, 64),
            {
                let mut v = vec![path(0, &[c(0), c(0)]), f(), K("toggle_settings_columns")];
                for _ in 0..27 {
                    v.extend([f(), K("toggle_chart"), f(), K("next_hop")]);
                }
                v.extend([f(), K("toggle_settings"), f(), K("next_hop"), f(), K("toggle_hop_details"), f()]);
                v
            },
        ),
        // 254 hops, privacy walked past the end
        (
            "long-path-privacy",
            simple_setup(1, 1),
            {
                let mut v = vec![Op::Round { trace: 0, largest: 254, probes: (1..=254u8).map(|t| (t, c(0))).collect() }, f()];
                for _ in 0..260 {
                    v.push(K("expand_privacy"));
                    v.push(f());
                }
                v.extend([K("previous_hop"), f(), K("toggle_hop_details"), f(), K("toggle_chart"), f(), K("toggle_map"), f()]);
                v
            },
        ),
    ]
}

// ------------------------------------------------------------------------------------------
// C18 directed sweep: every view x address mode x privacy value
// ------------------------------------------------------------------------------------------

fn privacy_sweep(run: &mut Run, ctx: &Ctx, rng: &mut Rng, thorough: bool) {
    for scene in 0..(if thorough { 6 } else { 2 }) {
        let ntraces = if scene % 2 == 1 { 2 } else { 1 };
        let mut setup = simple_setup(ntraces, 64);
        setup.ext_mode = 3;
        setup.traces[0].proto = (scene % 3) as u8;
        let len = rng.range(3, 7) as u8;
        let mut live = new_live(ctx, &setup);
        // three flows differing at hop 2, one silent hop, multi-address hops in flow 0
        for r in 0..9u8 {
            let j = r % 3;
            let probes: Vec<(u8, Slot)> = (1..=len)
                .map(|t| {
                    let s = if t == 3 && len > 4 {
                        Slot::Awaited
                    } else if t == 2 {
                        Slot::Complete { j, rtt: 20 + r, nat: r == 4, ext: r % 4 }
                    } else {
                        Slot::Complete { j: 0, rtt: 5 + t, nat: false, ext: u8::from(t == 1) }
                    };
                    (t, s)
                })
                .collect();
            live.apply_round(0, len, &probes);
        }
        live.warm_dns();
        run.count("c18:scenes");
        // view setters work on the pub fields; the prologue of every frame re-validates the selection
        let views: Vec<(&str, Box<dyn Fn(&mut TuiApp)>)> = vec![
            ("table", Box::new(|_a: &mut TuiApp| {})),
            ("details", Box::new(|a: &mut TuiApp| { a.show_hop_details = true; a.tui_config.max_addrs = Some(1); })),
            ("chart", Box::new(|a: &mut TuiApp| a.show_chart = true)),
            ("map", Box::new(|a: &mut TuiApp| a.show_map = true)),
            ("help", Box::new(|a: &mut TuiApp| a.show_help = true)),
            ("settings", Box::new(|a: &mut TuiApp| a.show_settings = true)),
            ("max-addrs-1", Box::new(|a: &mut TuiApp| a.tui_config.max_addrs = Some(1))),
        ];
        for (vname, set_view) in &views {
            for flows in [false, true] {
                if flows && ntraces > 1 {
                    continue;
                }
                for mode in 0..3u8 {
                    for p in std::iter::once(None).chain((0..=len + 1).map(Some)) {
                        for sel in [None, Some(0usize), Some(1), Some(usize::from(len) - 1)] {
                            if sel.is_some() && !matches!(*vname, "table" | "details" | "map" | "chart") {
                                continue;
                            }
                            for (w, h) in [(300u16, 100u16), (80, 24), (20, 10)] {
                                if (w, h) != (300, 100) && !(thorough || sel.is_none()) {
                                    continue;
                                }
                                let tabs = if *vname == "settings" { 7 } else { 1 };
                                for tab in 0..tabs {
                                    let a = &mut live.app;
                                    a.show_hop_details = false;
                                    a.show_chart = false;
                                    a.show_map = false;
                                    a.show_help = false;
                                    a.show_settings = false;
                                    a.tui_config.max_addrs = None;
                                    a.settings_tab_selected = tab;
                                    a.setting_table_state.select(Some(0));
                                    a.frozen_start = None;
                                    set_view(a);
                                    a.tui_config.address_mode = [AddressMode::Ip, AddressMode::Host, AddressMode::Both][usize::from(mode)];
                                    a.tui_config.privacy_max_ttl = p;
                                    a.table_state.select(sel);
                                    a.selected_hop_address = 0;
                                    if flows {
                                        a.show_flows = true;
                                        a.selected_flow = FlowId(1 + u64::from(mode % 3));
                                    } else {
                                        a.show_flows = false;
                                        a.selected_flow = FlowId(0);
                                    }
                                    let desc = format!(
                                        "scene={scene} view={vname} flows={flows} addr_mode={mode} privacy={} selected={} size={w}x{h} tab={tab}",
                                        opt(p),
                                        opt(sel)
                                    );
                                    run.count("c18:frames");
                                    match live.frame_rows(w, h) {
                                        Err(pn) => {
                                            run.fail("c17-panic", format!("{pn} :: privacy sweep {desc}"));
                                            return;
                                        }
                                        Ok(rows) => {
                                            let leaks = find_leaks(&rows, &live.hidden_markers());
                                            if !leaks.is_empty() {
                                                run.fail("c18-leak", format!("{desc} :: {}", leaks.join("; ")));
                                            }
                                            // positive check: the wide hop table shows every visible responding hop
                                            if matches!(*vname, "table") && (w, h) == (300, 100) && sel.is_none() {
                                                let st = &live.app.selected_tracer_data;
                                                for hop in st.hops_for_flow(live.app.selected_flow) {
                                                    let visible = p.is_none_or(|n| hop.ttl() > n);
                                                    for addr in hop.addrs() {
                                                        let IpAddr::V4(a4) = addr else { continue };
                                                        let o = a4.octets();
                                                        if o[3] != 199 || !visible {
                                                            continue;
                                                        }
                                                        let m = markers(o[0] - 100, o[1] - 200);
                                                        let want: Vec<&String> = match mode {
                                                            0 => vec![&m[0]],
                                                            1 => vec![&m[2]],
                                                            _ => vec![&m[0], &m[2]],
                                                        };
                                                        for wm in want {
                                                            run.count("c18:positive-checks");
                                                            if !rows.iter().any(|r| r.contains(wm.as_str())) {
                                                                run.fail("c18-missing", format!("{desc} :: visible hop ttl {} marker `{wm}` not on screen", hop.ttl()));
                                                            }
                                                        }
                                                    }
                                                }
                                                // and the source address is shown iff privacy is off
                                                if p.is_none() && setup.traces[0].with_source && !rows.iter().any(|r| r.contains(SRC_MARK)) {
                                                    run.fail("c18-missing", format!("{desc} :: source address not shown with privacy off"));
                                                }
                                            }
                                        }
                                    }
                                }
                            }
                        }
                    }
                }
            }
        }
    }
}

// ------------------------------------------------------------------------------------------
// privacy key walk: expand/contract move by one step between off, 0 and the hop count
// ------------------------------------------------------------------------------------------

fn privacy_walk(run: &mut Run, ctx: &Ctx, rng: &mut Rng) {
    for _ in 0..4 {
        let len = rng.range(1, 9) as u8;
        let setup = simple_setup(1, 64);
        let mut live = new_live(ctx, &setup);
        live.apply_round(0, len, &(1..=len).map(|t| (t, c(0))).collect::<Vec<_>>());
        let _ = live.exec(&Op::Frame(80, 24));
        let hop_count = live.app.selected_tracer_data.hops().len();
        for _ in 0..40 {
            let before = live.app.tui_config.privacy_max_ttl;
            let expand = rng.chance(3, 5);
            if live.exec(&Op::Key(if expand { "expand_privacy" } else { "contract_privacy" })).is_err() {
                run.fail("c17-panic", "privacy key panicked".to_string());
                return;
            }
            let after = live.app.tui_config.privacy_max_ttl;
            let want = if expand {
                match before {
                    None => Some(0),
                    Some(n) if usize::from(n) < hop_count => Some(n + 1),
                    Some(n) => Some(n),
                }
            } else {
                match before {
                    None => None,
                    Some(0) => None,
                    Some(n) => Some(n - 1),
                }
            };
            run.count("c18:privacy-steps");
            if after != want {
                run.fail("c18-step", format!("hop_count={hop_count} before={} expand={expand} after={} want={}", opt(before), opt(after), opt(want)));
            }
            let _ = live.exec(&Op::Frame(80, 24));
        }
    }
}

// ------------------------------------------------------------------------------------------
// entry point
// ------------------------------------------------------------------------------------------

fn parse_corpus_line(l: &str) -> Option<(Setup, Vec<Op>)> {
    // `<ntraces> <max_flows> <op>,<op>,…` with op = f<w>x<h> | k:<command> | r<trace>:<slots> | c<trace> | e<trace>
    // slots = A | F | N | S | C<j> joined by `.` (ttl = position)
    let p: Vec<&str> = l.split_whitespace().collect();
    if p.len() != 3 {
        return None;
    }
    let setup = simple_setup(p[0].parse().ok()?, p[1].parse().ok()?);
    let mut ops = vec![];
    for o in p[2].split(',') {
        if let Some(k) = o.strip_prefix("k:") {
            ops.push(Op::Key(COMMANDS.iter().find(|c| **c == k)?));
        } else if let Some(r) = o.strip_prefix('f') {
            let (w, h) = r.split_once('x')?;
            ops.push(Op::Frame(w.parse().ok()?, h.parse().ok()?));
        } else if let Some(r) = o.strip_prefix('r') {
            let (t, s) = r.split_once(':')?;
            let slots: Option<Vec<Slot>> = s
                .split('.')
                .map(|x| match x {
                    "A" => Some(Slot::Awaited),
                    "F" => Some(Slot::Failed),
                    "N" => Some(Slot::NotSent),
                    "S" => Some(Slot::Skipped),
                    _ => x.strip_prefix('C').and_then(|j| j.parse().ok()).map(c),
                })
                .collect();
            ops.push(path(t.parse().ok()?, &slots?));
        } else if let Some(t) = o.strip_prefix('c') {
            ops.push(Op::ClearLive { trace: t.parse().ok()? });
        } else if let Some(t) = o.strip_prefix('e') {
            ops.push(Op::Error { trace: t.parse().ok()? });
        } else {
            return None;
        }
    }
    Some((setup, ops))
}

pub fn run(rng: &mut Rng, thorough: bool, corpus: &[String]) -> Run {
    let mut run = Run::new();
    DNS_STUB.store(true, Ordering::SeqCst);
    let resolver = match DnsResolver::start(trippy_dns::Config::default()) {
        Ok(r) => r,
        Err(e) => {
            run.fail("setup", format!("DnsResolver::start failed offline: {e}"));
            return run;
        }
    };
    let db_path = std::env::temp_dir().join(format!("tvh-{}.mmdb", std::process::id()));
    let geoip_db = match write_mmdb(&db_path) {
        Ok(()) if GeoIpLookup::from_file(&db_path, "en".to_string()).is_ok() => Some(db_path.clone()),
        _ => {
            run.count("geoip-db-unavailable");
            None
        }
    };
    let ctx = Ctx { resolver, geoip_db };
    let mut tally = Tally { sites: Default::default() };

    for l in corpus {
        match parse_corpus_line(l) {
            Some((setup, ops)) => run_case(&mut run, &ctx, &mut tally, &setup, &ops, "corpus"),
            None => run.count("corpus:unparsed"),
        }
    }
    for (name, setup, ops) in directed() {
        run_case(&mut run, &ctx, &mut tally, &setup, &ops, name);
    }
    let cases = if thorough { 1500 } else { 150 };
    for _ in 0..cases {
        let (setup, ops) = gen_case(rng, thorough);
        run_case(&mut run, &ctx, &mut tally, &setup, &ops, "random");
    }
    privacy_walk(&mut run, &ctx, rng);
    privacy_sweep(&mut run, &ctx, rng, thorough);
    clock_step_frames(&mut run, &ctx);
    DNS_STUB.store(false, Ordering::SeqCst);
    let _ = std::fs::remove_file(&db_path);
    run
}
