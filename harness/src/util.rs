//! shared helpers: PRNG, hex, op/outcome writers, panic capture
use std::fmt::Write as _;
use std::io::Write;
use std::panic::{catch_unwind, AssertUnwindSafe};
use std::sync::Mutex;

pub struct Rng(pub u64);
impl Rng {
    pub fn new(seed: u64) -> Self {
        Self(seed.wrapping_mul(0x9E37_79B9_7F4A_7C15) ^ 0xD1B5_4A32_D192_ED03 | 1)
    }
    pub fn next(&mut self) -> u64 {
        let mut x = self.0;
        x ^= x >> 12;
        x ^= x << 25;
        x ^= x >> 27;
        self.0 = x;
        x.wrapping_mul(0x2545_F491_4F6C_DD1D)
    }
    pub fn below(&mut self, n: u64) -> u64 {
        if n == 0 { 0 } else { self.next() % n }
    }
    pub fn range(&mut self, lo: u64, hi: u64) -> u64 {
        lo + self.below(hi - lo + 1)
    }
    pub fn chance(&mut self, num: u64, den: u64) -> bool {
        self.below(den) < num
    }
    pub fn pick<'a, T>(&mut self, xs: &'a [T]) -> &'a T {
        &xs[self.below(xs.len() as u64) as usize]
    }
    pub fn bytes(&mut self, n: usize) -> Vec<u8> {
        (0..n).map(|_| self.next() as u8).collect()
    }
}

pub fn hex(b: &[u8]) -> String {
    if b.is_empty() {
        return "-".to_string();
    }
    let mut s = String::with_capacity(b.len() * 2);
    for x in b {
        let _ = write!(s, "{x:02x}");
    }
    s
}

pub fn unhex(s: &str) -> Option<Vec<u8>> {
    if s == "-" {
        return Some(vec![]);
    }
    if s.len() % 2 != 0 {
        return None;
    }
    (0..s.len() / 2).map(|i| u8::from_str_radix(&s[2 * i..2 * i + 2], 16).ok()).collect()
}

static LAST_PANIC: Mutex<String> = Mutex::new(String::new());

pub fn install_panic_hook() {
    std::panic::set_hook(Box::new(|info| {
        let loc = info.location().map(|l| format!("{}:{}", l.file(), l.line())).unwrap_or_default();
        let msg = if let Some(s) = info.payload().downcast_ref::<&str>() {
            (*s).to_string()
        } else if let Some(s) = info.payload().downcast_ref::<String>() {
            s.clone()
        } else {
            String::new()
        };
        *LAST_PANIC.lock().unwrap() = format!("{loc} {msg}");
    }));
}

/// run `f`, mapping a panic to `Err(location + message)`
pub fn guarded<T>(f: impl FnOnce() -> T) -> Result<T, String> {
    match catch_unwind(AssertUnwindSafe(f)) {
        Ok(v) => Ok(v),
        Err(_) => Err(LAST_PANIC.lock().unwrap().clone()),
    }
}

/// Collected output of one harness run.
pub struct Run {
    pub ops: Vec<String>,
    pub outs: Vec<String>,
    /// implementation-vs-oracle failures: (kind, replayable description)
    pub oracle_failures: Vec<(String, String)>,
    pub stats: std::collections::BTreeMap<String, u64>,
    pub samples: Vec<String>,
    pub distinct: std::collections::HashSet<u64>,
}

impl Run {
    pub fn new() -> Self {
        Self {
            ops: vec![],
            outs: vec![],
            oracle_failures: vec![],
            stats: Default::default(),
            samples: vec![],
            distinct: Default::default(),
        }
    }
    pub fn op(&mut self, op: String, out: String) {
        PROGRESS.fetch_add(1, std::sync::atomic::Ordering::Relaxed);
        use std::hash::{Hash, Hasher};
        let mut h = std::collections::hash_map::DefaultHasher::new();
        op.hash(&mut h);
        self.distinct.insert(h.finish());
        if self.samples.len() < 6 && (self.ops.len() % 997 == 0) {
            self.samples.push(format!("{op} => {out}"));
        }
        self.ops.push(op);
        self.outs.push(out);
    }
    pub fn count(&mut self, k: &str) {
        *self.stats.entry(k.to_string()).or_default() += 1;
    }
    pub fn fail(&mut self, kind: &str, desc: String) {
        // at most 40 failures are kept *per kind* (a flood of one kind must not hide another property's failures)
        let key = format!("oracle_fail:{kind}");
        if self.stats.get(&key).copied().unwrap_or(0) < 40 {
            self.oracle_failures.push((kind.to_string(), desc));
        }
        self.count(&key);
    }
    pub fn write(&self, dir: &str, name: &str) -> std::io::Result<()> {
        std::fs::create_dir_all(dir)?;
        let mut f = std::io::BufWriter::new(std::fs::File::create(format!("{dir}/{name}.ops"))?);
        for l in &self.ops {
            writeln!(f, "{l}")?;
        }
        let mut f = std::io::BufWriter::new(std::fs::File::create(format!("{dir}/{name}.impl"))?);
        for l in &self.outs {
            writeln!(f, "{l}")?;
        }
        let mut f = std::io::BufWriter::new(std::fs::File::create(format!("{dir}/{name}.oracle"))?);
        for (k, d) in &self.oracle_failures {
            writeln!(f, "{k}\t{d}")?;
        }
        let mut f = std::io::BufWriter::new(std::fs::File::create(format!("{dir}/{name}.stats"))?);
        writeln!(f, "evaluations\t{}", self.ops.len())?;
        writeln!(f, "distinct\t{}", self.distinct.len())?;
        for (k, v) in &self.stats {
            writeln!(f, "{k}\t{v}")?;
        }
        for s in &self.samples {
            writeln!(f, "sample\t{s}")?;
        }
        Ok(())
    }
}


// ---------------------------------------------------------------- watchdog

/// bumped by every completed operation (`Run::op`) and by `inflight`
pub static PROGRESS: std::sync::atomic::AtomicU64 = std::sync::atomic::AtomicU64::new(0);
static INFLIGHT: std::sync::Mutex<String> = std::sync::Mutex::new(String::new());

/// the operation about to be executed on the real code (reported if it never returns)
pub fn inflight(desc: &str) {
    if let Ok(mut g) = INFLIGHT.lock() {
        g.clear();
        g.push_str(desc);
    }
    PROGRESS.fetch_add(1, std::sync::atomic::Ordering::Relaxed);
}

/// A real-time watchdog (the sleeping is relative, so the interposed virtual clock does not affect it): when
/// no operation completes for `limit_s` seconds the implementation is stuck inside the operation last announced
/// with `inflight` — the harness writes `<dir>/<name>.hang` with that operation and exits with status 3.
pub fn start_watchdog(dir: &str, name: &str, limit_s: u64) {
    let (dir, name) = (dir.to_string(), name.to_string());
    std::thread::spawn(move || {
        let mut last = PROGRESS.load(std::sync::atomic::Ordering::Relaxed);
        let mut idle = 0u64;
        loop {
            std::thread::sleep(std::time::Duration::from_secs(1));
            let now = PROGRESS.load(std::sync::atomic::Ordering::Relaxed);
            if now != last { last = now; idle = 0; continue; }
            idle += 1;
            if idle >= limit_s {
                let what = INFLIGHT.lock().map(|g| g.clone()).unwrap_or_default();
                let _ = std::fs::create_dir_all(&dir);
                let _ = std::fs::write(format!("{dir}/{name}.hang"), format!("{what}\n"));
                eprintln!("watchdog: no operation completed for {limit_s} s; in flight: {what}");
                std::process::exit(3);
            }
        }
    });
}
