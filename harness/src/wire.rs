//! The wire layer (C11, C02, C04 receive half, C13 Paris half, C19 wire half): the real
//! `Ipv4` / `Ipv6` dispatch and receive code of trippy-core driven through `SimSocket`.
//!
//! Request lines (answered identically by the Lean driver entry `TV.Wire.handle`; formats are
//! documented at the top of `lean/TrippyVerif/Model/Wire.lean`):
//!   `wire send <cfg> <probe>`, `wire recv <cfg> <hexsrc|-> <hexbytes>`,
//!   `wire tcp <cfg> <sp> <dp> <state>`, `wire cksum <cfg> <sp> <dp> <plen>`,
//!   `wire slice <accessor> <hexbuf>`, `wire errmap <path> <call> <errkind>`.
//!
//! Oracles (Rust, independent of the Lean model; `wire_enc.rs`):
//!   `c11-*`  an RFC decoder over the captured socket calls of every successful dispatch
//!            (`c11-udp6-zero-checksum`: a UDP/IPv6 datagram with checksum field 0, RFC 8200 §8.1;
//!            the description reads `<request line> [paris sequence=0]` for the Paris strategy,
//!            whose checksum field is the sequence by design);
//!   `c02-*`  a genuine quotation of a dispatched probe is decoded to a response that the strategy
//!            accepts and whose recovered sequence is the probe's; a foreign one is not accepted;
//!            `c02-e2e*`: the same through the real `Strategy` (the probe's slot becomes Complete);
//!   `c19-*`  expected = actual = dispatched UDP checksum for an unmodified Dublin/IPv4 quotation;
//!   `c04-panic`  any panic in the receive path or in a slice accessor.
use crate::simsock::{self, Inject, SimSocket, TcpState};
use crate::util::{guarded, hex, unhex, Rng, Run};
use crate::wire_enc::*;
use std::net::{IpAddr, Ipv4Addr, Ipv6Addr, SocketAddr};
use trippy_core::verif::{Error, ProtocolResponse, Response};
use trippy_core::{Extension, Extensions, Port, Probe};

// ---------------------------------------------------------------- canonical answers

fn show_exts(x: &Extensions) -> String {
    if x.extensions.is_empty() {
        return "-".into();
    }
    x.extensions
        .iter()
        .map(|e| match e {
            Extension::Unknown(u) => format!("U[{}/{}/{}]", u.class_num, u.class_subtype, hex(&u.bytes)),
            Extension::Mpls(m) => format!(
                "M[{}]",
                m.members.iter().map(|m| format!("{}/{}/{}/{}", m.label, m.exp, m.bos, m.ttl)).collect::<Vec<_>>().join(",")
            ),
        })
        .collect::<Vec<_>>()
        .join(";")
}

fn opt_tos(t: Option<trippy_core::TypeOfService>) -> String {
    t.map_or("-".to_string(), |t| t.0.to_string())
}

pub fn show_resp(r: &Response) -> String {
    let (kind, exts) = match r {
        Response::TimeExceeded(_, c, e) => (format!("te:{}", c.0), e.as_ref()),
        Response::DestinationUnreachable(_, c, e) => (format!("du:{}", c.0), e.as_ref()),
        Response::EchoReply(_, c) => (format!("er:{}", c.0), None),
        Response::TcpReply(_) => ("tr".to_string(), None),
        Response::TcpRefused(_) => ("tf".to_string(), None),
    };
    let d = r.data();
    let proto = match &d.proto_resp {
        ProtocolResponse::Icmp(i) => format!("i:{}:{}:{}", i.identifier, i.sequence, opt_tos(i.tos)),
        ProtocolResponse::Udp(u) => format!(
            "u:{}:{}:{}:{}:{}:{}:{}:{}:{}",
            u.identifier, addr_num(u.dest_addr), u.src_port, u.dest_port, opt_tos(u.tos), u.expected_udp_checksum,
            u.actual_udp_checksum, u.payload_len, u8::from(u.has_magic)
        ),
        ProtocolResponse::Tcp(t) => format!("t:{}:{}:{}:{}", addr_num(t.dest_addr), t.src_port, t.dest_port, opt_tos(t.tos)),
    };
    let exts = exts.map_or("none".to_string(), |e| format!("some:{}", show_exts(e)));
    format!("{kind} {} {proto} {exts}", simsock::addr_hex(d.addr))
}

pub fn err_kind(e: &Error) -> &'static str {
    match e {
        Error::InvalidPacketSize(_) => "invalid-packet-size",
        Error::PacketError(_) => "pkt-short",
        Error::MissingAddr => "missing-addr",
        Error::IoError(_) => "io",
        _ => "other",
    }
}

pub fn show_recv(r: &Result<Option<Response>, Error>) -> String {
    match r {
        Ok(None) => "ok none".into(),
        Ok(Some(r)) => format!("ok {}", show_resp(r)),
        Err(e) => format!("err {}", err_kind(e)),
    }
}

/// Record a panic of the real code; at most 12 requests per panic site are listed.
pub fn panic_fail(run: &mut Run, kind: &str, req: &str, loc: &str) {
    let site = loc.split(' ').next().unwrap_or("");
    let key = format!("panic@{kind}:{site}");
    run.count(&key);
    if run.stats.get(&key).copied().unwrap_or(0) <= 12 {
        run.fail(kind, format!("{req} ({loc})"));
    } else {
        run.count(&format!("oracle_fail:{kind}"));
    }
}

// ---------------------------------------------------------------- calls into the real code

pub fn real_dispatch(cfg: &WCfg, p: &Probe) -> Result<(), Error> {
    let mut s = SimSocket::anon();
    if cfg.v6 {
        let ip = cfg.ipv6();
        match cfg.proto {
            'i' => ip.dispatch_icmp_probe(&mut s, p.clone()),
            'u' => ip.dispatch_udp_probe(&mut s, p.clone()),
            _ => ip.dispatch_tcp_probe::<SimSocket>(p).map(|_| ()),
        }
    } else {
        let ip = cfg.ipv4();
        match cfg.proto {
            'i' => ip.dispatch_icmp_probe(&mut s, p.clone()),
            'u' => ip.dispatch_udp_probe(&mut s, p.clone()),
            _ => ip.dispatch_tcp_probe::<SimSocket>(p).map(|_| ()),
        }
    }
}

/// `wire send`: returns the captured calls of a successful dispatch
pub fn op_send(run: &mut Run, cfg: &WCfg, p: &Probe, cell: Option<&Cell>) -> Option<Sent> {
    let req = format!("wire send {} {}", cfg.tokens(), probe_tokens(p));
    run.count("op:send");
    simsock::reset();
    match guarded(|| real_dispatch(cfg, p)) {
        Ok(Ok(())) => {
            let ops = simsock::take_ops();
            let sent = parse_ops(&ops);
            for (k, m) in c11_check(cfg, p, cell, &sent) {
                run.fail(k, format!("{req} [{m}]"));
            }
            run.count("c11-checked");
            run.op(req, format!("ok {}", ops.join(";")));
            Some(sent)
        }
        Ok(Err(e)) => {
            let size = usize::from(cfg.size);
            let min = cfg.ip_hdr() + 8;
            if cfg.proto != 't' && (min..=1024).contains(&size) {
                run.fail("c11-rejected", format!("{req} [{e}]"));
            }
            run.op(req, format!("err {}", err_kind(&e)));
            None
        }
        Err(loc) => {
            // a panic on a probe the strategy can emit (`cell` given) is a C11 failure; for
            // other probes it is only compared with the model
            if cell.is_some() {
                panic_fail(run, "c11-panic", &req, &loc);
            } else {
                run.count("send-panic-nonemittable");
            }
            run.op(req, "panic".into());
            None
        }
    }
}

pub enum RecvOut {
    Resp(Option<Response>),
    Err,
    Panic,
}

/// what the socket hands to the code: at most the 1024 octets of the receive buffer
fn clip(b: &[u8]) -> &[u8] {
    &b[..b.len().min(1024)]
}

/// run one datagram through the real `recv_icmp_probe`: (request line, outcome or panic location)
pub fn exec_recv(cfg: &WCfg, from: Option<IpAddr>, bytes: &[u8]) -> (String, Result<Result<Option<Response>, Error>, String>) {
    let bytes = clip(bytes);
    let src = if cfg.v6 { from.map_or("-".to_string(), simsock::addr_hex) } else { "-".to_string() };
    let req = format!("wire recv {} {} {}", cfg.tokens(), src, hex(bytes));
    simsock::reset();
    simsock::push_datagram(bytes.to_vec(), from.map(|a| SocketAddr::new(a, 0)));
    let r = guarded(|| {
        let mut s = SimSocket::anon();
        if cfg.v6 { cfg.ipv6().recv_icmp_probe(&mut s) } else { cfg.ipv4().recv_icmp_probe(&mut s) }
    });
    (req, r)
}

/// `wire recv`
/// run `f` with trace-level logging switched on (`--log-filter trippy=trace`): every `#[instrument]`ed function then
/// renders its arguments — the packet views — with their `Debug` impls
pub fn traced<T>(f: impl FnOnce() -> T) -> T {
    let sub = tracing_subscriber::fmt().with_max_level(tracing::Level::TRACE).with_writer(std::io::sink).finish();
    tracing::subscriber::with_default(sub, f)
}

pub fn op_recv(run: &mut Run, cfg: &WCfg, from: Option<IpAddr>, bytes: &[u8]) -> RecvOut {
    run.count("op:recv");
    let (req, r) = exec_recv(cfg, from, bytes);
    // C04 "in every configuration": the same datagram once more with trace-level logging on (short datagrams —
    // where the views are degenerate — always, the others one in eight)
    if r.is_ok() && (bytes.len() <= 72 || run.ops.len() % 8 == 0) {
        let (_, r2) = traced(|| exec_recv(cfg, from, bytes));
        run.count("op:recv-traced");
        if let Err(loc) = r2 {
            panic_fail(run, "c04-panic-trace-logging", &req, &loc);
        }
    }
    match r {
        Ok(r) => {
            run.op(req, show_recv(&r));
            match r {
                Ok(x) => RecvOut::Resp(x),
                Err(_) => RecvOut::Err,
            }
        }
        Err(loc) => {
            panic_fail(run, "c04-panic", &req, &loc);
            run.op(req, "panic".into());
            RecvOut::Panic
        }
    }
}

/// `wire tcp`
pub fn op_tcp(run: &mut Run, cfg: &WCfg, sp: u16, dp: u16, st: &TcpState) -> RecvOut {
    let state = match st {
        TcpState::Connected(None) => "conn:-".to_string(),
        TcpState::Connected(Some(a)) => format!("conn:{}", simsock::addr_hex(*a)),
        TcpState::Refused => "refused".to_string(),
        TcpState::Unreach(a) => format!("unreach:{}", simsock::addr_hex(*a)),
        TcpState::Other | TcpState::TakeErrorFails => "other".to_string(),
    };
    let req = format!("wire tcp {} {sp} {dp} {state}", cfg.tokens());
    run.count("op:tcp");
    simsock::reset();
    simsock::set_tcp(st.clone());
    let r = guarded(|| {
        let mut s = SimSocket::anon();
        if cfg.v6 {
            cfg.ipv6().recv_tcp_socket(&mut s, Port(sp), Port(dp))
        } else {
            cfg.ipv4().recv_tcp_socket(&mut s, Port(sp), Port(dp))
        }
    });
    match r {
        Ok(r) => {
            run.op(req, show_recv(&r));
            match r {
                Ok(x) => RecvOut::Resp(x),
                Err(_) => RecvOut::Err,
            }
        }
        Err(loc) => {
            panic_fail(run, "c04-panic", &req, &loc);
            run.op(req, "panic".into());
            RecvOut::Panic
        }
    }
}

/// `wire cksum`: `Ipv4::calc_udp_checksum`
pub fn op_cksum(run: &mut Run, cfg: &WCfg, sp: u16, dp: u16, plen: u16) -> Option<u16> {
    let req = format!("wire cksum {} {sp} {dp} {plen}", cfg.tokens());
    run.count("op:cksum");
    match guarded(|| cfg.ipv4().calc_udp_checksum(Port(sp), Port(dp), plen)) {
        Ok(Ok(c)) => {
            run.op(req, format!("ok {c}"));
            Some(c)
        }
        Ok(Err(e)) => {
            run.op(req, format!("err {}", err_kind(&e)));
            None
        }
        Err(loc) => {
            panic_fail(run, "c04-panic", &req, &loc);
            run.op(req, "panic".into());
            None
        }
    }
}

pub const ACCESSORS: [(&str, usize); 15] = [
    ("ipv4Payload", 20),
    ("ipv4OptionsRaw", 20),
    ("ipv6Payload", 40),
    ("udpPayload", 8),
    ("tcpPayload", 20),
    ("tcpOptionsRaw", 20),
    ("echoPayload", 8),
    ("ipv4OptionsRawMut", 20),
    ("echoReply4Payload", 8),
    ("echoRequest6Payload", 8),
    ("echoReply6Payload", 8),
    ("te4PayloadRaw", 8),
    ("du4PayloadRaw", 8),
    ("te6PayloadRaw", 8),
    ("du6PayloadRaw", 8),
];

fn call_slice(acc: &str, b: &[u8]) -> Option<Vec<u8>> {
    use trippy_packet::{icmpv4, icmpv6, ipv4::Ipv4Packet, ipv6::Ipv6Packet, tcp::TcpPacket, udp::UdpPacket};
    Some(match acc {
        "ipv4OptionsRawMut" => {
            let mut m = b.to_vec();
            let mut v = Ipv4Packet::new(&mut m).ok()?;
            v.get_options_raw_mut().to_vec()
        }
        "echoReply4Payload" => icmpv4::echo_reply::EchoReplyPacket::new_view(b).ok()?.payload().to_vec(),
        "echoRequest6Payload" => icmpv6::echo_request::EchoRequestPacket::new_view(b).ok()?.payload().to_vec(),
        "echoReply6Payload" => icmpv6::echo_reply::EchoReplyPacket::new_view(b).ok()?.payload().to_vec(),
        "te4PayloadRaw" => icmpv4::time_exceeded::TimeExceededPacket::new_view(b).ok()?.payload_raw().to_vec(),
        "du4PayloadRaw" => icmpv4::destination_unreachable::DestinationUnreachablePacket::new_view(b).ok()?.payload_raw().to_vec(),
        "te6PayloadRaw" => icmpv6::time_exceeded::TimeExceededPacket::new_view(b).ok()?.payload_raw().to_vec(),
        "du6PayloadRaw" => icmpv6::destination_unreachable::DestinationUnreachablePacket::new_view(b).ok()?.payload_raw().to_vec(),
        "ipv4Payload" => Ipv4Packet::new_view(b).ok()?.payload().to_vec(),
        "ipv4OptionsRaw" => Ipv4Packet::new_view(b).ok()?.get_options_raw().to_vec(),
        "ipv6Payload" => Ipv6Packet::new_view(b).ok()?.payload().to_vec(),
        "udpPayload" => UdpPacket::new_view(b).ok()?.payload().to_vec(),
        "tcpPayload" => TcpPacket::new_view(b).ok()?.payload().to_vec(),
        "tcpOptionsRaw" => TcpPacket::new_view(b).ok()?.get_options_raw().to_vec(),
        "echoPayload" => icmpv4::echo_request::EchoRequestPacket::new_view(b).ok()?.payload().to_vec(),
        _ => return None,
    })
}

/// `wire slice`: a slice accessor on a view of at least the minimum size
pub fn op_slice(run: &mut Run, acc: &str, b: &[u8]) {
    let Some(min) = ACCESSORS.iter().find(|a| a.0 == acc).map(|a| a.1) else { return };
    if b.len() < min {
        return;
    }
    let req = format!("wire slice {acc} {}", hex(b));
    run.count("op:slice");
    match guarded(|| call_slice(acc, b)) {
        Ok(Some(s)) => {
            // the result must be a contiguous part of the buffer
            if !s.is_empty() && !b.windows(s.len()).any(|w| w == &s[..]) {
                run.fail("c04-slice-outside", req.clone());
            }
            // C12 for the variable-length parts (RFC 791 / RFC 9293): on a header whose length field is well-formed the
            // options are the octets from 20 to four times the length field, and the payload starts where they end
            let word_len = |at: usize, high: bool| usize::from(if high { b[at] >> 4 } else { b[at] & 0xf }) * 4;
            let expect: Option<(usize, Option<usize>)> = match acc {
                "ipv4OptionsRaw" | "ipv4OptionsRawMut" => Some((20, Some(word_len(0, false)))),
                "ipv4Payload" => Some((word_len(0, false), None)),
                "tcpOptionsRaw" => Some((20, Some(word_len(12, true)))),
                "tcpPayload" => Some((word_len(12, true), None)),
                _ => None,
            };
            if let Some((from, to)) = expect {
                let hdr = to.unwrap_or(from);
                if hdr >= 20 && hdr <= b.len() {
                    let ok = match to {
                        Some(to) => s[..] == b[from..to],
                        None => s.len() <= b.len() - from && s[..] == b[from..from + s.len()],
                    };
                    if !ok {
                        run.fail("c12-slice-position", format!("{req}: the header is {hdr} octets long; {acc} returned {} octets [{}…], expected the octets from {from}{}",
                            s.len(), hex(&s[..s.len().min(8)]), to.map_or(String::new(), |t| format!(" to {t}"))));
                    }
                    run.count("c12:slice-position-checked");
                }
            }
            run.op(req, format!("ok {}", hex(&s)));
        }
        Ok(None) => {}
        Err(loc) => {
            panic_fail(run, "c04-panic", &req, &loc);
            run.op(req, "panic".into());
        }
    }
}

// ---------------------------------------------------------------- error mapping

pub const PATHS: [&str; 8] = ["icmp4", "udpraw4", "udp4", "tcp4", "icmp6", "udpraw6", "udp6", "tcp6"];
pub const CALLS: [&str; 7] = ["new", "bind", "ttl", "tos", "hops", "send", "conn"];

pub fn io_kind_name(e: Inject) -> &'static str {
    use std::io::ErrorKind as K;
    match e {
        Inject::Errno(libc::EINPROGRESS) => "in-progress",
        Inject::Errno(libc::EHOSTUNREACH) => "host-unreachable",
        Inject::Errno(libc::ENETUNREACH) => "net-unreachable",
        Inject::Errno(libc::EADDRINUSE) | Inject::Kind(K::AddrInUse) => "addr-in-use",
        Inject::Errno(libc::EADDRNOTAVAIL) | Inject::Kind(K::AddrNotAvailable) => "addr-not-available",
        Inject::Errno(libc::EINVAL) | Inject::Kind(K::InvalidInput) => "invalid-input",
        _ => "other",
    }
}

fn path_cfg(path: &str) -> WCfg {
    let v6 = path.ends_with('6');
    WCfg {
        v6,
        src: if v6 { IpAddr::V6(Ipv6Addr::new(0xfd00, 0, 0, 0, 0, 0, 0, 1)) } else { IpAddr::V4(Ipv4Addr::new(10, 0, 0, 1)) },
        dst: if v6 { IpAddr::V6(Ipv6Addr::new(0xfd00, 0, 0, 0, 0, 0, 0, 7)) } else { IpAddr::V4(Ipv4Addr::new(10, 0, 0, 7)) },
        size: 84,
        pattern: 0,
        privileged: path.starts_with("udpraw") || !path.starts_with("udp"),
        tos: 0,
        proto: match &path[..3] { "icm" => 'i', "udp" => 'u', _ => 't' },
        ext: false,
        initial: 33434,
    }
}

/// `wire errmap`: arm one error at one socket call of one dispatch path of the real code
pub fn op_errmap(run: &mut Run, path: &'static str, call: &'static str, e: Inject) {
    let req = format!("wire errmap {path} {call} {}", io_kind_name(e));
    run.count("op:errmap");
    let cfg = path_cfg(path);
    let p = mk_probe(33500, 7, 5000, 33500, 3, 0);
    simsock::reset();
    simsock::arm(call, e);
    let out = match guarded(|| real_dispatch(&cfg, &p)) {
        Ok(r) => {
            if simsock::armed() {
                "not-called"
            } else {
                match r {
                    Ok(()) => "ok",
                    Err(Error::ProbeFailed(_)) => "probe-failed",
                    Err(Error::AddressInUse(_)) => "addr-in-use",
                    Err(Error::IoError(_)) => "fatal",
                    Err(_) => "other-error",
                }
            }
        }
        Err(loc) => {
            panic_fail(run, "c11-panic", &req, &loc);
            "panic"
        }
    };
    // C09 oracle (independent of the model): an address-in-use failure of a TCP probe (at bind or at connect)
    // must surface as Error::AddressInUse so that the strategy re-issues the probe; a connect in progress is
    // not a failure; no other failure is swallowed
    let name = io_kind_name(e);
    if path.starts_with("tcp") && (call == "bind" || call == "conn") && name == "addr-in-use" && out != "addr-in-use" {
        run.fail("c09-errmap-addr-in-use", format!("{req} => {out}"));
    }
    if path.starts_with("tcp") && call == "conn" && name == "in-progress" && out != "ok" {
        run.fail("c09-errmap-in-progress", format!("{req} => {out}"));
    }
    // the transient send failures the IPv4 dispatch code names ("Some errors are transient and should not be considered
    // fatal", strategy.rs): the kernel refusing one datagram with host/network unreachable fails that probe only
    if (path == "icmp4" || path == "udpraw4") && call == "send" && (name == "host-unreachable" || name == "net-unreachable") && out != "probe-failed" {
        run.fail("c09-errmap-transient-send", format!("{req} => {out} (a transient send failure must fail just that probe)"));
    }
    if out == "ok" && name != "in-progress" {
        run.fail("c09-errmap-swallowed", format!("{req} => {out}"));
    }
    run.op(req, out.to_string());
}

pub fn errmap_all(run: &mut Run) {
    use std::io::ErrorKind as K;
    let errs = [
        Inject::Errno(libc::EINPROGRESS), Inject::Errno(libc::EHOSTUNREACH), Inject::Errno(libc::ENETUNREACH),
        Inject::Errno(libc::EADDRINUSE), Inject::Errno(libc::EADDRNOTAVAIL), Inject::Errno(libc::EINVAL),
        Inject::Errno(libc::EACCES), Inject::Errno(libc::EPERM), Inject::Errno(libc::ECONNREFUSED),
        Inject::Errno(libc::EAGAIN), Inject::Errno(libc::EMSGSIZE), Inject::Errno(libc::ENOBUFS),
        Inject::Kind(K::AddrInUse), Inject::Kind(K::AddrNotAvailable), Inject::Kind(K::InvalidInput),
        Inject::Kind(K::Other), Inject::Kind(K::WouldBlock), Inject::Kind(K::PermissionDenied),
        Inject::Kind(K::TimedOut), Inject::Kind(K::ConnectionRefused),
    ];
    for path in PATHS {
        for call in CALLS {
            for e in errs {
                op_errmap(run, path, call, e);
            }
        }
    }
}

// ---------------------------------------------------------------- corpus

fn corpus_line(run: &mut Run, l: &str) {
    let t: Vec<&str> = l.split(' ').collect();
    if t.first() != Some(&"wire") {
        return;
    }
    match t.get(1).copied() {
        Some("send") if t.len() == 18 => {
            if let Some(cfg) = WCfg::parse(&t[2..12]) {
                let n: Vec<u32> = t[12..].iter().filter_map(|x| x.parse().ok()).collect();
                if n.len() == 6 {
                    let p = mk_probe(n[0] as u16, n[1] as u16, n[2] as u16, n[3] as u16, n[4] as u8, n[5]);
                    op_send(run, &cfg, &p, None);
                    run.count("corpus");
                }
            }
        }
        Some("recv") if t.len() == 14 => {
            if let (Some(cfg), Some(b)) = (WCfg::parse(&t[2..12]), unhex(t[13])) {
                let from = if t[12] == "-" { None } else { unhex(t[12]).filter(|a| a.len() == 4 || a.len() == 16).map(|a| addr_from(&a)) };
                op_recv(run, &cfg, from, &b);
                run.count("corpus");
            }
        }
        Some("slice") if t.len() == 4 => {
            if let Some(b) = unhex(t[3]) {
                op_slice(run, t[2], &b);
                run.count("corpus");
            }
        }
        _ => {}
    }
}

pub fn run(rng: &mut Rng, thorough: bool, corpus: &[String]) -> Run {
    let mut run = Run::new();
    for l in corpus {
        corpus_line(&mut run, l);
    }
    errmap_all(&mut run);
    crate::wire_gen::gen_send(&mut run, rng, thorough);
    crate::wire_gen::gen_recv(&mut run, rng, thorough);
    crate::wire_gen::gen_slice(&mut run, rng, thorough);
    crate::wire_gen::gen_e2e(&mut run, rng, thorough);
    crate::wire_gen::gen_set_payload(&mut run, rng, thorough);
    run
}
