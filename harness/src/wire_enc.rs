//! Wire-layer helpers written from the RFCs, independent of the Lean model and of trippy's own
//! packet code: configuration / probe cells, an RFC decoder (C11 oracle), the encoder of what a
//! conforming network returns for a dispatched probe (quotations, ICMP wrappers, RFC 4884
//! extensions) and the sequence-recovery oracle (C02).
use crate::util::{hex, Rng};
use std::net::{IpAddr, Ipv4Addr, Ipv6Addr};
use std::time::SystemTime;
use trippy_core::verif::{Ipv4, Ipv4ByteOrder, Ipv6, ProtocolResponse, Response};
use trippy_core::{
    Flags, IcmpExtensionParseMode, PacketSize, PayloadPattern, Port, PrivilegeMode, Probe, Protocol, RoundId,
    Sequence, TimeToLive, TraceId, TypeOfService,
};

pub const MAGIC: &[u8] = b"trippy";

// ---------------------------------------------------------------- configuration

#[derive(Clone, Debug)]
pub struct WCfg {
    pub v6: bool,
    pub src: IpAddr,
    pub dst: IpAddr,
    pub size: u16,
    pub pattern: u8,
    pub privileged: bool,
    pub tos: u8,
    pub proto: char,
    pub ext: bool,
    pub initial: u16,
}

pub fn octets(a: IpAddr) -> Vec<u8> {
    match a {
        IpAddr::V4(a) => a.octets().to_vec(),
        IpAddr::V6(a) => a.octets().to_vec(),
    }
}

pub fn addr_from(b: &[u8]) -> IpAddr {
    if b.len() == 4 {
        IpAddr::V4(Ipv4Addr::new(b[0], b[1], b[2], b[3]))
    } else {
        let mut o = [0u8; 16];
        o.copy_from_slice(&b[..16]);
        IpAddr::V6(Ipv6Addr::from(o))
    }
}

/// the address as a decimal number (big-endian digits = octets)
pub fn addr_num(a: IpAddr) -> u128 {
    match a {
        IpAddr::V4(a) => u128::from(u32::from(a)),
        IpAddr::V6(a) => u128::from(a),
    }
}

impl WCfg {
    /// the ten configuration tokens of the `wire` requests
    pub fn tokens(&self) -> String {
        format!(
            "{} {} {} {} {} {} {} {} {} {}",
            if self.v6 { 6 } else { 4 },
            hex(&octets(self.src)),
            hex(&octets(self.dst)),
            self.size,
            self.pattern,
            u8::from(self.privileged),
            self.tos,
            self.proto,
            u8::from(self.ext),
            self.initial
        )
    }
    pub fn parse(t: &[&str]) -> Option<Self> {
        if t.len() != 10 {
            return None;
        }
        let v6 = match t[0] { "4" => false, "6" => true, _ => return None };
        let s = crate::util::unhex(t[1])?;
        let d = crate::util::unhex(t[2])?;
        let n = if v6 { 16 } else { 4 };
        if s.len() != n || d.len() != n {
            return None;
        }
        Some(Self {
            v6,
            src: addr_from(&s),
            dst: addr_from(&d),
            size: t[3].parse().ok()?,
            pattern: t[4].parse().ok()?,
            privileged: match t[5] { "1" => true, "0" => false, _ => return None },
            tos: t[6].parse().ok()?,
            proto: match t[7] { "i" => 'i', "u" => 'u', "t" => 't', _ => return None },
            ext: match t[8] { "1" => true, "0" => false, _ => return None },
            initial: t[9].parse().ok()?,
        })
    }
    fn protocol(&self) -> Protocol {
        match self.proto { 'i' => Protocol::Icmp, 'u' => Protocol::Udp, _ => Protocol::Tcp }
    }
    fn privilege(&self) -> PrivilegeMode {
        if self.privileged { PrivilegeMode::Privileged } else { PrivilegeMode::Unprivileged }
    }
    fn ext_mode(&self) -> IcmpExtensionParseMode {
        if self.ext { IcmpExtensionParseMode::Enabled } else { IcmpExtensionParseMode::Disabled }
    }
    pub fn ipv4(&self) -> Ipv4 {
        let (IpAddr::V4(s), IpAddr::V4(d)) = (self.src, self.dst) else { unreachable!() };
        Ipv4 {
            src_addr: s,
            dest_addr: d,
            byte_order: Ipv4ByteOrder::Network,
            packet_size: PacketSize(self.size),
            payload_pattern: PayloadPattern(self.pattern),
            privilege_mode: self.privilege(),
            tos: TypeOfService(self.tos),
            protocol: self.protocol(),
            icmp_extension_mode: self.ext_mode(),
        }
    }
    pub fn ipv6(&self) -> Ipv6 {
        let (IpAddr::V6(s), IpAddr::V6(d)) = (self.src, self.dst) else { unreachable!() };
        Ipv6 {
            src_addr: s,
            dest_addr: d,
            packet_size: PacketSize(self.size),
            payload_pattern: PayloadPattern(self.pattern),
            privilege_mode: self.privilege(),
            protocol: self.protocol(),
            icmp_extension_mode: self.ext_mode(),
            initial_sequence: Sequence(self.initial),
        }
    }
    pub fn ip_hdr(&self) -> usize {
        if self.v6 { 40 } else { 20 }
    }
}

// ---------------------------------------------------------------- probes and cells

#[derive(Clone, Copy, Debug, PartialEq)]
pub enum Pd {
    None,
    Src(u16),
    Dest(u16),
    Both(u16, u16),
}

/// one protocol × strategy × port-direction cell of `probe_data`
#[derive(Clone, Copy, Debug, PartialEq)]
pub struct Cell {
    pub proto: char,
    /// c | p | d
    pub strat: char,
    pub pd: Pd,
}

impl Cell {
    pub fn name(&self) -> String {
        let pd = match self.pd { Pd::None => "n", Pd::Src(_) => "s", Pd::Dest(_) => "d", Pd::Both(..) => "b" };
        format!("{}{}{}", self.proto, self.strat, pd)
    }
}

/// every cell the builder accepts
pub fn cells(rng: &mut Rng) -> Vec<Cell> {
    let port = |rng: &mut Rng| *rng.pick(&[1u16, 80, 443, 33434, 5000, 65535, 255, 256]);
    let mut v = vec![Cell { proto: 'i', strat: 'c', pd: Pd::None }];
    for strat in ['c', 'p', 'd'] {
        v.push(Cell { proto: 'u', strat, pd: Pd::Src(port(rng)) });
        v.push(Cell { proto: 'u', strat, pd: Pd::Dest(port(rng)) });
        if strat != 'c' {
            v.push(Cell { proto: 'u', strat, pd: Pd::Both(port(rng), port(rng)) });
        }
    }
    v.push(Cell { proto: 't', strat: 'c', pd: Pd::Src(port(rng)) });
    v.push(Cell { proto: 't', strat: 'c', pd: Pd::Dest(port(rng)) });
    v
}

pub fn mk_probe(seq: u16, ident: u16, sp: u16, dp: u16, ttl: u8, flags: u32) -> Probe {
    Probe {
        sequence: Sequence(seq),
        identifier: TraceId(ident),
        src_port: Port(sp),
        dest_port: Port(dp),
        ttl: TimeToLive(ttl),
        round: RoundId(0),
        sent: SystemTime::UNIX_EPOCH,
        flags: Flags::from_bits_truncate(flags),
    }
}

/// `TracerState::probe_data` restated: the probe of `cell` with sequence `seq` in round `round`
pub fn probe_for(cell: &Cell, initial: u16, trace_id: u16, seq: u16, round: usize, ttl: u8) -> Probe {
    let round_port = ((usize::from(initial) + round) % 65535) as u16;
    let (sp, dp, id, fl) = match (cell.proto, cell.strat, cell.pd) {
        ('i', _, _) => (0, 0, trace_id, 0),
        ('u', 'c', Pd::Src(p)) | ('t', _, Pd::Src(p)) => (p, seq, 0, 0),
        ('u', 'c', Pd::Dest(p)) | ('t', _, Pd::Dest(p)) => (seq, p, 0, 0),
        ('u', 'p', Pd::Src(p)) => (p, round_port, 0, 1),
        ('u', 'p', Pd::Dest(p)) => (round_port, p, 0, 1),
        ('u', 'p', Pd::Both(a, b)) => (a, b, 0, 1),
        ('u', 'd', Pd::Src(p)) => (p, round_port, seq, 2),
        ('u', 'd', Pd::Dest(p)) => (round_port, p, seq, 2),
        ('u', 'd', Pd::Both(a, b)) => (a, b, seq, 2),
        _ => unreachable!("cell not accepted by the builder"),
    };
    mk_probe(seq, id, sp, dp, ttl, fl)
}

pub fn probe_tokens(p: &Probe) -> String {
    format!("{} {} {} {} {} {}", p.sequence.0, p.identifier.0, p.src_port.0, p.dest_port.0, p.ttl.0, p.flags.bits())
}

// ---------------------------------------------------------------- RFC 1071

/// one's complement sum (end-around carry) of big-endian 16-bit words, odd tail zero padded
pub fn ones_sum(parts: &[&[u8]]) -> u16 {
    let mut all = vec![];
    for p in parts {
        all.extend_from_slice(p);
    }
    let mut s: u64 = all.chunks(2).map(|c| (u64::from(c[0]) << 8) | u64::from(*c.get(1).unwrap_or(&0))).sum();
    while s >> 16 != 0 {
        s = (s >> 16) + (s & 0xffff);
    }
    s as u16
}

pub fn pseudo(src: IpAddr, dst: IpAddr, proto: u8, len: usize) -> Vec<u8> {
    let mut p = octets(src);
    p.extend(octets(dst));
    if src.is_ipv4() {
        p.extend([0, proto]);
        p.extend((len as u16).to_be_bytes());
    } else {
        p.extend((len as u32).to_be_bytes());
        p.extend([0, 0, 0, proto]);
    }
    p
}

fn be(b: &[u8], off: usize) -> u16 {
    u16::from_be_bytes([b[off], b[off + 1]])
}

/// the UDP checksum RFC 768 / 8200 prescribe before the zero → 0xFFFF substitution
pub fn udp_ck(cfg: &WCfg, sp: u16, dp: u16, payload: &[u8]) -> u16 {
    let mut u = vec![];
    u.extend(sp.to_be_bytes());
    u.extend(dp.to_be_bytes());
    u.extend(((8 + payload.len()) as u16).to_be_bytes());
    u.extend([0, 0]);
    u.extend(payload);
    !ones_sum(&[&pseudo(cfg.src, cfg.dst, 17, u.len()), &u])
}

// ---------------------------------------------------------------- C11 oracle

/// what was captured from one successful dispatch
#[derive(Clone, Debug, Default)]
pub struct Sent {
    pub new: Option<String>,
    pub bind: Option<(Vec<u8>, u16)>,
    pub ttl: Option<u32>,
    pub tos: Option<u32>,
    pub hops: Option<u32>,
    pub send: Option<(Vec<u8>, Vec<u8>, u16)>,
    pub conn: Option<(Vec<u8>, u16)>,
}

pub fn parse_ops(ops: &[String]) -> Sent {
    let mut s = Sent::default();
    for o in ops {
        let p: Vec<&str> = o.split(':').collect();
        let un = |h: &str| crate::util::unhex(h).unwrap_or_default();
        match p.as_slice() {
            ["new", ..] => s.new = Some(o.clone()),
            ["bind", a, port] => s.bind = Some((un(a), port.parse().unwrap_or(0))),
            ["ttl", n] => s.ttl = n.parse().ok(),
            ["tos", n] => s.tos = n.parse().ok(),
            ["hops", n] => s.hops = n.parse().ok(),
            ["send", b, a, port] => s.send = Some((un(b), un(a), port.parse().unwrap_or(0))),
            ["conn", a, port] => s.conn = Some((un(a), port.parse().unwrap_or(0))),
            _ => {}
        }
    }
    s
}

/// Check the C11 facts on the captured socket calls of one successful dispatch with an RFC 791 /
/// 768 / 792 / 4443 decoder.  `cell` says where the strategy prescribes the sequence.
pub fn c11_check(cfg: &WCfg, p: &Probe, cell: Option<&Cell>, sent: &Sent) -> Vec<(&'static str, String)> {
    let mut f: Vec<(&'static str, String)> = vec![];
    let mut bad = |k: &'static str, m: String| f.push((k, m));
    let dst = octets(cfg.dst);
    let src = octets(cfg.src);
    let ttl = u32::from(p.ttl.0);
    // which field carries the sequence is prescribed by the *configured* strategy (the cell), not by what the probe's
    // own flags claim — a probe of a Paris trace that lacks the flag is a defect, not a classic probe
    let paris = cell.map_or(p.flags.contains(Flags::PARIS_CHECKSUM), |c| c.proto == 'u' && c.strat == 'p');
    let dublin6 = cfg.v6 && !paris && cell.map_or(p.flags.contains(Flags::DUBLIN_IPV6_PAYLOAD_LENGTH), |c| c.proto == 'u' && c.strat == 'd');
    if cfg.proto == 't' {
        if sent.bind != Some((src.clone(), p.src_port.0)) { bad("c11-tcp-bind", format!("{:?}", sent.bind)); }
        if sent.conn != Some((dst.clone(), p.dest_port.0)) { bad("c11-tcp-connect", format!("{:?}", sent.conn)); }
        if cfg.v6 {
            if sent.hops != Some(ttl) { bad("c11-hop-limit", format!("{:?}", sent.hops)); }
        } else {
            if sent.ttl != Some(ttl) { bad("c11-ttl", format!("{:?}", sent.ttl)); }
            if sent.tos != Some(u32::from(cfg.tos)) { bad("c11-tos", format!("{:?}", sent.tos)); }
        }
        if let (Some(c), Some(pd)) = (cell, cell.map(|c| c.pd)) {
            let at = match pd { Pd::Src(_) => p.dest_port.0, _ => p.src_port.0 };
            if at != p.sequence.0 { bad("c11-seq-port", c.name()); }
        }
        return f;
    }
    let Some((bytes, to, to_port)) = sent.send.clone() else {
        bad("c11-no-send", String::new());
        return f;
    };
    if to != dst { bad("c11-dest", hex(&to)); }
    let hdr = cfg.ip_hdr();
    if cfg.proto == 'u' && !cfg.privileged {
        // kernel-built headers: only the socket options and the payload are ours
        if sent.bind != Some((src.clone(), p.src_port.0)) { bad("c11-udp-bind", format!("{:?}", sent.bind)); }
        if to_port != p.dest_port.0 { bad("c11-udp-port", to_port.to_string()); }
        if cfg.v6 {
            if sent.hops != Some(ttl) { bad("c11-hop-limit", format!("{:?}", sent.hops)); }
        } else {
            if sent.ttl != Some(ttl) { bad("c11-ttl", format!("{:?}", sent.ttl)); }
            if sent.tos != Some(u32::from(cfg.tos)) { bad("c11-tos", format!("{:?}", sent.tos)); }
        }
        if bytes.len() + 8 + hdr != usize::from(cfg.size) { bad("c11-size", bytes.len().to_string()); }
        if bytes.iter().any(|b| *b != cfg.pattern) { bad("c11-pattern", hex(&bytes)); }
        return f;
    }
    // raw paths: IPv4 header is ours, IPv6 header is the kernel's (hop limit via socket option)
    let l4: Vec<u8> = if cfg.v6 {
        if sent.hops != Some(ttl) { bad("c11-hop-limit", format!("{:?}", sent.hops)); }
        bytes.clone()
    } else {
        if bytes.len() < 20 { bad("c11-ip-short", hex(&bytes)); return f; }
        if bytes[0] >> 4 != 4 { bad("c11-ip-version", bytes[0].to_string()); }
        if bytes[0] & 0xf != 5 { bad("c11-ip-ihl", bytes[0].to_string()); }
        if bytes[1] != cfg.tos { bad("c11-tos", bytes[1].to_string()); }
        if usize::from(be(&bytes, 2)) != bytes.len() { bad("c11-ip-total-length", be(&bytes, 2).to_string()); }
        let fl = be(&bytes, 6);
        if fl & 0x4000 == 0 { bad("c11-df", fl.to_string()); }
        if fl & 0x2000 != 0 || fl & 0x1fff != 0 { bad("c11-frag", fl.to_string()); }
        if u32::from(bytes[8]) != ttl { bad("c11-ttl", bytes[8].to_string()); }
        let want = if cfg.proto == 'i' { 1 } else { 17 };
        if bytes[9] != want { bad("c11-ip-proto", bytes[9].to_string()); }
        if bytes[12..16] != src[..] { bad("c11-ip-src", hex(&bytes[12..16])); }
        if bytes[16..20] != dst[..] { bad("c11-dest", hex(&bytes[16..20])); }
        if cell.is_some_and(|c| c.strat == 'd') && be(&bytes, 4) != p.sequence.0 {
            bad("c11-seq-ipid", be(&bytes, 4).to_string());
        }
        bytes[20..].to_vec()
    };
    if l4.len() < 8 { bad("c11-l4-short", hex(&l4)); return f; }
    if cfg.proto == 'i' {
        let ty = if cfg.v6 { 128 } else { 8 };
        if l4[0] != ty || l4[1] != 0 { bad("c11-icmp-type", format!("{}/{}", l4[0], l4[1])); }
        let sum = if cfg.v6 { ones_sum(&[&pseudo(cfg.src, cfg.dst, 58, l4.len()), &l4]) } else { ones_sum(&[&l4]) };
        if sum != 0xffff { bad("c11-icmp-checksum", format!("{sum:04x}")); }
        if be(&l4, 4) != p.identifier.0 { bad("c11-trace-id", be(&l4, 4).to_string()); }
        if be(&l4, 6) != p.sequence.0 { bad("c11-seq-icmp", be(&l4, 6).to_string()); }
        if l4.len() + hdr != usize::from(cfg.size) { bad("c11-size", l4.len().to_string()); }
        if l4[8..].iter().any(|b| *b != cfg.pattern) { bad("c11-pattern", hex(&l4[8..])); }
        return f;
    }
    // UDP (RFC 768)
    if be(&l4, 0) != p.src_port.0 || be(&l4, 2) != p.dest_port.0 { bad("c11-udp-port", format!("{}/{}", be(&l4, 0), be(&l4, 2))); }
    if usize::from(be(&l4, 4)) != l4.len() { bad("c11-udp-length", be(&l4, 4).to_string()); }
    let sum = ones_sum(&[&pseudo(cfg.src, cfg.dst, 17, l4.len()), &l4]);
    if sum != 0xffff { bad("c11-udp-checksum", format!("{sum:04x}")); }
    // RFC 8200 §8.1: a UDP datagram over IPv6 must not carry a zero checksum (receivers discard it)
    if cfg.v6 && be(&l4, 6) == 0 {
        let why = if paris && p.sequence.0 == 0 { "paris sequence=0" } else { "computed checksum zero sent as zero" };
        bad("c11-udp6-zero-checksum", why.to_string());
    }
    if !cfg.v6 && to_port != p.dest_port.0 { bad("c11-udp-port", to_port.to_string()); }
    if paris {
        if be(&l4, 6) != p.sequence.0 { bad("c11-seq-paris", be(&l4, 6).to_string()); }
    } else if dublin6 {
        let n = usize::from(p.sequence.0.wrapping_sub(cfg.initial));
        if !l4[8..].starts_with(MAGIC) || l4.len() != 8 + 6 + n { bad("c11-seq-dublin6", l4.len().to_string()); }
        if l4[14.min(l4.len())..].iter().any(|b| *b != cfg.pattern) { bad("c11-pattern", hex(&l4[8..])); }
    } else {
        if l4.len() + hdr != usize::from(cfg.size) { bad("c11-size", l4.len().to_string()); }
        if l4[8..].iter().any(|b| *b != cfg.pattern) { bad("c11-pattern", hex(&l4[8..])); }
    }
    if let Some(c) = cell {
        if c.strat == 'c' {
            let at = match c.pd { Pd::Dest(_) => be(&l4, 0), _ => be(&l4, 2) };
            if at != p.sequence.0 { bad("c11-seq-port", at.to_string()); }
        }
    }
    f
}

// ---------------------------------------------------------------- what goes on the wire

/// The IP datagram on the wire for one dispatch.  For raw IPv4 these are the dispatched octets;
/// otherwise the kernel builds the IP (and UDP / TCP) header around what was handed to the socket —
/// a modelled assumption: addresses, ports, next header, lengths as given, everything else free.
pub fn wire_datagram(cfg: &WCfg, p: &Probe, sent: &Sent, rng: &mut Rng) -> Option<Vec<u8>> {
    let l4: Vec<u8> = match cfg.proto {
        't' => {
            let optw = rng.below(6) as usize; // 0..5 words of options
            let mut t = vec![];
            t.extend(p.src_port.0.to_be_bytes());
            t.extend(p.dest_port.0.to_be_bytes());
            t.extend(rng.bytes(8)); // sequence, acknowledgement
            t.push(((5 + optw) as u8) << 4);
            t.push(0x02); // SYN
            t.extend(rng.bytes(6)); // window, checksum, urgent
            t.extend(rng.bytes(4 * optw));
            t
        }
        'u' if !cfg.privileged => {
            let payload = &sent.send.as_ref()?.0;
            let mut u = vec![];
            u.extend(p.src_port.0.to_be_bytes());
            u.extend(p.dest_port.0.to_be_bytes());
            u.extend(((8 + payload.len()) as u16).to_be_bytes());
            u.extend([0, 0]);
            u.extend(payload);
            let ck = !ones_sum(&[&pseudo(cfg.src, cfg.dst, 17, u.len()), &u]);
            u[6..8].copy_from_slice(&ck.to_be_bytes());
            u
        }
        _ => {
            let b = &sent.send.as_ref()?.0;
            if cfg.v6 { b.clone() } else { return Some(b.clone()); }
        }
    };
    let nh = match cfg.proto { 'i' => if cfg.v6 { 58 } else { 1 }, 'u' => 17, _ => 6 };
    let mut d = vec![];
    if cfg.v6 {
        let tc = rng.next() as u8;
        d.push(0x60 | (tc >> 4));
        d.push((tc << 4) | (rng.next() as u8 & 0xf));
        d.extend(rng.bytes(2));
        d.extend((l4.len() as u16).to_be_bytes());
        d.push(nh);
        d.push(p.ttl.0);
        d.extend(octets(cfg.src));
        d.extend(octets(cfg.dst));
    } else {
        d.extend([0x45, cfg.tos]);
        d.extend(((20 + l4.len()) as u16).to_be_bytes());
        d.extend(rng.bytes(2));
        d.extend([0x40, 0, p.ttl.0, nh, 0, 0]);
        d.extend(octets(cfg.src));
        d.extend(octets(cfg.dst));
    }
    d.extend(l4);
    Some(d)
}

/// the least quotation length from which the tracer can recognise the probe
pub fn min_quote(cfg: &WCfg, dublin: bool) -> usize {
    if !cfg.v6 { 28 } else if cfg.proto == 't' { 60 } else if cfg.proto == 'u' && dublin { 54 } else { 48 }
}

/// A quotation of `datagram` as a router returns it: the first `n` octets (`n` ≥ header + 8),
/// with the fields routers change in transit rewritten (TTL / hop limit, TOS / traffic class,
/// IPv4 header checksum; some stacks also rewrite the IPv4 total length).
pub fn quote(cfg: &WCfg, datagram: &[u8], n: usize, rng: &mut Rng) -> Vec<u8> {
    let mut q = datagram[..n.min(datagram.len())].to_vec();
    if cfg.v6 {
        if rng.chance(3, 4) { q[7] = rng.next() as u8; }
        if rng.chance(1, 2) {
            let tc = rng.next() as u8;
            q[0] = 0x60 | (tc >> 4);
            q[1] = (tc << 4) | (q[1] & 0xf);
        }
    } else {
        if rng.chance(3, 4) { q[8] = *rng.pick(&[0u8, 1, 255, 7]); }
        if rng.chance(1, 2) { q[1] = rng.next() as u8; }
        let ck = rng.bytes(2);
        q[10] = ck[0];
        q[11] = ck[1];
        if rng.chance(1, 4) {
            let l = rng.bytes(2);
            q[2] = l[0];
            q[3] = l[1];
        }
    }
    q
}

/// an RFC 4884 extension structure: header (version 2) and objects; returns (bytes, object count,
/// offset of the first object's length field inside the structure)
pub fn ext_structure(rng: &mut Rng) -> (Vec<u8>, usize) {
    let mut e = vec![0x20, 0, 0, 0];
    let n = rng.range(1, 3) as usize;
    for _ in 0..n {
        if rng.chance(2, 3) {
            let m = rng.range(1, 3) as usize;
            e.extend(((4 + 4 * m) as u16).to_be_bytes());
            e.extend([1, 1]);
            for i in 0..m {
                let label = rng.below(1 << 20) as u32;
                let bos = u32::from(i == m - 1);
                let w = (label << 12) | ((rng.below(8) as u32) << 9) | (bos << 8) | (rng.below(256) as u32);
                e.extend(w.to_be_bytes());
            }
        } else {
            let pl = rng.below(9) as usize;
            e.extend(((4 + pl) as u16).to_be_bytes());
            e.push(*rng.pick(&[2u8, 3, 0x99]));
            e.push(rng.next() as u8);
            e.extend(rng.bytes(pl));
        }
    }
    let ck = !ones_sum(&[&e]);
    e[2..4].copy_from_slice(&ck.to_be_bytes());
    (e, n)
}

#[derive(Clone, Copy, Debug, PartialEq)]
pub enum ExtMode {
    None,
    Compliant,
    Legacy,
}

/// ICMP error body: (length attribute, body octets) for a quotation, per RFC 4884 §4 / §5.5
pub fn icmp_body(v6: bool, q: &[u8], mode: ExtMode, ext: &[u8]) -> (u8, Vec<u8>) {
    let unit = if v6 { 8 } else { 4 };
    match mode {
        ExtMode::None => (0, q.to_vec()),
        ExtMode::Compliant => {
            let padded = q.len().div_ceil(unit).max(128 / unit) * unit;
            let mut b = q.to_vec();
            b.resize(padded, 0);
            b.extend_from_slice(ext);
            ((padded / unit) as u8, b)
        }
        ExtMode::Legacy => {
            let mut b = q[..q.len().min(128)].to_vec();
            b.resize(128, 0);
            b.extend_from_slice(ext);
            (0, b)
        }
    }
}

/// an ICMP Time Exceeded / Destination Unreachable / Echo Reply message (without IP header)
pub fn icmp_message(cfg: &WCfg, ty: u8, code: u8, len_attr: u8, body: &[u8], responder: IpAddr) -> Vec<u8> {
    let mut m = if cfg.v6 { vec![ty, code, 0, 0, len_attr, 0, 0, 0] } else { vec![ty, code, 0, 0, 0, len_attr, 0, 0] };
    m.extend_from_slice(body);
    let ck = if cfg.v6 {
        !ones_sum(&[&pseudo(responder, cfg.src, 58, m.len()), &m])
    } else {
        !ones_sum(&[&m])
    };
    m[2..4].copy_from_slice(&ck.to_be_bytes());
    m
}

/// what the receive socket delivers: IPv4 = outer IP header + ICMP, IPv6 = ICMPv6 only
pub fn deliver(cfg: &WCfg, icmp: &[u8], responder: IpAddr, rng: &mut Rng) -> Vec<u8> {
    if cfg.v6 {
        return icmp.to_vec();
    }
    // the responder's own IPv4 header: now and then with options (RFC 791: security labels, NOP padding,
    // record route, …) — legal, and the ICMP message then starts at IHL*4, not at 20
    let words = if rng.chance(1, 4) { rng.range(1, 10) as usize } else { 0 };
    let hl = 20 + 4 * words;
    let mut d = vec![0x40 | (hl / 4) as u8, rng.next() as u8];
    d.extend(((hl + icmp.len()) as u16).to_be_bytes());
    d.extend(rng.bytes(2));
    d.extend([0, 0, rng.range(1, 255) as u8, 1, 0, 0]);
    d.extend(octets(responder));
    d.extend(octets(cfg.src));
    for w in 0..words {
        // NOP padding, a 4-octet option of an arbitrary class (type, length 4, two octets of data), or end-of-list
        match (w + rng.below(3) as usize) % 3 {
            0 => d.extend([1, 1, 1, 1]),
            1 => { d.extend([0x82, 4]); d.extend(rng.bytes(2)); }
            _ => d.extend([1, 1, 1, 0]),
        }
    }
    let ck = !ones_sum(&[&d]);
    d[10..12].copy_from_slice(&ck.to_be_bytes());
    d.extend_from_slice(icmp);
    d
}

pub fn ty_te(v6: bool) -> u8 { if v6 { 3 } else { 11 } }
pub fn ty_du(v6: bool) -> u8 { if v6 { 1 } else { 3 } }
pub fn ty_er(v6: bool) -> u8 { if v6 { 129 } else { 0 } }

// ---------------------------------------------------------------- C02 oracle

/// `Strategy::validate` + `ProtocolStrategyResponse::from` restated from the documentation of the
/// strategies: is the response accepted for `cell`, and which (trace id, sequence) does it carry
pub fn recover(cfg: &WCfg, cell: &Cell, r: &Response) -> Option<(u16, u16)> {
    match &r.data().proto_resp {
        ProtocolResponse::Icmp(i) => Some((i.identifier, i.sequence)),
        ProtocolResponse::Udp(u) => {
            if u.dest_addr != cfg.dst { return None; }
            let ports = match cell.pd {
                Pd::Src(s) => s == u.src_port,
                Pd::Dest(d) => d == u.dest_port,
                Pd::Both(s, d) => s == u.src_port && d == u.dest_port,
                Pd::None => false,
            };
            if !ports { return None; }
            if cell.strat == 'd' && cfg.v6 && !u.has_magic { return None; }
            let seq = match (cell.strat, cell.pd, cfg.v6) {
                ('c', Pd::Dest(_), _) => u.src_port,
                ('c', _, _) => u.dest_port,
                ('p', _, _) => u.actual_udp_checksum,
                ('d', _, false) => u.identifier,
                _ => cfg.initial.wrapping_add(u.payload_len),
            };
            Some((0, seq))
        }
        ProtocolResponse::Tcp(t) => {
            if t.dest_addr != cfg.dst { return None; }
            let ports = match cell.pd {
                Pd::Src(s) => s == t.src_port,
                Pd::Dest(d) => d == t.dest_port,
                _ => false,
            };
            if !ports { return None; }
            Some((0, match cell.pd { Pd::Src(_) => t.dest_port, _ => t.src_port }))
        }
    }
}
