//! Generators of the `wire` component (see `wire.rs`).
use crate::util::{Rng, Run};
use crate::wire::*;
use crate::wire_enc::*;
use std::net::{IpAddr, Ipv4Addr, Ipv6Addr};
use trippy_core::verif::Response;
use trippy_core::Probe;

fn carry_addr(v6: bool, rng: &mut Rng) -> IpAddr {
    let total = *rng.pick(&crate::cksum::CARRY_SUMS);
    addr_from(&crate::cksum::addr_with_word_sum(rng, if v6 { 8 } else { 2 }, total))
}

pub fn addr_pairs(v6: bool, rng: &mut Rng) -> Vec<(IpAddr, IpAddr)> {
    if v6 {
        vec![
            (IpAddr::V6(Ipv6Addr::new(0xfd00, 0, 0, 0, 0, 0, 0, 1)), IpAddr::V6(Ipv6Addr::new(0xfd00, 0, 0, 0, 0, 0, 0, 7))),
            (IpAddr::V6(Ipv6Addr::from([0xff; 16])), IpAddr::V6(Ipv6Addr::new(0xffff, 0xffff, 0xffff, 0xffff, 0xffff, 0xffff, 0xffff, 0xfffe))),
            (IpAddr::V6(Ipv6Addr::from(<[u8; 16]>::try_from(rng.bytes(16)).unwrap())), IpAddr::V6(Ipv6Addr::from(<[u8; 16]>::try_from(rng.bytes(16)).unwrap()))),
            // word sums at which the pseudo-header accumulator changes its carry pattern
            (carry_addr(true, rng), carry_addr(true, rng)),
        ]
    } else {
        vec![
            (IpAddr::V4(Ipv4Addr::new(10, 0, 0, 1)), IpAddr::V4(Ipv4Addr::new(10, 0, 0, 7))),
            (IpAddr::V4(Ipv4Addr::new(255, 255, 255, 254)), IpAddr::V4(Ipv4Addr::new(255, 255, 255, 255))),
            (IpAddr::V4(Ipv4Addr::from(rng.next() as u32)), IpAddr::V4(Ipv4Addr::from(rng.next() as u32))),
            (carry_addr(false, rng), carry_addr(false, rng)),
        ]
    }
}

fn base_cfg(v6: bool, cell: &Cell, rng: &mut Rng) -> WCfg {
    let (src, dst) = addr_pairs(v6, rng)[0];
    WCfg { v6, src, dst, size: 84, pattern: 0, privileged: true, tos: 0, proto: cell.proto, ext: false, initial: 33434 }
}

/// the UDP checksum `make_udp_packet` computes for the Paris payload (restated)
fn paris_ck(cfg: &WCfg, p: &Probe) -> u16 {
    let mut u = vec![];
    u.extend(p.src_port.0.to_be_bytes());
    u.extend(p.dest_port.0.to_be_bytes());
    u.extend(10u16.to_be_bytes());
    u.extend([0, 0]);
    u.extend(p.sequence.0.to_be_bytes());
    !ones_sum(&[&pseudo(cfg.src, cfg.dst, 17, 10), &u])
}

/// sequences for a cell: boundaries, carry-producing ones for Paris, random
fn sequences(cfg: &WCfg, cell: &Cell, rng: &mut Rng, n_random: usize) -> Vec<u16> {
    let mut v: Vec<u16> = if cell.strat == 'd' && cfg.v6 {
        let i = cfg.initial;
        vec![i, i + 1, i + 2, i + 255, i + 256, i + 511, i + 512]
    } else {
        vec![0, 1, 255, 256, 0x7fff, 0x8000, 33434, 64511, 65023, 65534, 65535]
    };
    if cell.strat == 'p' {
        // sequences whose computed checksum is 0x0000 / 0xffff / 0x0001 / produce end-around carries
        let mut found = 0;
        for s in 0..=65535u16 {
            let p = probe_for(cell, cfg.initial, 0, s, 0, 1);
            let ck = paris_ck(cfg, &p);
            if ck == 0 || ck == 0xffff || ck == 1 || ck == 0xfffe {
                v.push(s);
                found += 1;
                if found > 6 { break; }
            }
        }
    }
    for _ in 0..n_random {
        v.push(if cell.strat == 'd' && cfg.v6 { cfg.initial + rng.below(513) as u16 } else { rng.next() as u16 });
    }
    v
}

pub fn gen_send(run: &mut Run, rng: &mut Rng, thorough: bool) {
    let toss = [0u8, 1, 0xfc, 0xff];
    let pats = [0u8, 0x55, 0xff];
    let ttls = [1u8, 2, 254];
    let cs = cells(rng);
    let mut k = 0usize;
    for v6 in [false, true] {
        let min = if v6 { 48u16 } else { 28 };
        let sizes = [min, min + 1, 61, 84, 1023, 1024, min - 1, 1025, 0, 65535, 200 + rng.below(700) as u16];
        let pairs = addr_pairs(v6, rng);
        for cell in &cs {
            for privileged in [true, false] {
                if !privileged && cell.proto != 'u' {
                    continue;
                }
                for size in sizes {
                    let combos = if thorough { 12 } else { 4 };
                    for _ in 0..combos {
                        k += 1;
                        let (src, dst) = pairs[k % pairs.len()];
                        let initial = *rng.pick(&[0u16, 1, 33434, 64511]);
                        let cfg = WCfg {
                            v6, src, dst, size, pattern: pats[k % 3], privileged, tos: toss[(k / 3) % 4],
                            proto: cell.proto, ext: false, initial,
                        };
                        let seqs = sequences(&cfg, cell, rng, 2);
                        let take = if thorough { seqs.len() } else { 3 };
                        for j in 0..take {
                            let seq = seqs[(k + j * 5) % seqs.len()];
                            let ttl = ttls[(k + j) % 3];
                            let p = probe_for(cell, initial, *rng.pick(&[0u16, 1, 1234, 65535]), seq, rng.below(4) as usize, ttl);
                            op_send(run, &cfg, &p, Some(cell));
                        }
                    }
                }
            }
        }
    }
    // every listed sequence (incl. the carry-producing ones) once per Paris / Dublin cell
    for v6 in [false, true] {
        for cell in cs.iter().filter(|c| c.strat != 'c' && c.proto == 'u') {
            for (src, dst) in addr_pairs(v6, rng) {
                let mut cfg = base_cfg(v6, cell, rng);
                cfg.src = src;
                cfg.dst = dst;
                cfg.size = if v6 { 48 } else { 28 } + rng.below(40) as u16;
                cfg.pattern = rng.next() as u8;
                cfg.tos = rng.next() as u8;
                for seq in sequences(&cfg, cell, rng, 4) {
                    let p = probe_for(cell, cfg.initial, 0, seq, 0, rng.range(1, 254) as u8);
                    op_send(run, &cfg, &p, Some(cell));
                }
            }
        }
    }
    // UDP/IPv6 probes whose checksum *computes* to 0x0000 (classic and Dublin), found by search:
    // RFC 8200 §8.1 wants 0xFFFF on the wire
    {
        let v6 = true;
        let pairs = addr_pairs(v6, rng);
        let mut hits = 0;
        for (src, dst) in pairs {
            for size in [48u16, 84] {
                // classic: the variable port is the sequence
                for cell in cs.iter().filter(|c| c.proto == 'u' && c.strat == 'c') {
                    let cfg = WCfg { src, dst, size, pattern: rng.next() as u8, tos: rng.next() as u8, ..base_cfg(v6, cell, rng) };
                    let payload = vec![cfg.pattern; usize::from(size) - 48];
                    for seq in 0..=65535u16 {
                        let p = probe_for(cell, cfg.initial, 0, seq, 0, 3);
                        if udp_ck(&cfg, p.src_port.0, p.dest_port.0, &payload) == 0 {
                            op_send(run, &cfg, &p, Some(cell));
                            hits += 1;
                            break;
                        }
                    }
                }
            }
            // Dublin: ports are fixed, the payload (marker + pattern × (sequence − initial)) varies
            for cell in cs.iter().filter(|c| c.proto == 'u' && c.strat == 'd') {
                'search: for pattern in 0..=255u8 {
                    let cfg = WCfg { src, dst, size: 48, pattern, ..base_cfg(v6, cell, rng) };
                    for delta in 0..=512u16 {
                        let p = probe_for(cell, cfg.initial, 0, cfg.initial + delta, 0, 3);
                        let mut payload = MAGIC.to_vec();
                        payload.extend(std::iter::repeat(pattern).take(usize::from(delta)));
                        if udp_ck(&cfg, p.src_port.0, p.dest_port.0, &payload) == 0 {
                            op_send(run, &cfg, &p, Some(cell));
                            hits += 1;
                            break 'search;
                        }
                    }
                }
            }
        }
        *run.stats.entry("gen:udp6-computed-zero".into()).or_default() += hits;
    }
    // probes the strategy does not emit (arbitrary flags / ports / ttl 0 and 255; Dublin/IPv6
    // sequences outside the window): model agreement only
    for _ in 0..if thorough { 4000 } else { 600 } {
        let v6 = rng.chance(1, 2);
        let cell = *rng.pick(&cs);
        let mut cfg = base_cfg(v6, &cell, rng);
        cfg.privileged = rng.chance(3, 4);
        cfg.size = *rng.pick(&[28u16, 48, 50, 84, 100]);
        cfg.pattern = rng.next() as u8;
        cfg.tos = rng.next() as u8;
        cfg.initial = *rng.pick(&[0u16, 33434, 65000, 65535]);
        let seq = match rng.below(4) {
            0 => cfg.initial.wrapping_sub(1 + rng.below(3) as u16),
            1 => cfg.initial.wrapping_add(960 + rng.below(20) as u16),
            2 => cfg.initial.wrapping_add(rng.below(970) as u16),
            _ => rng.next() as u16,
        };
        let p = mk_probe(seq, rng.next() as u16, rng.next() as u16, rng.next() as u16, *rng.pick(&[0u8, 1, 64, 255]), rng.below(4) as u32);
        op_send(run, &cfg, &p, None);
    }
    // calc_udp_checksum against the dispatched checksum (C19 wire half) and on arbitrary lengths
    for _ in 0..if thorough { 3000 } else { 400 } {
        let cell = Cell { proto: 'u', strat: 'd', pd: Pd::Both(rng.next() as u16, rng.next() as u16) };
        let mut cfg = base_cfg(false, &cell, rng);
        let pairs = addr_pairs(false, rng);
        let (s, d) = *rng.pick(&pairs);
        cfg.src = s;
        cfg.dst = d;
        cfg.size = *rng.pick(&[28u16, 29, 30, 61, 84, 1023, 1024]);
        cfg.pattern = rng.next() as u8;
        let p = probe_for(&cell, cfg.initial, 0, rng.next() as u16, 0, 5);
        if let Some(sent) = op_send(run, &cfg, &p, Some(&cell)) {
            let b = &sent.send.as_ref().unwrap().0;
            let dispatched = u16::from_be_bytes([b[26], b[27]]);
            let plen = cfg.size - 28;
            if op_cksum(run, &cfg, p.src_port.0, p.dest_port.0, plen) != Some(dispatched) {
                run.fail("c19-expected-checksum", format!("{} {}", cfg.tokens(), probe_tokens(&p)));
            }
        }
        let r16 = rng.next() as u16;
        let plen = *rng.pick(&[0u16, 1, 995, 996, 997, 1000, 65535, r16]);
        op_cksum(run, &cfg, rng.next() as u16, rng.next() as u16, plen);
    }
    if thorough {
        // every sequence for one Paris cell per family and one Dublin/IPv4 cell; a 1/16 sample of the others
        for v6 in [false, true] {
            for cell in cs.iter().filter(|c| c.proto == 'u' && c.strat != 'c') {
                if cell.strat == 'd' && v6 {
                    continue;
                }
                let cfg = WCfg { size: if v6 { 48 } else { 28 }, pattern: 0xa5, tos: 0x28, ..base_cfg(v6, cell, rng) };
                let full = matches!(cell.pd, Pd::Src(_));
                for seq in 0..=65535u16 {
                    if full || seq % 16 == (cfg.tos as u16 + seq / 16) % 16 {
                        let p = probe_for(cell, cfg.initial, 0, seq, usize::from(seq % 3), 1 + (seq % 254) as u8);
                        op_send(run, &cfg, &p, Some(cell));
                    }
                }
            }
        }
    }
    // Dublin/IPv6: the payload length is sequence - initial sequence.  The strategy restarts the sequence
    // between rounds once it has reached initial + 512, and a round adds at most 254 numbers: every offset
    // up to 765 can reach the wire and must be dispatched (C07: it fits the packet buffer); beyond that the
    // model and the code only have to agree.  Quick: the boundaries; thorough: the whole window.
    for cell in cs.iter().filter(|c| c.proto == 'u' && c.strat == 'd') {
        for initial in [0u16, 33434, 64511] {
            let cfg = WCfg { size: 48, pattern: 0x5a, initial, ..base_cfg(true, cell, rng) };
            let offsets: Vec<u16> = if thorough { (0..=970).collect() } else {
                (0..=3).chain(254..=258).chain(505..=520).chain([600, 700, 764, 765, 766, 969, 970]).collect()
            };
            for d in offsets {
                let p = probe_for(cell, initial, 0, initial + d, 0, 9);
                let before = run.oracle_failures.len();
                op_send(run, &cfg, &p, if d <= 765 { Some(cell) } else { None });
                if d <= 765 && run.oracle_failures.len() > before && run.oracle_failures[before..].iter().any(|f| f.0 == "c11-panic") {
                    run.fail("c07-dublin-payload-panic", format!("Dublin/IPv6 probe with sequence offset {d} (initial {initial}) cannot be dispatched: {}", run.oracle_failures[before].1));
                }
            }
        }
    }
}

pub fn gen_set_payload(run: &mut Run, rng: &mut Rng, thorough: bool) {
    use trippy_packet::{icmpv4, icmpv6, ipv4::Ipv4Packet, ipv6::Ipv6Packet, tcp::TcpPacket, udp::UdpPacket};
    let kinds = ["ipv4", "ipv6", "udp", "tcp", "echoreq4", "echorep4", "echoreq6", "echorep6"];
    for kind in kinds {
        for _ in 0..if thorough { 2000 } else { 200 } {
            let min = match kind { "ipv4" | "tcp" => 20, "ipv6" => 40, _ => 8 };
            let len = min + rng.below(100) as usize;
            let mut b = rng.bytes(len);
            // a header that fits the buffer, so that a payload of the remaining length fits as well
            let hdr = match kind {
                "ipv4" => { let ihl = rng.range(5, ((len / 4).min(15)) as u64) as u8; b[0] = 0x40 | ihl; usize::from(ihl) * 4 }
                "tcp" => { let off = rng.range(5, ((len / 4).min(15)) as u64) as u8; b[12] = off << 4; usize::from(off) * 4 }
                "ipv6" => { let pl = (len - 40) as u16; b[4] = (pl >> 8) as u8; b[5] = pl as u8; 40 }
                _ => 8,
            };
            let n = rng.below((len - hdr) as u64 + 1) as usize;
            let vals = rng.bytes(n);
            let desc = format!("set_payload {kind} buf={} vals={}", crate::util::hex(&b), crate::util::hex(&vals));
            let r = crate::util::guarded(|| -> Option<Vec<u8>> {
                let mut m = b.clone();
                Some(match kind {
                    "ipv4" => { let mut v = Ipv4Packet::new(&mut m).ok()?; v.set_payload(&vals); v.payload().to_vec() }
                    "ipv6" => { let mut v = Ipv6Packet::new(&mut m).ok()?; v.set_payload(&vals); v.payload().to_vec() }
                    "udp" => { let mut v = UdpPacket::new(&mut m).ok()?; v.set_payload(&vals); v.payload().to_vec() }
                    "tcp" => { let mut v = TcpPacket::new(&mut m).ok()?; v.set_payload(&vals); v.payload().to_vec() }
                    "echoreq4" => { let mut v = icmpv4::echo_request::EchoRequestPacket::new(&mut m).ok()?; v.set_payload(&vals); v.payload().to_vec() }
                    "echorep4" => { let mut v = icmpv4::echo_reply::EchoReplyPacket::new(&mut m).ok()?; v.set_payload(&vals); v.payload().to_vec() }
                    "echoreq6" => { let mut v = icmpv6::echo_request::EchoRequestPacket::new(&mut m).ok()?; v.set_payload(&vals); v.payload().to_vec() }
                    _ => { let mut v = icmpv6::echo_reply::EchoReplyPacket::new(&mut m).ok()?; v.set_payload(&vals); v.payload().to_vec() }
                })
            });
            run.count("set-payload");
            match r {
                Err(loc) => run.fail("c04-accessor-panic", format!("{desc} ({loc})")),
                Ok(Some(p)) => {
                    if p.len() < vals.len() || p[..vals.len()] != vals[..] {
                        run.fail("c12-payload-readback", desc);
                    }
                }
                Ok(None) => {}
            }
        }
    }
}

pub fn gen_slice(run: &mut Run, rng: &mut Rng, thorough: bool) {
    let lens: Vec<usize> = (0..=72).chain([96, 128, 255, 256, 300]).collect();
    for (acc, min) in ACCESSORS {
        // the octets that steer the slice bounds × every length
        for &len in lens.iter().filter(|l| **l >= min) {
            let steer: Vec<Vec<(usize, u8)>> = match acc {
                "ipv4Payload" | "ipv4OptionsRaw" | "ipv4OptionsRawMut" => (0..16u8).map(|i| vec![(0, 0x40 | i)]).collect(),
                "tcpPayload" | "tcpOptionsRaw" => (0..16u8).map(|i| vec![(12, i << 4)]).collect(),
                "ipv6Payload" => {
                    let mut v: Vec<u16> = (0..=40).collect();
                    v.extend([255, 256, 65535, 65534, len as u16, (len as u16).wrapping_sub(40), (len as u16).wrapping_sub(39)]);
                    v.into_iter().map(|p| vec![(4, (p >> 8) as u8), (5, p as u8)]).collect()
                }
                _ => vec![vec![]],
            };
            for st in steer {
                let mut b = rng.bytes(len);
                for (i, x) in st {
                    b[i] = x;
                }
                op_slice(run, acc, &b);
            }
        }
        for _ in 0..if thorough { 3000 } else { 300 } {
            let len = min + rng.below(120) as usize;
            op_slice(run, acc, &rng.bytes(len));
        }
    }
}


// ---------------------------------------------------------------- receive path

/// a dispatched probe and the datagram it puts on the wire
pub struct Built {
    pub cfg: WCfg,
    pub cell: Cell,
    pub probe: Probe,
    pub datagram: Vec<u8>,
}

pub fn responder(v6: bool, rng: &mut Rng) -> IpAddr {
    if v6 {
        IpAddr::V6(Ipv6Addr::from(<[u8; 16]>::try_from(rng.bytes(16)).unwrap()))
    } else {
        IpAddr::V4(Ipv4Addr::from(rng.next() as u32 | 0x0100_0000))
    }
}

/// dispatch one probe of `cell` through the real code and reconstruct the wire datagram
pub fn build(run: &mut Run, rng: &mut Rng, v6: bool, cell: &Cell, privileged: bool, ext: bool, size: u16) -> Option<Built> {
    let pairs = addr_pairs(v6, rng);
    let (src, dst) = *rng.pick(&pairs);
    let initial = *rng.pick(&[0u16, 33434, 64511]);
    let cfg = WCfg { v6, src, dst, size, pattern: rng.next() as u8, privileged, tos: rng.next() as u8, proto: cell.proto, ext, initial };
    let seq = if cell.strat == 'd' && v6 { initial + rng.below(513) as u16 } else { *rng.pick(&[0u16, 1, 33434, 65535, rng.0 as u16]) };
    let probe = probe_for(cell, initial, *rng.pick(&[1u16, 1234, 65535]), seq, rng.below(3) as usize, rng.range(1, 254) as u8);
    let sent = op_send(run, &cfg, &probe, Some(cell))?;
    let datagram = wire_datagram(&cfg, &probe, &sent, rng)?;
    Some(Built { cfg, cell: *cell, probe, datagram })
}

/// C02: the response to a genuine quotation must be accepted and carry the probe's sequence
fn expect_match(run: &mut Run, b: &Built, out: &RecvOut, what: &str, kind: &str, code: u8, from: IpAddr, ext_objs: Option<usize>, unmodified: bool) {
    let desc = || format!("{what} cell={} cfg=[{}] probe=[{}]", b.cell.name(), b.cfg.tokens(), probe_tokens(&b.probe));
    let RecvOut::Resp(Some(r)) = out else {
        run.fail("c02-not-recognised", desc());
        return;
    };
    let (k, c, exts) = match r {
        Response::TimeExceeded(_, c, e) => ("te", c.0, e.as_ref()),
        Response::DestinationUnreachable(_, c, e) => ("du", c.0, e.as_ref()),
        Response::EchoReply(_, c) => ("er", c.0, None),
        _ => ("tcp", 0, None),
    };
    if k != kind || c != code { run.fail("c02-kind", desc()); }
    if r.data().addr != from { run.fail("c02-responder", desc()); }
    let want_id = if b.cfg.proto == 'i' { b.probe.identifier.0 } else { 0 };
    match recover(&b.cfg, &b.cell, r) {
        Some((id, seq)) if id == want_id && seq == b.probe.sequence.0 => run.count("c02-matched"),
        other => run.fail("c02-sequence", format!("{} recovered={other:?}", desc())),
    }
    if let Some(n) = ext_objs {
        match (b.cfg.ext, exts) {
            (true, Some(e)) if e.extensions.len() == n => {}
            (false, None) => {}
            _ => {
                run.fail("c02-extensions", desc());
                // the same fact is C14's through the receive path: the objects of a well-formed extension structure
                // reach the response (as many as were encoded)
                run.fail("c14-wire-extensions", desc());
            }
        }
    }
    if unmodified && b.cell.strat == 'd' && !b.cfg.v6 {
        if let trippy_core::verif::ProtocolResponse::Udp(u) = &r.data().proto_resp {
            let dispatched = u16::from_be_bytes([b.datagram[26], b.datagram[27]]);
            if u.expected_udp_checksum != dispatched || u.actual_udp_checksum != dispatched {
                run.fail("c19-checksum", desc());
            }
        }
    }
}

/// C02 negative half: a quotation of a datagram this tracer did not send must not be accepted
fn expect_reject(run: &mut Run, b: &Built, out: &RecvOut, what: &str) {
    if let RecvOut::Resp(Some(r)) = out {
        if recover(&b.cfg, &b.cell, r).is_some() {
            run.fail("c02-foreign-accepted", format!("{what} cell={} cfg=[{}] probe=[{}]", b.cell.name(), b.cfg.tokens(), probe_tokens(&b.probe)));
        }
    }
    run.count("c02-rejected");
}

fn quote_lengths(b: &Built, thorough: bool) -> Vec<usize> {
    let min = min_quote(&b.cfg, b.cell.strat == 'd');
    let full = b.datagram.len();
    let mut v: Vec<usize> = (min..=min + if thorough { 24 } else { 9 }).collect();
    v.extend([64, 100, 127, 128, 129, 131, 132, 133, 136, 200, 576, full - 1, full]);
    v.retain(|n| *n >= min && *n <= full);
    v.sort_unstable();
    v.dedup();
    v
}

struct Msg {
    bytes: Vec<u8>,
    from: IpAddr,
    /// offset of the ICMP header in `bytes`
    icmp: usize,
    /// offset of the extension structure, if any
    ext: Option<usize>,
}

fn message(b: &Built, q: &[u8], ty: u8, code: u8, mode: ExtMode, ext: &[u8], rng: &mut Rng) -> Msg {
    let from = responder(b.cfg.v6, rng);
    let (len_attr, body) = icmp_body(b.cfg.v6, q, mode, ext);
    let icmp = icmp_message(&b.cfg, ty, code, len_attr, &body, from);
    let bytes = deliver(&b.cfg, &icmp, from, rng);
    let off = if b.cfg.v6 { 0 } else { usize::from(bytes[0] & 0xf) * 4 };
    let ext_off = if mode == ExtMode::None { None } else { Some(off + 8 + body.len() - ext.len()) };
    Msg { bytes, from, icmp: off, ext: ext_off }
}

fn genuine(run: &mut Run, rng: &mut Rng, b: &Built, thorough: bool) {
    let v6 = b.cfg.v6;
    for n in quote_lengths(b, thorough) {
        for mode in [ExtMode::None, ExtMode::Compliant, ExtMode::Legacy] {
            let (ty, code, kind) = if rng.chance(2, 3) { (ty_te(v6), 0, "te") } else { (ty_du(v6), rng.below(16) as u8, "du") };
            let q = quote(&b.cfg, &b.datagram, n, rng);
            let (ext, nobj) = ext_structure(rng);
            let m = message(b, &q, ty, code, mode, &ext, rng);
            let out = op_recv(run, &b.cfg, Some(m.from), &m.bytes);
            // without RFC 4884 structure the tracer may still see "extensions" in a long quotation
            // (nor can RFC 4884 express an ICMPv4 quotation above 1020 octets; and whatever exceeds
            // the tracer's 1024-octet receive buffer is cut off)
            let unit = if v6 { 8 } else { 4 };
            let fits = m.bytes.len() <= 1024 && (mode != ExtMode::Compliant || q.len().div_ceil(unit) <= 255);
            let ext_objs = if mode == ExtMode::None || !fits { None } else { Some(nobj) };
            let unmodified = n == b.datagram.len();
            expect_match(run, b, &out, &format!("quote n={n} {mode:?} {kind}"), kind, code, m.from, ext_objs, unmodified);
        }
    }
    // Echo Reply from the target (ICMP): identifier, sequence and payload echoed
    if b.cfg.proto == 'i' {
        let l4 = &b.datagram[b.cfg.ip_hdr()..];
        let m = {
            let from = b.cfg.dst;
            let icmp = icmp_message(&b.cfg, ty_er(v6), 0, if v6 { l4[4] } else { l4[5] }, &l4[8..], from);
            let mut icmp = icmp;
            icmp[4..8].copy_from_slice(&l4[4..8]);
            Msg { bytes: deliver(&b.cfg, &icmp, from, rng), from, icmp: 0, ext: None }
        };
        let out = op_recv(run, &b.cfg, Some(m.from), &m.bytes);
        expect_match(run, b, &out, "echo reply", "er", 0, m.from, None, false);
    }
    // Time Exceeded with a code other than "TTL expired" is ignored
    {
        let q = quote(&b.cfg, &b.datagram, b.datagram.len(), rng);
        let m = message(b, &q, ty_te(v6), 1 + rng.below(3) as u8, ExtMode::None, &[], rng);
        if let RecvOut::Resp(Some(_)) = op_recv(run, &b.cfg, Some(m.from), &m.bytes) {
            run.fail("c02-te-code", format!("cfg=[{}]", b.cfg.tokens()));
        }
    }
    // foreign quotations
    let ih = b.cfg.ip_hdr();
    let mut foreign: Vec<(&str, Vec<u8>)> = vec![];
    if b.cfg.proto != 'i' {
        let mut q = b.datagram.clone();
        let d = if v6 { 24 + 15 } else { 16 + 3 };
        q[d] ^= 1 << rng.below(8);
        foreign.push(("other destination", q));
        let fixed: Vec<usize> = match b.cell.pd { Pd::Src(_) => vec![ih], Pd::Dest(_) => vec![ih + 2], Pd::Both(..) => vec![ih, ih + 2], Pd::None => vec![] };
        for f in fixed {
            let mut q = b.datagram.clone();
            q[f + rng.below(2) as usize] ^= 1 << rng.below(8);
            foreign.push(("other fixed port", q));
        }
        if b.cell.strat == 'd' && v6 {
            let mut q = b.datagram.clone();
            q[ih + 8 + rng.below(6) as usize] ^= 0x20;
            foreign.push(("no magic", q));
        }
    }
    {
        let mut q = b.datagram.clone();
        let pos = if v6 { 6 } else { 9 };
        let own = q[pos];
        q[pos] = if rng.chance(1, 2) {
            *rng.pick(&[1u8, 6, 17, 58, 47, 0].iter().filter(|x| **x != own).copied().collect::<Vec<_>>())
        } else {
            // any other protocol number (UDP-Lite 136, SCTP 132, DCCP 33, … are datagrams the tracer never sends)
            let mut p = rng.below(256) as u8;
            if p == own { p = p.wrapping_add(1); }
            p
        };
        foreign.push(("other protocol", q));
        // the first time for each protocol and family, and now and then afterwards: every protocol number
        let first = SWEPT.with(|sw| sw.borrow_mut().insert((b.cfg.proto, v6)));
        if first || rng.chance(1, 64) {
            run.count("foreign:protocol-sweep");
            for p in 0..=255u8 {
                if p != own {
                    let mut q = b.datagram.clone();
                    q[pos] = p;
                    foreign.push(("other protocol", q));
                }
            }
        }
    }
    for (what, d) in foreign {
        let q = quote(&b.cfg, &d, d.len(), rng);
        let m = message(b, &q, ty_te(v6), 0, ExtMode::None, &[], rng);
        let out = op_recv(run, &b.cfg, Some(m.from), &m.bytes);
        if what == "other protocol" {
            if !matches!(out, RecvOut::Resp(None)) { run.fail("c02-foreign-accepted", format!("{what} {} cfg=[{}]", d[if v6 { 6 } else { 9 }], b.cfg.tokens())); }
        } else {
            expect_reject(run, b, &out, what);
        }
    }
}

thread_local! {
    static SWEPT: std::cell::RefCell<std::collections::HashSet<(char, bool)>> = std::cell::RefCell::new(std::collections::HashSet::new());
}

/// structure-aware mutation of a valid message
fn mutate(run: &mut Run, rng: &mut Rng, b: &Built, rounds: usize) {
    let v6 = b.cfg.v6;
    for _ in 0..rounds {
        let n = rng.range(min_quote(&b.cfg, false) as u64, b.datagram.len().min(300) as u64) as usize;
        let q = quote(&b.cfg, &b.datagram, n, rng);
        let (ext, _) = ext_structure(rng);
        let mode = *rng.pick(&[ExtMode::None, ExtMode::Compliant, ExtMode::Legacy]);
        let ty = *rng.pick(&[ty_te(v6), ty_du(v6)]);
        let m = message(b, &q, ty, 0, mode, &ext, rng);
        let mut x = m.bytes.clone();
        let inner = m.icmp + 8;
        let ih = b.cfg.ip_hdr();
        for _ in 0..rng.range(1, 3) {
            let mut spots = vec![m.icmp, m.icmp + 1, m.icmp + 4, m.icmp + 5, inner, inner + 4, inner + 5, inner + 6, inner + 9, inner + ih + 4, inner + ih + 5, inner + ih + 12];
            if !v6 { spots.extend([0, 2, 3, 9]); }
            if let Some(e) = m.ext { spots.extend([e, e + 4, e + 5, e + 6, e + 8, e + 9]); }
            match rng.below(6) {
                0 | 1 => { let s = *rng.pick(&spots); if s < x.len() { x[s] = *rng.pick(&[0u8, 1, 4, 5, 0x0f, 0x40, 0x4f, 0xf0, 0xff, rng.0 as u8]); } }
                2 => { let i = rng.below(x.len() as u64) as usize; x[i] ^= 1 << rng.below(8); }
                3 => { let l = rng.below(x.len() as u64 + 1) as usize; x.truncate(l); }
                4 => { let extra = rng.below(40) as usize; x.extend(rng.bytes(extra)); }
                _ => { let i = rng.below(x.len() as u64) as usize; x.truncate(i); x.extend(rng.bytes(rng.0 as usize % 8)); }
            }
            if x.is_empty() { break; }
        }
        op_recv(run, &b.cfg, Some(m.from), &x);
    }
}

fn set16(x: &mut [u8], off: usize, v: u16) {
    if off + 1 < x.len() {
        x[off] = (v >> 8) as u8;
        x[off + 1] = v as u8;
    }
}

/// exhaustive field sweeps against buffer lengths
fn sweeps(run: &mut Run, rng: &mut Rng, b: &Built, thorough: bool) {
    let v6 = b.cfg.v6;
    let n = b.datagram.len().min(100);
    let q = quote(&b.cfg, &b.datagram, n, rng);
    let (ext, _) = ext_structure(rng);
    let m = message(b, &q, ty_te(v6), 0, ExtMode::Compliant, &ext, rng);
    let inner = m.icmp + 8;
    let ih = b.cfg.ip_hdr();
    let e = m.ext.unwrap();
    let mut lens: Vec<usize> = if thorough { (0..=160).collect() } else { (0..=64).chain((66..=160).step_by(2)).collect() };
    lens.extend([e, e + 3, e + 4, e + 7, e + 8, m.bytes.len() - 1, m.bytes.len(), m.bytes.len() + 1, 192, 256, 384, 512, 768, 1023, 1024, 1025, 1500]);
    let r = |rng: &mut Rng| rng.next() as u16;
    let mut fields: Vec<(&str, Box<dyn Fn(&mut Vec<u8>, u16)>, Vec<u16>)> = vec![];
    if !v6 {
        fields.push(("outer-ihl", Box::new(|x, v| if !x.is_empty() { x[0] = 0x40 | v as u8 }), (0..16).collect()));
        fields.push(("inner-ihl", Box::new(move |x, v| if inner < x.len() { x[inner] = 0x40 | v as u8 }), (0..16).collect()));
    }
    let la = if v6 { m.icmp + 4 } else { m.icmp + 5 };
    let mut lav: Vec<u16> = if thorough { (0..=255).collect() } else { (0..=36).chain([63, 64, 65, 127, 128, 255]).collect() };
    lav.push(r(rng) & 0xff);
    fields.push(("len-attr", Box::new(move |x, v| if la < x.len() { x[la] = v as u8 }), lav));
    if b.cfg.proto == 'u' {
        let mut v: Vec<u16> = (0..=16).chain(65528..=65535).collect();
        v.extend([r(rng), r(rng), r(rng)]);
        fields.push(("udp-len", Box::new(move |x, v| set16(x, inner + ih + 4, v)), v));
    }
    {
        let mut v: Vec<u16> = (0..=12).collect();
        v.extend([r(rng), r(rng) % 64, 65535]);
        fields.push(("obj-len", Box::new(move |x, v| set16(x, e + 4, v)), v));
    }
    if v6 {
        let mut v: Vec<u16> = (0..=16).chain([39, 40, 41, 60, 65535]).collect();
        v.push(r(rng));
        fields.push(("v6-plen", Box::new(move |x, v| set16(x, inner + 4, v)), v));
    }
    for (name, set, vals) in &fields {
        for v in vals {
            for &l in &lens {
                let mut x = m.bytes.clone();
                x.resize(l, 0);
                set(&mut x, *v);
                op_recv(run, &b.cfg, Some(m.from), &x);
                run.count(&format!("sweep:{name}"));
            }
        }
    }
}

pub fn gen_recv(run: &mut Run, rng: &mut Rng, thorough: bool) {
    let cs = cells(rng);
    // (i) genuine responses, foreign quotations, mutations
    for v6 in [false, true] {
        let min = if v6 { 48u16 } else { 28 };
        for cell in &cs {
            for ext in [false, true] {
                for privileged in [true, false] {
                    // unprivileged: kernel-built UDP header, classic only; the flag does not reach the receive path
                    if !privileged && !(cell.proto == 'u' && cell.strat == 'c') {
                        continue;
                    }
                    for size in [min, 84, 300, 1024] {
                        let Some(b) = build(run, rng, v6, cell, privileged, ext, size) else { continue };
                        genuine(run, rng, &b, thorough);
                        mutate(run, rng, &b, if thorough { 200 } else { 25 });
                    }
                }
            }
        }
    }
    // (i') Dublin over IPv4 with a UDP checksum that *computes* to zero (found by search over the round's variable
    // port): whatever the dispatcher puts into the checksum field, the expected checksum derived from an unmodified
    // quotation must equal it (C19: the first responding hop must not look like NAT)
    {
        let mut hits = 0;
        for cell in cs.iter().filter(|c| c.proto == 'u' && c.strat == 'd') {
            let (src, dst) = addr_pairs(false, rng)[0];
            'search: for pattern in [0u8, 0x5a, 0xff] {
                for size in [28u16, 40, 84] {
                    let cfg = WCfg { v6: false, src, dst, size, pattern, privileged: true, tos: 0, proto: 'u', ext: false, initial: 33434 };
                    let payload = vec![pattern; usize::from(size) - 28];
                    for round in 0..65534usize {
                        let p = probe_for(cell, cfg.initial, 0, 33500, round, 3);
                        if udp_ck(&cfg, p.src_port.0, p.dest_port.0, &payload) == 0 {
                            if let Some(sent) = op_send(run, &cfg, &p, Some(cell)) {
                                if let Some(datagram) = wire_datagram(&cfg, &p, &sent, rng) {
                                    let b = Built { cfg: cfg.clone(), cell: *cell, probe: p, datagram };
                                    genuine(run, rng, &b, false);
                                    hits += 1;
                                }
                            }
                            break 'search;
                        }
                    }
                }
            }
        }
        *run.stats.entry("gen:udp4-dublin-computed-zero".into()).or_default() += hits;
    }
    // (ii) sweeps: protocol × family × extension mode (× privilege, alternating)
    let mut k = 0;
    for v6 in [false, true] {
        for proto in ['i', 'u', 't'] {
            for ext in [false, true] {
                k += 1;
                let cell = *cs.iter().find(|c| c.proto == proto && (proto != 'u' || c.strat == if k % 2 == 0 { 'c' } else { 'd' })).unwrap();
                let privileged = !(proto == 'u' && cell.strat == 'c' && k % 4 == 0);
                let Some(b) = build(run, rng, v6, &cell, privileged, ext, 84) else { continue };
                sweeps(run, rng, &b, thorough);
            }
        }
    }
    // (iii) raw random octets
    for v6 in [false, true] {
        for proto in ['i', 'u', 't'] {
            for ext in [false, true] {
                let cell = *cs.iter().find(|c| c.proto == proto).unwrap();
                let mut cfg = base_cfg(v6, &cell, rng);
                cfg.ext = ext;
                for _ in 0..if thorough { 5000 } else { 400 } {
                    let len = match rng.below(4) { 0 => rng.below(30), 1 => rng.below(80), 2 => rng.below(200), _ => rng.below(1100) } as usize;
                    let mut x = rng.bytes(len);
                    if rng.chance(3, 4) && !x.is_empty() {
                        // plausible leading octets
                        if v6 {
                            x[0] = *rng.pick(&[1u8, 3, 129, 128]);
                            if x.len() > 1 && rng.chance(1, 2) { x[1] = 0; }
                            if x.len() > 14 && rng.chance(1, 2) { x[8] = 0x60; x[14] = *rng.pick(&[58u8, 17, 6]); }
                        } else {
                            x[0] = 0x40 | *rng.pick(&[5u8, 5, 5, 6, 15, 0]);
                            if x.len() > 21 { x[20] = *rng.pick(&[11u8, 3, 0, 8]); if rng.chance(1, 2) { x[21] = 0; } }
                            if x.len() > 37 && rng.chance(1, 2) { x[28] = 0x40 | *rng.pick(&[5u8, 5, 6, 15]); x[37] = *rng.pick(&[1u8, 17, 6]); }
                        }
                    }
                    let from = if rng.chance(1, 30) { None } else { Some(responder(v6, rng)) };
                    op_recv(run, &cfg, from, &x);
                }
            }
        }
    }
    // TCP handshake outcomes
    for v6 in [false, true] {
        for cell in cs.iter().filter(|c| c.proto == 't') {
            for _ in 0..if thorough { 200 } else { 20 } {
                let cfg = base_cfg(v6, cell, rng);
                let p = probe_for(cell, cfg.initial, 0, rng.next() as u16, 0, 4);
                let states = [
                    crate::simsock::TcpState::Connected(Some(cfg.dst)), crate::simsock::TcpState::Connected(None),
                    crate::simsock::TcpState::Refused, crate::simsock::TcpState::Unreach(responder(v6, rng)), crate::simsock::TcpState::Other,
                ];
                for st in &states {
                    let out = op_tcp(run, &cfg, p.src_port.0, p.dest_port.0, st);
                    let expect = !matches!(st, crate::simsock::TcpState::Connected(None) | crate::simsock::TcpState::Other);
                    match (&out, expect) {
                        (RecvOut::Resp(Some(r)), true) => {
                            if recover(&cfg, cell, r) != Some((0, p.sequence.0)) {
                                run.fail("c02-tcp-sequence", format!("cfg=[{}] probe=[{}] {st:?}", cfg.tokens(), probe_tokens(&p)));
                            } else {
                                run.count("c02-matched");
                            }
                        }
                        (RecvOut::Resp(Some(_)) | RecvOut::Panic, false) | (_, true) => {
                            run.fail("c02-tcp-outcome", format!("cfg=[{}] {st:?}", cfg.tokens()));
                        }
                        _ => {}
                    }
                }
            }
        }
    }
}


// ---------------------------------------------------------------- end to end through the real Strategy

use std::collections::VecDeque;
use trippy_core::verif::{Error, Network, StrategyConfig, VerifState};
use trippy_core::{MaxInflight, MultipathStrategy, PortDirection, ProbeStatus, Protocol, Round, Sequence, Strategy, TimeToLive, TraceId};

enum Inbound {
    Icmp(Vec<u8>, Option<IpAddr>),
    Tcp(crate::simsock::TcpState, u16, u16),
}

/// the real dispatch / receive code as the strategy's `Network`
struct WireNet {
    cfg: WCfg,
    sent: Vec<(Probe, Sent)>,
    inbound: VecDeque<Inbound>,
    log: Vec<(String, String)>,
    panics: Vec<String>,
}

impl Network for WireNet {
    fn send_probe(&mut self, probe: Probe) -> Result<(), Error> {
        crate::simsock::reset();
        let req = format!("wire send {} {}", self.cfg.tokens(), probe_tokens(&probe));
        match crate::util::guarded(|| real_dispatch(&self.cfg, &probe)) {
            Ok(Ok(())) => {
                let ops = crate::simsock::take_ops();
                self.log.push((req, format!("ok {}", ops.join(";"))));
                self.sent.push((probe, parse_ops(&ops)));
                Ok(())
            }
            Ok(Err(e)) => {
                self.log.push((req, "err other".into()));
                Err(e)
            }
            Err(loc) => {
                self.log.push((req.clone(), "panic".into()));
                self.panics.push(format!("{req} ({loc})"));
                Ok(())
            }
        }
    }
    fn recv_probe(&mut self) -> Result<Option<Response>, Error> {
        match self.inbound.pop_front() {
            None => Ok(None),
            Some(Inbound::Icmp(bytes, from)) => {
                let (req, r) = exec_recv(&self.cfg, from, &bytes);
                match r {
                    Ok(r) => {
                        self.log.push((req, show_recv(&r)));
                        r
                    }
                    Err(loc) => {
                        self.log.push((req.clone(), "panic".into()));
                        self.panics.push(format!("{req} ({loc})"));
                        Ok(None)
                    }
                }
            }
            Some(Inbound::Tcp(st, sp, dp)) => {
                crate::simsock::reset();
                crate::simsock::set_tcp(st);
                let mut s = crate::simsock::SimSocket::anon();
                if self.cfg.v6 {
                    self.cfg.ipv6().recv_tcp_socket(&mut s, trippy_core::Port(sp), trippy_core::Port(dp))
                } else {
                    self.cfg.ipv4().recv_tcp_socket(&mut s, trippy_core::Port(sp), trippy_core::Port(dp))
                }
            }
        }
    }
}

fn strategy_config(cfg: &WCfg, cell: &Cell, trace_id: u16) -> StrategyConfig {
    StrategyConfig {
        target_addr: cfg.dst,
        protocol: match cell.proto { 'i' => Protocol::Icmp, 'u' => Protocol::Udp, _ => Protocol::Tcp },
        trace_identifier: TraceId(trace_id),
        max_rounds: None,
        first_ttl: TimeToLive(1),
        max_ttl: TimeToLive(40),
        grace_duration: std::time::Duration::from_millis(100),
        max_inflight: MaxInflight(24),
        initial_sequence: Sequence(cfg.initial),
        multipath_strategy: match cell.strat { 'c' => MultipathStrategy::Classic, 'p' => MultipathStrategy::Paris, _ => MultipathStrategy::Dublin },
        port_direction: match cell.pd {
            Pd::None => PortDirection::None,
            Pd::Src(p) => PortDirection::new_fixed_src(p),
            Pd::Dest(p) => PortDirection::new_fixed_dest(p),
            Pd::Both(a, b) => PortDirection::new_fixed_both(a, b),
        },
        min_round_duration: std::time::Duration::from_secs(1000),
        max_round_duration: std::time::Duration::from_secs(1000),
    }
}

fn completed(st: &VerifState) -> Vec<(u16, IpAddr)> {
    st.probes().iter().filter_map(|s| if let ProbeStatus::Complete(c) = s { Some((c.sequence.0, c.host)) } else { None }).collect()
}

/// encode → (real dispatch) → quote → (real receive) → (real strategy) → the probe's slot is Complete
fn e2e_case(run: &mut Run, rng: &mut Rng, v6: bool, cell: &Cell, privileged: bool, ext: bool, size: u16, steps: usize) {
    let pairs = addr_pairs(v6, rng);
    let (src, dst) = *rng.pick(&pairs);
    let initial = *rng.pick(&[0u16, 33434, 64000, 64511]);
    let cfg = WCfg { v6, src, dst, size, pattern: rng.next() as u8, privileged, tos: rng.next() as u8, proto: cell.proto, ext, initial };
    let trace_id = *rng.pick(&[1u16, 4660, 65535]);
    let scfg = strategy_config(&cfg, cell, trace_id);
    crate::clock::enable(rng.below(1000) * 1000);
    let strategy = Strategy::new(&scfg, |_: &Round<'_>| {});
    let mut st = VerifState::new(scfg);
    let mut net = WireNet { cfg: cfg.clone(), sent: vec![], inbound: VecDeque::new(), log: vec![], panics: vec![] };
    let desc = |what: &str, p: &Probe| format!("{what} cell={} cfg=[{}] trace_id={trace_id} probe=[{}]", cell.name(), cfg.tokens(), probe_tokens(p));
    let mut answered: Vec<u16> = vec![];
    for _ in 0..steps {
        let r = crate::util::guarded(|| strategy.verif_send_request(&mut net, &mut st));
        if !matches!(r, Ok(Ok(()))) {
            run.fail("c02-e2e-send", format!("cell={} cfg=[{}] {:?}", cell.name(), cfg.tokens(), r.map(|x| x.map_err(|e| e.to_string()))));
            break;
        }
        // answer one probe that is still awaited (mostly the latest)
        let open: Vec<usize> = (0..net.sent.len()).filter(|i| !answered.contains(&net.sent[*i].0.sequence.0)).collect();
        if open.is_empty() { continue; }
        let idx = if rng.chance(2, 3) { *open.last().unwrap() } else { *rng.pick(&open) };
        let (probe, sent) = net.sent[idx].clone();
        let Some(datagram) = wire_datagram(&cfg, &probe, &sent, rng) else { continue };
        let b = Built { cfg: cfg.clone(), cell: *cell, probe: probe.clone(), datagram };
        let before = completed(&st);
        let foreign = rng.chance(1, 4) && cell.proto != 'i';
        let from = responder(v6, rng);
        if cell.proto == 't' && rng.chance(1, 3) && !foreign {
            let stt = if rng.chance(1, 2) { crate::simsock::TcpState::Connected(Some(cfg.dst)) } else { crate::simsock::TcpState::Refused };
            net.inbound.push_back(Inbound::Tcp(stt, probe.src_port.0, probe.dest_port.0));
        } else {
            let lens = quote_lengths(&b, false);
            let n = *rng.pick(&lens);
            let mut d = b.datagram.clone();
            if foreign {
                // a datagram this tracer did not send: another destination, exactly one fixed port
                // changed (the other one, for FixedBoth, still matches), or the Dublin/IPv6 marker gone
                let ih = if v6 { 40 } else { 20 };
                let mut kinds: Vec<u8> = vec![0];
                match cell.pd { Pd::Src(_) => kinds.push(1), Pd::Dest(_) => kinds.push(2), Pd::Both(..) => { kinds.push(1); kinds.push(2); kinds.push(1); kinds.push(2); } Pd::None => {} }
                if cell.strat == 'd' && v6 && cell.proto == 'u' { kinds.push(3); }
                match *rng.pick(&kinds) {
                    0 => {
                        let pos = if v6 { 24 + rng.below(16) as usize } else { 16 + rng.below(4) as usize };
                        d[pos] ^= 1 << rng.below(8);
                        run.count("e2e-foreign:destination");
                    }
                    1 => { d[ih + rng.below(2) as usize] ^= 1 << rng.below(8); run.count("e2e-foreign:src-port"); }
                    2 => { d[ih + 2 + rng.below(2) as usize] ^= 1 << rng.below(8); run.count("e2e-foreign:dest-port"); }
                    _ => { if d.len() >= ih + 14 { d[ih + 8 + rng.below(6) as usize] ^= 0x20; } else { d[24] ^= 1; } run.count("e2e-foreign:no-marker"); }
                }
            }
            let q = quote(&cfg, &d, n, rng);
            let (e, _) = ext_structure(rng);
            let mode = *rng.pick(&[ExtMode::None, ExtMode::Compliant, ExtMode::Legacy]);
            let (la, body) = icmp_body(v6, &q, mode, &e);
            let (ty, code) = if rng.chance(3, 4) { (ty_te(v6), 0) } else { (ty_du(v6), rng.below(16) as u8) };
            let icmp = icmp_message(&cfg, ty, code, la, &body, from);
            net.inbound.push_back(Inbound::Icmp(deliver(&cfg, &icmp, from, rng), Some(from)));
        }
        let r = crate::util::guarded(|| strategy.verif_recv_response(&mut net, &mut st));
        if !matches!(r, Ok(Ok(()))) {
            run.fail("c02-e2e-recv", desc("recv_response failed", &probe));
            break;
        }
        let after = completed(&st);
        let new: Vec<&(u16, IpAddr)> = after.iter().filter(|x| !before.contains(x)).collect();
        if foreign {
            if !new.is_empty() { run.fail("c02-e2e-foreign-accepted", desc("foreign quotation completed a probe", &probe)); }
            run.count("c02-e2e-rejected");
        } else if new.len() == 1 && new[0].0 == probe.sequence.0 {
            answered.push(probe.sequence.0);
            run.count("c02-e2e-matched");
        } else {
            run.fail("c02-e2e-not-matched", desc(&format!("completed {new:?}"), &probe));
        }
    }
    crate::clock::disable();
    for (req, ans) in net.log.drain(..) {
        run.op(req, ans);
        run.count("op:e2e");
    }
    for p in net.panics.drain(..) {
        run.fail("c04-panic", p);
    }
}

pub fn gen_e2e(run: &mut Run, rng: &mut Rng, thorough: bool) {
    let cs = cells(rng);
    for v6 in [false, true] {
        let min = if v6 { 48u16 } else { 28 };
        for cell in &cs {
            for privileged in [true, false] {
                if !privileged && !(cell.proto == 'u' && cell.strat == 'c') {
                    continue;
                }
                for ext in [false, true] {
                    for size in [min, 84, 600] {
                        for _ in 0..if thorough { 6 } else { 1 } {
                            e2e_case(run, rng, v6, cell, privileged, ext, size, if thorough { 20 } else { 8 });
                        }
                    }
                }
            }
        }
    }
}
