//! Bounded-model-checking support for the *validation of the Lean checksum model against the code*
//! (never a substitute for the C13 theorems): for every source / destination address and every
//! datagram of up to `MAXLEN` octets the real entry points of trippy-packet's checksum.rs agree with
//! the RFC 1071 reference below, which is the function the Lean model is proved equal to.
#![allow(dead_code)]

/// RFC 1071: one's-complement sum of 16-bit words (odd tail padded with zero), complemented
fn rfc1071(parts: &[&[u8]]) -> u16 {
    let mut sum: u64 = 0;
    for p in parts {
        let mut i = 0;
        while i + 1 < p.len() {
            sum += u64::from(u16::from_be_bytes([p[i], p[i + 1]]));
            i += 2;
        }
        if i < p.len() {
            sum += u64::from(p[i]) << 8;
        }
    }
    while sum >> 16 != 0 {
        sum = (sum & 0xffff) + (sum >> 16);
    }
    !(sum as u16)
}

#[cfg(kani)]
mod proofs {
    use super::rfc1071;
    use std::net::{Ipv4Addr, Ipv6Addr};
    use trippy_packet::checksum::{icmp_ipv4_checksum, icmp_ipv6_checksum, udp_ipv4_checksum, udp_ipv6_checksum};

    const MAXLEN: usize = 10;

    /// the data with the checksum field (word `w`) cleared, as the RFC asks
    fn cleared(data: &[u8; MAXLEN], len: usize, w: usize) -> [u8; MAXLEN] {
        let mut d = *data;
        if 2 * w < len { d[2 * w] = 0; }
        if 2 * w + 1 < len { d[2 * w + 1] = 0; }
        d
    }

    #[kani::proof]
    #[kani::unwind(12)]
    fn udp_ipv6_all_addresses() {
        let src: [u8; 16] = kani::any();
        let dst: [u8; 16] = kani::any();
        let data: [u8; MAXLEN] = kani::any();
        let len: usize = kani::any();
        kani::assume(len >= 8 && len <= MAXLEN);
        let got = udp_ipv6_checksum(&data[..len], Ipv6Addr::from(src), Ipv6Addr::from(dst));
        let d = cleared(&data, len, 3);
        let l = (len as u32).to_be_bytes();
        let want = rfc1071(&[&src, &dst, &l, &[0, 0, 0, 17], &d[..len]]);
        assert_eq!(got, want);
    }

    #[kani::proof]
    #[kani::unwind(12)]
    fn icmp_ipv6_all_addresses() {
        let src: [u8; 16] = kani::any();
        let dst: [u8; 16] = kani::any();
        let data: [u8; MAXLEN] = kani::any();
        let len: usize = kani::any();
        kani::assume(len >= 8 && len <= MAXLEN);
        let got = icmp_ipv6_checksum(&data[..len], Ipv6Addr::from(src), Ipv6Addr::from(dst));
        let d = cleared(&data, len, 1);
        let l = (len as u32).to_be_bytes();
        let want = rfc1071(&[&src, &dst, &l, &[0, 0, 0, 58], &d[..len]]);
        assert_eq!(got, want);
    }

    #[kani::proof]
    #[kani::unwind(12)]
    fn udp_ipv4_all_addresses() {
        let src: [u8; 4] = kani::any();
        let dst: [u8; 4] = kani::any();
        let data: [u8; MAXLEN] = kani::any();
        let len: usize = kani::any();
        kani::assume(len >= 8 && len <= MAXLEN);
        let got = udp_ipv4_checksum(&data[..len], Ipv4Addr::from(src), Ipv4Addr::from(dst));
        let d = cleared(&data, len, 3);
        let l = (len as u16).to_be_bytes();
        let want = rfc1071(&[&src, &dst, &[0, 17], &l, &d[..len]]);
        assert_eq!(got, want);
    }

    #[kani::proof]
    #[kani::unwind(12)]
    fn icmp_ipv4_all_data() {
        let data: [u8; MAXLEN] = kani::any();
        let len: usize = kani::any();
        kani::assume(len >= 1 && len <= MAXLEN);
        let got = icmp_ipv4_checksum(&data[..len]);
        let d = cleared(&data, len, 1);
        let want = rfc1071(&[&d[..len]]);
        assert_eq!(got, want);
    }
}
