import TrippyVerif.Gen.PktDispatch
/-
Line-protocol driver: one request per input line, one answer per output line.
The Rust harness (`/verif/harness`, binary `tvh`) runs the real trippy code on the same
requests; `/verif/check` diffs the two answer streams.

  pkt <type> <fn> <hexbuf> <arg>      a generated packet accessor (C12, C04)
-/
open TV

def handle (line : String) : String :=
  match line.trimAscii.toString.splitOn " " with
  | ["pkt", ns, fn, hb, arg] =>
    match bytesOfHex hb with
    | none => "bad-op"
    | some b =>
      match Pkt.dispatch ns fn b arg with
      | some s => s
      | none => "bad-op"
  | _ => "bad-op"

partial def loop (h : IO.FS.Stream) (out : IO.FS.Stream) : IO Unit := do
  let line ← h.getLine
  if line.isEmpty then return ()
  out.putStrLn (handle line)
  loop h out

def main : IO Unit := do
  let stdin ← IO.getStdin
  let stdout ← IO.getStdout
  loop stdin stdout
