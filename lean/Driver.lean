import TrippyVerif.Gen.PktDispatch
import TrippyVerif.Model.StrategyIO
import TrippyVerif.Model.Checksum
import TrippyVerif.Model.Ext
import TrippyVerif.Model.StateAgg
import TrippyVerif.Model.BuilderIO
import TrippyVerif.Model.Wire
import TrippyVerif.Model.Channel
import TrippyVerif.Model.TuiIO
import TrippyVerif.Model.StackIO
/-
Line-protocol driver: one request per input line, one answer per output line.
The Rust harness (`/verif/harness`, binary `tvh`) runs the real trippy code on the same
requests; `/verif/check` diffs the two answer streams.

  pkt <type> <fn> <hexbuf> <arg>      a generated packet accessor (C12, C04)
  ext split|te4|te6|du4|du6|exts …          RFC 4884 / 4950 extension parsing (C14)
  cksum <fn> <hexdata> <hexsrc> <hexdst>   the six checksum entry points (C13)
  agg new|round|dump|get …                  the state aggregator (stateful; C05 C10 C15 C19)
  cfgb build|cli …                          Builder::build / CLI validation model (C16)
  wire send|recv|tcp|cksum|slice|errmap …   the channel: probe encoding, response decoding (C02 C04 C11)
  chan connect|send|recv|clock …            Channel<S>: connect, send_probe, recv_probe, TCP probe list (stateful)
  stack new|it|dump …                       Tracer::run = Channel + Strategy + State (stateful; C01 C09)
  tui new|data|key|frame …                  the TUI selection state machine (stateful; C17 C18)
  tid <pid> <i>                             the trace identifier the CLI assigns (C03)
  st cfg … / st it …                  the tracing state machine (stateful; C03 C06 C07 C08 C09)
-/
open TV

structure DState where
  st : Strat.DSt := {}
  agg : Agg.DSt := {}
  tui : Tui.DSt := {}
  chan : Chan.DSt := {}
  stack : Stack.DSt := {}

def step (d : DState) (line : String) : DState × String :=
  match line.trimAscii.toString.splitOn " " with
  | ["pkt", ns, fn, hb, arg] =>
    match bytesOfHex hb with
    | none => (d, "bad-op")
    | some b =>
      match Pkt.dispatch ns fn b arg with
      | some s => (d, s)
      | none => (d, "bad-op")
  | ["conc", "noop"] => (d, "ok")
  | "agg" :: args =>
    let (a', out) := Agg.handle d.agg args
    ({ d with agg := a' }, out)
  | "cfgb" :: rest => (d, (Builder.handle rest).getD "bad-op")
  | "ext" :: rest => (d, (Ext.handle rest).getD "bad-op")
  | "cksum" :: rest => (d, (Cksum.handle rest).getD "bad-op")
  | ["tid", pid, i] =>
    match pid.toNat?, i.toNat? with
    | some p, some k => (d, toString (Strat.cliTraceId p k))
    | _, _ => (d, "bad-op")
  | "wire" :: rest => (d, (Wire.handle rest).getD "bad-op")
  | "chan" :: args =>
    let (c', out) := Chan.handle d.chan args
    ({ d with chan := c' }, out)
  | "stack" :: args =>
    let (s', out) := Stack.handle d.stack args
    ({ d with stack := s' }, out)
  | "tui" :: args =>
    let (t', out) := Tui.handle d.tui args
    ({ d with tui := t' }, out)
  | "st" :: args =>
    let (s', out) := Strat.stepLine d.st args
    ({ d with st := s' }, out)
  | _ => (d, "bad-op")

partial def loop (h : IO.FS.Stream) (out : IO.FS.Stream) (d : DState) : IO Unit := do
  let line ← h.getLine
  if line.isEmpty then return ()
  let (d', s) := step d line
  out.putStrLn s
  loop h out d'

def main : IO Unit := do
  let stdin ← IO.getStdin
  let stdout ← IO.getStdout
  loop stdin stdout {}
