import TrippyVerif.Model.Basic
import TrippyVerif.Props.C12
