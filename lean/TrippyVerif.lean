import TrippyVerif.Model.Basic
import TrippyVerif.Props.C12
import TrippyVerif.Props.C13
import TrippyVerif.Model.StrategyIO
