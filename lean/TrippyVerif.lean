import TrippyVerif.Model.Basic
