import TrippyVerif.Spec.Bits
import TrippyVerif.Lemmas.Tac
namespace TV.Spec

theorem replaceBV_getLsbD {N : Nat} (x : BitVec N) (sh w : Nat) (v : BitVec w) (i : Nat) :
    (replaceBV x sh w v).getLsbD i =
      if sh ≤ i ∧ i < sh + w ∧ i < N then v.getLsbD (i - sh) else x.getLsbD i := by
  unfold replaceBV
  simp only [BitVec.getLsbD_or, BitVec.getLsbD_and, BitVec.getLsbD_not, BitVec.getLsbD_shiftLeft,
    BitVec.getLsbD_setWidth, BitVec.getLsbD_allOnes]
  by_cases hN : i < N
  · by_cases h1 : i < sh
    · have h3 : ¬ (sh ≤ i ∧ i < sh + w ∧ i < N) := by omega
      rw [if_neg h3]; simp [hN, h1]
    · by_cases h2 : i < sh + w
      · have h3 : sh ≤ i ∧ i < sh + w ∧ i < N := by omega
        have h4 : i - sh < w := by omega
        have h5 : i - sh < N := by omega
        rw [if_pos h3]; simp [hN, h1, h4, h5]
      · have h3 : ¬ (sh ≤ i ∧ i < sh + w ∧ i < N) := by omega
        have h4 : ¬ (i - sh < w) := by omega
        have h6 : v.getLsbD (i - sh) = false := by
          apply BitVec.getLsbD_of_ge; omega
        rw [if_neg h3]; simp [hN, h1, h4, h6]
  · have h3 : ¬ (sh ≤ i ∧ i < sh + w ∧ i < N) := by omega
    have h7 : x.getLsbD i = false := by apply BitVec.getLsbD_of_ge; omega
    rw [if_neg h3]; simp [hN, h7]

theorem extract_replaceBV {N : Nat} (x : BitVec N) (sh w : Nat) (v : BitVec w) (h : sh + w ≤ N) :
    (replaceBV x sh w v).extractLsb' sh w = v := by
  ext i hi
  simp only [BitVec.getElem_extractLsb', replaceBV_getLsbD]
  have : sh ≤ sh + i ∧ sh + i < sh + w ∧ sh + i < N := by omega
  rw [if_pos this]
  simp [BitVec.getLsbD_eq_getElem hi]

theorem replaceBV_frame {N : Nat} (x : BitVec N) (sh w : Nat) (v : BitVec w) (i : Nat)
    (h : i < sh ∨ sh + w ≤ i) : (replaceBV x sh w v).getLsbD i = x.getLsbD i := by
  rw [replaceBV_getLsbD]
  have : ¬ (sh ≤ i ∧ i < sh + w ∧ i < N) := by omega
  rw [if_neg this]

end TV.Spec

namespace TV.Spec

@[simp] theorem length_putBV (b : Buf) (k n : Nat) (x : BitVec (8 * n)) :
    (putBV b k n x).length = b.length := by
  induction n with
  | zero => rfl
  | succ n ih => simp [putBV, ih]

theorem octet_set_ne (b : Buf) (i j : Nat) (v : UInt8) (h : i ≠ j) :
    octet (b.set i v) j = octet b j := by
  simp [octet, List.getD_eq_getElem?_getD, List.getElem?_set_ne h]

theorem octet_set_eq (b : Buf) (i : Nat) (v : UInt8) (h : i < b.length) :
    octet (b.set i v) i = v := by
  simp [octet, List.getD_eq_getElem?_getD, h]

theorem octet_putBV_outside (b : Buf) (k n : Nat) (x : BitVec (8 * n)) (j : Nat)
    (h : j < k ∨ k + n ≤ j) : octet (putBV b k n x) j = octet b j := by
  induction n with
  | zero => rfl
  | succ n ih =>
    simp only [putBV]
    rw [octet_set_ne _ _ _ _ (by omega)]
    exact ih _ (by omega)

theorem wordBV_congr (b1 b2 : Buf) (k n : Nat)
    (h : ∀ i, i < n → octet b1 (k + i) = octet b2 (k + i)) : wordBV b1 k n = wordBV b2 k n := by
  induction n with
  | zero => rfl
  | succ n ih =>
    simp only [wordBV]
    rw [ih (fun i hi => h i (by omega)), h n (by omega)]

theorem wordBV_putBV (b : Buf) (k n : Nat) (x : BitVec (8 * n)) (h : k + n ≤ b.length) :
    wordBV (putBV b k n x) k n = x := by
  induction n with
  | zero => simp [wordBV]; exact (BitVec.of_length_zero).symm
  | succ n ih =>
    simp only [putBV, wordBV]
    have hlen : k + n < (putBV b k n (x.extractLsb' 8 (8 * n))).length := by simp; omega
    rw [octet_set_eq _ _ _ hlen]
    rw [wordBV_congr _ (putBV b k n (x.extractLsb' 8 (8 * n))) k n
      (fun i hi => octet_set_ne _ _ _ _ (by omega))]
    rw [ih _ (by omega)]
    ext i hi
    simp only [BitVec.getElem_cast, BitVec.getElem_append]
    by_cases h8 : i < 8
    · simp [h8, BitVec.getLsbD_eq_getElem hi]
    · have h9 : 8 + (i - 8) = i := by omega
      simp [h8, h9, BitVec.getLsbD_eq_getElem hi]

theorem getField_setField (b : Buf) (k n sh w : Nat) (v : BitVec w)
    (hlen : k + n ≤ b.length) (hw : sh + w ≤ 8 * n) :
    getField (setField b k n sh w v) k n sh w = v := by
  unfold getField setField
  rw [wordBV_putBV _ _ _ _ hlen, extract_replaceBV _ _ _ _ hw]

@[simp] theorem length_setField (b : Buf) (k n sh w : Nat) (v : BitVec w) :
    (setField b k n sh w v).length = b.length := by simp [setField]

/-- octets outside the field's word are untouched -/
theorem octet_setField_outside (b : Buf) (k n sh w : Nat) (v : BitVec w) (j : Nat)
    (h : j < k ∨ k + n ≤ j) : octet (setField b k n sh w v) j = octet b j :=
  octet_putBV_outside _ _ _ _ _ h

/-- another field `(sh', w')` of the same word that does not overlap `(sh, w)` keeps its value -/
theorem getField_setField_disjoint (b : Buf) (k n sh w sh' w' : Nat) (v : BitVec w)
    (hlen : k + n ≤ b.length) (hd : sh' + w' ≤ sh ∨ sh + w ≤ sh') :
    getField (setField b k n sh w v) k n sh' w' = getField b k n sh' w' := by
  unfold getField setField
  rw [wordBV_putBV _ _ _ _ hlen]
  ext i hi
  simp only [BitVec.getElem_extractLsb']
  exact replaceBV_frame _ _ _ _ _ (by omega)

end TV.Spec

namespace TV.Spec

theorem wordBV_getLsbD (b : Buf) (k n i : Nat) (hi : i < 8 * n) :
    (wordBV b k n).getLsbD i = (octet b (k + (n - 1 - i / 8))).toBitVec.getLsbD (i % 8) := by
  induction n generalizing i with
  | zero => omega
  | succ n ih =>
    simp only [wordBV, BitVec.getLsbD_cast, BitVec.getLsbD_append]
    by_cases h8 : i < 8
    · have h1 : i / 8 = 0 := by omega
      have h2 : i % 8 = i := by omega
      simp [h8, h1, h2]
    · have h1 : (i - 8) / 8 = i / 8 - 1 := by omega
      have h2 : (i - 8) % 8 = i % 8 := by omega
      have h3 : n - 1 - (i / 8 - 1) = n + 1 - 1 - i / 8 := by omega
      rw [if_neg h8, ih (i - 8) (by omega), h1, h2, h3]

/-- **Frame, at bit level.** Storing into field `(k,n,sh,w)` leaves every bit of the buffer
outside the RFC bit range `[8(k+n)-sh-w, 8(k+n)-sh)` unchanged. -/
theorem bitAt_setField_outside (b : Buf) (k n sh w : Nat) (v : BitVec w) (j : Nat)
    (hlen : k + n ≤ b.length) (hw : sh + w ≤ 8 * n)
    (hj : j < 8 * (k + n) - sh - w ∨ 8 * (k + n) - sh ≤ j) :
    bitAt (setField b k n sh w v) j = bitAt b j := by
  unfold bitAt
  by_cases hout : j / 8 < k ∨ k + n ≤ j / 8
  · rw [octet_setField_outside _ _ _ _ _ _ _ hout]
  · have hm : k ≤ j / 8 ∧ j / 8 < k + n := by omega
    have hr : j % 8 < 8 := Nat.mod_lt _ (by omega)
    -- position of bit j inside the word, counted from the least significant bit
    let i := 8 * (k + n) - 1 - j
    have hi : i < 8 * n := by omega
    have hidx : k + (n - 1 - i / 8) = j / 8 := by omega
    have hmod : i % 8 = 7 - j % 8 := by omega
    have key : ∀ b' : Buf, (octet b' (j / 8)).toBitVec.getMsbD (j % 8)
        = (wordBV b' k n).getLsbD i := by
      intro b'
      rw [wordBV_getLsbD _ _ _ _ hi, hidx, hmod, BitVec.getMsbD]
      simp [hr]
    rw [key, key]
    unfold setField
    rw [wordBV_putBV _ _ _ _ hlen]
    exact replaceBV_frame _ _ _ _ _ (by omega)

end TV.Spec

namespace TV.Spec

/-! closed forms of `wordBV` for the word sizes that occur (1–4 octets) -/

theorem wordBV_one (b : Buf) (k : Nat) : wordBV b k 1 = (octet b k).toBitVec := by
  apply BitVec.eq_of_getLsbD_eq
  intro i hi
  rw [wordBV_getLsbD _ _ _ _ hi]
  have h1 : i / 8 = 0 := by omega
  have h2 : i % 8 = i := by omega
  simp [h1, h2]

theorem wordBV_two (b : Buf) (k : Nat) :
    wordBV b k 2 = (octet b k).toBitVec ++ (octet b (k + 1)).toBitVec := by
  apply BitVec.eq_of_getLsbD_eq
  intro i hi
  rw [wordBV_getLsbD _ _ _ _ hi]
  simp only [BitVec.getLsbD_append]
  by_cases h8 : i < 8
  · have h1 : i / 8 = 0 := by omega
    have h2 : i % 8 = i := by omega
    simp [h8, h1, h2]
  · have h1 : i / 8 = 1 := by omega
    have h2 : i % 8 = i - 8 := by omega
    simp [h8, h1, h2]

theorem wordBV_three (b : Buf) (k : Nat) :
    wordBV b k 3 = (octet b k).toBitVec ++ (octet b (k + 1)).toBitVec ++ (octet b (k + 2)).toBitVec := by
  apply BitVec.eq_of_getLsbD_eq
  intro i hi
  rw [wordBV_getLsbD _ _ _ _ hi]
  simp only [BitVec.getLsbD_append]
  by_cases h8 : i < 8
  · have h1 : i / 8 = 0 := by omega
    have h2 : i % 8 = i := by omega
    simp [h8, h1, h2]
  · by_cases h16 : i < 16
    · have h1 : i / 8 = 1 := by omega
      have h2 : i % 8 = i - 8 := by omega
      have h3 : i - 8 < 8 := by omega
      simp [h8, h1, h2, h3]
    · have h1 : i / 8 = 2 := by omega
      have h2 : i % 8 = i - 8 - 8 := by omega
      have h3 : ¬ (i - 8 < 8) := by omega
      simp [h8, h1, h2, h3]

theorem wordBV_four (b : Buf) (k : Nat) :
    wordBV b k 4 = (octet b k).toBitVec ++ (octet b (k + 1)).toBitVec ++ (octet b (k + 2)).toBitVec
      ++ (octet b (k + 3)).toBitVec := by
  apply BitVec.eq_of_getLsbD_eq
  intro i hi
  rw [wordBV_getLsbD _ _ _ _ hi]
  simp only [BitVec.getLsbD_append]
  by_cases h8 : i < 8
  · have h1 : i / 8 = 0 := by omega
    have h2 : i % 8 = i := by omega
    simp [h8, h1, h2]
  · by_cases h16 : i < 16
    · have h1 : i / 8 = 1 := by omega
      have h2 : i % 8 = i - 8 := by omega
      have h3 : i - 8 < 8 := by omega
      simp [h8, h1, h2, h3]
    · by_cases h24 : i < 24
      · have h1 : i / 8 = 2 := by omega
        have h2 : i % 8 = i - 8 - 8 := by omega
        have h3 : ¬ (i - 8 < 8) := by omega
        have h4 : i - 8 - 8 < 8 := by omega
        simp [h8, h1, h2, h3, h4]
      · have h1 : i / 8 = 3 := by omega
        have h2 : i % 8 = i - 8 - 8 - 8 := by omega
        have h3 : ¬ (i - 8 < 8) := by omega
        have h4 : ¬ (i - 8 - 8 < 8) := by omega
        simp [h8, h1, h2, h3, h4]

end TV.Spec

namespace TV.Spec

/-! concatenation of octets written with shifts, so that no arithmetic appears in types -/

def cat2 (x y : BitVec 8) : BitVec 16 := (x.setWidth 16 <<< 8) ||| y.setWidth 16
def cat3 (x y z : BitVec 8) : BitVec 24 := (x.setWidth 24 <<< 16) ||| (y.setWidth 24 <<< 8) ||| z.setWidth 24
def cat4 (x y z u : BitVec 8) : BitVec 32 :=
  (x.setWidth 32 <<< 24) ||| (y.setWidth 32 <<< 16) ||| (z.setWidth 32 <<< 8) ||| u.setWidth 32

theorem append_eq_cat2 (x y : BitVec 8) : x ++ y = cat2 x y := by
  apply BitVec.eq_of_getLsbD_eq
  intro i hi
  simp only [cat2, BitVec.getLsbD_append, BitVec.getLsbD_or, BitVec.getLsbD_shiftLeft,
    BitVec.getLsbD_setWidth]
  bitcases16

theorem append_eq_cat3 (x y z : BitVec 8) : x ++ y ++ z = cat3 x y z := by
  apply BitVec.eq_of_getLsbD_eq
  intro i hi
  simp only [cat3, BitVec.getLsbD_append, BitVec.getLsbD_or, BitVec.getLsbD_shiftLeft,
    BitVec.getLsbD_setWidth]
  bitcases24

theorem append_eq_cat4 (x y z u : BitVec 8) : x ++ y ++ z ++ u = cat4 x y z u := by
  apply BitVec.eq_of_getLsbD_eq
  intro i hi
  simp only [cat4, BitVec.getLsbD_append, BitVec.getLsbD_or, BitVec.getLsbD_shiftLeft,
    BitVec.getLsbD_setWidth]
  bitcases32

/-! closed forms of `getField` / `setField` for words of 1–4 octets -/

theorem getField_one (b : Buf) (k sh w : Nat) :
    getField b k 1 sh w = (octet b k).toBitVec.extractLsb' sh w := by
  unfold getField; rw [wordBV_one]

theorem getField_two (b : Buf) (k sh w : Nat) :
    getField b k 2 sh w = (cat2 (octet b k).toBitVec (octet b (k + 1)).toBitVec).extractLsb' sh w := by
  unfold getField; rw [wordBV_two, append_eq_cat2]

theorem getField_three (b : Buf) (k sh w : Nat) :
    getField b k 3 sh w = (cat3 (octet b k).toBitVec (octet b (k + 1)).toBitVec
      (octet b (k + 2)).toBitVec).extractLsb' sh w := by
  unfold getField; rw [wordBV_three, append_eq_cat3]

theorem getField_four (b : Buf) (k sh w : Nat) :
    getField b k 4 sh w = (cat4 (octet b k).toBitVec (octet b (k + 1)).toBitVec
      (octet b (k + 2)).toBitVec (octet b (k + 3)).toBitVec).extractLsb' sh w := by
  unfold getField; rw [wordBV_four, append_eq_cat4]

theorem setField_one (b : Buf) (k sh w : Nat) (v : BitVec w) :
    setField b k 1 sh w v =
      b.set k (UInt8.ofBitVec ((replaceBV (octet b k).toBitVec sh w v).extractLsb' 0 8)) := by
  unfold setField; rw [wordBV_one]; rfl

theorem extract_extract {N : Nat} (W : BitVec N) (a l c l2 : Nat) (h : c + l2 ≤ l) :
    (W.extractLsb' a l).extractLsb' c l2 = W.extractLsb' (a + c) l2 := by
  apply BitVec.eq_of_getLsbD_eq
  intro i hi
  simp only [BitVec.getLsbD_extractLsb']
  have h1 : c + i < l := by omega
  simp [hi, h1, Nat.add_assoc]

theorem setField_two (b : Buf) (k sh w : Nat) (v : BitVec w) :
    setField b k 2 sh w v =
      let W := replaceBV (cat2 (octet b k).toBitVec (octet b (k + 1)).toBitVec) sh w v
      (b.set k (UInt8.ofBitVec (W.extractLsb' 8 8))).set (k + 1) (UInt8.ofBitVec (W.extractLsb' 0 8)) := by
  unfold setField; rw [wordBV_two, append_eq_cat2]
  simp [putBV, extract_extract]

theorem setField_three (b : Buf) (k sh w : Nat) (v : BitVec w) :
    setField b k 3 sh w v =
      let W := replaceBV (cat3 (octet b k).toBitVec (octet b (k + 1)).toBitVec
        (octet b (k + 2)).toBitVec) sh w v
      ((b.set k (UInt8.ofBitVec (W.extractLsb' 16 8))).set (k + 1) (UInt8.ofBitVec (W.extractLsb' 8 8))).set
        (k + 2) (UInt8.ofBitVec (W.extractLsb' 0 8)) := by
  unfold setField; rw [wordBV_three, append_eq_cat3]
  simp [putBV, extract_extract]

theorem setField_four (b : Buf) (k sh w : Nat) (v : BitVec w) :
    setField b k 4 sh w v =
      let W := replaceBV (cat4 (octet b k).toBitVec (octet b (k + 1)).toBitVec
        (octet b (k + 2)).toBitVec (octet b (k + 3)).toBitVec) sh w v
      (((b.set k (UInt8.ofBitVec (W.extractLsb' 24 8))).set (k + 1) (UInt8.ofBitVec (W.extractLsb' 16 8))).set
        (k + 2) (UInt8.ofBitVec (W.extractLsb' 8 8))).set (k + 3) (UInt8.ofBitVec (W.extractLsb' 0 8)) := by
  unfold setField; rw [wordBV_four, append_eq_cat4]
  simp [putBV, extract_extract]

end TV.Spec

namespace TV.Spec
/-! whole-octet fields (addresses): splice lemmas -/
variable {α : Type}

theorem splice_length (b v : List α) (k n : Nat) (hk : k + n ≤ b.length) (hv : v.length = n) :
    (b.take k ++ v ++ b.drop (k + n)).length = b.length := by
  simp [List.length_append, List.length_take, List.length_drop, hv]
  omega

theorem splice_get (b v : List α) (k n : Nat) (hk : k + n ≤ b.length) (hv : v.length = n) :
    ((b.take k ++ v ++ b.drop (k + n)).drop k).take n = v := by
  have h12 : (b.take k).length = k := by simp; omega
  rw [List.append_assoc, List.drop_append_of_le_length (by omega)]
  simp [h12, hv]

theorem splice_take (b v : List α) (k n : Nat) (hk : k + n ≤ b.length) :
    (b.take k ++ v ++ b.drop (k + n)).take k = b.take k := by
  have h12 : (b.take k).length = k := by simp; omega
  rw [List.append_assoc, List.take_append_of_le_length (by omega)]
  rw [List.take_take]; simp

theorem splice_drop (b v : List α) (k n : Nat) (hk : k + n ≤ b.length) (hv : v.length = n) :
    (b.take k ++ v ++ b.drop (k + n)).drop (k + n) = b.drop (k + n) := by
  have h12 : (b.take k ++ v).length = k + n := by simp [hv]; omega
  rw [List.drop_append_of_le_length (by omega)]
  simp [h12]
end TV.Spec
