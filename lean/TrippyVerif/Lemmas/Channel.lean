import TrippyVerif.Model.Channel
import TrippyVerif.Lemmas.Wire
/-
Helper lemmas for the Channel layer (`Props/Channel.lean`).
-/
namespace TV.Chan
open TV TV.Wire

/-! ### `runOps` without an armed error makes every call -/

theorem runOps_none (path : Path) (ops : List SockOp) : runOps path none ops = (ops, none) := by
  induction ops with
  | nil => rfl
  | cons op rest ih => simp [runOps, ih]

/-! ### the probe list and the scripted socket answers -/

theorem pairUp_map_fst : ∀ (l : List TcpEntry) (env : List SockEnv), (pairUp l env).map (·.1) = l
  | [], _ => by simp [pairUp]
  | e :: es, [] => by simp [pairUp, pairUp_map_fst es []]
  | e :: es, s :: ss => by simp [pairUp, pairUp_map_fst es ss]

/-- `firstWritable` splits the list at the first writable socket -/
theorem firstWritable_spec (l : List (TcpEntry × SockEnv)) :
    (∀ y ∈ (firstWritable l).1, y.2.writable = false) ∧
    (match (firstWritable l).2.1 with
     | none => l = (firstWritable l).1 ∧ (firstWritable l).2.2 = []
     | some x => x.2.writable = true ∧ l = (firstWritable l).1 ++ x :: (firstWritable l).2.2) := by
  induction l with
  | nil => simp [firstWritable]
  | cons x rest ih =>
    unfold firstWritable
    by_cases hx : x.2.writable = true
    · simp [hx]
    · simp only [hx, Bool.false_eq_true, if_false]
      obtain ⟨h1, h2⟩ := ih
      constructor
      · intro y hy
        rcases List.mem_cons.mp hy with rfl | hy
        · simpa using hx
        · exact h1 y hy
      · cases h : (firstWritable rest).2.1 with
        | none => rw [h] at h2; simp only; exact ⟨by rw [← h2.1], h2.2⟩
        | some w => rw [h] at h2; simp only; exact ⟨h2.1, by rw [List.cons_append, ← h2.2]⟩

/-- the entries `recv_tcp_sockets` keeps and looks at -/
def kept (ch : Chan) (env : Env) : List (TcpEntry × SockEnv) :=
  (pairUp ch.tcp env.tcp).filter fun x => young ch.now ch.tcpTimeout x.1

theorem kept_sublist (ch : Chan) (env : Env) : ((kept ch env).map (·.1)).Sublist ch.tcp := by
  have h := (List.filter_sublist (l := pairUp ch.tcp env.tcp)
    (p := fun x => young ch.now ch.tcpTimeout x.1)).map (·.1)
  rwa [pairUp_map_fst] at h

theorem kept_young (ch : Chan) (env : Env) : ∀ x ∈ kept ch env, ch.now - x.1.start < ch.tcpTimeout := by
  intro x hx
  have := (List.mem_filter.mp hx).2
  simpa [young] using this

/-- the state after `recv_probe` over TCP: the list is `pre ++ post` of the split of `kept` -/
theorem recv_tcp_chan (ch : Chan) (env : Env) (hp : ch.cfg.proto = .tcp) :
    (recv ch env).chan = { ch with tcp := ((firstWritable (kept ch env)).1 ++
      (firstWritable (kept ch env)).2.2).map (·.1) } ∧
    (recv ch env).polled = ((firstWritable (kept ch env)).1 ++
      (match (firstWritable (kept ch env)).2.1 with | none => [] | some x => [x])).map (·.1) := by
  have hs := firstWritable_spec (kept ch env)
  unfold recv
  simp only [hp]
  rw [show (List.filter (fun x => young ch.now ch.tcpTimeout x.1) (pairUp ch.tcp env.tcp)) =
    kept ch env from rfl]
  rcases hfw : firstWritable (kept ch env) with ⟨pre, o, post⟩
  rw [hfw] at hs
  cases o with
  | none =>
    simp only at hs
    simp [hs.2.2]
  | some x =>
    simp only
    cases tcpOutcome ch.cfg x.1 x.2 with
    | ok r => cases r <;> simp
    | err e => simp
    | panic => simp

theorem recv_nontcp (ch : Chan) (env : Env) (hp : ch.cfg.proto ≠ .tcp) :
    recv ch env = { chan := ch, out := recvIcmpPart ch env, polled := [] } := by
  unfold recv
  cases h : ch.cfg.proto <;> simp_all

/-- `recv_probe` changes nothing but the probe list -/
theorem recv_keeps (ch : Chan) (env : Env) :
    (recv ch env).chan.cfg = ch.cfg ∧ (recv ch env).chan.now = ch.now ∧
    (recv ch env).chan.tcpTimeout = ch.tcpTimeout ∧ (recv ch env).chan.hasSend = ch.hasSend ∧
    (recv ch env).chan.readTimeout = ch.readTimeout := by
  by_cases hp : ch.cfg.proto = .tcp
  · rw [(recv_tcp_chan ch env hp).1]; simp
  · rw [recv_nontcp ch env hp]; simp

theorem recv_tcp_sublist (ch : Chan) (env : Env) : (recv ch env).chan.tcp.Sublist ch.tcp := by
  by_cases hp : ch.cfg.proto = .tcp
  · rw [(recv_tcp_chan ch env hp).1]
    simp only
    have hs := firstWritable_spec (kept ch env)
    refine List.Sublist.trans ?_ (kept_sublist ch env)
    apply List.Sublist.map
    cases h : (firstWritable (kept ch env)).2.1 with
    | none =>
      rw [h] at hs; simp only at hs; rw [hs.2.2, List.append_nil, ← hs.2.1]
      exact List.Sublist.refl _
    | some x =>
      rw [h] at hs; simp only at hs
      conv => rhs; rw [hs.2.2]
      exact List.Sublist.append (List.Sublist.refl _) (List.sublist_cons_self _ _)
  · rw [recv_nontcp ch env hp]
    exact List.Sublist.refl _

theorem recv_tcp_young (ch : Chan) (env : Env) (hp : ch.cfg.proto = .tcp) :
    ∀ e ∈ (recv ch env).chan.tcp, ch.now - e.start < ch.tcpTimeout := by
  rw [(recv_tcp_chan ch env hp).1]
  simp only
  intro e he
  obtain ⟨x, hx, rfl⟩ := List.mem_map.mp he
  have hs := firstWritable_spec (kept ch env)
  have hk : x ∈ kept ch env := by
    cases h : (firstWritable (kept ch env)).2.1 with
    | none =>
      rw [h] at hs; simp only at hs
      rw [hs.2.2, List.append_nil] at hx; rw [hs.2.1]; exact hx
    | some w =>
      rw [h] at hs; simp only at hs
      rw [hs.2.2]
      rcases List.mem_append.mp hx with hx | hx
      · exact List.mem_append_left _ hx
      · exact List.mem_append_right _ (List.mem_cons_of_mem _ hx)
  exact kept_young ch env x hk

end TV.Chan
