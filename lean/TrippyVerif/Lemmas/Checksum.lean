import TrippyVerif.Model.Checksum
import TrippyVerif.Spec.Rfc1071
/-
Helper lemmas for C13 (model of checksum.rs = RFC 1071).
-/
namespace TV.Cksum
open TV TV.Rfc1071

/-! ### two-octets-at-a-time induction -/

theorem two_step {α : Type} {P : List α → Prop} (h0 : P []) (h1 : ∀ a, P [a])
    (h2 : ∀ a b r, P r → P (a :: b :: r)) : ∀ l, P l
  | [] => h0
  | [a] => h1 a
  | a :: b :: r => h2 a b r (two_step h0 h1 h2 r)

/-! ### end-around carry -/

theorem fold16_le (n : Nat) : fold16 n ≤ 65535 := by
  unfold fold16; split
  · omega
  · split <;> omega

theorem fold16_eq_zero (n : Nat) : fold16 n = 0 ↔ n = 0 := by
  unfold fold16; split
  · simp [*]
  · split <;> omega

theorem fold16_mod (n : Nat) : fold16 n % 65535 = n % 65535 := by
  unfold fold16; split
  · simp [*]
  · split <;> omega

theorem fold16_le_self (n : Nat) : fold16 n ≤ n := by
  unfold fold16; split
  · omega
  · split <;> omega

theorem fold16_small {n : Nat} (h : n < 65536) : fold16 n = n := by
  unfold fold16; split
  · omega
  · split <;> omega

theorem fold16_carry (n : Nat) : fold16 (n / 65536 + n % 65536) = fold16 n := by
  unfold fold16
  split <;> split <;> (try split) <;> (try split) <;> omega

theorem fold16_compl (s : Nat) : fold16 (s + (65535 - fold16 s)) = 65535 := by
  have h1 := fold16_le s
  have h2 := fold16_le_self s
  have h3 := fold16_mod s
  generalize fold16 s = f at *
  unfold fold16
  split
  · omega
  · split <;> omega

theorem finLoop_eq_fold16 (n : Nat) : finLoop n = fold16 n := by
  induction n using Nat.strongRecOn with
  | _ n ih =>
    unfold finLoop
    split
    · rename_i h
      have hlt := finStep_lt n h
      rw [ih _ hlt, and_ffff, shr16]
      exact fold16_carry n
    · rename_i h
      rw [shr16] at h
      have : n / 65536 = 0 := by simpa using h
      exact (fold16_small (by omega)).symm

theorem finLoop_lt (n : Nat) : finLoop n < 65536 := by
  rw [finLoop_eq_fold16]; have := fold16_le n; omega

theorem finalize_eq (n : Nat) : finalize n = 0xFFFF - fold16 n := by
  unfold finalize
  rw [finLoop_eq_fold16]
  have := fold16_le n
  omega

/-! ### word sums -/

/-- the words summed by the `while` loop (the odd tail is left over) -/
def evenSum : List UInt8 → Nat
  | a :: b :: rest => be16n a b + evenSum rest
  | _ => 0

theorem evenSum_cons2 (a b : UInt8) (r : List UInt8) :
    evenSum (a :: b :: r) = be16n a b + evenSum r := rfl

/-- the odd trailing octet, shifted into the high half (0 for even lengths) -/
def lastOdd : List UInt8 → Nat
  | [] => 0
  | [a] => a.toNat * 256
  | _ :: _ :: rest => lastOdd rest

/-- the data as the loop sees it from word index `i` on: field `iw` cleared if still ahead -/
def zfFrom (iw i : Nat) (d : List UInt8) : List UInt8 :=
  if i ≤ iw then zeroField (iw - i) d else d

@[simp] theorem zeroField_nil (k : Nat) : zeroField k [] = [] := by simp [zeroField]

theorem zeroField_single (k : Nat) (a : UInt8) :
    zeroField k [a] = if k = 0 then [0] else [a] := by
  cases k with
  | zero => simp [zeroField]
  | succ k =>
    have h1 : 2 * (k + 1) = (2 * k + 1) + 1 := by omega
    simp [zeroField, h1]

theorem zeroField_cons2_zero (a b : UInt8) (r : List UInt8) :
    zeroField 0 (a :: b :: r) = 0 :: 0 :: r := by simp [zeroField]

theorem zeroField_cons2_succ (k : Nat) (a b : UInt8) (r : List UInt8) :
    zeroField (k + 1) (a :: b :: r) = a :: b :: zeroField k r := by
  have h1 : 2 * (k + 1) = (2 * k + 1) + 1 := by omega
  simp [zeroField, h1]

@[simp] theorem zeroField_length (k : Nat) (d : List UInt8) :
    (zeroField k d).length = d.length := by simp [zeroField]

@[simp] theorem zfFrom_nil (iw i : Nat) : zfFrom iw i [] = [] := by
  unfold zfFrom; split <;> simp

theorem zfFrom_single (iw i : Nat) (a : UInt8) :
    zfFrom iw i [a] = if i = iw then [0] else [a] := by
  unfold zfFrom
  split
  · rw [zeroField_single]
    by_cases h : i = iw
    · simp [h]
    · have : iw - i ≠ 0 := by omega
      simp [h, this]
  · have : i ≠ iw := by omega
    simp [this]

theorem zfFrom_cons2 (iw i : Nat) (a b : UInt8) (r : List UInt8) :
    zfFrom iw i (a :: b :: r) =
      if i = iw then 0 :: 0 :: r else a :: b :: zfFrom iw (i + 1) r := by
  unfold zfFrom
  by_cases h : i = iw
  · subst h; simp [zeroField_cons2_zero]
  · by_cases hlt : i ≤ iw
    · have h1 : iw - i = (iw - (i + 1)) + 1 := by omega
      have h2 : i + 1 ≤ iw := by omega
      rw [if_pos hlt, if_neg h, if_pos h2, h1, zeroField_cons2_succ]
    · have h2 : ¬ (i + 1 ≤ iw) := by omega
      rw [if_neg hlt, if_neg h, if_neg h2]

theorem zfFrom_zero (iw : Nat) (d : List UInt8) : zfFrom iw 0 d = zeroField iw d := by
  simp [zfFrom]

theorem zfFrom_past (iw : Nat) (d : List UInt8) : zfFrom iw (iw + 1) d = d := by
  unfold zfFrom; rw [if_neg (by omega)]

theorem toNat_lt256 (a : UInt8) : a.toNat < 256 := UInt8.toNat_lt a

theorem be16n_le (a b : UInt8) : be16n a b ≤ 65535 := by
  have := toNat_lt256 a; have := toNat_lt256 b; unfold be16n; omega

/-- `wordSum = evenSum + odd tail`, on the data with field `iw` cleared; the tail vanishes
exactly when the cleared word *is* the odd tail (`iw = len/2`). -/
theorem wordSum_zfFrom (iw : Nat) : ∀ (d : List UInt8) (i : Nat),
    wordSum (zfFrom iw i d) =
      evenSum (zfFrom iw i d) + (if i + d.length / 2 ≠ iw then lastOdd d else 0) := by
  intro d
  induction d using two_step with
  | h0 => intro i; simp [wordSum, evenSum, lastOdd]
  | h1 a =>
    intro i
    rw [zfFrom_single]
    by_cases h : i = iw
    · simp [h, wordSum, evenSum]
    · simp [h, wordSum, evenSum, lastOdd]
  | h2 a b r ih =>
    intro i
    rw [zfFrom_cons2]
    have hl : (a :: b :: r).length / 2 = r.length / 2 + 1 := by
      simp only [List.length_cons]; omega
    by_cases h : i = iw
    · subst h
      have := ih (i + 1)
      rw [zfFrom_past] at this
      have c1 : i + 1 + r.length / 2 ≠ i := by omega
      have c2 : i + (a :: b :: r).length / 2 ≠ i := by omega
      rw [if_pos c1] at this
      rw [if_pos rfl, if_pos c2]
      simp [wordSum, evenSum, be16n, lastOdd, this]
    · rw [if_neg h]
      have := ih (i + 1)
      have e : (i + 1 + r.length / 2 ≠ iw) ↔ (i + (a :: b :: r).length / 2 ≠ iw) := by
        rw [hl]; omega
      simp only [e] at this
      simp only [wordSum, evenSum, be16n, lastOdd, this]
      omega

theorem wordSum_eq_even_add_last (d : List UInt8) : wordSum d = evenSum d + lastOdd d := by
  have := wordSum_zfFrom (d.length / 2 + 1) d (d.length / 2 + 2)
  have h : zfFrom (d.length / 2 + 1) (d.length / 2 + 2) d = d := by
    unfold zfFrom; rw [if_neg (by omega)]
  rw [h, if_pos (by omega)] at this
  exact this

theorem lastOdd_even : ∀ (d : List UInt8), d.length % 2 = 0 → lastOdd d = 0 := by
  intro d
  induction d using two_step with
  | h0 => intro _; rfl
  | h1 a => intro h; simp at h
  | h2 a b r ih =>
    intro h
    simp only [List.length_cons] at h
    simp only [lastOdd]
    exact ih (by omega)

/-- `data[len - 1]` for odd `len` is the octet `lastOdd` speaks about -/
theorem rd_last_odd : ∀ (d : List UInt8), d.length % 2 = 1 →
    ∃ x, rd d (d.length - 1) = .ok x ∧ lastOdd d = x.toNat * 256 := by
  intro d
  induction d using two_step with
  | h0 => intro h; simp at h
  | h1 a => intro _; exact ⟨a, by simp [rd], rfl⟩
  | h2 a b r ih =>
    intro h
    simp only [List.length_cons] at h
    obtain ⟨x, hx, hl⟩ := ih (by omega)
    refine ⟨x, ?_, by simpa [lastOdd] using hl⟩
    obtain ⟨m, hm⟩ : ∃ m, r.length = m + 1 := ⟨r.length - 1, by omega⟩
    simp only [rd, hm, List.length_cons] at hx ⊢
    simpa using hx

theorem wordSum_le : ∀ (d : List UInt8), wordSum d ≤ 65535 * ((d.length + 1) / 2) := by
  intro d
  induction d using two_step with
  | h0 => simp [wordSum]
  | h1 a => have := toNat_lt256 a; simp [wordSum]; omega
  | h2 a b r ih =>
    have := toNat_lt256 a; have := toNat_lt256 b
    simp only [wordSum, List.length_cons]
    omega

theorem wordSum_zeroField_le (iw : Nat) (d : List UInt8) :
    wordSum (zeroField iw d) ≤ 65535 * ((d.length + 1) / 2) := by
  have := wordSum_le (zeroField iw d)
  rwa [zeroField_length] at this

theorem wordSum_append_even : ∀ (a b : List UInt8), a.length % 2 = 0 →
    wordSum (a ++ b) = wordSum a + wordSum b := by
  intro a b
  induction a using two_step with
  | h0 => intro _; simp [wordSum]
  | h1 x => intro h; simp at h
  | h2 x y r ih =>
    intro h
    simp only [List.length_cons] at h
    simp only [List.cons_append, wordSum, ih (by omega)]
    omega

/-! ### the model's pieces -/

theorem addU32_ok {a b : Nat} (h : a + b < U32) : addU32 a b = .ok (a + b) := by
  simp [addU32, h]

theorem addU32_panic {a b : Nat} (h : ¬ a + b < U32) : addU32 a b = .panic := by
  simp [addU32, h]

/-- the `while` loop: exact outcome (overflow panic included) -/
theorem sumLoop_eq (iw : Nat) : ∀ (d : List UInt8) (i s : Nat), s < U32 →
    sumLoop iw d i s =
      if s + evenSum (zfFrom iw i d) < U32
      then .ok (i + d.length / 2, s + evenSum (zfFrom iw i d)) else .panic := by
  intro d
  induction d using two_step with
  | h0 => intro i s hs; simp [sumLoop, evenSum, hs]
  | h1 a =>
    intro i s hs
    rw [zfFrom_single]
    by_cases h : i = iw <;> simp [h, sumLoop, evenSum, hs]
  | h2 a b r ih =>
    intro i s hs
    rw [zfFrom_cons2]
    have hl : (a :: b :: r).length / 2 = r.length / 2 + 1 := by
      simp only [List.length_cons]; omega
    have hi : i + 1 + r.length / 2 = i + (a :: b :: r).length / 2 := by omega
    by_cases h : i = iw
    · subst h
      have hne : ¬ ((i != i) = true) := by simp
      rw [sumLoop, if_neg hne, ih (i + 1) s hs, zfFrom_past, if_pos rfl, hi]
      simp [evenSum, be16n]
    · have hne : (i != iw) = true := by simp [h]
      rw [sumLoop, if_pos hne, if_neg h]
      by_cases hov : s + be16n a b < U32
      · rw [addU32_ok hov]
        simp only [R.bind_ok]
        rw [ih (i + 1) (s + be16n a b) hov, hi, evenSum_cons2, Nat.add_assoc]
      · rw [addU32_panic hov]
        simp only [R.bind_panic]
        have : ¬ s + evenSum (a :: b :: zfFrom iw (i + 1) r) < U32 := by
          rw [evenSum_cons2]; omega
        rw [if_neg this]

/-- `sum_be_words`: exact outcome.  It is the plain word sum of the data with field
`ignore_word` cleared, unless that sum does not fit the `u32` accumulator (dev profile: panic). -/
theorem sumBeWords_exact (d : List UInt8) (iw : Nat) :
    sumBeWords d iw =
      if wordSum (zeroField iw d) < U32 then .ok (wordSum (zeroField iw d)) else .panic := by
  unfold sumBeWords
  by_cases he : d = []
  · subst he; simp [wordSum, U32]
  · have hne : d.isEmpty = false := by simpa using he
    rw [hne]
    simp only [Bool.false_eq_true, if_false]
    rw [sumLoop_eq iw d 0 0 (by simp [U32]), zfFrom_zero]
    have hw := wordSum_zfFrom iw d 0
    rw [zfFrom_zero] at hw
    simp only [Nat.zero_add] at hw ⊢
    by_cases hE : evenSum (zeroField iw d) < U32
    · rw [if_pos hE]
      simp only [R.bind_ok]
      by_cases hi : d.length / 2 = iw
      · have c : ¬ ((d.length / 2 != iw && d.length &&& 1 != 0) = true) := by simp [hi]
        rw [if_neg c]
        rw [if_neg (by simpa using hi)] at hw
        rw [hw]; simp [hE]
      · rw [if_pos hi] at hw
        by_cases hodd : d.length % 2 = 1
        · have c : (d.length / 2 != iw && d.length &&& 1 != 0) = true := by
            simp [hi, Nat.and_one_is_mod, hodd]
          rw [if_pos c]
          obtain ⟨x, hx, hl⟩ := rd_last_odd d hodd
          rw [hx]
          simp only [R.bind_ok]
          rw [hw, hl, Nat.shiftLeft_eq]
          simp [addU32]
        · have c : ¬ ((d.length / 2 != iw && d.length &&& 1 != 0) = true) := by
            have : d.length % 2 = 0 := by omega
            simp [Nat.and_one_is_mod, this]
          rw [if_neg c, hw, lastOdd_even d (by omega)]
          simp [hE]
    · rw [if_neg hE]
      have : ¬ wordSum (zeroField iw d) < U32 := by omega
      rw [if_neg this]
      rfl

theorem wordSum_bound {d : List UInt8} (iw : Nat) (h : d.length ≤ 65535) :
    wordSum (zeroField iw d) ≤ 2147450880 := by
  have := wordSum_zeroField_le iw d
  have h2 : (d.length + 1) / 2 ≤ 32768 := by omega
  calc wordSum (zeroField iw d) ≤ 65535 * ((d.length + 1) / 2) := this
    _ ≤ 65535 * 32768 := Nat.mul_le_mul_left _ h2

theorem sumBeWords_ok (d : List UInt8) (iw : Nat) (h : d.length ≤ 65535) :
    sumBeWords d iw = .ok (wordSum (zeroField iw d)) := by
  rw [sumBeWords_exact, if_pos]
  have := wordSum_bound iw h
  unfold U32; omega

theorem shl8_or (a b : UInt8) : (a.toNat <<< 8) ||| b.toNat = a.toNat * 256 + b.toNat := by
  have hb := toNat_lt256 b
  rw [← Nat.shiftLeft_add_eq_or_of_lt (by simpa using hb), Nat.shiftLeft_eq]

theorem ipv4WordSum_eq {ip : List UInt8} (h : ip.length = 4) :
    ipv4WordSum ip = .ok (wordSum ip) := by
  match ip, h with
  | [a, b, c, d], _ =>
    have := toNat_lt256 a; have := toNat_lt256 b
    have := toNat_lt256 c; have := toNat_lt256 d
    simp only [ipv4WordSum]
    rw [shl8_or, shl8_or, addU32_ok (by unfold U32; omega)]
    simp [wordSum]

theorem sumU32_segments : ∀ (ip : List UInt8) (acc : Nat), acc < U32 →
    sumU32 acc (segments ip) =
      if acc + evenSum ip < U32 then .ok (acc + evenSum ip) else .panic := by
  intro ip
  induction ip using two_step with
  | h0 => intro acc h; simp [segments, sumU32, evenSum, h]
  | h1 a => intro acc h; simp [segments, sumU32, evenSum, h]
  | h2 a b r ih =>
    intro acc h
    simp only [segments, sumU32]
    rw [evenSum_cons2]
    by_cases hov : acc + be16n a b < U32
    · rw [addU32_ok hov]
      simp only [R.bind_ok]
      rw [ih _ hov, Nat.add_assoc]
    · rw [addU32_panic hov]
      simp only [R.bind_panic]
      rw [if_neg (by omega)]

theorem ipv6WordSum_eq {ip : List UInt8} (h : ip.length = 16) :
    ipv6WordSum ip = .ok (wordSum ip) := by
  unfold ipv6WordSum
  rw [if_pos h, sumU32_segments ip 0 (by simp [U32])]
  have e : wordSum ip = evenSum ip := by
    rw [wordSum_eq_even_add_last, lastOdd_even ip (by omega)]; rfl
  have := wordSum_le ip
  rw [h] at this
  rw [if_pos (by unfold U32; omega), e]
  simp

/-! ### pseudo headers -/

theorem wordSum_pseudo4 {src dst : List UInt8} (p : UInt8) {len : Nat} (rest : List UInt8)
    (hs : src.length = 4) (hd : dst.length = 4) (hl : len ≤ 65535) :
    wordSum (pseudo4 src dst p len ++ rest) =
      wordSum src + wordSum dst + p.toNat + len + wordSum rest := by
  unfold pseudo4
  rw [wordSum_append_even _ rest (by simp [hs, hd]),
      wordSum_append_even _ _ (by simp [hs, hd]),
      wordSum_append_even _ _ (by simp [hs, hd]),
      wordSum_append_even _ _ (by simp [hs])]
  simp only [wordSum, UInt8.toNat_ofNat']
  simp
  omega

theorem wordSum_pseudo6 {src dst : List UInt8} (p : UInt8) {len : Nat} (rest : List UInt8)
    (hs : src.length = 16) (hd : dst.length = 16) (hl : len ≤ 65535) :
    wordSum (pseudo6 src dst p len ++ rest) =
      wordSum src + wordSum dst + p.toNat + len + wordSum rest := by
  unfold pseudo6
  rw [wordSum_append_even _ rest (by simp [hs, hd]),
      wordSum_append_even _ _ (by simp [hs, hd]),
      wordSum_append_even _ _ (by simp [hs, hd]),
      wordSum_append_even _ _ (by simp [hs])]
  simp only [wordSum, UInt8.toNat_ofNat']
  simp
  omega

/-! ### the three internal checksum functions against RFC 1071 -/

theorem checksum_eq {d : List UInt8} (iw : Nat) (hne : d ≠ []) (h : d.length ≤ 65535) :
    checksum d iw = .ok (ocsum (zeroField iw d)) := by
  unfold checksum
  have : d.isEmpty = false := by simpa using hne
  rw [this, sumBeWords_ok d iw h]
  simp [finalize_eq, ocsum]

theorem ipv4Checksum_eq {d src dst : List UInt8} (iw : Nat) (p : UInt8)
    (hs : src.length = 4) (hd : dst.length = 4) (h : d.length ≤ 65535) :
    ipv4Checksum d iw src dst p =
      .ok (ocsum (pseudo4 src dst p d.length ++ zeroField iw d)) := by
  unfold ipv4Checksum
  have b1 := wordSum_le src
  have b2 := wordSum_le dst
  rw [hs] at b1; rw [hd] at b2
  have b3 := toNat_lt256 p
  have b4 := wordSum_bound iw h
  have hlen : lenAsU32 d = d.length := by unfold lenAsU32 U32; omega
  rw [ipv4WordSum_eq hs, ipv4WordSum_eq hd, sumBeWords_ok d iw h, hlen]
  simp only [R.bind_ok]
  rw [addU32_ok (by unfold U32; omega)]; simp only [R.bind_ok]
  rw [addU32_ok (by unfold U32; omega)]; simp only [R.bind_ok]
  rw [addU32_ok (by unfold U32; omega)]; simp only [R.bind_ok]
  rw [addU32_ok (by unfold U32; omega)]; simp only [R.bind_ok]
  rw [addU32_ok (by unfold U32; omega)]; simp only [R.bind_ok]
  rw [finalize_eq, ocsum, wordSum_pseudo4 p _ hs hd h]
  simp

theorem ipv6Checksum_eq {d src dst : List UInt8} (iw : Nat) (p : UInt8)
    (hs : src.length = 16) (hd : dst.length = 16) (h : d.length ≤ 65535) :
    ipv6Checksum d iw src dst p =
      .ok (ocsum (pseudo6 src dst p d.length ++ zeroField iw d)) := by
  unfold ipv6Checksum
  have b1 := wordSum_le src
  have b2 := wordSum_le dst
  rw [hs] at b1; rw [hd] at b2
  have b3 := toNat_lt256 p
  have b4 := wordSum_bound iw h
  have hlen : lenAsU32 d = d.length := by unfold lenAsU32 U32; omega
  rw [ipv6WordSum_eq hs, ipv6WordSum_eq hd, sumBeWords_ok d iw h, hlen]
  simp only [R.bind_ok]
  rw [addU32_ok (by unfold U32; omega)]; simp only [R.bind_ok]
  rw [addU32_ok (by unfold U32; omega)]; simp only [R.bind_ok]
  rw [addU32_ok (by unfold U32; omega)]; simp only [R.bind_ok]
  rw [addU32_ok (by unfold U32; omega)]; simp only [R.bind_ok]
  rw [addU32_ok (by unfold U32; omega)]; simp only [R.bind_ok]
  rw [finalize_eq, ocsum, wordSum_pseudo6 p _ hs hd h]
  simp

/-! ### verification: inserting the checksum makes the datagram sum to 0xFFFF -/

theorem putField_cons2_zero (c : Nat) (a b : UInt8) (r : List UInt8) :
    putField 0 c (a :: b :: r) = UInt8.ofNat (c / 256) :: UInt8.ofNat (c % 256) :: r := by
  simp [putField]

theorem putField_cons2_succ (k c : Nat) (a b : UInt8) (r : List UInt8) :
    putField (k + 1) c (a :: b :: r) = a :: b :: putField k c r := by
  have h1 : 2 * (k + 1) = (2 * k + 1) + 1 := by omega
  simp [putField, h1]

theorem wordSum_putField (c : Nat) (hc : c < 65536) : ∀ (d : List UInt8) (iw : Nat),
    2 * iw + 1 < d.length → wordSum (putField iw c d) = wordSum (zeroField iw d) + c := by
  intro d
  induction d using two_step with
  | h0 => intro iw h; simp at h
  | h1 a => intro iw h; simp only [List.length_cons, List.length_nil] at h; omega
  | h2 a b r ih =>
    intro iw h
    cases iw with
    | zero =>
      rw [putField_cons2_zero, zeroField_cons2_zero]
      simp only [wordSum, UInt8.toNat_ofNat']
      simp
      omega
    | succ k =>
      rw [putField_cons2_succ, zeroField_cons2_succ]
      simp only [List.length_cons] at h
      simp only [wordSum, ih k (by omega)]
      omega

/-- generic verification step: `pre` is an even-length prefix (pseudo header or nothing) -/
theorem verifies_putField (pre d : List UInt8) (iw : Nat) (hpre : pre.length % 2 = 0)
    (hf : 2 * iw + 1 < d.length) :
    verifies (pre ++ putField iw (ocsum (pre ++ zeroField iw d)) d) := by
  unfold verifies
  have hc : ocsum (pre ++ zeroField iw d) < 65536 := by unfold ocsum; omega
  rw [wordSum_append_even _ _ hpre, wordSum_putField _ hc d iw hf, ← Nat.add_assoc,
      ← wordSum_append_even _ _ hpre]
  exact fold16_compl _

theorem pseudo4_length_even {src dst : List UInt8} (p : UInt8) (len : Nat)
    (hs : src.length = 4) (hd : dst.length = 4) : (pseudo4 src dst p len).length % 2 = 0 := by
  simp [pseudo4, hs, hd]

theorem pseudo6_length_even {src dst : List UInt8} (p : UInt8) (len : Nat)
    (hs : src.length = 16) (hd : dst.length = 16) : (pseudo6 src dst p len).length % 2 = 0 := by
  simp [pseudo6, hs, hd]

/-! ### test vectors of the repository (used by the `example`s of Props/C13) -/

/-- `test_tcp_ipv4_checksum`: 10.0.0.103 → 10.0.0.1, 20-octet SYN/ACK, expected 0x55cc -/
def tcpVec : List UInt8 :=
  [0x00, 0x50, 0x80, 0xea, 0x00, 0x00, 0x00, 0x00, 0x95, 0x9d, 0x2e, 0xc7, 0x50, 0x12, 0xff, 0xff,
   0x55, 0xcc, 0x00, 0x00]

/-- `test_ipv4_header_checksum`, expected 0x1e3f -/
def ipVec : List UInt8 :=
  [0x45, 0x00, 0x0f, 0xfc, 0x38, 0xc0, 0x00, 0x00, 0x40, 0x01, 0x2e, 0x3b, 0x0a, 0x00, 0x00, 0x02,
   0x0a, 0x00, 0x00, 0x01]

end TV.Cksum
