import TrippyVerif.Lemmas.StrategyHist
import TrippyVerif.Spec.Reagg
/-
Composition lemmas: the rounds the strategy publishes are the rounds the aggregator accepts
(`Reagg.RoundWF`).  Links the strategy model (ghost history, TTL trace) to the aggregator spec.
-/
namespace TV.Strat
open TV TV.Reagg

/-- the TTLs of the calls that were not abandoned for a re-issue -/
def freshTtls (log : List (Probe × SendOutcome)) : List Nat :=
  log.filterMap fun x => if x.2 = .addrInUse then none else some x.1.ttl

theorem ttlsFrom_fresh : ∀ (log : List (Probe × SendOutcome)) (t t' : Nat), ttlsFrom t log = some t' →
    t ≤ t' ∧ freshTtls log = List.range' t (t' - t) := by
  intro log
  induction log with
  | nil => intro t t' h; simp [ttlsFrom] at h; subst h; simp [freshTtls]
  | cons x xs ih =>
    intro t t' h
    obtain ⟨p, o⟩ := x
    simp only [ttlsFrom] at h
    by_cases hp : p.ttl = t
    · rw [if_pos hp] at h
      by_cases ho : o = .addrInUse
      · rw [if_pos ho] at h
        obtain ⟨h1, h2⟩ := ih t t' h
        refine ⟨h1, ?_⟩
        simp only [freshTtls, List.filterMap_cons, ho, if_true]
        exact h2
      · rw [if_neg ho] at h
        obtain ⟨h1, h2⟩ := ih (t + 1) t' h
        refine ⟨by omega, ?_⟩
        simp only [freshTtls, List.filterMap_cons, ho, if_false, hp]
        have : t' - t = (t' - (t + 1)) + 1 := by omega
        rw [this, List.range'_succ]
        exact congrArg _ h2
    · rw [if_neg hp] at h; cases h

/-- the slot reported for a `send_probe` call carries that call's TTL, unless the call was
abandoned for a re-issue -/
theorem slotTtl_expected {c : Cfg} {s : TS} {g : Ghost} (hg : GInv c s g) (x : Probe × SendOutcome)
    (hx : x ∈ g.sent) :
    slotTtl (expectedSlot g.accepted x) = if x.2 = .addrInUse then none else some x.1.ttl := by
  obtain ⟨p, o⟩ := x
  cases o with
  | ok =>
    simp only [expectedSlot]
    cases hf : g.accepted.find? (fun a => a.1.seq = p.seq) with
    | none => simp [slotTtl]
    | some a =>
      have hm := List.mem_of_find?_eq_some hf
      have hs : a.1.seq = p.seq := by simpa using List.find?_some hf
      -- the accepted probe is the very probe of this call: sequence numbers are distinct
      have hmem := hg.acc a hm
      obtain ⟨j, hj, hje⟩ := List.getElem_of_mem hmem
      obtain ⟨k, hk, hke⟩ := List.getElem_of_mem hx
      have h1 := hg.seqs j hj
      have h2 := hg.seqs k hk
      rw [hje] at h1; rw [hke] at h2
      simp at h1 h2
      have hjk : j = k := by omega
      subst hjk
      rw [hje] at hke
      have : a.1 = p := by cases hke; rfl
      simp [slotTtl, mkComplete, this]
  | probeFailed => simp [expectedSlot, slotOf, slotTtl]
  | addrInUse => simp [expectedSlot, slotOf, slotTtl]
  | fatal => simp [expectedSlot, slotOf, slotTtl]

theorem filterMap_congr' {α β : Type} {f g : α → Option β} : ∀ {l : List α}, (∀ x ∈ l, f x = g x) →
    l.filterMap f = l.filterMap g
  | [], _ => rfl
  | x :: xs, h => by
    simp only [List.filterMap_cons, h x (by simp)]
    rw [filterMap_congr' (fun y hy => h y (by simp [hy]))]

theorem ttls_published {c : Cfg} {s : TS} {g : Ghost} (hg : GInv c s g) :
    ttls (g.sent.map (expectedSlot g.accepted)) = freshTtls g.sent := by
  unfold ttls freshTtls
  rw [List.filterMap_map]
  apply filterMap_congr'
  intro x hx
  exact slotTtl_expected hg x hx

end TV.Strat

namespace TV.Strat
open TV TV.Reagg

/-- the ghost history through the send and receive steps of one iteration (before `update_round`) -/
theorem iter_ghost {c : Cfg} (hc : CfgOk c) {s s' : TS} (hi : Inv c s) {g : Ghost} (hg : GInv c s g)
    {e : IterEnv} {o : IterOut} (h : iter c s e = .ok (s', o)) :
    ∃ s1 s2 acc, sendRequest c s e.sends = .ok (s1, o.sent) ∧
      recvResponse c s1 e.dt e.recv = .ok s2 ∧ updateRound c s2 = .ok (s', o.published) ∧
      Inv c s1 ∧ Inv c s2 ∧ GInv c s2 { sent := g.sent ++ o.sent, accepted := g.accepted ++ acc } := by
  obtain ⟨s1, s2, h1, h2, h3⟩ := iter_decomp h
  have hi1 := ((sendRequest_spec hc hi e.sends).2 s1 o.sent h1).1
  have hg1 := ginv_send hc hi hg e.sends o.sent h1
  have hrecv : ∃ acc, Inv c s2 ∧
      GInv c s2 { sent := g.sent ++ o.sent, accepted := g.accepted ++ acc } := by
    cases hrv : e.recv with
    | none =>
      rw [hrv] at h2; simp [recvResponse] at h2; subst h2
      exact ⟨[], inv_tick hi1 _, by simpa using ginv_tick hg1 _⟩
    | fatal => rw [hrv] at h2; simp [recvResponse] at h2
    | resp r =>
      rw [hrv, recvResponse_spec hi1] at h2
      cases hgen : genuine c s1 r with
      | none =>
        simp [hgen] at h2; subst h2
        exact ⟨[], inv_tick hi1 _, by simpa using ginv_tick hg1 _⟩
      | some p =>
        simp [hgen] at h2; subst h2
        have hans : answered (tick s1 e.dt) (strategyResp c r).seq = some p := by
          unfold genuine at hgen
          split at hgen
          · rw [answered_tick]; exact hgen
          · cases hgen
        exact ⟨[(p, strategyResp c r)], inv_afterComplete (inv_tick hi1 _) _ hans,
          (ginv_accept (inv_tick hi1 _) (ginv_tick hg1 _) _ p hans).1⟩
  obtain ⟨acc, hi2, hg2⟩ := hrecv
  exact ⟨s1, s2, acc, h1, h2, h3, hi1, hi2, hg2⟩

end TV.Strat
