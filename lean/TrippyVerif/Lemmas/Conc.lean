import TrippyVerif.Model.Conc
/-
Invariant of the readers–writer-lock interleaving semantics for systems whose threads run the
canonical program shapes (one tracer thread running the handler shape; any number of snapshot,
clear and error threads).
-/
namespace TV.Conc

theorem shapes_ne (m : Nat) :
    snapshotShape ≠ clearShape ∧ snapshotShape ≠ errorShape ∧ snapshotShape ≠ handlerShape m ∧
    clearShape ≠ errorShape ∧ clearShape ≠ handlerShape m ∧ errorShape ≠ handlerShape m := by
  simp [snapshotShape, clearShape, errorShape, handlerShape]

/-- thread-local consistency with the lock -/
structure ThOK (m : Nat) (s : Sys) (i : Nat) (t : Th) : Prop where
  shape : t.body = snapshotShape ∨ t.body = clearShape ∨ t.body = errorShape ∨ t.body = handlerShape m
  pc_lt : t.pc < 3
  idle : t.pc = 0 → t.hold = .none
  busyR : t.body = snapshotShape → 1 ≤ t.pc → t.hold = .r
  busyW : t.body ≠ snapshotShape → 1 ≤ t.pc → t.hold = .w
  micro0 : t.pc ≠ 1 → t.micro = 0
  microLt : t.pc = 1 → t.body = handlerShape m → t.micro < m ∨ t.micro = 0
  holdW : t.hold = .w ↔ s.writer = some i
  holdR : t.hold = .r ↔ i ∈ s.readers

/-- the shared memory relative to the tracer thread's progress -/
def MemOK (m : Nat) (T : Th) (mem : Mem) : Prop :=
  ∃ c, c ≤ T.iter ∧
    ((T.pc = 0 ∧ mem = wholeRounds m c (T.iter - c)) ∨
     (T.pc = 1 ∧ mem = wholeRounds m c (T.iter - c) ++ (roundSteps m T.iter).take T.micro) ∨
     (T.pc = 2 ∧ mem = wholeRounds m c (T.iter - c + 1)))

structure SysInv (m tr : Nat) (s : Sys) : Prop where
  ths : ∀ i t, s.ths[i]? = some t → ThOK m s i t
  tracer : ∃ T, s.ths[tr]? = some T ∧ T.body = handlerShape m ∧ MemOK m T s.mem
  others : ∀ i t, s.ths[i]? = some t → i ≠ tr → t.body ≠ handlerShape m
  excl : ∀ i, s.writer = some i → s.readers = []
  nodup : s.readers.Nodup
  obs : ∀ o ∈ s.obs, Whole m o

theorem getElem?_set' {α} (l : List α) (i j : Nat) (x : α) (hi : i < l.length) :
    (l.set i x)[j]? = if j = i then some x else l[j]? := by
  by_cases h : j = i
  · subst h; simp [hi]
  · simp [h, List.getElem?_set_ne (Ne.symm h)]

theorem take_roundSteps_succ (m r j : Nat) (h : j < m) :
    (roundSteps m r).take (j + 1) = (roundSteps m r).take j ++ [(r, j)] := by
  unfold roundSteps
  rw [← List.map_take, ← List.map_take, List.take_range, List.take_range]
  rw [Nat.min_eq_left (by omega), Nat.min_eq_left (by omega), List.range_succ]
  simp

theorem take_roundSteps_all (m r : Nat) : (roundSteps m r).take m = roundSteps m r := by
  unfold roundSteps; rw [List.take_of_length_le]; simp


theorem rebuild {m tr : Nat} {s : Sys} (h : SysInv m tr s) (i : Nat) (t t' : Th)
    (hi : s.ths[i]? = some t) (s' : Sys) (hths : s'.ths = s.ths.set i t') (hbody : t'.body = t.body)
    (hok : ThOK m s' i t')
    (hw : ∀ j, j ≠ i → ∀ tj, s.ths[j]? = some tj →
      ((tj.hold = .w ↔ s'.writer = some j) ∧ (tj.hold = .r ↔ j ∈ s'.readers)))
    (hmem : ∀ T, s'.ths[tr]? = some T → MemOK m T s'.mem)
    (hexcl : ∀ j, s'.writer = some j → s'.readers = []) (hnodup : s'.readers.Nodup)
    (hobs : ∀ o ∈ s'.obs, Whole m o) : SysInv m tr s' := by
  have hlen : i < s.ths.length := (List.getElem?_eq_some_iff.mp hi).1
  have hget : ∀ j, s'.ths[j]? = if j = i then some t' else s.ths[j]? := by
    intro j; rw [hths]; exact getElem?_set' _ _ _ _ hlen
  refine ⟨?_, ?_, ?_, hexcl, hnodup, hobs⟩
  · intro j tj hj
    rw [hget] at hj
    by_cases hji : j = i
    · subst hji; simp at hj; subst hj; exact hok
    · simp [hji] at hj
      have o := h.ths j tj hj
      obtain ⟨w1, w2⟩ := hw j hji tj hj
      exact ⟨o.shape, o.pc_lt, o.idle, o.busyR, o.busyW, o.micro0, o.microLt, w1, w2⟩
  · obtain ⟨T, hT, hTb, _⟩ := h.tracer
    by_cases htr : tr = i
    · subst htr
      rw [hi] at hT; cases hT
      have : s'.ths[tr]? = some t' := by rw [hget]; simp
      exact ⟨t', this, by rw [hbody, hTb], hmem t' this⟩
    · have : s'.ths[tr]? = some T := by rw [hget]; simp [htr, hT]
      exact ⟨T, this, hTb, hmem T this⟩
  · intro j tj hj hjtr
    rw [hget] at hj
    by_cases hji : j = i
    · subst hji; simp at hj; subst hj; rw [hbody]; exact h.others j t hi hjtr
    · simp [hji] at hj; exact h.others j tj hj hjtr


theorem wholeRounds_whole (m c k : Nat) : Whole m (wholeRounds m c k) := ⟨c, k, rfl⟩

/-- when nobody holds the write lock the tracer thread is idle, so the memory is whole -/
theorem mem_whole_of_no_writer {m tr : Nat} {s : Sys} (h : SysInv m tr s) (hw : s.writer = none) :
    Whole m s.mem := by
  obtain ⟨T, hT, hTb, c, hc, hm⟩ := h.tracer
  have ok := h.ths tr T hT
  have hpc : T.pc = 0 := by
    by_cases h0 : T.pc = 0
    · exact h0
    · have : T.hold = .w := ok.busyW (by rw [hTb]; exact (shapes_ne m).2.2.1.symm) (by omega)
      rw [ok.holdW, hw] at this; cases this
  rcases hm with ⟨_, e⟩ | ⟨h1, _⟩ | ⟨h2, _⟩
  · rw [e]; exact wholeRounds_whole _ _ _
  · omega
  · omega

theorem next_lt3 (t : Th) (hb : t.body.length = 3) (hpc : t.pc < 3) :
    (t.pc = 2 → t.next = { t with pc := 0, micro := 0, iter := t.iter + 1 }) ∧
    (t.pc < 2 → t.next = { t with pc := t.pc + 1, micro := 0 }) := by
  constructor
  · intro h; simp [Th.next, hb, h]
  · intro h; have : ¬ (t.pc + 1 ≥ 3) := by omega
    simp [Th.next, hb, this]

@[simp] theorem next_body (t : Th) : t.next.body = t.body := by
  unfold Th.next; split <;> rfl

theorem step_inv {m tr : Nat} {s s' : Sys} (h : SysInv m tr s) (i : Nat) (hs : step s i = some s') :
    SysInv m tr s' := by
  unfold step at hs
  cases hi : s.ths[i]? with
  | none => simp [hi] at hs
  | some t =>
    simp only [hi] at hs
    have ok := h.ths i t hi
    have hlen : i < s.ths.length := (List.getElem?_eq_some_iff.mp hi).1
    obtain ⟨T, hT, hTb, hTm⟩ := h.tracer
    have okT := h.ths tr T hT
    have hne := shapes_ne m
    have hblen : t.body.length = 3 := by
      rcases ok.shape with e | e | e | e <;> simp [e, snapshotShape, clearShape, errorShape, handlerShape]
    obtain ⟨hn2, hn01⟩ := next_lt3 t hblen ok.pc_lt
    have hpc3 : t.pc = 0 ∨ t.pc = 1 ∨ t.pc = 2 := by have := ok.pc_lt; omega
    have hitr : t.body = handlerShape m → i = tr := by
      intro e; by_cases x : i = tr
      · exact x
      · exact absurd e (h.others i t hi x)
    have hnotr : t.body ≠ handlerShape m → i ≠ tr := by
      intro e x; subst x; rw [hi] at hT; cases hT; exact e hTb
    have hmem_same : ∀ (s1 : Sys) (t' : Th), i ≠ tr → s1.ths = s.ths.set i t' → s1.mem = s.mem →
        ∀ T', s1.ths[tr]? = some T' → MemOK m T' s1.mem := by
      intro s1 t' hne' e1 e2 T' hT'
      rw [e1, getElem?_set' _ _ _ _ hlen] at hT'
      simp [Ne.symm hne'] at hT'
      rw [hT] at hT'; cases hT'; rw [e2]; exact hTm
    -- the tracer's own view of the memory after its step
    have hmem_tr : ∀ (s1 : Sys) (t' : Th), i = tr → s1.ths = s.ths.set i t' → MemOK m t' s1.mem →
        ∀ T', s1.ths[tr]? = some T' → MemOK m T' s1.mem := by
      intro s1 t' e e1 e2 T' hT'
      subst e
      rw [e1, getElem?_set' _ _ _ _ hlen] at hT'
      simp at hT'; subst hT'; exact e2
    -- frame facts for the other threads
    have hothers_same : ∀ j, j ≠ i → ∀ tj, s.ths[j]? = some tj →
        ((tj.hold = .w ↔ s.writer = some j) ∧ (tj.hold = .r ↔ j ∈ s.readers)) := by
      intro j _ tj htj; exact ⟨(h.ths j tj htj).holdW, (h.ths j tj htj).holdR⟩
    -- generic: acquire the write lock at pc = 0 (clear / error / handler shapes)
    have acqW_case : t.pc = 0 → t.body ≠ snapshotShape → s.writer = none → s.readers = [] →
        SysInv m tr { s with writer := some i, ths := s.ths.set i { t.next with hold := .w } } := by
      intro hpc hnsnap hw hr
      have hnext : t.next = { t with pc := 1, micro := 0 } := by rw [hn01 (by omega), hpc]
      refine rebuild h i t _ hi _ rfl (by simp) ?_ ?_ ?_ ?_ ?_ h.obs
      · exact ⟨by simp [ok.shape], by simp [hnext], by simp [hnext], by intro x; simp at x; exact absurd x hnsnap,
          by simp, by simp [hnext], by simp [hnext], by simp, by simp [hr]⟩
      · intro j hj tj htj
        have o := h.ths j tj htj
        refine ⟨?_, by simpa using o.holdR⟩
        constructor
        · intro x; rw [o.holdW, hw] at x; cases x
        · intro x; simp at x; exact absurd x.symm hj
      · by_cases x : i = tr
        · refine hmem_tr _ _ x rfl ?_
          have tT := x ▸ hi; rw [hT] at tT; cases tT
          obtain ⟨c, hc, hm⟩ := hTm
          refine ⟨c, by simpa [hnext] using hc, Or.inr (Or.inl ⟨by simp [hnext], ?_⟩)⟩
          rcases hm with ⟨_, e⟩ | ⟨h1, _⟩ | ⟨h2, _⟩
          · simp [hnext, e]
          · omega
          · omega
        · exact hmem_same _ _ x rfl rfl
      · intro j _; exact hr
      · exact h.nodup
    -- generic: release the write lock at pc = 2
    have relW_case : t.pc = 2 → t.body ≠ snapshotShape →
        SysInv m tr { s with writer := none, ths := s.ths.set i { t.next with hold := .none } } := by
      intro hpc hnsnap
      have hnext := hn2 hpc
      have hhold : t.hold = .w := ok.busyW hnsnap (by omega)
      have hwr : s.writer = some i := ok.holdW.mp hhold
      refine rebuild h i t _ hi _ rfl (by simp) ?_ ?_ ?_ ?_ h.nodup h.obs
      · refine ⟨by simp [ok.shape], by simp [hnext], by simp, by simp [hnext], by simp [hnext], by simp [hnext],
          by simp [hnext], by simp, ?_⟩
        simp; rw [h.excl i hwr]; simp
      · intro j hj tj htj
        have o := h.ths j tj htj
        refine ⟨?_, by simpa using o.holdR⟩
        constructor
        · intro x; rw [o.holdW, hwr] at x; cases x; exact absurd rfl hj
        · intro x; cases x
      · by_cases x : i = tr
        · refine hmem_tr _ _ x rfl ?_
          have tT := x ▸ hi; rw [hT] at tT; cases tT
          obtain ⟨c, hc, hm⟩ := hTm
          refine ⟨c, by simp [hnext]; omega, Or.inl ⟨by simp [hnext], ?_⟩⟩
          rcases hm with ⟨h0, _⟩ | ⟨h1, _⟩ | ⟨_, e⟩
          · omega
          · omega
          · simp [hnext, e]; congr 1; omega
        · exact hmem_same _ _ x rfl rfl
      · intro j x; cases x
    rcases hpc3 with hpc | hpc | hpc
    · -- pc = 0: acquire
      have hidle := ok.idle hpc
      have hnext : t.next = { t with pc := 1, micro := 0 } := by rw [hn01 (by omega), hpc]
      rcases ok.shape with e | e | e | e
      · -- snapshot: acqR
        simp only [e, snapshotShape, hpc, List.getElem?_cons_zero] at hs
        split at hs
        · rename_i hw
          cases hs
          have hni : i ∉ s.readers := by rw [← ok.holdR, hidle]; simp
          have hitr' : i ≠ tr := hnotr (by rw [e]; exact hne.2.2.1)
          refine rebuild h i t _ hi _ rfl (by simp) ?_ ?_ ?_ ?_ ?_ h.obs
          · exact ⟨by simp [ok.shape], by simp [hnext], by simp [hnext], by simp,
              by intro x; simp at x; exact absurd e x, by simp [hnext],
              by simp [hnext], by simp [hw], by simp⟩
          · intro j hj tj htj
            have o := h.ths j tj htj
            exact ⟨o.holdW, by rw [o.holdR]; simp [hj]⟩
          · exact hmem_same _ _ hitr' rfl rfl
          · intro j hj; simp [hw] at hj
          · exact List.nodup_cons.mpr ⟨hni, h.nodup⟩
        · cases hs
      · simp only [e, clearShape, hpc, List.getElem?_cons_zero] at hs
        split at hs
        · rename_i hw; cases hs
          exact acqW_case hpc (by rw [e]; exact hne.1.symm) hw.1 hw.2
        · cases hs
      · simp only [e, errorShape, hpc, List.getElem?_cons_zero] at hs
        split at hs
        · rename_i hw; cases hs
          exact acqW_case hpc (by rw [e]; exact hne.2.1.symm) hw.1 hw.2
        · cases hs
      · simp only [e, handlerShape, hpc, List.getElem?_cons_zero] at hs
        split at hs
        · rename_i hw; cases hs
          exact acqW_case hpc (by rw [e]; exact hne.2.2.1.symm) hw.1 hw.2
        · cases hs
    · -- pc = 1: the body of the section
      have hnext : t.next = { t with pc := 2, micro := 0 } := by rw [hn01 (by omega), hpc]
      rcases ok.shape with e | e | e | e
      · -- snapshot: copyOut under the read lock
        simp only [e, snapshotShape, hpc, List.getElem?_cons_succ, List.getElem?_cons_zero] at hs
        cases hs
        have hhold : t.hold = .r := ok.busyR e (by omega)
        have hmemb : i ∈ s.readers := ok.holdR.mp hhold
        have hw : s.writer = none := by
          cases hwr : s.writer with
          | none => rfl
          | some j => rw [h.excl j hwr] at hmemb; cases hmemb
        have hitr' : i ≠ tr := hnotr (by rw [e]; exact hne.2.2.1)
        refine rebuild h i t _ hi _ rfl (by simp) ?_ hothers_same ?_ h.excl h.nodup ?_
        · exact ⟨by simp [ok.shape], by simp [hnext], by simp [hnext], by simp [hnext, hhold],
            by intro x; simp at x; exact absurd e x, by simp [hnext], by simp [hnext],
            by simpa [hnext] using ok.holdW, by simpa [hnext] using ok.holdR⟩
        · exact hmem_same _ _ hitr' rfl rfl
        · intro o ho
          simp at ho
          rcases ho with ho | ho
          · exact h.obs o ho
          · subst ho; exact mem_whole_of_no_writer h hw
      · -- clear: store under the write lock
        simp only [e, clearShape, hpc, List.getElem?_cons_succ, List.getElem?_cons_zero] at hs
        cases hs
        have hnsnap : t.body ≠ snapshotShape := by rw [e]; exact hne.1.symm
        have hhold : t.hold = .w := ok.busyW hnsnap (by omega)
        have hwr : s.writer = some i := ok.holdW.mp hhold
        have hitr' : i ≠ tr := hnotr (by rw [e]; exact hne.2.2.2.2.1)
        refine rebuild h i t _ hi _ rfl (by simp) ?_ hothers_same ?_ h.excl h.nodup h.obs
        · exact ⟨by simp [ok.shape], by simp [hnext], by simp [hnext], by intro x; exact absurd x (by simpa using hnsnap),
            by simp [hnext, hhold], by simp [hnext], by simp [hnext],
            by simpa [hnext] using ok.holdW, by simpa [hnext] using ok.holdR⟩
        · intro T' hT'
          rw [getElem?_set' _ _ _ _ hlen] at hT'
          simp [Ne.symm hitr'] at hT'
          rw [hT] at hT'; cases hT'
          have hTpc : T.pc = 0 := by
            by_cases h0 : T.pc = 0
            · exact h0
            · have : T.hold = .w := okT.busyW (by rw [hTb]; exact hne.2.2.1.symm) (by omega)
              rw [okT.holdW, hwr] at this; cases this; exact absurd rfl hitr'
          exact ⟨T.iter, Nat.le_refl _, Or.inl ⟨hTpc, by simp [wholeRounds]⟩⟩
      · -- error: set_error under the write lock
        simp only [e, errorShape, hpc, List.getElem?_cons_succ, List.getElem?_cons_zero] at hs
        cases hs
        have hnsnap : t.body ≠ snapshotShape := by rw [e]; exact hne.2.1.symm
        have hhold : t.hold = .w := ok.busyW hnsnap (by omega)
        have hitr' : i ≠ tr := hnotr (by rw [e]; exact hne.2.2.2.2.2)
        refine rebuild h i t _ hi _ rfl (by simp) ?_ hothers_same ?_ h.excl h.nodup h.obs
        · exact ⟨by simp [ok.shape], by simp [hnext], by simp [hnext], by intro x; exact absurd x (by simpa using hnsnap),
            by simp [hnext, hhold], by simp [hnext], by simp [hnext],
            by simpa [hnext] using ok.holdW, by simpa [hnext] using ok.holdR⟩
        · exact hmem_same _ _ hitr' rfl rfl
      · -- handler: one micro-step of update_from_round
        have hx : i = tr := hitr e
        have tT := hx ▸ hi; rw [hT] at tT; cases tT
        have hnsnap : t.body ≠ snapshotShape := by rw [e]; exact hne.2.2.1.symm
        have hhold : t.hold = .w := ok.busyW hnsnap (by omega)
        obtain ⟨c, hc, hm⟩ := hTm
        have hmem1 : s.mem = wholeRounds m c (t.iter - c) ++ (roundSteps m t.iter).take t.micro := by
          rcases hm with ⟨h0, _⟩ | ⟨_, e1⟩ | ⟨h2, _⟩
          · omega
          · exact e1
          · omega
        have hinstr : t.body[t.pc]? = some (.upd 0 m) := by simp [e, handlerShape, hpc]
        simp only [hinstr, Nat.zero_add] at hs
        split at hs
        · rename_i hlt
          by_cases hlt2 : t.micro + 1 < m
          · simp only [hlt2, if_true] at hs
            cases hs
            refine rebuild h i t _ hi _ rfl rfl ?_ hothers_same ?_ h.excl h.nodup h.obs
            · exact ⟨ok.shape, by simp [hpc], by simp [hpc], by intro x; exact absurd x hnsnap,
                by simp [hhold], by simp [hpc], by intro _ _; exact Or.inl hlt2, ok.holdW, ok.holdR⟩
            · refine hmem_tr _ _ hx rfl ⟨c, hc, Or.inr (Or.inl ⟨hpc, ?_⟩)⟩
              simp only [hmem1, List.append_assoc]
              rw [take_roundSteps_succ m t.iter t.micro hlt]
          · simp only [hlt2, if_false] at hs
            cases hs
            have hm1 : t.micro + 1 = m := by omega
            have hnext' : ({ t with micro := t.micro + 1 } : Th).next = { t with pc := 2, micro := 0 } := by
              have hnot : ¬ (t.pc + 1 ≥ t.body.length) := by rw [hblen, hpc]; omega
              simp [Th.next, hpc, hblen]
            refine rebuild h i t _ hi _ rfl (by simp) ?_ hothers_same ?_ h.excl h.nodup h.obs
            · exact ⟨by simp [ok.shape], by simp [hnext'], by simp [hnext'], by intro x; exact absurd x (by simpa using hnsnap),
                by intro _ _; rw [hnext']; exact hhold, by simp [hnext'], by simp [hnext'],
                by simpa [hnext'] using ok.holdW, by simpa [hnext'] using ok.holdR⟩
            · refine hmem_tr _ _ hx rfl ⟨c, by simpa [hnext'] using hc, Or.inr (Or.inr ⟨by simp [hnext'], ?_⟩)⟩
              simp only [hnext', hmem1, List.append_assoc]
              rw [← take_roundSteps_succ m t.iter t.micro hlt, hm1, take_roundSteps_all]
              have : t.iter - c + 1 = (t.iter - c) + 1 := rfl
              simp only [wholeRounds]
              congr 2; omega
        · rename_i hge
          cases hs
          have hm0 : t.micro = 0 := by
            rcases ok.microLt hpc e with x | x
            · omega
            · exact x
          have hmz : m = 0 := by omega
          refine rebuild h i t _ hi _ rfl (by simp) ?_ hothers_same ?_ h.excl h.nodup h.obs
          · exact ⟨by simp [ok.shape], by simp [hnext], by simp [hnext], by intro x; exact absurd x (by simpa using hnsnap),
              by simp [hnext, hhold], by simp [hnext], by simp [hnext],
              by simpa [hnext] using ok.holdW, by simpa [hnext] using ok.holdR⟩
          · refine hmem_tr _ _ hx rfl ⟨c, by simpa [hnext] using hc, Or.inr (Or.inr ⟨by simp [hnext], ?_⟩)⟩
            simp only [hnext, hmem1, hm0, List.take_zero, List.append_nil, wholeRounds]
            subst hmz
            simp [roundSteps]
    · -- pc = 2: release
      have hnext := hn2 hpc
      rcases ok.shape with e | e | e | e
      · -- snapshot: release the read lock
        simp only [e, snapshotShape, hpc, List.getElem?_cons_succ, List.getElem?_cons_zero] at hs
        have hhold : t.hold = .r := ok.busyR e (by omega)
        simp only [hhold] at hs
        cases hs
        have hitr' : i ≠ tr := hnotr (by rw [e]; exact hne.2.2.1)
        have hw : s.writer ≠ some i := by
          intro x; have := ok.holdW.mpr x; rw [hhold] at this; cases this
        refine rebuild h i t _ hi _ rfl (by simp) ?_ ?_ ?_ ?_ (h.nodup.erase i) h.obs
        · refine ⟨by simp [ok.shape], by simp [hnext], by simp, by simp [hnext], by simp [hnext], by simp [hnext],
            by simp [hnext], ?_, ?_⟩
          · simp; exact hw
          · simp; exact h.nodup.not_mem_erase
        · intro j hj tj htj
          have o := h.ths j tj htj
          exact ⟨o.holdW, by rw [o.holdR]; exact (List.mem_erase_of_ne hj).symm⟩
        · exact hmem_same _ _ hitr' rfl rfl
        · intro j hj; simp only at hj ⊢; rw [h.excl j hj]; rfl
      · simp only [e, clearShape, hpc, List.getElem?_cons_succ, List.getElem?_cons_zero] at hs
        have hnsnap : t.body ≠ snapshotShape := by rw [e]; exact hne.1.symm
        simp only [ok.busyW hnsnap (by omega)] at hs
        cases hs; exact relW_case hpc hnsnap
      · simp only [e, errorShape, hpc, List.getElem?_cons_succ, List.getElem?_cons_zero] at hs
        have hnsnap : t.body ≠ snapshotShape := by rw [e]; exact hne.2.1.symm
        simp only [ok.busyW hnsnap (by omega)] at hs
        cases hs; exact relW_case hpc hnsnap
      · simp only [e, handlerShape, hpc, List.getElem?_cons_succ, List.getElem?_cons_zero] at hs
        have hnsnap : t.body ≠ snapshotShape := by rw [e]; exact hne.2.2.1.symm
        simp only [ok.busyW hnsnap (by omega)] at hs
        cases hs; exact relW_case hpc hnsnap

end TV.Conc
