import TrippyVerif.Spec.Rfc4884
/-!
Helper lemmas for property C14 (ICMP multi-part extensions).  No Mathlib needed.
-/
namespace TV.Ext
open TV TV.Rfc4884

/-! ## `split`: every outcome -/

theorem split_cases (n : Nat) (p : Buf) :
    split n p = (p, none) ∨
    ∃ a mid e, split n p = (a, some e) ∧ p = a ++ mid ++ e ∧ 4 ≤ e.length := by
  unfold split origMin minHeader
  simp only [List.length_drop]
  by_cases h1 : n > p.length
  · simp [h1]
  by_cases h2 : p.length > 128
  · by_cases h3 : n > 128
    · by_cases h4 : p.length - n ≥ 4
      · right
        refine ⟨p.take n, [], p.drop n, ?_, ?_, ?_⟩
        · simp [h1, h2, h3, h4]
        · simp
        · simpa using h4
      · simp [h1, h2, h3, h4]
    · by_cases h5 : n > 0
      · by_cases h4 : p.length - 128 ≥ 4
        · right
          refine ⟨(p.take 128).take n, (p.take 128).drop n, p.drop 128, ?_, ?_, ?_⟩
          · simp [h1, h2, h3, h4, h5]
          · simp
          · simpa using h4
        · simp [h1, h2, h3, h4, h5]
      · by_cases h4 : p.length - 128 ≥ 4
        · right
          refine ⟨p.take 128, [], p.drop 128, ?_, ?_, ?_⟩
          · simp [h1, h2, h3, h4, h5]
          · simp
          · simpa using h4
        · simp [h1, h2, h3, h4, h5]
  · simp [h1, h2]

theorem objectsFrom_mem (rest o : Buf) (h : o ∈ objectsFrom rest) :
    o <:+ rest ∧ 4 ≤ o.length ∧ 4 ≤ be16At o ∧ be16At o ≤ o.length := by
  fun_induction objectsFrom rest with
  | case1 rest h1 => simp at h
  | case2 rest h1 h2 => simp at h
  | case3 rest h1 h2 ih =>
    rcases List.mem_cons.mp h with h | h
    · subst h
      exact ⟨List.suffix_refl _, by omega, by omega, by omega⟩
    · have := ih h
      exact ⟨this.1.trans (List.drop_suffix _ _), this.2⟩

theorem objectsFrom_length (rest : Buf) : 4 * (objectsFrom rest).length ≤ rest.length := by
  fun_induction objectsFrom rest with
  | case1 rest h1 => simp
  | case2 rest h1 h2 => simp
  | case3 rest h1 h2 ih =>
    simp only [List.length_cons, List.length_drop] at *
    omega

theorem objects_mem (ext o : Buf) (h : o ∈ objects ext) :
    o <:+ ext ∧ 4 ≤ o.length ∧ 4 ≤ be16At o ∧ be16At o ≤ o.length := by
  have := objectsFrom_mem _ _ h
  exact ⟨this.1.trans (List.drop_suffix _ _), this.2⟩

theorem objects_length (ext : Buf) : 4 * (objects ext).length + 4 ≤ ext.length ∨ objects ext = [] := by
  unfold objects
  have := objectsFrom_length (ext.drop 4)
  simp only [List.length_drop] at this
  by_cases h : ext.length < 4
  · right
    rw [objectsFrom]; simp; omega
  · left; omega

theorem members_mem (s m : Buf) (h : m ∈ members s) : m <:+ s ∧ 4 ≤ m.length := by
  fun_induction members s with
  | case1 a b c d t ih =>
    rcases List.mem_cons.mp h with h | h
    · subst h; exact ⟨List.suffix_refl _, by simp⟩
    · split at h
      · simp at h
      · have := ih h
        refine ⟨this.1.trans ?_, this.2⟩
        exact ⟨[a,b,c,d], rfl⟩
  | case2 s hne => simp at h

theorem members_length (s : Buf) : 4 * (members s).length ≤ s.length := by
  fun_induction members s with
  | case1 a b c d t ih =>
    split <;> simp_all <;> omega
  | case2 s hne => simp

theorem exists_cons4 (o : Buf) (h : 4 ≤ o.length) : ∃ a b c d t, o = a :: b :: c :: d :: t := by
  match o, h with
  | a :: b :: c :: d :: t, _ => exact ⟨a, b, c, d, t, rfl⟩

/-- a `mapR` over items on which `f` returns normally returns normally -/
theorem mapR_ok {α β : Type} (f : α → R β) (l : List α) (h : ∀ x ∈ l, ∃ y, f x = .ok y) :
    ∃ ys, mapR f l = .ok ys ∧ ys.length = l.length := by
  induction l with
  | nil => exact ⟨[], rfl, rfl⟩
  | cons x xs ih =>
    obtain ⟨y, hy⟩ := h x (by simp)
    obtain ⟨ys, hys, hl⟩ := ih (fun z hz => h z (by simp [hz]))
    refine ⟨y :: ys, ?_, by simp [hl]⟩
    unfold mapR
    rw [hy, hys]
    rfl

theorem memberOf_cons4 (a b c d : UInt8) (t : Buf) :
    memberOf (a :: b :: c :: d :: t) =
      .ok ⟨(a.toNat * 65536 + b.toNat * 256 + c.toNat) / 16, c.toNat / 2 % 8, c.toNat % 2, d.toNat⟩ := by
  simp [memberOf, getLabel, getExp, getBos, getTtl, rd]

theorem memberOf_ok (m : Buf) (h : 4 ≤ m.length) : ∃ x, memberOf m = .ok x := by
  obtain ⟨a, b, c, d, t, rfl⟩ := exists_cons4 m h
  exact ⟨_, memberOf_cons4 a b c d t⟩

/-- `MplsLabelStack::from` returns normally on any octets, with at most `len / 4` members -/
theorem mplsOf_ok (s : Buf) : ∃ ms, mplsOf s = .ok ms ∧ 4 * ms.length ≤ s.length := by
  unfold mplsOf
  obtain ⟨ys, hys, hl⟩ := mapR_ok memberOf ((members s).filter fun m => decide (4 ≤ m.length))
    (fun m hm => memberOf_ok m (by simpa using (List.mem_filter.mp hm).2))
  refine ⟨ys, hys, ?_⟩
  have h1 := List.length_filter_le (fun m : Buf => decide (4 ≤ m.length)) (members s)
  have h2 := members_length s
  omega

theorem be16At_cons (a b : UInt8) (t : Buf) : be16At (a :: b :: t) = a.toNat * 256 + b.toNat := by
  simp [be16At]

/-- `ExtensionObjectPacket::payload` on a view of at least 4 octets: the clamped slice -/
theorem objPayload_cons4 (a b c d : UInt8) (t : Buf) :
    objPayload (a :: b :: c :: d :: t) =
      .ok (((a :: b :: c :: d :: t).take
        (max 4 (min (a.toNat * 256 + b.toNat) (t.length + 4)))).drop 4) := by
  simp [objPayload, objLength, rd]

theorem objPayload_ok (o : Buf) (h : 4 ≤ o.length) :
    objPayload o = .ok ((o.take (max 4 (min (be16At o) o.length))).drop 4) := by
  obtain ⟨a, b, c, d, t, rfl⟩ := exists_cons4 o h
  rw [objPayload_cons4, be16At_cons]
  simp

/-- the closure of `Extensions::try_from` returns normally on every view of at least 4 octets -/
theorem objectOf_ok (o : Buf) (h1 : 4 ≤ o.length) : ∃ x, objectOf o = .ok x := by
  have hp := objPayload_ok o h1
  obtain ⟨a, b, c, d, t, rfl⟩ := exists_cons4 o h1
  unfold objectOf
  simp only [rd, List.getElem?_cons_succ, List.getElem?_cons_zero, R.bind_ok, hp, R.pure_eq]
  split
  · split
    · exact ⟨_, rfl⟩
    · obtain ⟨ms, hms, _⟩ := mplsOf_ok (List.drop 4 (List.take
        (max 4 (min (be16At (a :: b :: c :: d :: t)) (a :: b :: c :: d :: t).length))
        (a :: b :: c :: d :: t)))
      rw [hms]
      exact ⟨_, rfl⟩
  · exact ⟨_, rfl⟩

/-- `Extensions::try_from` returns `Ok` on every buffer of at least 4 octets, with at most
`(len - 4) / 4` extensions -/
theorem extensionsTryFrom_ok (ext : Buf) (h : 4 ≤ ext.length) :
    ∃ xs, extensionsTryFrom ext = .ok xs ∧ 4 * xs.length ≤ ext.length - 4 := by
  unfold extensionsTryFrom
  rw [if_neg (by omega)]
  obtain ⟨a, b, c, d, t, rfl⟩ := exists_cons4 ext h
  simp only [headerVersion, rd, List.take, List.getElem?_cons_zero, R.bind_ok, R.pure_eq]
  split
  · exact ⟨[], rfl, by simp⟩
  · obtain ⟨ys, hys, hl⟩ := mapR_ok objectOf
      ((objects (a :: b :: c :: d :: t)).filter fun o => decide (4 ≤ o.length))
      (fun o ho => objectOf_ok o (by simpa using (List.mem_filter.mp ho).2))
    refine ⟨ys, hys, ?_⟩
    have h1 := List.length_filter_le (fun o : Buf => decide (4 ≤ o.length))
      (objects (a :: b :: c :: d :: t))
    have h2 : 4 * (objects (a :: b :: c :: d :: t)).length ≤ (a :: b :: c :: d :: t).length - 4 := by
      have := objectsFrom_length ((a :: b :: c :: d :: t).drop 4)
      simpa [objects] using this
    omega

theorem extensionsTryFrom_short (ext : Buf) (h : ext.length < 4) :
    extensionsTryFrom ext = .err .pktShort := by
  simp [extensionsTryFrom, h]

theorem extensionsTryFrom_ne_panic (ext : Buf) : extensionsTryFrom ext ≠ .panic := by
  by_cases h : ext.length < 4
  · rw [extensionsTryFrom_short ext h]; simp
  · obtain ⟨xs, hxs, _⟩ := extensionsTryFrom_ok ext (by omega)
    rw [hxs]; simp

/-! ## `split_payload_extension` -/
/-- the length attribute octet of an ICMP message -/
def lengthOctet (fam : Bool) (icmp : Buf) : UInt8 := icmp.getD (lengthOffset fam) 0

theorem rd_lengthOffset (fam : Bool) (icmp : Buf) (h : 8 ≤ icmp.length) :
    rd icmp (lengthOffset fam) = .ok (lengthOctet fam icmp) := by
  have : lengthOffset fam < icmp.length := by unfold lengthOffset; split <;> omega
  simp [rd, lengthOctet, List.getD, this]

theorem payloadRaw_ok (icmp : Buf) (h : 8 ≤ icmp.length) : payloadRaw icmp = .ok (icmp.drop 8) := by
  have : ¬ icmp.length < 8 := by omega
  simp [payloadRaw, this]

theorem splitWith_fixed (fam : Bool) (icmp : Buf) (h : 8 ≤ icmp.length) :
    splitPayloadExtensionWith true fam icmp =
      .ok (split ((lengthOctet fam icmp).toNat * unitOf fam) (icmp.drop 8)) := by
  simp [splitPayloadExtensionWith, rd_lengthOffset fam icmp h, payloadRaw_ok icmp h, scaleLen]

theorem splitWith_current (fam : Bool) (icmp : Buf) (h : 8 ≤ icmp.length) :
    splitPayloadExtensionWith false fam icmp =
      if (lengthOctet fam icmp).toNat * unitOf fam > 255 then .panic
      else .ok (split ((lengthOctet fam icmp).toNat * unitOf fam) (icmp.drop 8)) := by
  simp only [splitPayloadExtensionWith, rd_lengthOffset fam icmp h, payloadRaw_ok icmp h, scaleLen,
    R.bind_ok, Bool.false_eq_true, if_false]
  split <;> simp

theorem split_at_len (n : Nat) (a e : Buf) (ha : a.length = n) (hn : 128 ≤ n) (he : 4 ≤ e.length) :
    split n (a ++ e) = (a, some e) := by
  unfold split origMin minHeader
  have h1 : ¬ n > (a ++ e).length := by simp; omega
  have h2 : (a ++ e).length > 128 := by simp; omega
  rw [if_neg h1, if_pos h2]
  by_cases h3 : n > 128
  · have hd : List.drop n (a ++ e) = e := by rw [← ha]; simp
    have ht : List.take n (a ++ e) = a := by rw [← ha]; simp
    rw [if_pos h3, hd, ht, if_pos he]
  · have hn' : n = 128 := by omega
    subst hn'
    have hd : List.drop 128 (a ++ e) = e := by rw [← ha]; simp
    have ht : List.take 128 (a ++ e) = a := by rw [← ha]; simp
    have ht2 : List.take 128 a = a := by rw [← ha]; simp
    rw [if_neg h3, if_pos (by omega), hd, ht, ht2, if_pos he]

theorem split_legacy (a e : Buf) (ha : a.length = 128) (he : 4 ≤ e.length) :
    split 0 (a ++ e) = (a, some e) := by
  unfold split origMin minHeader
  have h1 : ¬ 0 > (a ++ e).length := by omega
  have h2 : (a ++ e).length > 128 := by simp; omega
  have hd : List.drop 128 (a ++ e) = e := by rw [← ha]; simp
  have ht : List.take 128 (a ++ e) = a := by rw [← ha]; simp
  rw [if_neg h1, if_pos h2, if_neg (by omega), if_neg (by omega), hd, ht, if_pos he]

theorem padTo_length (k : Nat) (b : Buf) (h : b.length ≤ k) : (padTo k b).length = k := by
  simp [padTo]; omega

theorem paddedLen_facts (fam : Bool) (n : Nat) :
    128 ≤ paddedLen fam n ∧ n ≤ paddedLen fam n ∧
      paddedLen fam n / unit fam * unit fam = paddedLen fam n := by
  unfold paddedLen unit
  cases fam <;> simp <;> omega

theorem padOrig_length (fam : Bool) (mode : Mode) (orig : Buf) :
    (padOrig fam mode orig).length = match mode with
      | .compliant => paddedLen fam orig.length
      | .legacy => 128 := by
  cases mode
  · exact padTo_length _ _ (paddedLen_facts fam _).2.1
  · apply padTo_length; simp; omega

theorem buildIcmp_length (fam : Bool) (h : IcmpHdr) (mode : Mode) (orig ext : Buf) :
    8 ≤ (buildIcmp fam h mode orig ext).length := by
  unfold buildIcmp icmpHeaderBytes
  cases fam <;> simp

theorem buildIcmp_lengthOctet (fam : Bool) (h : IcmpHdr) (mode : Mode) (orig ext : Buf) :
    lengthOctet fam (buildIcmp fam h mode orig ext) = UInt8.ofNat (lengthAttr fam mode orig) := by
  unfold buildIcmp icmpHeaderBytes lengthOctet lengthOffset buildBody
  cases fam <;> simp

theorem buildIcmp_drop (fam : Bool) (h : IcmpHdr) (mode : Mode) (orig ext : Buf) :
    (buildIcmp fam h mode orig ext).drop 8 = padOrig fam mode orig ++ ext := by
  unfold buildIcmp icmpHeaderBytes buildBody
  cases fam <;> simp

theorem unit_eq (fam : Bool) : unit fam = unitOf fam := rfl

/-- the scaled length attribute of a built message -/
theorem lengthAttr_scaled (fam : Bool) (mode : Mode) (orig : Buf)
    (hfit : lengthAttr fam mode orig ≤ 255) :
    (UInt8.ofNat (lengthAttr fam mode orig)).toNat * unitOf fam =
      match mode with
      | .compliant => paddedLen fam orig.length
      | .legacy => 0 := by
  rw [UInt8.toNat_ofNat', Nat.mod_eq_of_lt (by omega), ← unit_eq]
  cases mode
  · exact (paddedLen_facts fam _).2.2
  · simp [lengthAttr]

theorem split_built (fam : Bool) (mode : Mode) (orig ext : Buf) (hext : 4 ≤ ext.length)
    (hfit : lengthAttr fam mode orig ≤ 255) :
    split ((UInt8.ofNat (lengthAttr fam mode orig)).toNat * unitOf fam) (padOrig fam mode orig ++ ext)
      = (padOrig fam mode orig, some ext) := by
  rw [lengthAttr_scaled fam mode orig hfit]
  have hl := padOrig_length fam mode orig
  cases mode
  · exact split_at_len _ _ _ hl (paddedLen_facts fam _).1 hext
  · exact split_legacy _ _ hl hext

theorem splitFixed_built (fam : Bool) (h : IcmpHdr) (mode : Mode) (orig ext : Buf)
    (hext : 4 ≤ ext.length) (hfit : lengthAttr fam mode orig ≤ 255) :
    splitPayloadExtensionWith true fam (buildIcmp fam h mode orig ext) =
      .ok (padOrig fam mode orig, some ext) := by
  rw [splitWith_fixed fam _ (buildIcmp_length ..), buildIcmp_lengthOctet, buildIcmp_drop,
    split_built fam mode orig ext hext hfit]

theorem splitCurrent_built (fam : Bool) (h : IcmpHdr) (mode : Mode) (orig ext : Buf)
    (hext : 4 ≤ ext.length) (hfit : lengthAttr fam mode orig ≤ 255) :
    splitPayloadExtensionWith false fam (buildIcmp fam h mode orig ext) =
      if lengthAttr fam mode orig * unitOf fam > 255 then .panic
      else .ok (padOrig fam mode orig, some ext) := by
  rw [splitWith_current fam _ (buildIcmp_length ..), buildIcmp_lengthOctet, buildIcmp_drop,
    split_built fam mode orig ext hext hfit, UInt8.toNat_ofNat', Nat.mod_eq_of_lt (by omega)]

/-! ## round trip of the extension structure -/

theorem memberOf_encode (m : MplsMember) (hm : memberOk m) (t : Buf) :
    memberOf (encodeMember m ++ t) = .ok m := by
  obtain ⟨h1, h2, h3, h4⟩ := hm
  obtain ⟨l, e, s, ttl⟩ := m
  simp only at h1 h2 h3 h4
  simp only [encodeMember, List.cons_append, List.nil_append, memberOf_cons4, UInt8.toNat_ofNat']
  congr 2 <;> omega

theorem encodeMember_bos (m : MplsMember) (hm : memberOk m) :
    (UInt8.ofNat (m.label % 16 * 16 + m.exp * 2 + m.bos)).toNat % 2 = m.bos := by
  obtain ⟨h1, h2, h3, h4⟩ := hm
  rw [UInt8.toNat_ofNat']; omega

theorem mplsOf_cons4 (a b c d : UInt8) (t : Buf) :
    mplsOf (a :: b :: c :: d :: t) = (do
      let y ← memberOf (a :: b :: c :: d :: t)
      let ys ← (if c.toNat % 2 = 1 then R.ok [] else mplsOf t)
      R.ok (y :: ys)) := by
  unfold mplsOf
  rw [members]
  split <;> simp [mapR, List.filter]

theorem mplsOf_nil : mplsOf [] = .ok [] := by simp [mplsOf, members, mapR]

theorem mplsOf_encode (ms : List MplsMember) (hok : ∀ m ∈ ms, memberOk m)
    (hbos : ∀ m ∈ ms.dropLast, m.bos = 0) : mplsOf (encodeStack ms) = .ok ms := by
  induction ms with
  | nil => exact mplsOf_nil
  | cons m rest ih =>
    have hm := hok m (by simp)
    have hrest : ∀ x ∈ rest, memberOk x := fun x hx => hok x (by simp [hx])
    have hmo := memberOf_encode m hm (encodeStack rest)
    have hb := encodeMember_bos m hm
    have hcons : encodeStack (m :: rest) = encodeMember m ++ encodeStack rest := by
      simp [encodeStack]
    rw [hcons]
    simp only [encodeMember, List.cons_append, List.nil_append] at hmo ⊢
    rw [mplsOf_cons4, hmo]
    cases rest with
    | nil =>
      have : encodeStack [] = [] := rfl
      rw [this, mplsOf_nil]
      simp
    | cons r rs =>
      have hb0 : m.bos = 0 := hbos m (by simp [List.dropLast])
      have ih' := ih hrest (fun x hx => hbos x (by simp [List.dropLast, hx]))
      rw [if_neg (by omega), ih']
      simp

theorem encodeStack_length (ms : List MplsMember) : (encodeStack ms).length = 4 * ms.length := by
  induction ms with
  | nil => rfl
  | cons m rest ih =>
    have : encodeStack (m :: rest) = encodeMember m ++ encodeStack rest := by simp [encodeStack]
    rw [this, List.length_append, ih]; simp [encodeMember]; omega

/-- the 16-bit length of an encoded object reads back -/
theorem encodeObject_len (p : Buf) (hp : p.length ≤ 65531) :
    (UInt8.ofNat ((4 + p.length) / 256)).toNat * 256 + (UInt8.ofNat ((4 + p.length) % 256)).toNat
      = 4 + p.length := by
  simp only [UInt8.toNat_ofNat']; omega

theorem objectsFrom_encode (c s : Nat) (p tail : Buf) (hp : p.length ≤ 65531) :
    objectsFrom (encodeObject c s p ++ tail) =
      (encodeObject c s p ++ tail) :: objectsFrom tail := by
  have hl := encodeObject_len p hp
  rw [objectsFrom]
  simp only [encodeObject, List.cons_append, List.nil_append, be16At_cons, hl]
  have h1 : ¬ (List.length (UInt8.ofNat ((4 + p.length) / 256) :: UInt8.ofNat ((4 + p.length) % 256) ::
      UInt8.ofNat c :: UInt8.ofNat s :: (p ++ tail)) < 4) := by simp
  have h2 : ¬ (4 + p.length < 4 ∨ 4 + p.length > List.length (UInt8.ofNat ((4 + p.length) / 256) ::
      UInt8.ofNat ((4 + p.length) % 256) :: UInt8.ofNat c :: UInt8.ofNat s :: (p ++ tail))) := by
    simp; omega
  rw [if_neg h1, if_neg h2]
  congr 2
  have : 4 + p.length = p.length + 1 + 1 + 1 + 1 := by omega
  rw [this]
  simp

theorem objPayload_encode (c s : Nat) (p tail : Buf) (hp : p.length ≤ 65531) :
    objPayload (encodeObject c s p ++ tail) = .ok p := by
  have hl := encodeObject_len p hp
  simp only [encodeObject, List.cons_append, List.nil_append, objPayload_cons4, hl]
  have : max 4 (min (4 + p.length) ((p ++ tail).length + 4)) = p.length + 1 + 1 + 1 + 1 := by
    simp only [List.length_append]; omega
  rw [this]
  simp

theorem objectOf_other (c s : Nat) (p tail : Buf) (hc : c < 256) (hc1 : c ≠ 1) (hs : s < 256)
    (hp : p.length ≤ 65531) :
    objectOf (encodeObject c s p ++ tail) = .ok (.unknown c s p) := by
  have hpl := objPayload_encode c s p tail hp
  unfold objectOf
  rw [hpl]
  simp only [encodeObject, List.cons_append, List.nil_append, rd, List.getElem?_cons_succ,
    List.getElem?_cons_zero, R.bind_ok, UInt8.toNat_ofNat', R.pure_eq]
  rw [Nat.mod_eq_of_lt (show c < 2 ^ 8 by omega), Nat.mod_eq_of_lt (show s < 2 ^ 8 by omega),
    if_neg hc1]

/-- class 1 objects are label stacks whatever their C-Type; a stack without entries (payload
shorter than 4 octets) is reported as a stack without members -/
theorem objectOf_class1 (s : Nat) (ms : List MplsMember) (tail : Buf)
    (hlen : ms.length ≤ 16382) (hok : ∀ m ∈ ms, memberOk m)
    (hbos : ∀ m ∈ ms.dropLast, m.bos = 0) :
    objectOf (encodeObject 1 s (encodeStack ms) ++ tail) = .ok (.mpls ms) := by
  have hsl := encodeStack_length ms
  have hpl := objPayload_encode 1 s (encodeStack ms) tail (by omega)
  unfold objectOf
  rw [hpl]
  simp only [encodeObject, List.cons_append, List.nil_append, rd, List.getElem?_cons_succ,
    List.getElem?_cons_zero, R.bind_ok, UInt8.toNat_ofNat', R.pure_eq]
  rw [if_pos (by decide)]
  cases ms with
  | nil => rfl
  | cons m rest =>
    rw [if_neg (by rw [hsl]; simp; omega), mplsOf_encode (m :: rest) hok hbos]
    rfl

/-- a class-1 object whose payload cannot hold a label stack entry is a stack without members -/
theorem objectOf_class1_short (s : Nat) (p tail : Buf) (hp : p.length < 4) :
    objectOf (encodeObject 1 s p ++ tail) = .ok (.mpls []) := by
  have hpl := objPayload_encode 1 s p tail (by omega)
  unfold objectOf
  rw [hpl]
  simp only [encodeObject, List.cons_append, List.nil_append, rd, List.getElem?_cons_succ,
    List.getElem?_cons_zero, R.bind_ok, UInt8.toNat_ofNat', R.pure_eq]
  rw [if_pos (by decide), if_pos hp]

theorem objectOf_mpls (ms : List MplsMember) (tail : Buf)
    (hlen : ms.length ≤ 16382) (hok : ∀ m ∈ ms, memberOk m)
    (hbos : ∀ m ∈ ms.dropLast, m.bos = 0) :
    objectOf (encodeMpls ms ++ tail) = .ok (.mpls ms) :=
  objectOf_class1 1 ms tail hlen hok hbos

theorem objectOf_encode (o : Obj) (tail : Buf) (h : o.wf) :
    objectOf (o.encode ++ tail) = .ok o.expected := by
  cases o with
  | mpls ms => exact objectOf_mpls ms tail h.1 h.2.1 h.2.2
  | other c s p => exact objectOf_other c s p tail h.1 h.2.1 h.2.2.1 h.2.2.2

theorem Obj.payload_fits (o : Obj) (h : o.wf) :
    ∃ c s p, o.encode = encodeObject c s p ∧ p.length ≤ 65531 := by
  cases o with
  | mpls ms => exact ⟨1, 1, encodeStack ms, rfl, by rw [encodeStack_length]; have := h.1; omega⟩
  | other c s p => exact ⟨c, s, p, rfl, h.2.2.2⟩

theorem encodeObject_length (c s : Nat) (p : Buf) : (encodeObject c s p).length = 4 + p.length := by
  simp [encodeObject]; omega

theorem mapR_objects_encode (objs : List Obj) (h : ∀ o ∈ objs, o.wf) :
    mapR objectOf ((objectsFrom (encodeObjs objs)).filter fun o => decide (4 ≤ o.length)) =
      .ok (objs.map Obj.expected) := by
  induction objs with
  | nil => simp [encodeObjs, objectsFrom, mapR]
  | cons o os ih =>
    have ho := h o (by simp)
    have ih' := ih (fun x hx => h x (by simp [hx]))
    have hcons : encodeObjs (o :: os) = o.encode ++ encodeObjs os := by simp [encodeObjs]
    obtain ⟨c, s, p, he, hp⟩ := Obj.payload_fits o ho
    have hoo := objectOf_encode o (encodeObjs os) ho
    rw [hcons, he, objectsFrom_encode c s p _ hp]
    rw [he] at hoo
    have h4 : decide (4 ≤ (encodeObject c s p ++ encodeObjs os).length) = true := by
      simp [encodeObject_length]; omega
    rw [List.filter_cons, if_pos h4]
    simp [mapR, hoo, ih']

theorem extensionsTryFrom_encode (ckHi ckLo : UInt8) (objs : List Obj) (h : ∀ o ∈ objs, o.wf) :
    extensionsTryFrom (encodeExt ckHi ckLo objs) = .ok (objs.map Obj.expected) := by
  have := mapR_objects_encode objs h
  unfold extensionsTryFrom encodeExt extHeader objects
  simp only [List.cons_append, List.nil_append, List.length_cons, List.drop_succ_cons, List.drop_zero]
  rw [if_neg (by omega)]
  simp [headerVersion, rd, this]


/-! ## further facts: panic condition of the pre-repair scaling, parse modes -/

theorem unitOf_cases (fam : Bool) : unitOf fam = if fam then 8 else 4 := rfl

/-- the exact panic condition of the pre-repair scaling (`fixed := false`) -/
theorem splitCurrent_panic_iff (fam : Bool) (icmp : Buf) (h : 8 ≤ icmp.length) :
    splitPayloadExtensionWith false fam icmp = .panic ↔
      (lengthOctet fam icmp).toNat ≥ (if fam then 32 else 64) := by
  rw [splitWith_current fam icmp h]
  cases fam <;> simp only [unitOf] <;> split <;> simp <;> omega

theorem splitFixed_ne_panic (fam : Bool) (icmp : Buf) (h : 8 ≤ icmp.length) :
    splitPayloadExtensionWith true fam icmp ≠ .panic := by
  rw [splitWith_fixed fam icmp h]; simp

theorem payload_fixed (fam : Bool) (icmp : Buf) (h : 8 ≤ icmp.length) :
    payload true fam icmp = .ok (split ((lengthOctet fam icmp).toNat * unitOf fam) (icmp.drop 8)).1 := by
  simp [payload, splitWith_fixed fam icmp h]

theorem extension_fixed (fam : Bool) (icmp : Buf) (h : 8 ≤ icmp.length) :
    extension true fam icmp = .ok (split ((lengthOctet fam icmp).toNat * unitOf fam) (icmp.drop 8)).2 := by
  simp [extension, splitWith_fixed fam icmp h]

theorem tracerExtract_ne_panic (fam te enabled : Bool) (icmp : Buf) (h : 8 ≤ icmp.length) :
    tracerExtract true fam te enabled icmp ≠ .panic := by
  unfold tracerExtract
  rw [payload_fixed fam icmp h, extension_fixed fam icmp h, payloadRaw_ok icmp h]
  split
  · simp
  · simp only [R.bind_ok]
    split
    · split
      · simp
      · rename_i eb _
        have := extensionsTryFrom_ne_panic eb
        cases hx : extensionsTryFrom eb with
        | ok xs => simp
        | err e => simp
        | panic => exact absurd hx this
    · simp

/-- what the tracer extracts from a built message (fixed scaling) -/
theorem tracerExtract_built (fam te enabled : Bool) (h : IcmpHdr) (mode : Mode) (orig : Buf)
    (ckHi ckLo : UInt8) (objs : List Obj) (hwf : ∀ o ∈ objs, o.wf)
    (hfit : lengthAttr fam mode orig ≤ 255) :
    tracerExtract true fam te enabled (buildIcmp fam h mode orig (encodeExt ckHi ckLo objs)) =
      if te && !enabled then .ok (padOrig fam mode orig ++ encodeExt ckHi ckLo objs, none)
      else if enabled then .ok (padOrig fam mode orig, some (objs.map Obj.expected))
      else .ok (padOrig fam mode orig, none) := by
  have hext : 4 ≤ (encodeExt ckHi ckLo objs).length := by simp [encodeExt, extHeader]
  have hs := splitFixed_built fam h mode orig _ hext hfit
  have hx := extensionsTryFrom_encode ckHi ckLo objs hwf
  unfold tracerExtract
  simp only [payload, extension, hs, payloadRaw_ok _ (buildIcmp_length ..), buildIcmp_drop, R.bind_ok,
    R.pure_eq]
  split
  · rfl
  · split
    · simp [hx]
    · rfl

/-- a header version other than 2: nothing is reported -/
theorem extensionsTryFrom_version (ext : Buf) (h : 4 ≤ ext.length)
    (hv : (ext.getD 0 0).toNat / 16 ≠ 2) : extensionsTryFrom ext = .ok [] := by
  obtain ⟨a, b, c, d, t, rfl⟩ := exists_cons4 ext h
  simp only [List.getD_cons_zero] at hv
  unfold extensionsTryFrom
  rw [if_neg (by omega)]
  simp [headerVersion, rd, hv]

/-! ## a sample for the non-vacuity checks of `Props/C14.lean` -/

/-- a two-entry stack (the example of `net/extension.rs`' unit test) and an unknown object -/
def sampleObjs : List Obj :=
  [.mpls [⟨27121, 4, 0, 1⟩, ⟨2, 4, 1, 255⟩], .other 0x99 1 [6, 0x9f, 0x18, 1]]

theorem sampleObjs_wf : ∀ o ∈ sampleObjs, o.wf := by
  simp [sampleObjs, Obj.wf, memberOk]

end TV.Ext
