import TrippyVerif.Lemmas.Bits
-- close a goal `x = y` between `UIntN` values (or a conjunction of such) by bit
-- extensionality: every bit of both sides is computed by `simp`.
set_option hygiene false in
macro "bits_close" : tactic => `(tactic| (
  repeat' apply And.intro
  all_goals (
    first
    | rfl
    | (first
        | apply UInt8.toBitVec_inj.mp
        | apply UInt16.toBitVec_inj.mp
        | apply UInt32.toBitVec_inj.mp
        | skip)
      simp only [UInt8.toBitVec_and, UInt8.toBitVec_or, UInt8.toBitVec_shiftLeft,
        UInt8.toBitVec_shiftRight, UInt8.toBitVec_ofNat,
        UInt16.toBitVec_and, UInt16.toBitVec_or, UInt16.toBitVec_shiftLeft,
        UInt16.toBitVec_shiftRight, UInt16.toBitVec_ofNat,
        UInt32.toBitVec_and, UInt32.toBitVec_or, UInt32.toBitVec_shiftLeft,
        UInt32.toBitVec_shiftRight, UInt32.toBitVec_ofNat,
        TV.Spec.cat2, TV.Spec.cat3, TV.Spec.cat4, TV.be16, TV.hi16, TV.lo16, TV.be32, TV.b32_0, TV.b32_1, TV.b32_2, TV.b32_3]
      apply BitVec.eq_of_getLsbD_eq
      intro i hi
      try simp only [BitVec.getLsbD_append, BitVec.getLsbD_extractLsb', BitVec.getLsbD_setWidth,
        BitVec.getLsbD_and, BitVec.getLsbD_or, BitVec.getLsbD_not, BitVec.getLsbD_shiftLeft,
        BitVec.getLsbD_ushiftRight]
      try simp
      first
      | done
      | bitcases8
      | bitcases16
      | bitcases32)))

namespace TV
open Spec

/-- evaluates (already unfolded) generated accessors and the spec on a destructured buffer -/
macro "fsimp" : tactic => `(tactic| (
  simp [rd, wr, wrN, getField_one, getField_two, getField_three, getField_four,
    setField_one, setField_two, setField_three, setField_four, replaceBV, octet,
    cat2, cat3, cat4]))

end TV
