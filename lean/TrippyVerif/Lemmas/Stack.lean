import TrippyVerif.Model.Stack
import TrippyVerif.Lemmas.Strategy
/-
Refinement lemmas: the send step of the stack (strategy over the real channel) is the send step
of the abstract state machine for the outcomes the channel produced.
-/
namespace TV.Stack
open TV TV.Strat

/-- how `Strategy::do_send` reads the result of `Channel::send_probe` -/
def outcomeOf : Chan.SendOut → SendOutcome
  | .ok _ => .ok
  | .err .probeFailed _ => .probeFailed
  | .err .addrInUse _ => .addrInUse
  | .err _ _ => .fatal
  | .panic => .fatal

theorem finishSend_ok {ch : Chan.Chan} {s : TS} {p : Probe} {log : List (Probe × SendOutcome)}
    {calls : List (List Wire.SockOp)} {out : Chan.SendOut} {r : SendRes}
    (h : finishSend ch s p log calls out = .ok r) :
    r.1 = ch ∧ True ∧
     ((∃ ops, out = .ok ops ∧ r.2.1 = s ∧ r.2.2.1 = log ++ [(p, .ok)] ∧ r.2.2.2 = calls ++ [ops]) ∨
      (∃ ops s', out = .err .probeFailed ops ∧ failProbe s = .ok s' ∧ r.2.1 = s' ∧
        r.2.2.1 = log ++ [(p, .probeFailed)] ∧ r.2.2.2 = calls ++ [ops])) := by
  cases out with
  | panic => simp [finishSend] at h
  | ok ops =>
    simp [finishSend] at h; subst h
    exact ⟨rfl, trivial, .inl ⟨ops, rfl, rfl, rfl, rfl⟩⟩
  | err e ops =>
    cases e <;> simp [finishSend] at h
    cases hf : failProbe s with
    | ok s' =>
      simp [hf] at h; subst h
      exact ⟨rfl, trivial, .inr ⟨ops, s', rfl, rfl, rfl, rfl, rfl⟩⟩
    | err e => simp [hf] at h
    | panic => simp [hf] at h

/-- the TCP loop over the channel is the abstract TCP loop for the outcomes it logged -/
theorem tcpLoopS_ok (c : Cfg) : ∀ (injs : List Chan.Inject) (ch : Chan.Chan) (s : TS) (p : Probe)
    (log : List (Probe × SendOutcome)) (calls : List (List Wire.SockOp)) (r : SendRes),
    tcpLoopS c ch s p log calls injs = .ok r →
    ∃ rest, r.2.2.1 = log ++ rest ∧ tcpLoop c s p log (rest.map (·.2)) = .ok (r.2.1, r.2.2.1) := by
  intro injs
  induction injs with
  | nil =>
    intro ch s p log calls r h
    simp only [tcpLoopS] at h
    obtain ⟨_, _, hc⟩ := finishSend_ok h
    rcases hc with ⟨ops, _, h1, h2, _⟩ | ⟨ops, s', _, hf, h1, h2, _⟩
    · refine ⟨[(p, .ok)], h2, ?_⟩
      simp [tcpLoop, doSend, h1, h2]
    · refine ⟨[(p, .probeFailed)], h2, ?_⟩
      simp [tcpLoop, doSend, hf, h1, h2]
  | cons inj rest ih =>
    intro ch s p log calls r h
    simp only [tcpLoopS] at h
    cases hout : (Chan.send ch p inj).2 with
    | panic => rw [hout] at h; simp [finishSend] at h
    | ok ops =>
      rw [hout] at h
      obtain ⟨_, _, hc⟩ := finishSend_ok h
      rcases hc with ⟨ops', _, h1, h2, _⟩ | ⟨ops', s', he, _⟩
      · refine ⟨[(p, .ok)], h2, ?_⟩
        simp [tcpLoop, doSend, h1, h2]
      · cases he
    | err e ops =>
      rw [hout] at h
      by_cases hea : e = .addrInUse
      · subst hea
        simp only at h
        cases hcap : roundHasCapacity s with
        | panic => simp [hcap] at h
        | err e => simp [hcap] at h
        | ok cap =>
          simp only [hcap, R.bind_ok] at h
          cases cap with
          | false => simp at h
          | true =>
            simp only [if_true] at h
            cases hre : reissueProbe c s s.now with
            | panic => simp [hre] at h
            | err e => simp [hre] at h
            | ok sp =>
              obtain ⟨s1, p'⟩ := sp
              simp only [hre, R.bind_ok] at h
              obtain ⟨rest', hl, ht⟩ := ih _ s1 p' _ _ r h
              refine ⟨(p, .addrInUse) :: rest', by rw [hl]; simp, ?_⟩
              simp only [List.map_cons, tcpLoop, doSend, R.bind_ok, hcap, if_true, hre]
              exact ht
      · have h' : finishSend (Chan.send ch p inj).1 s p log calls (.err e ops) = .ok r := by
          cases e <;> first | exact absurd rfl hea | exact h
        obtain ⟨_, _, hc⟩ := finishSend_ok h'
        rcases hc with ⟨ops', he, _⟩ | ⟨ops', s', he, hf, h1, h2, _⟩
        · cases he
        · refine ⟨[(p, .probeFailed)], h2, ?_⟩
          simp [tcpLoop, doSend, hf, h1, h2]

/-- **The send step of the stack is the abstract send step** for the outcomes the channel produced
(the second components of the log). -/
theorem sendRequestS_ok {c : Cfg} {ch : Chan.Chan} {s : TS} {injs : List Chan.Inject} {r : SendRes}
    (h : sendRequestS c ch s injs = .ok r) :
    sendRequest c s (r.2.2.1.map (·.2)) = .ok (r.2.1, r.2.2.1) := by
  unfold sendRequestS at h
  unfold sendRequest
  cases hg : canSendR c s with
  | panic => simp [hg] at h
  | err e => simp [hg] at h
  | ok g =>
    simp only [hg, R.bind_ok] at h ⊢
    cases g with
    | false => simp at h; subst h; simp
    | true =>
      simp only [if_true] at h ⊢
      unfold doSendsS at h
      unfold doSends
      cases hp : c.proto with
      | tcp =>
        simp only [hp] at h ⊢
        cases hcap : roundHasCapacity s with
        | panic => simp [hcap] at h
        | err e => simp [hcap] at h
        | ok cap =>
          simp only [hcap, R.bind_ok] at h ⊢
          cases cap with
          | false => simp at h
          | true =>
            simp only [if_true] at h ⊢
            cases hn : nextProbe c s s.now with
            | panic => simp [hn] at h
            | err e => simp [hn] at h
            | ok sp =>
              obtain ⟨s1, p⟩ := sp
              simp only [hn, R.bind_ok] at h ⊢
              obtain ⟨rest, hl, ht⟩ := tcpLoopS_ok c injs ch s1 p [] [] r h
              simp only [List.nil_append] at hl
              rw [hl] at ht ⊢
              exact ht
      | icmp =>
        simp only [hp] at h ⊢
        cases hn : nextProbe c s s.now with
        | panic => simp [hn] at h
        | err e => simp [hn] at h
        | ok sp =>
          obtain ⟨s1, p⟩ := sp
          simp only [hn, R.bind_ok] at h ⊢
          obtain ⟨_, _, hc⟩ := finishSend_ok h
          rcases hc with ⟨ops, _, h1, h2, _⟩ | ⟨ops, s', _, hf, h1, h2, _⟩
          · simp [h2, headOutcome, doSend, h1]
          · simp [h2, headOutcome, doSend, hf, h1]
      | udp =>
        simp only [hp] at h ⊢
        cases hn : nextProbe c s s.now with
        | panic => simp [hn] at h
        | err e => simp [hn] at h
        | ok sp =>
          obtain ⟨s1, p⟩ := sp
          simp only [hn, R.bind_ok] at h ⊢
          obtain ⟨_, _, hc⟩ := finishSend_ok h
          rcases hc with ⟨ops, _, h1, h2, _⟩ | ⟨ops, s', _, hf, h1, h2, _⟩
          · simp [h2, headOutcome, doSend, h1]
          · simp [h2, headOutcome, doSend, hf, h1]

end TV.Stack

namespace TV.Stack
open TV TV.Strat

/-- what stays fixed in the channel across `send_probe` calls -/
def SameChan (a b : Chan.Chan) : Prop :=
  b.cfg = a.cfg ∧ b.now = a.now ∧ b.tcpTimeout = a.tcpTimeout ∧ b.hasSend = a.hasSend

theorem SameChan.refl (a : Chan.Chan) : SameChan a a := ⟨rfl, rfl, rfl, rfl⟩
theorem SameChan.trans {a b c : Chan.Chan} (h1 : SameChan a b) (h2 : SameChan b c) : SameChan a c :=
  ⟨h2.1.trans h1.1, h2.2.1.trans h1.2.1, h2.2.2.1.trans h1.2.2.1, h2.2.2.2.trans h1.2.2.2⟩

theorem sameChan_send (ch : Chan.Chan) (p : Probe) (inj : Chan.Inject) :
    SameChan ch (Chan.send ch p inj).1 := by
  unfold SameChan Chan.send
  cases ch.cfg.proto <;> simp only <;> (try split) <;>
    first
    | (unfold Chan.sendOld
       cases ch.cfg.proto <;> simp only <;>
         (try split) <;> (try split) <;> (try split) <;> (try split) <;> simp)
    | simp

theorem finishSend_chan {ch : Chan.Chan} {s : TS} {p : Probe} {log : List (Probe × SendOutcome)}
    {calls : List (List Wire.SockOp)} {out : Chan.SendOut} {r : SendRes}
    (h : finishSend ch s p log calls out = .ok r) : r.1 = ch := (finishSend_ok h).1

theorem tcpLoopS_chan (c : Cfg) : ∀ (injs : List Chan.Inject) (ch : Chan.Chan) (s : TS) (p : Probe)
    (log : List (Probe × SendOutcome)) (calls : List (List Wire.SockOp)) (r : SendRes),
    tcpLoopS c ch s p log calls injs = .ok r → SameChan ch r.1 := by
  intro injs
  induction injs with
  | nil =>
    intro ch s p log calls r h
    simp only [tcpLoopS] at h
    rw [finishSend_chan h]; exact sameChan_send ch p none
  | cons inj rest ih =>
    intro ch s p log calls r h
    simp only [tcpLoopS] at h
    have hsc := sameChan_send ch p inj
    cases hout : (Chan.send ch p inj).2 with
    | panic => rw [hout] at h; simp [finishSend] at h
    | ok ops => rw [hout] at h; rw [finishSend_chan h]; exact hsc
    | err e ops =>
      rw [hout] at h
      by_cases hea : e = .addrInUse
      · subst hea
        simp only at h
        cases hcap : roundHasCapacity s with
        | panic => simp [hcap] at h
        | err e => simp [hcap] at h
        | ok cap =>
          simp only [hcap, R.bind_ok] at h
          cases cap with
          | false => simp at h
          | true =>
            simp only [if_true] at h
            cases hre : reissueProbe c s s.now with
            | panic => simp [hre] at h
            | err e => simp [hre] at h
            | ok sp =>
              obtain ⟨s1, p'⟩ := sp
              simp only [hre, R.bind_ok] at h
              exact hsc.trans (ih _ s1 p' _ _ r h)
      · have h' : finishSend (Chan.send ch p inj).1 s p log calls (.err e ops) = .ok r := by
          cases e <;> first | exact absurd rfl hea | exact h
        rw [finishSend_chan h']; exact hsc

/-- the send step leaves the channel's configuration and clock alone -/
theorem sendRequestS_chan {c : Cfg} {ch : Chan.Chan} {s : TS} {injs : List Chan.Inject} {r : SendRes}
    (h : sendRequestS c ch s injs = .ok r) : SameChan ch r.1 := by
  unfold sendRequestS at h
  cases hg : canSendR c s with
  | panic => simp [hg] at h
  | err e => simp [hg] at h
  | ok g =>
    simp only [hg, R.bind_ok] at h
    cases g with
    | false => simp at h; subst h; exact SameChan.refl ch
    | true =>
      simp only [if_true] at h
      unfold doSendsS at h
      cases hp : c.proto with
      | tcp =>
        simp only [hp] at h
        cases hcap : roundHasCapacity s with
        | panic => simp [hcap] at h
        | err e => simp [hcap] at h
        | ok cap =>
          simp only [hcap, R.bind_ok] at h
          cases cap with
          | false => simp at h
          | true =>
            simp only [if_true] at h
            cases hn : nextProbe c s s.now with
            | panic => simp [hn] at h
            | err e => simp [hn] at h
            | ok sp =>
              obtain ⟨s1, p⟩ := sp
              simp only [hn, R.bind_ok] at h
              exact tcpLoopS_chan c injs ch s1 p [] [] r h
      | icmp =>
        simp only [hp] at h
        cases hn : nextProbe c s s.now with
        | panic => simp [hn] at h
        | err e => simp [hn] at h
        | ok sp =>
          obtain ⟨s1, p⟩ := sp
          simp only [hn, R.bind_ok] at h
          rw [finishSend_chan h]; exact sameChan_send ch p _
      | udp =>
        simp only [hp] at h
        cases hn : nextProbe c s s.now with
        | panic => simp [hn] at h
        | err e => simp [hn] at h
        | ok sp =>
          obtain ⟨s1, p⟩ := sp
          simp only [hn, R.bind_ok] at h
          rw [finishSend_chan h]; exact sameChan_send ch p _

end TV.Stack
