import TrippyVerif.Spec.Reagg
/-
Helper lemmas for the trace-state aggregator (C05, C10, C15, C19): flow check/merge, the registry,
one round as a fold of per-outcome steps, a history as a fold over the flattened outcomes, and the
fold versus the direct definitions of `Spec/Reagg.lean`.
-/
set_option linter.unusedSectionVars false
set_option linter.unusedSimpArgs false
set_option linter.unusedVariables false
namespace TV.Agg
open TV TV.Strat TV.Reagg

/-! ## flows -/

/-- `old ⊑ new`: a known entry stays the same known entry, the length does not decrease -/
def Flow.le (old new : Flow) : Prop :=
  old.length ≤ new.length ∧ ∀ (i a : Nat), old[i]? = some (FlowEntry.known a) → new[i]? = some (FlowEntry.known a)

/-- the two flows have the same address wherever both are known -/
def Flow.agree (f g : Flow) : Prop :=
  ∀ (i a b : Nat), f[i]? = some (FlowEntry.known a) → g[i]? = some (FlowEntry.known b) → a = b

theorem Flow.le_refl (f : Flow) : Flow.le f f := ⟨Nat.le_refl _, fun _ _ h => h⟩

theorem Flow.le_trans {f g h : Flow} (a : Flow.le f g) (b : Flow.le g h) : Flow.le f h :=
  ⟨Nat.le_trans a.1 b.1, fun i x hx => b.2 i x (a.2 i x hx)⟩

theorem Flow.agree_of_le {f g : Flow} (h : Flow.le f g) : Flow.agree g f := by
  intro i a b hg hf
  have := h.2 i b hf
  rw [hg] at this
  injection this with this; injection this

theorem Flow.agree_nil_left (g : Flow) : Flow.agree [] g := by intro i a b h; simp at h
theorem Flow.agree_nil_right (f : Flow) : Flow.agree f [] := by intro i a b _ h; simp at h

theorem Flow.agree_cons (o n : FlowEntry) (os ns : Flow) :
    Flow.agree (o :: os) (n :: ns) ↔
      (∀ a b, o = FlowEntry.known a → n = FlowEntry.known b → a = b) ∧ Flow.agree os ns := by
  constructor
  · intro h
    refine ⟨fun a b ha hb => h 0 a b (by simp [ha]) (by simp [hb]), ?_⟩
    intro i a b ha hb
    exact h (i+1) a b (by simpa using ha) (by simpa using hb)
  · intro ⟨h0, h⟩ i a b ha hb
    cases i with
    | zero => exact h0 a b (by simpa using ha) (by simpa using hb)
    | succ i => exact h i a b (by simpa using ha) (by simpa using hb)

/-- `Flow::check` reports `NoMatch` exactly when the flows disagree at a position where both are
known -/
theorem Flow.checkLoop_none (s f : Flow) (n : Nat) :
    Flow.checkLoop s f n = none ↔ ¬ Flow.agree s f := by
  fun_induction Flow.checkLoop s f n
  case case1 os ns add fst snd hne =>
    simp only [true_iff, Flow.agree_cons]
    intro h
    exact hne (h.1 fst snd rfl rfl)
  case case2 os ns add fst snd heq ih =>
    rw [ih, Flow.agree_cons]
    have heq : fst = snd := by simpa using heq
    subst heq
    simp
  case case3 os ns add a ih =>
    rw [ih, Flow.agree_cons]; simp
  case case4 o os n ns add h1 h2 ih =>
    rw [ih, Flow.agree_cons]
    have : ∀ a b, o = FlowEntry.known a → n = FlowEntry.known b → a = b :=
      fun a b ha hb => (h1 a b ha hb).elim
    rw [and_iff_right this]
  case case5 s f add h =>
    simp only [reduceCtorEq, false_iff, Classical.not_not]
    cases s with
    | nil => exact Flow.agree_nil_left _
    | cons o os =>
      cases f with
      | nil => exact Flow.agree_nil_right _
      | cons n ns => exact (h o os n ns rfl rfl).elim

theorem Flow.checkLoop_mono (s f : Flow) (n : Nat) :
    ∀ m, Flow.checkLoop s f n = some m → n ≤ m := by
  fun_induction Flow.checkLoop s f n <;> intro m h
  case case1 => simp at h
  case case2 ih => exact ih m h
  case case3 ih => have := ih m h; omega
  case case4 ih => exact ih m h
  case case5 => simp at h; omega

/-- no additions: every known entry of the checked flow is already recorded -/
theorem Flow.checkLoop_same (s f : Flow) (n : Nat) :
    Flow.checkLoop s f n = some n →
      ∀ (i a : Nat), i < s.length → f[i]? = some (FlowEntry.known a) → s[i]? = some (FlowEntry.known a) := by
  fun_induction Flow.checkLoop s f n <;> intro h i a hi hf
  case case1 => simp at h
  case case2 os ns add fst snd heq ih =>
    have heq : fst = snd := by simpa using heq
    cases i with
    | zero => simp at hf ⊢; omega
    | succ i => simpa using ih h i a (by simpa using hi) (by simpa using hf)
  case case3 ih => have := Flow.checkLoop_mono _ _ _ _ h; omega
  case case4 o os n ns add h1 h2 ih =>
    cases i with
    | zero =>
      simp at hf; subst hf
      cases o with
      | unknown => exact (h2 a rfl rfl).elim
      | known b => exact (h1 b a rfl rfl).elim
    | succ i => simpa using ih h i a (by simpa using hi) (by simpa using hf)
  case case5 s f add hnc =>
    cases s with
    | nil => simp at hi
    | cons o os =>
      cases f with
      | nil => simp at hf
      | cons n ns => exact (hnc o os n ns rfl rfl).elim

theorem Flow.merge_length (s f : Flow) : (Flow.merge s f).length = max s.length f.length := by
  fun_induction Flow.merge s f <;> simp_all <;> omega

theorem Flow.le_merge_left (s f : Flow) : Flow.le s (Flow.merge s f) := by
  refine ⟨by rw [Flow.merge_length]; omega, ?_⟩
  fun_induction Flow.merge s f
  case case1 l ls r rs ih =>
    intro i a h
    cases i with
    | zero => simp at h ⊢; subst h; rfl
    | succ i => simpa using ih i a (by simpa using h)
  case case2 => intro i a h; simp at h
  case case3 => intro i a h; exact h

theorem Flow.le_merge_right (s f : Flow) (hag : Flow.agree s f) : Flow.le f (Flow.merge s f) := by
  refine ⟨by rw [Flow.merge_length]; omega, ?_⟩
  fun_induction Flow.merge s f
  case case1 l ls r rs ih =>
    rw [Flow.agree_cons] at hag
    intro i a h
    cases i with
    | zero =>
      simp at h ⊢; subst h
      cases l with
      | unknown => rfl
      | known b => simp [hag.1 b a rfl rfl]
    | succ i => simpa using ih hag.2 i a (by simpa using h)
  case case2 => intro i a h; exact h
  case case3 ls hne =>
    intro i a h
    simp at h

/-- the three outcomes of `Flow::check` -/
theorem Flow.check_cases (s f : Flow) :
    (Flow.check s f = .noMatch ∧ ¬ Flow.agree s f) ∨
    (Flow.check s f = .matched ∧ Flow.agree s f ∧ Flow.le f s) ∨
    (Flow.check s f = .matchMerge ∧ Flow.agree s f) := by
  unfold Flow.check
  cases hc : Flow.checkLoop s f 0 with
  | none => exact .inl ⟨rfl, (Flow.checkLoop_none s f 0).1 hc⟩
  | some add =>
    have hag : Flow.agree s f := by
      apply Classical.byContradiction; intro hn
      have := (Flow.checkLoop_none s f 0).2 hn; simp [hc] at this
    by_cases hm : f.length > s.length ∨ add > 0
    · exact .inr (.inr ⟨by simp [hm], hag⟩)
    · refine .inr (.inl ⟨by simp [hm], hag, ?_⟩)
      have h0 : add = 0 := by omega
      subst h0
      refine ⟨by omega, fun i a h => ?_⟩
      have hi : i < f.length := by
        rcases Nat.lt_or_ge i f.length with h' | h'
        · exact h'
        · simp [List.getElem?_eq_none h'] at h
      exact Flow.checkLoop_same s f 0 hc i a (by omega) h

/-! ## registry -/

/-- complete description of `FlowRegistry::lookup`'s loop: either no stored flow is compatible
(nothing changes), or the *first* compatible one is returned, possibly grown by the merge -/
theorem Registry.lookupLoop_cases (fl : List (Flow × Nat)) (f : Flow) :
    (Registry.lookupLoop fl f = (fl, none) ∧ ∀ x ∈ fl, ¬ Flow.agree x.1 f) ∨
    (∃ pre e post e', fl = pre ++ e :: post ∧ (∀ x ∈ pre, ¬ Flow.agree x.1 f) ∧ Flow.agree e.1 f ∧
      Registry.lookupLoop fl f = (pre ++ (e', e.2) :: post, some e.2) ∧
      Flow.le e.1 e' ∧ Flow.le f e') := by
  induction fl with
  | nil => exact .inl ⟨rfl, by simp⟩
  | cons x rest ih =>
    obtain ⟨entry, id⟩ := x
    rcases Flow.check_cases entry f with ⟨hc, hn⟩ | ⟨hc, hag, hle⟩ | ⟨hc, hag⟩
    · rcases ih with ⟨h1, h2⟩ | ⟨pre, e, post, e', h1, h2, h3, h4, h5, h6⟩
      · left
        refine ⟨by simp [Registry.lookupLoop, hc, h1], ?_⟩
        intro y hy
        rcases List.mem_cons.1 hy with rfl | hy
        · exact hn
        · exact h2 y hy
      · right
        refine ⟨(entry, id) :: pre, e, post, e', by simp [h1], ?_, h3, by simp [Registry.lookupLoop, hc, h4], h5, h6⟩
        intro y hy
        rcases List.mem_cons.1 hy with rfl | hy
        · exact hn
        · exact h2 y hy
    · right
      exact ⟨[], (entry, id), rest, entry, rfl, by simp, hag, by simp [Registry.lookupLoop, hc],
        Flow.le_refl _, hle⟩
    · right
      exact ⟨[], (entry, id), rest, entry.merge f, rfl, by simp, hag, by simp [Registry.lookupLoop, hc],
        Flow.le_merge_left _ _, Flow.le_merge_right _ _ hag⟩

/-- ids are issued densely from 1, in registration order -/
def RegInv (r : Registry) : Prop :=
  r.flows.map (·.2) = List.range' 1 r.flows.length ∧ r.nextId = r.flows.length + 1

/-- every stored flow of `r` is still stored under the same id in `r'`, possibly grown -/
def Registry.le (r r' : Registry) : Prop :=
  ∀ e id, (e, id) ∈ r.flows → ∃ e', (e', id) ∈ r'.flows ∧ Flow.le e e'

theorem Registry.le_refl (r : Registry) : Registry.le r r := fun e _ h => ⟨e, h, Flow.le_refl _⟩

theorem Registry.le_trans {a b c : Registry} (h1 : Registry.le a b) (h2 : Registry.le b c) :
    Registry.le a c := by
  intro e id h
  obtain ⟨e', h', l'⟩ := h1 e id h
  obtain ⟨e'', h'', l''⟩ := h2 e' id h'
  exact ⟨e'', h'', Flow.le_trans l' l''⟩

theorem RegInv_new : RegInv Registry.new := by simp [RegInv, Registry.new]

/-- complete description of `FlowRegistry::lookup` -/
theorem Registry.lookup_cases (r : Registry) (f : Flow) :
    (r.lookup f = (r, none) ∧ ∀ x ∈ r.flows, ¬ Flow.agree x.1 f) ∨
    (∃ pre e post e', r.flows = pre ++ e :: post ∧ (∀ x ∈ pre, ¬ Flow.agree x.1 f) ∧ Flow.agree e.1 f ∧
      r.lookup f = ({ r with flows := pre ++ (e', e.2) :: post }, some e.2) ∧
      Flow.le e.1 e' ∧ Flow.le f e') := by
  rcases Registry.lookupLoop_cases r.flows f with ⟨h1, h2⟩ | ⟨pre, e, post, e', h1, h2, h3, h4, h5, h6⟩
  · exact .inl ⟨by simp [Registry.lookup, h1], h2⟩
  · exact .inr ⟨pre, e, post, e', h1, h2, h3, by simp [Registry.lookup, h4], h5, h6⟩

/-- the registry part of `State::update_from_round` -/
def regStep (maxFlows : Nat) (reg : Registry) (flow : Flow) : Registry × Option Nat :=
  if reg.flows.length < maxFlows then
    let (r, id) := reg.register flow
    (r, some id)
  else reg.lookup flow

theorem le_replace (r : Registry) (pre post : List (Flow × Nat)) (e : Flow × Nat) (e' : Flow)
    (h : r.flows = pre ++ e :: post) (hle : Flow.le e.1 e') :
    Registry.le r { r with flows := pre ++ (e', e.2) :: post } := by
  intro x id hx
  rw [h] at hx
  simp only [List.mem_append, List.mem_cons] at hx ⊢
  rcases hx with hx | rfl | hx
  · exact ⟨x, .inl hx, Flow.le_refl _⟩
  · exact ⟨e', .inr (.inl rfl), hle⟩
  · exact ⟨x, .inr (.inr hx), Flow.le_refl _⟩

theorem inv_replace (r : Registry) (pre post : List (Flow × Nat)) (e : Flow × Nat) (e' : Flow)
    (h : r.flows = pre ++ e :: post) (hi : RegInv r) :
    RegInv { r with flows := pre ++ (e', e.2) :: post } := by
  unfold RegInv at hi ⊢
  rw [h] at hi
  simpa using hi

/-- Everything C15 says about one registry step. -/
theorem regStep_spec (maxFlows : Nat) (reg : Registry) (f : Flow) (hi : RegInv reg)
    (hb : reg.flows.length ≤ maxFlows) :
    let out := regStep maxFlows reg f
    RegInv out.1 ∧ out.1.flows.length ≤ maxFlows ∧ Registry.le reg out.1 ∧
    reg.flows.length ≤ out.1.flows.length ∧
    (∀ id, out.2 = some id →
        1 ≤ id ∧ id ≤ out.1.flows.length ∧ ∃ e', (e', id) ∈ out.1.flows ∧ Flow.le f e') ∧
    -- a compatible stored flow ⇒ the round is attributed to the first such, also when full
    (∀ pre e post, reg.flows = pre ++ e :: post → (∀ x ∈ pre, ¬ Flow.agree x.1 f) → Flow.agree e.1 f →
        out.2 = some e.2 ∧ out.1.flows.length = reg.flows.length) ∧
    -- no compatible stored flow: a new id (the next one) while there is room, nothing otherwise
    ((∀ x ∈ reg.flows, ¬ Flow.agree x.1 f) →
        if reg.flows.length < maxFlows then
          out.2 = some (reg.flows.length + 1) ∧ out.1.flows = reg.flows ++ [(f, reg.flows.length + 1)]
        else out = (reg, none)) := by
  intro out
  have hmem : ∀ (l : List (Flow × Nat)) (x : Flow × Nat) n, l.map (·.2) = List.range' 1 n → x ∈ l →
      1 ≤ x.2 ∧ x.2 ≤ n := by
    intro l x n hl hx
    have : x.2 ∈ l.map (·.2) := List.mem_map_of_mem hx
    rw [hl, List.mem_range'_1] at this
    omega
  rcases Registry.lookup_cases reg f with ⟨h1, h2⟩ | ⟨pre, e, post, e', h1, h2, h3, h4, h5, h6⟩
  · -- nothing compatible
    by_cases hlt : reg.flows.length < maxFlows
    · have hout : out = ({ nextId := reg.nextId + 1, flows := reg.flows ++ [(f, reg.nextId)] }, some reg.nextId) := by
        simp [out, regStep, hlt, Registry.register, h1]
      have hn := hi.2
      rw [hout]
      refine ⟨?_, ?_, ?_, ?_, ?_, ?_, ?_⟩
      · refine ⟨?_, by simp; omega⟩
        simp only [List.map_append, hi.1, List.map_cons, List.map_nil, List.length_append,
          List.length_cons, List.length_nil, hn]
        rw [List.range'_concat]
        simp; omega
      · simp; omega
      · intro x id hx; exact ⟨x, by simp [hx], Flow.le_refl _⟩
      · simp
      · intro id hid
        simp only [Option.some.injEq] at hid; subst hid
        refine ⟨by omega, by simp; omega, f, by simp, Flow.le_refl _⟩
      · intro pre e post hfl hpre hag
        exact (h2 e (by simp [hfl]) hag).elim
      · intro _; simp [hlt, hn]
    · have hout : out = (reg, none) := by simp [out, regStep, hlt, h1]
      rw [hout]
      refine ⟨hi, hb, Registry.le_refl _, Nat.le_refl _, by simp, ?_, ?_⟩
      · intro pre e post hfl hpre hag
        exact (h2 e (by simp [hfl]) hag).elim
      · intro _; simp [hlt]
  · -- compatible with the stored flow `e`
    have hout : out = ({ reg with flows := pre ++ (e', e.2) :: post }, some e.2) := by
      by_cases hlt : reg.flows.length < maxFlows <;> simp [out, regStep, hlt, Registry.register, h4]
    have hlen : (pre ++ (e', e.2) :: post).length = reg.flows.length := by simp [h1]
    rw [hout]
    refine ⟨inv_replace reg pre post e e' h1 hi, by simp only [hlen]; exact hb,
      le_replace reg pre post e e' h1 h5, by simp only [hlen]; exact Nat.le_refl _, ?_, ?_, ?_⟩
    · intro id hid
      simp only [Option.some.injEq] at hid; subst hid
      have := hmem reg.flows e _ hi.1 (by simp [h1])
      refine ⟨this.1, by simp only [hlen]; exact this.2, e', by simp, h6⟩
    · intro pre2 e2 post2 hfl hpre hag
      -- the first compatible entry is unique
      have : pre2 = pre ∧ e2 = e := by
        rw [h1] at hfl
        rcases List.append_eq_append_iff.1 hfl with ⟨a, ha1, ha2⟩ | ⟨a, ha1, ha2⟩
        · cases a with
          | nil => simp at ha1 ha2; exact ⟨ha1, ha2.1.symm⟩
          | cons y ys =>
            simp at ha2
            exact (hpre e (by simp [ha1, ha2.1]) h3).elim
        · cases a with
          | nil => simp at ha1 ha2; exact ⟨ha1.symm, ha2.1⟩
          | cons y ys =>
            simp at ha2
            exact (h2 e2 (by simp [ha1, ha2.1]) hag).elim
      exact ⟨by rw [this.2], hlen⟩
    · intro hno
      exact (hno e (by simp [h1]) h3).elim

/-! ## one round = a fold of per-hop steps over the positional outcomes -/

variable {F : Type} [Num F]

/-- the effect of one outcome on its hop -/
def hopStep (ms : Nat) (h : Hop F) : Outcome → Hop F
  | .complete c nat =>
    match nat with
    | some n => { h.complete ms c with lastNatStatus := n }
    | none => h.complete ms c
  | .awaited p loss => h.awaited ms p loss
  | .failed p => h.failed ms p

/-- the effect of one tagged outcome on a flow's state -/
def FlowState.applyTag (fs : FlowState F) (tag : Nat × Outcome) : FlowState F :=
  let fs1 := (fs.updateLowestTtl tag.1).updateRound tag.2.probe.round
  { fs1 with hops := fs1.hops.modify (tag.1 - 1) (fun h => hopStep fs.maxSamples h tag.2) }

@[simp] theorem updateLowestTtl_maxSamples (fs : FlowState F) (t : Nat) :
    (fs.updateLowestTtl t).maxSamples = fs.maxSamples := by
  unfold FlowState.updateLowestTtl; split <;> rfl
@[simp] theorem updateLowestTtl_hops (fs : FlowState F) (t : Nat) :
    (fs.updateLowestTtl t).hops = fs.hops := by
  unfold FlowState.updateLowestTtl; split <;> rfl
@[simp] theorem updateRound_maxSamples (fs : FlowState F) (t : Nat) :
    (fs.updateRound t).maxSamples = fs.maxSamples := rfl
@[simp] theorem updateRound_hops (fs : FlowState F) (t : Nat) :
    (fs.updateRound t).hops = fs.hops := rfl

theorem set_eq_modify {α} (l : List α) (i : Nat) (x : α) (f : α → α) (h : l[i]? = some x) :
    l.set i (f x) = l.modify i f := by
  apply List.ext_getElem?
  intro j
  rw [List.getElem?_set, List.getElem?_modify]
  by_cases hij : i = j
  · subst hij
    have hi : i < l.length := by
      rcases Nat.lt_or_ge i l.length with h' | h'
      · exact h'
      · simp [List.getElem?_eq_none h'] at h
    have hx : l[i] = x := by rw [List.getElem?_eq_getElem hi] at h; exact Option.some.inj h
    simp [hi, hx]
  · simp [hij]

theorem modifyHop_ok (fs : FlowState F) (ttl : Nat) (f : Hop F → Hop F) (h1 : 1 ≤ ttl)
    (h2 : ttl ≤ fs.hops.length) :
    fs.modifyHop ttl f = .ok { fs with hops := fs.hops.modify (ttl - 1) f } := by
  unfold FlowState.modifyHop
  have h0 : ttl ≠ 0 := by omega
  have hlt : ttl - 1 < fs.hops.length := by omega
  simp only [h0, if_false]
  rw [List.getElem?_eq_getElem hlt]
  simp only
  rw [set_eq_modify _ _ _ _ (List.getElem?_eq_getElem hlt)]

/-- `ttl = 0` panics: `usize::from(ttl) - 1` underflows -/
theorem modifyHop_zero (fs : FlowState F) (f : Hop F → Hop F) : fs.modifyHop 0 f = .panic := by
  simp [FlowState.modifyHop]

/-- an index beyond the hop array panics -/
theorem modifyHop_big (fs : FlowState F) (ttl : Nat) (f : Hop F → Hop F) (h : fs.hops.length < ttl) :
    fs.modifyHop ttl f = .panic := by
  unfold FlowState.modifyHop
  have h0 : ttl ≠ 0 := by omega
  simp only [h0, if_false]
  rw [List.getElem?_eq_none (by omega)]

/-! the positional forward-loss test equals the code's ttl based test on ascending rounds -/

theorem dropWhile_congr {α} (p q : α → Bool) (l : List α) (h : ∀ x ∈ l, p x = q x) :
    l.dropWhile p = l.dropWhile q := by
  induction l with
  | nil => rfl
  | cons a l ih =>
    simp only [List.dropWhile_cons, h a (by simp)]
    split
    · exact ih (fun x hx => h x (by simp [hx]))
    · rfl

theorem dropWhile_all {α} (p : α → Bool) (l m : List α) (h : ∀ x ∈ l, p x = true) :
    (l ++ m).dropWhile p = m.dropWhile p := by
  induction l with
  | nil => rfl
  | cons a l ih =>
    simp only [List.cons_append, List.dropWhile_cons, h a (by simp), if_true]
    exact ih (fun x hx => h x (by simp [hx]))

theorem skipPred_of_ttl (t : Nat) (s : Slot) :
    skipPred t s = match slotTtl s with | some t' => decide (t' ≤ t) | none => true := by
  cases s <;> rfl

theorem mem_ttls {s : Slot} {l : List Slot} {t : Nat} (hs : s ∈ l) (ht : slotTtl s = some t) :
    t ∈ ttls l := List.mem_filterMap.2 ⟨s, hs, ht⟩

theorem isForwardLoss_eq (pre post : List Slot) (a : Probe)
    (hasc : (ttls (pre ++ Slot.awaited a :: post)).Pairwise (· < ·)) :
    isForwardLoss (pre ++ Slot.awaited a :: post) a.ttl = laterSilent post := by
  have hsplit : ttls (pre ++ Slot.awaited a :: post) = ttls pre ++ a.ttl :: ttls post := by
    simp [ttls, List.filterMap_append, List.filterMap_cons, slotTtl]
  rw [hsplit, List.pairwise_append, List.pairwise_cons] at hasc
  obtain ⟨_, ⟨hpost, _⟩, hpre⟩ := hasc
  unfold isForwardLoss laterSilent
  have h1 : (pre ++ Slot.awaited a :: post).dropWhile (skipPred a.ttl)
      = (Slot.awaited a :: post).dropWhile (skipPred a.ttl) := by
    apply dropWhile_all
    intro x hx
    rw [skipPred_of_ttl]
    cases hx' : slotTtl x with
    | none => rfl
    | some t' =>
      have := hpre t' (mem_ttls hx hx') a.ttl (by simp)
      simp; omega
  have h2 : (Slot.awaited a :: post).dropWhile (skipPred a.ttl) = post.dropWhile (skipPred a.ttl) := by
    simp [List.dropWhile_cons, skipPred]
  have h3 : post.dropWhile (skipPred a.ttl) = post.dropWhile (fun s => (slotTtl s).isNone) := by
    apply dropWhile_congr
    intro x hx
    rw [skipPred_of_ttl]
    cases hx' : slotTtl x with
    | none => rfl
    | some t' =>
      have := hpost t' (mem_ttls hx hx')
      simp; omega
  simp only [h1, h2, h3]

theorem fwdSeen_snoc (pre : List Slot) (s : Slot) (post : List Slot) :
    fwdSeen (pre ++ [s]) post = (fwdSeen pre (s :: post) || isFwdHead s post) := by
  induction pre with
  | nil => simp [fwdSeen]
  | cons x pre ih => simp [fwdSeen, ih, Bool.or_assoc]

theorem lastCk_snoc (pre : List Slot) (s : Slot) :
    lastCk (pre ++ [s]) = match ckPair s with | some (_, a) => some a | none => lastCk pre := by
  unfold lastCk
  rw [List.filterMap_append]
  cases h : ckPair s with
  | none => simp [List.filterMap_cons, h]
  | some p => simp [List.filterMap_cons, h, List.getLast?_append]

/-- the updater's round-local variables are the positional quantities of the spec -/
structure UInv (pre post : List Slot) (u : Updater F) : Prop where
  ck : u.prevHopChecksum = lastCk pre
  fwd : u.forwardLoss = fwdSeen pre post
  len : u.state.hops.length = 254

/-- the updater after slot `s` (with `pre` before, `post` after it) -/
def Updater.next (u : Updater F) (pre : List Slot) (s : Slot) (post : List Slot) : Updater F :=
  { state := match tagOf pre s post with
      | some tag => u.state.applyTag tag
      | none => u.state,
    prevHopChecksum := lastCk (pre ++ [s]),
    forwardLoss := fwdSeen (pre ++ [s]) post }

theorem updateForProbe_ok (whole pre post : List Slot) (s : Slot) (u : Updater F)
    (hw : whole = pre ++ s :: post) (hinv : UInv pre (s :: post) u)
    (hb : ∀ t ∈ ttls whole, 1 ≤ t ∧ t ≤ 254) (hasc : (ttls whole).Pairwise (· < ·)) :
    u.updateForProbe whole s = .ok (u.next pre s post) := by
  obtain ⟨hck, hfwd, hlen⟩ := hinv
  have hbt : ∀ t, slotTtl s = some t → 1 ≤ t ∧ t ≤ 254 := fun t ht =>
    hb t (mem_ttls (by simp [hw]) ht)
  cases s with
  | notSent =>
    simp only [Updater.updateForProbe, Updater.next, tagOf, fwdSeen_snoc, isFwdHead, Bool.or_false,
      lastCk_snoc, ckPair, ← hck, ← hfwd]
  | skipped =>
    simp only [Updater.updateForProbe, Updater.next, tagOf, fwdSeen_snoc, isFwdHead, Bool.or_false,
      lastCk_snoc, ckPair, ← hck, ← hfwd]
  | failed p =>
    have := hbt p.ttl rfl
    simp only [Updater.updateForProbe, Updater.next, tagOf, fwdSeen_snoc, isFwdHead, Bool.or_false,
      lastCk_snoc, ckPair, ← hck, ← hfwd]
    rw [modifyHop_ok _ _ _ this.1 (by simp [hlen]; exact this.2)]
    simp [FlowState.applyTag, hopStep, Outcome.probe]
  | awaited a =>
    have := hbt a.ttl rfl
    have hifl : isForwardLoss whole a.ttl = laterSilent post := by
      subst hw; exact isForwardLoss_eq pre post a hasc
    simp only [Updater.updateForProbe, Updater.next, tagOf, fwdSeen_snoc, isFwdHead,
      lastCk_snoc, ckPair, ← hck, ← hfwd, lossOf, hifl]
    cases hf : u.forwardLoss with
    | true =>
      simp only [if_true, Bool.true_or]
      rw [modifyHop_ok _ _ _ this.1 (by simp [hlen]; exact this.2)]
      simp [FlowState.applyTag, hopStep, Outcome.probe, hf]
    | false =>
      cases hl : laterSilent post with
      | true =>
        simp only [Bool.false_eq_true, if_false, if_true, Bool.false_or]
        rw [modifyHop_ok _ _ _ this.1 (by simp [hlen]; exact this.2)]
        simp [FlowState.applyTag, hopStep, Outcome.probe, hf]
      | false =>
        simp only [Bool.false_eq_true, if_false, Bool.false_or]
        rw [modifyHop_ok _ _ _ this.1 (by simp [hlen]; exact this.2)]
        simp [FlowState.applyTag, hopStep, Outcome.probe, hf]
  | complete c =>
    have := hbt c.probe.ttl rfl
    simp only [Updater.updateForProbe, Updater.next, tagOf, fwdSeen_snoc, isFwdHead, Bool.or_false,
      lastCk_snoc, ckPair, natOf, ← hck, ← hfwd]
    cases he : c.expCk with
    | none =>
      simp only
      rw [modifyHop_ok _ _ _ this.1 (by simp [hlen]; exact this.2)]
      simp [FlowState.applyTag, hopStep, Outcome.probe]
    | some e =>
      cases ha : c.actCk with
      | none =>
        simp only
        rw [modifyHop_ok _ _ _ this.1 (by simp [hlen]; exact this.2)]
        simp [FlowState.applyTag, hopStep, Outcome.probe]
      | some a =>
        simp only
        rw [modifyHop_ok _ _ _ this.1 (by simp [hlen]; exact this.2)]
        cases hp : u.prevHopChecksum with
        | none =>
          by_cases hea : e = a <;>
            simp [FlowState.applyTag, hopStep, Outcome.probe, natStatus, hp, hea]
        | some p =>
          by_cases hpa : p = a <;>
            simp [FlowState.applyTag, hopStep, Outcome.probe, natStatus, hp, hpa]

theorem applyTag_len (fs : FlowState F) (tag : Nat × Outcome) :
    (fs.applyTag tag).hops.length = fs.hops.length := by
  simp [FlowState.applyTag, List.length_modify]

theorem next_inv (pre post : List Slot) (s : Slot) (u : Updater F) (h : UInv pre (s :: post) u) :
    UInv (pre ++ [s]) post (u.next pre s post) := by
  refine ⟨rfl, rfl, ?_⟩
  unfold Updater.next
  cases tagOf pre s post with
  | none => exact h.len
  | some tag => simp only [applyTag_len]; exact h.len

/-- the probe loop of one round is the fold of `applyTag` over the positional outcomes -/
theorem loop_ok (whole : List Slot) (hb : ∀ t ∈ ttls whole, 1 ≤ t ∧ t ≤ 254)
    (hasc : (ttls whole).Pairwise (· < ·)) :
    ∀ (rest pre : List Slot) (u : Updater F), whole = pre ++ rest → UInv pre rest u →
      ∃ u', Updater.loop whole u rest = .ok u' ∧
        u'.state = (tagSlots pre rest).foldl FlowState.applyTag u.state := by
  intro rest
  induction rest with
  | nil => intro pre u _ _; exact ⟨u, rfl, rfl⟩
  | cons s post ih =>
    intro pre u hw hinv
    have h1 := updateForProbe_ok whole pre post s u hw hinv hb hasc
    obtain ⟨u', h2, h3⟩ := ih (pre ++ [s]) (u.next pre s post) (by simp [hw]) (next_inv pre post s u hinv)
    refine ⟨u', by simp [Updater.loop, h1, h2], ?_⟩
    rw [h3, show tagSlots pre (s :: post) = (tagOf pre s post).toList ++ tagSlots (pre ++ [s]) post from rfl]
    unfold Updater.next
    cases tagOf pre s post <;> simp

/-- what `apply` does before the probe loop -/
def FlowState.begin (fs : FlowState F) (r : Round) : FlowState F :=
  { fs with roundCount := fs.roundCount + 1, highestTtl := max fs.highestTtl r.largestTtl,
            highestTtlForRound := r.largestTtl }

/-- on a well-formed round the aggregator does not panic, and its effect is the fold of the
per-outcome steps -/
theorem applyRound_ok (fs : FlowState F) (r : Round) (hlen : fs.hops.length = 254) (hwf : RoundWF r) :
    fs.applyRound r = .ok ((tagSlots [] r.probes).foldl FlowState.applyTag (fs.begin r)) := by
  obtain ⟨hb, hasc, _⟩ := hwf
  obtain ⟨u', h1, h2⟩ := loop_ok (F := F) r.probes hb hasc r.probes []
    { state := fs.begin r, prevHopChecksum := none, forwardLoss := false } rfl
    ⟨by simp [lastCk], by simp [fwdSeen], by simpa [FlowState.begin] using hlen⟩
  unfold FlowState.applyRound
  simp only [FlowState.begin] at h1 h2
  simp [h1, h2, FlowState.begin]

def lowStep (l t : Nat) : Nat := if l = 0 then t else min l t

def roundStep (r : Option Nat) (x : Nat) : Option Nat :=
  match r with
  | none => some x
  | some r => some (max r x)

theorem foldTags_fields (tags : List (Nat × Outcome)) : ∀ (fs : FlowState F),
    (tags.foldl FlowState.applyTag fs).maxSamples = fs.maxSamples ∧
    (tags.foldl FlowState.applyTag fs).roundCount = fs.roundCount ∧
    (tags.foldl FlowState.applyTag fs).highestTtl = fs.highestTtl ∧
    (tags.foldl FlowState.applyTag fs).highestTtlForRound = fs.highestTtlForRound ∧
    (tags.foldl FlowState.applyTag fs).hops.length = fs.hops.length ∧
    (tags.foldl FlowState.applyTag fs).lowestTtl = (tags.map (·.1)).foldl lowStep fs.lowestTtl ∧
    (tags.foldl FlowState.applyTag fs).round = (tags.map (·.2.probe.round)).foldl roundStep fs.round := by
  induction tags with
  | nil => intro fs; simp
  | cons tag tags ih =>
    intro fs
    obtain ⟨a, b, c, d, e, f, g⟩ := ih (fs.applyTag tag)
    simp only [List.foldl_cons, List.map_cons]
    rw [a, b, c, d, e, f, g, applyTag_len]
    have hlow : (fs.updateLowestTtl tag.1).lowestTtl = lowStep fs.lowestTtl tag.1 := by
      unfold FlowState.updateLowestTtl lowStep; split <;> rfl
    have hother : (fs.updateLowestTtl tag.1).round = fs.round ∧
        (fs.updateLowestTtl tag.1).roundCount = fs.roundCount ∧
        (fs.updateLowestTtl tag.1).highestTtl = fs.highestTtl ∧
        (fs.updateLowestTtl tag.1).highestTtlForRound = fs.highestTtlForRound := by
      unfold FlowState.updateLowestTtl; split <;> exact ⟨rfl, rfl, rfl, rfl⟩
    refine ⟨by simp [FlowState.applyTag], ?_, ?_, ?_, rfl, ?_, ?_⟩
    · simp [FlowState.applyTag, FlowState.updateRound, hother]
    · simp [FlowState.applyTag, FlowState.updateRound, hother]
    · simp [FlowState.applyTag, FlowState.updateRound, hother]
    · simp [FlowState.applyTag, FlowState.updateRound, hlow]
    · simp only [FlowState.applyTag, FlowState.updateRound, hother.1]; rfl

theorem forTtl_cons (t : Nat) (x : Nat × Outcome) (tags : List (Nat × Outcome)) :
    forTtl t (x :: tags) = if x.1 = t then x.2 :: forTtl t tags else forTtl t tags := by
  unfold forTtl
  rw [List.filterMap_cons]
  split <;> simp_all

theorem forTtl_append (t : Nat) (a b : List (Nat × Outcome)) :
    forTtl t (a ++ b) = forTtl t a ++ forTtl t b := by
  simp [forTtl, List.filterMap_append]

theorem foldTags_hop (tags : List (Nat × Outcome)) (h1 : ∀ x ∈ tags, 1 ≤ x.1) (i : Nat) :
    ∀ (fs : FlowState F),
    (tags.foldl FlowState.applyTag fs).hops[i]? =
      (fs.hops[i]?).map (fun h => (forTtl (i + 1) tags).foldl (hopStep fs.maxSamples) h) := by
  induction tags with
  | nil => intro fs; simp [forTtl]
  | cons tag tags ih =>
    intro fs
    have ht := h1 tag (by simp)
    rw [List.foldl_cons, ih (fun x hx => h1 x (by simp [hx])), forTtl_cons]
    have hms : (fs.applyTag tag).maxSamples = fs.maxSamples := by simp [FlowState.applyTag]
    rw [hms]
    simp only [FlowState.applyTag, updateRound_hops, updateLowestTtl_hops, List.getElem?_modify]
    by_cases hti : tag.1 = i + 1
    · have : tag.1 - 1 = i := by omega
      simp only [hti, this, if_true, List.foldl_cons]
      cases fs.hops[i]? <;> simp
    · have : ¬ (tag.1 - 1 = i) := by omega
      simp only [hti, this, if_false]
      cases fs.hops[i]? <;> simp

theorem tagOf_ttl (pre post : List Slot) (s : Slot) :
    (tagOf pre s post).map (·.1) = slotTtl s := by cases s <;> rfl

theorem tagSlots_ttls (rest : List Slot) : ∀ pre, (tagSlots pre rest).map (·.1) = ttls rest := by
  induction rest with
  | nil => intro _; rfl
  | cons s post ih =>
    intro pre
    simp only [tagSlots, List.map_append, ih, ttls, List.filterMap_cons]
    have := tagOf_ttl pre post s
    cases h : tagOf pre s post with
    | none => rw [h] at this; simp at this; simp [← this]
    | some x => rw [h] at this; simp at this; simp [← this]

/-- the round ids carried by the probes of a round -/
def slotRound : Slot → Option Nat
  | .failed p => some p.round
  | .awaited p => some p.round
  | .complete c => some c.probe.round
  | _ => none

theorem tagSlots_rounds (rest : List Slot) :
    ∀ pre, (tagSlots pre rest).map (·.2.probe.round) = rest.filterMap slotRound := by
  induction rest with
  | nil => intro _; rfl
  | cons s post ih =>
    intro pre
    simp only [tagSlots, List.map_append, ih, List.filterMap_cons]
    cases s <;> simp [tagOf, slotRound, Outcome.probe]

/-- everything about a whole history applied to one flow state -/
theorem run_ok (hist : List Round) (hwf : ∀ r ∈ hist, RoundWF r) :
    ∀ (fs : FlowState F), fs.hops.length = 254 →
    ∃ fs', FlowState.run fs hist = .ok fs' ∧ fs'.hops.length = 254 ∧ fs'.maxSamples = fs.maxSamples ∧
      fs'.roundCount = fs.roundCount + hist.length ∧
      fs'.highestTtl = (hist.map (·.largestTtl)).foldl max fs.highestTtl ∧
      fs'.highestTtlForRound = (match hist.getLast? with
                                | some r => r.largestTtl
                                | none => fs.highestTtlForRound) ∧
      fs'.lowestTtl = (probedTtls hist).foldl lowStep fs.lowestTtl ∧
      fs'.round = (hist.flatMap fun r => r.probes.filterMap slotRound).foldl roundStep fs.round ∧
      ∀ i, fs'.hops[i]? =
        (fs.hops[i]?).map (fun h => (outcomes (i + 1) hist).foldl (hopStep fs.maxSamples) h) := by
  induction hist with
  | nil =>
    intro fs hlen
    exact ⟨fs, rfl, hlen, rfl, rfl, rfl, rfl, rfl, rfl, fun i => by simp [outcomes]⟩
  | cons r hist ih =>
    intro fs hlen
    have hr := hwf r (by simp)
    have h1 := applyRound_ok fs r hlen hr
    obtain ⟨a, b, c, d, e, f, g⟩ := foldTags_fields (tagSlots [] r.probes) (fs.begin r)
    have hge : ∀ x ∈ tagSlots [] r.probes, 1 ≤ x.1 := by
      intro x hx
      have : x.1 ∈ ttls r.probes := by rw [← tagSlots_ttls r.probes []]; exact List.mem_map_of_mem hx
      exact (hr.1 _ this).1
    have hh := foldTags_hop (F := F) (tagSlots [] r.probes) hge
    obtain ⟨fs', k1, k2, k3, k4, k5, k6, k7, k8, k9⟩ :=
      ih (fun x hx => hwf x (by simp [hx])) _ (by rw [e]; simpa [FlowState.begin] using hlen)
    refine ⟨fs', by simp [FlowState.run, h1, k1], k2, by rw [k3, a]; rfl, ?_, ?_, ?_, ?_, ?_, ?_⟩
    · rw [k4, b]; simp [FlowState.begin]; omega
    · rw [k5, c]; simp [FlowState.begin]
    · rw [k6, List.getLast?_cons]
      cases hist.getLast? with
      | none => simp only [Option.getD_none]; rw [d]; rfl
      | some x => simp
    · rw [k7, f, tagSlots_ttls]; simp [probedTtls, List.foldl_append, FlowState.begin]
    · rw [k8, g, tagSlots_rounds]; simp [List.foldl_append, FlowState.begin]
    · intro i
      rw [k9, hh i (fs.begin r), a]
      simp only [outcomes, List.flatMap_cons, List.foldl_append, roundOutcomes, FlowState.begin]
      cases fs.hops[i]? <;> simp

/-! ## the fold of per-outcome steps versus the direct definitions -/

theorem snoc_induction {α} {P : List α → Prop} (nil : P []) (snoc : ∀ l x, P l → P (l ++ [x])) :
    ∀ l, P l := by
  intro l
  have : ∀ r : List α, P r.reverse := by
    intro r
    induction r with
    | nil => exact nil
    | cons x r ih => rw [List.reverse_cons]; exact snoc _ _ ih
  simpa using this l.reverse

theorem min?_snoc (l : List Nat) (x : Nat) :
    (l ++ [x]).min? = some (match l.min? with | none => x | some m => min m x) := by
  cases l with
  | nil => rfl
  | cons a l => rw [List.cons_append, List.min?_cons', List.min?_cons', List.foldl_append]; rfl

theorem max?_snoc (l : List Nat) (x : Nat) :
    (l ++ [x]).max? = some (match l.max? with | none => x | some m => max m x) := by
  cases l with
  | nil => rfl
  | cons a l => rw [List.cons_append, List.max?_cons', List.max?_cons', List.foldl_append]; rfl

theorem pushSample_take (ms : Nat) (l : List Nat) (d : Nat) :
    pushSample ms (l.take ms) d = (d :: l).take ms := by
  unfold pushSample
  simp only [List.length_cons, List.length_take]
  by_cases h : ms ≤ l.length
  · have : min ms l.length + 1 > ms := by omega
    simp only [this, if_true, List.dropLast_eq_take, List.length_cons, List.length_take]
    cases ms with
    | zero => simp
    | succ n =>
      have : min (n + 1) l.length + 1 - 1 = n + 1 := by omega
      rw [this, List.take_succ_cons, List.take_succ_cons, List.take_take]
      congr 2; omega
  · have : ¬ (min ms l.length + 1 > ms) := by omega
    simp only [this, if_false]
    rw [List.take_of_length_le (by omega)]
    rw [List.take_of_length_le (by simp; omega)]

/-! address counts -/

theorem mem_firstSeen (a : Nat) (l : List Nat) : a ∈ firstSeen l ↔ a ∈ l := by
  induction l with
  | nil => simp [firstSeen]
  | cons x l ih =>
    simp only [firstSeen, List.mem_cons, List.mem_filter, ih]
    by_cases h : a = x <;> simp [h]

theorem nodup_firstSeen (l : List Nat) : (firstSeen l).Nodup := by
  induction l with
  | nil => simp [firstSeen]
  | cons x l ih =>
    simp only [firstSeen, List.nodup_cons, List.mem_filter]
    exact ⟨by simp, ih.filter _⟩

theorem firstSeen_snoc (l : List Nat) (a : Nat) :
    firstSeen (l ++ [a]) = if a ∈ l then firstSeen l else firstSeen l ++ [a] := by
  induction l with
  | nil => simp [firstSeen]
  | cons x l ih =>
    simp only [List.cons_append, firstSeen, ih, List.mem_cons]
    by_cases hax : a = x
    · subst hax
      by_cases hal : a ∈ l <;> simp [hal, List.filter_append]
    · by_cases hal : a ∈ l <;> simp [hal, hax, List.filter_append]

theorem bumpAddr_map (ks : List Nat) (c : Nat → Nat) (a : Nat) (hnd : ks.Nodup) :
    bumpAddr (ks.map fun k => (k, c k)) a =
      if a ∈ ks then ks.map (fun k => (k, c k + if k = a then 1 else 0))
      else (ks.map fun k => (k, c k)) ++ [(a, 1)] := by
  induction ks with
  | nil => simp [bumpAddr]
  | cons k ks ih =>
    rw [List.nodup_cons] at hnd
    simp only [List.map_cons, bumpAddr, List.mem_cons]
    by_cases hk : k = a
    · subst hk
      simp only [if_true, true_or]
      congr 1
      apply List.map_congr_left
      intro x hx
      have : x ≠ k := fun h => hnd.1 (h ▸ hx)
      simp [this]
    · have hk' : ¬ a = k := fun h => hk h.symm
      simp only [hk, if_false, hk', false_or, ih hnd.2]
      split <;> simp

theorem addrCounts_snoc (hs : List Nat) (a : Nat) :
    addrCounts (hs ++ [a]) = bumpAddr (addrCounts hs) a := by
  unfold addrCounts
  rw [bumpAddr_map _ _ _ (nodup_firstSeen hs), firstSeen_snoc]
  simp only [mem_firstSeen]
  by_cases h : a ∈ hs
  · simp only [h, if_true]
    apply List.map_congr_left
    intro x hx
    by_cases hxa : x = a
    · simp [List.count_append, hxa]
    · have : (a == x) = false := by simp; exact fun h => hxa h.symm
      simp [List.count_append, hxa, List.count_cons, this]
  · simp only [h, if_false, List.map_append, List.map_cons, List.map_nil]
    congr 1
    · apply List.map_congr_left
      intro x hx
      have : x ≠ a := fun hh => h (hh ▸ (mem_firstSeen x hs).1 hx)
      have hb : (a == x) = false := by simp; exact fun h => this h.symm
      simp [List.count_append, List.count_cons, hb]
    · simp [List.count_append, List.count_eq_zero_of_not_mem h]

theorem jittersFrom_snoc (ds : List Nat) (d : Nat) : ∀ p,
    jittersFrom p (ds ++ [d]) = jittersFrom p ds ++ [absDiff d ((ds.getLast?).getD p)] := by
  induction ds with
  | nil => intro p; simp [jittersFrom]
  | cons x ds ih =>
    intro p
    simp only [List.cons_append, jittersFrom, ih, List.getLast?_cons]
    cases ds.getLast? <;> simp

theorem jittersFrom_length (ds : List Nat) : ∀ p, (jittersFrom p ds).length = ds.length := by
  induction ds with
  | nil => intro _; rfl
  | cons x ds ih => intro p; simp [jittersFrom, ih]

theorem rtts_snoc (os : List Outcome) (o : Outcome) : rtts (os ++ [o]) = rtts os ++ o.rtt.toList := by
  cases o <;> simp [rtts, List.filterMap_append, List.filterMap_cons, Outcome.rtt]

/-- C05 (exact fields): folding the aggregator's per-outcome step over the outcomes of a hop yields
the directly defined statistics -/
theorem stats_fold (ms : Nat) (os : List Outcome) :
    statsOf (os.foldl (hopStep (F := F) ms) Hop.default) = reagg ms os := by
  induction os using snoc_induction with
  | nil => simp [statsOf, reagg, Hop.default, rtts, hosts, completes, addrCounts, firstSeen]
  | snoc os o ih =>
    rw [List.foldl_append, List.foldl_cons, List.foldl_nil]
    generalize os.foldl (hopStep (F := F) ms) Hop.default = h at ih
    simp only [statsOf, reagg, Stats.mk.injEq] at ih
    obtain ⟨i1, i2, i3, i4, i5, i6, i7, i8, i9, i10, i11, i12, i13, i14, i15, i16, i17, i18, i19⟩ := ih
    cases o with
    | failed p =>
      simp only [statsOf, reagg, Stats.mk.injEq, hopStep, Hop.failed, List.getLast?_concat, rtts_snoc,
        List.countP_append, List.length_append, hosts, completes, List.filterMap_append,
        List.reverse_concat, List.map_cons]
      simp [Outcome.rtt, Outcome.probe, Outcome.isFailed, Outcome.hasLoss, Outcome.host,
        Outcome.completed, Outcome.nat, Outcome.sample, i2, i3, i4, i5, i6, i7, i8, i9, i10, i11,
        i12, i16, i17, i18, i19, pushSample_take, hosts, completes, rtts, List.filterMap_cons]
    | awaited p l =>
      simp only [statsOf, reagg, Stats.mk.injEq, hopStep, Hop.awaited, List.getLast?_concat, rtts_snoc,
        List.countP_append, List.length_append, hosts, completes, List.filterMap_append,
        List.reverse_concat, List.map_cons]
      cases l <;>
      simp [Outcome.rtt, Outcome.probe, Outcome.isFailed, Outcome.hasLoss, Outcome.host,
        Outcome.completed, Outcome.nat, Outcome.sample, i2, i3, i4, i5, i6, i7, i8, i9, i10, i11,
        i12, i16, i17, i18, i19, pushSample_take, hosts, completes, rtts, List.filterMap_cons]
    | complete c n =>
      have hc : statsOf (h.complete ms c) =
          { reagg ms (os ++ [Outcome.complete c n]) with lastNatStatus := h.lastNatStatus } := by
        simp only [statsOf, reagg, Stats.mk.injEq, Hop.complete, List.getLast?_concat, rtts_snoc,
          List.countP_append, List.length_append, completes, List.filterMap_append,
          List.reverse_concat, List.map_cons, List.sum_append, min?_snoc, max?_snoc]
        simp [Outcome.rtt, Outcome.probe, Outcome.isFailed, Outcome.hasLoss, Outcome.host,
          Outcome.completed, Outcome.sample, i2, i3, i4, i5, i6, i7, i8, i9, i10, i11,
          i12, i16, i18, i19, pushSample_take, hosts, completes, rtts, ← addrCounts_snoc,
          List.filterMap_append, List.filterMap_cons]
        rw [min?_snoc, max?_snoc]
        constructor
        · cases (List.filterMap Outcome.rtt os).min? <;> rfl
        · cases (List.filterMap Outcome.rtt os).max? <;> rfl
      cases n with
      | none =>
        simp only [hopStep, hc, reagg, Stats.mk.injEq, true_and, and_true, List.filterMap_append,
          List.filterMap_cons, Outcome.nat, List.filterMap_nil, List.append_nil]
        exact i17
      | some n =>
        have : statsOf ({ h.complete ms c with lastNatStatus := n } : Hop F) =
            { statsOf (h.complete ms c) with lastNatStatus := n } := rfl
        simp only [hopStep, this, hc, reagg, Stats.mk.injEq, true_and, and_true, List.filterMap_append,
          List.filterMap_cons, Outcome.nat, List.filterMap_nil, List.getLast?_concat, Option.getD_some]

/-- the number type converts the jitter durations exactly (true over ℚ; for `f64` only up to the
rounding of `Duration::from_secs_f64`, which the harness bounds by ±2 ns) -/
class ExactDur (F : Type) [Num F] : Prop where
  toDur_diff : ∀ a b : Nat, Num.toDur (Num.abs ((Num.durMs a : F) - Num.durMs b)) = absDiff a b
  toDur_first : ∀ a : Nat, Num.toDur (Num.abs ((Num.durMs a : F) - Num.ofNat 0)) = a

theorem absDiff_zero (a : Nat) : absDiff a 0 = a := by simp [absDiff]

/-- C05 (jitter): current and worst jitter are those of the exact series `|dᵢ − dᵢ₋₁|` -/
theorem jitter_fold [ExactDur F] (ms : Nat) (os : List Outcome) :
    (os.foldl (hopStep (F := F) ms) Hop.default).jitter = jitterSpec os ∧
    (os.foldl (hopStep (F := F) ms) Hop.default).jmax = jmaxSpec os := by
  induction os using snoc_induction with
  | nil => simp [Hop.default, jitterSpec, jmaxSpec, rtts, jitters, jittersFrom]
  | snoc os o ih =>
    have hs := stats_fold (F := F) ms os
    rw [List.foldl_append, List.foldl_cons, List.foldl_nil]
    generalize os.foldl (hopStep (F := F) ms) Hop.default = h at ih hs
    have hlast : h.last = (rtts os).getLast? := by
      have := congrArg Stats.last hs; simpa [statsOf, reagg] using this
    obtain ⟨ij, im⟩ := ih
    cases o with
    | failed p => simpa [hopStep, Hop.failed, jitterSpec, jmaxSpec, rtts_snoc, Outcome.rtt] using ⟨ij, im⟩
    | awaited p l => simpa [hopStep, Hop.awaited, jitterSpec, jmaxSpec, rtts_snoc, Outcome.rtt] using ⟨ij, im⟩
    | complete c n =>
      have hj : ({ h.complete ms c with lastNatStatus := h.lastNatStatus } : Hop F).jitter = (h.complete ms c).jitter := rfl
      have key : (h.complete ms c).jitter = jitterSpec (os ++ [Outcome.complete c n]) ∧
          (h.complete ms c).jmax = jmaxSpec (os ++ [Outcome.complete c n]) := by
        simp only [Hop.complete, jitterSpec, jmaxSpec, rtts_snoc, Outcome.rtt, Option.toList,
          jitters, jittersFrom_snoc, List.getLast?_concat, List.length_append, List.length_cons,
          List.length_nil, max?_snoc]
        rw [hlast, im]
        cases hl : (rtts os).getLast? with
        | none =>
          have : rtts os = [] := by simpa using hl
          simp [this, ExactDur.toDur_first, absDiff_zero, jmaxSpec, jitters, jittersFrom]
        | some l =>
          have : (rtts os).length ≠ 0 := by
            intro h0; have : rtts os = [] := List.length_eq_zero_iff.1 h0; simp [this] at hl
          have h2 : ¬ ((rtts os).length + 1 < 2) := by omega
          simp only [h2, if_false, ExactDur.toDur_diff, Option.getD_some, jmaxSpec, jitters]
          cases (jittersFrom 0 (rtts os)).max? <;> simp
      cases n <;> exact key

/-! ## conservation laws of the direct definitions -/

theorem counts_le (os : List Outcome) :
    (rtts os).length + os.countP Outcome.isFailed + os.countP (Outcome.hasLoss .forward)
      + os.countP (Outcome.hasLoss .backward) ≤ os.length := by
  induction os with
  | nil => simp [rtts]
  | cons o os ih =>
    cases o with
    | failed p => simp [rtts, List.filterMap_cons, Outcome.rtt, Outcome.isFailed, Outcome.hasLoss, List.countP_cons] at ih ⊢; omega
    | complete c n => simp [rtts, List.filterMap_cons, Outcome.rtt, Outcome.isFailed, Outcome.hasLoss, List.countP_cons] at ih ⊢; omega
    | awaited p l =>
      cases l <;>
      simp [rtts, List.filterMap_cons, Outcome.rtt, Outcome.isFailed, Outcome.hasLoss, List.countP_cons] at ih ⊢ <;> omega

theorem hosts_length (os : List Outcome) : (hosts os).length = (rtts os).length := by
  induction os with
  | nil => rfl
  | cons o os ih => cases o <;> simp [hosts, rtts, List.filterMap_cons, Outcome.host, Outcome.rtt] at ih ⊢ <;> omega

theorem bumpAddr_sum (l : List (Nat × Nat)) (a : Nat) :
    ((bumpAddr l a).map (·.2)).sum = (l.map (·.2)).sum + 1 := by
  induction l with
  | nil => simp [bumpAddr]
  | cons x l ih =>
    obtain ⟨k, n⟩ := x
    simp only [bumpAddr]
    split
    · simp; omega
    · simp [ih]; omega

theorem addrCounts_sum (hs : List Nat) : ((addrCounts hs).map (·.2)).sum = hs.length := by
  induction hs using snoc_induction with
  | nil => simp [addrCounts, firstSeen]
  | snoc hs a ih => rw [addrCounts_snoc, bumpAddr_sum, ih]; simp

theorem sum_bounds (l : List Nat) (b w : Nat) (hb : ∀ x ∈ l, b ≤ x) (hw : ∀ x ∈ l, x ≤ w) :
    b * l.length ≤ l.sum ∧ l.sum ≤ w * l.length := by
  induction l with
  | nil => simp
  | cons x l ih =>
    have := ih (fun y hy => hb y (by simp [hy])) (fun y hy => hw y (by simp [hy]))
    have h1 := hb x (by simp)
    have h2 := hw x (by simp)
    simp only [List.length_cons, List.sum_cons, Nat.mul_succ]
    omega

theorem best_worst (l : List Nat) (b w : Nat) (hb : l.min? = some b) (hw : l.max? = some w) :
    b ≤ w ∧ b * l.length ≤ l.sum ∧ l.sum ≤ w * l.length := by
  rw [List.min?_eq_some_iff] at hb
  rw [List.max?_eq_some_iff] at hw
  exact ⟨hw.2 b hb.1, sum_bounds l b w hb.2 hw.2⟩

/-! ## the flow-level invariants in closed form -/

theorem foldl_lowStep_pos (ts : List Nat) (hts : ∀ t ∈ ts, 1 ≤ t) : ∀ l, 1 ≤ l →
    1 ≤ ts.foldl lowStep l ∧ (ts.foldl lowStep l = l ∨ ts.foldl lowStep l ∈ ts) ∧
    ts.foldl lowStep l ≤ l ∧ ∀ b ∈ ts, ts.foldl lowStep l ≤ b := by
  induction ts with
  | nil => intro l hl; simp [hl]
  | cons t ts ih =>
    intro l hl
    have ht := hts t (by simp)
    have hstep : lowStep l t = min l t := by simp [lowStep]; omega
    obtain ⟨a, b, c, d⟩ := ih (fun x hx => hts x (by simp [hx])) (min l t) (by omega)
    simp only [List.foldl_cons, hstep]
    refine ⟨a, ?_, by omega, ?_⟩
    · rcases b with b | b
      · rcases Nat.le_total l t with h | h
        · left; rw [b]; omega
        · right; rw [b]; simp; left; omega
      · right; simp [b]
    · intro x hx
      rcases List.mem_cons.1 hx with rfl | hx
      · omega
      · exact d x hx

theorem foldl_lowStep_zero (ts : List Nat) (hts : ∀ t ∈ ts, 1 ≤ t) :
    ts.foldl lowStep 0 = ts.min?.getD 0 := by
  cases ts with
  | nil => rfl
  | cons t ts =>
    have ht := hts t (by simp)
    obtain ⟨a, b, c, d⟩ := foldl_lowStep_pos ts (fun x hx => hts x (by simp [hx])) t ht
    have : (t :: ts).min? = some (ts.foldl lowStep t) := by
      rw [List.min?_eq_some_iff]
      refine ⟨?_, ?_⟩
      · rcases b with b | b
        · rw [b]; simp
        · simp [b]
      · intro x hx
        rcases List.mem_cons.1 hx with rfl | hx
        · exact c
        · exact d x hx
    simp [List.foldl_cons, lowStep, this]

theorem foldl_max_zero (xs : List Nat) : xs.foldl max 0 = xs.max?.getD 0 := by
  cases xs with
  | nil => rfl
  | cons x xs => rw [List.max?_cons', List.foldl_cons, Nat.zero_max]; rfl

theorem foldl_max_ge (xs : List Nat) : ∀ a, a ≤ xs.foldl max a ∧ ∀ x ∈ xs, x ≤ xs.foldl max a := by
  induction xs with
  | nil => intro a; simp
  | cons y xs ih =>
    intro a
    obtain ⟨h1, h2⟩ := ih (max a y)
    refine ⟨by simp only [List.foldl_cons]; omega, ?_⟩
    intro x hx
    rcases List.mem_cons.1 hx with rfl | hx
    · simp only [List.foldl_cons]; omega
    · exact h2 x hx

theorem probed_pos (hist : List Round) (hwf : ∀ r ∈ hist, RoundWF r) :
    ∀ t ∈ probedTtls hist, 1 ≤ t ∧ t ≤ 254 := by
  intro t ht
  obtain ⟨r, hr, htr⟩ := List.mem_flatMap.1 ht
  exact (hwf r hr).1 t htr

theorem new_hops (ms : Nat) (i : Nat) (hi : i < 254) :
    (FlowState.new (F := F) ms).hops[i]? = some Hop.default := by
  have h254 : MAX_TTL = 254 := rfl
  show (List.replicate MAX_TTL Hop.default)[i]? = _
  rw [List.getElem?_replicate, h254]; simp [hi]

theorem new_len (ms : Nat) : (FlowState.new (F := F) ms).hops.length = 254 := by
  have h254 : MAX_TTL = 254 := rfl
  show (List.replicate MAX_TTL Hop.default).length = _
  rw [List.length_replicate, h254]

/-- a whole history applied to a fresh flow state, in closed form -/
theorem run_new (ms : Nat) (hist : List Round) (hwf : ∀ r ∈ hist, RoundWF r) :
    ∃ fs, FlowState.run (FlowState.new (F := F) ms) hist = .ok fs ∧ fs.hops.length = 254 ∧
      fs.maxSamples = ms ∧ fs.roundCount = hist.length ∧
      fs.highestTtl = highestTtl hist ∧ fs.highestTtlForRound = latestTtl hist ∧
      fs.lowestTtl = lowestTtl hist ∧
      ∀ t, 1 ≤ t → t ≤ 254 →
        fs.hops[t - 1]? = some ((outcomes t hist).foldl (hopStep ms) Hop.default) := by
  obtain ⟨fs, h1, h2, h3, h4, h5, h6, h7, h8, h9⟩ := run_ok (F := F) hist hwf (FlowState.new ms) (new_len ms)
  refine ⟨fs, h1, h2, h3, by simpa [FlowState.new] using h4, ?_, ?_, ?_, ?_⟩
  · rw [h5]; simp only [FlowState.new]; rw [foldl_max_zero]; rfl
  · rw [h6]; unfold latestTtl; cases hist.getLast? <;> simp [FlowState.new]
  · rw [h7]; simp only [FlowState.new]
    rw [foldl_lowStep_zero _ (fun t ht => (probed_pos hist hwf t ht).1)]; rfl
  · intro t ht1 ht2
    rw [h9, new_hops ms (t - 1) (by omega)]
    have : t - 1 + 1 = t := by omega
    simp [this, FlowState.new]

/-! ## the hop window (C10) -/

theorem tagSlots_probe_ttl (rest : List Slot) : ∀ pre, ∀ x ∈ tagSlots pre rest, x.2.probe.ttl = x.1 := by
  induction rest with
  | nil => intro pre x hx; simp [tagSlots] at hx
  | cons s post ih =>
    intro pre x hx
    simp only [tagSlots, List.mem_append] at hx
    rcases hx with hx | hx
    · cases s <;> simp [tagOf] at hx <;> subst hx <;> rfl
    · exact ih _ x hx

theorem outcomes_ttl (t : Nat) (hist : List Round) : ∀ o ∈ outcomes t hist, o.probe.ttl = t := by
  intro o ho
  obtain ⟨r, _, hor⟩ := List.mem_flatMap.1 ho
  simp only [roundOutcomes, forTtl, List.mem_filterMap] at hor
  obtain ⟨x, hx, hxo⟩ := hor
  have := tagSlots_probe_ttl r.probes [] x hx
  split at hxo
  · simp at hxo; subst hxo; omega
  · simp at hxo

theorem reagg_ttl (ms t : Nat) (os : List Outcome) (h : ∀ o ∈ os, o.probe.ttl = t) (hne : os ≠ []) :
    (reagg ms os).ttl = t := by
  simp only [reagg]
  cases hl : os.getLast? with
  | none => simp at hl; exact absurd hl hne
  | some o => simp; exact h o (List.mem_of_getLast? hl)

theorem lowest_le_highest (hist : List Round) (hwf : ∀ r ∈ hist, RoundWF r)
    (h2 : highestTtl hist ≠ 0) : lowestTtl hist ≠ 0 ∧ lowestTtl hist ≤ highestTtl hist ∧ highestTtl hist ≤ 254 := by
  unfold highestTtl at h2 ⊢
  cases hm : (hist.map (·.largestTtl)).max? with
  | none => simp [hm] at h2
  | some L =>
    simp only [hm, Option.getD_some] at h2 ⊢
    have := (List.max?_eq_some_iff.1 hm).1
    obtain ⟨r, hr, hrl⟩ := List.mem_map.1 this
    obtain ⟨hb, _, hl⟩ := hwf r hr
    rcases hl with hl | ⟨hf, hl⟩
    · omega
    · unfold firstTtlLe at hf
      cases hh : (ttls r.probes).head? with
      | none => simp [hh] at hf
      | some f =>
        simp only [hh] at hf
        have hfm : f ∈ probedTtls hist :=
          List.mem_flatMap.2 ⟨r, hr, List.mem_of_head? hh⟩
        unfold lowestTtl
        cases hmin : (probedTtls hist).min? with
        | none => rw [List.min?_eq_none_iff] at hmin; simp [hmin] at hfm
        | some m =>
          have hm2 := List.min?_eq_some_iff.1 hmin
          have := (probed_pos hist hwf m hm2.1).1
          have := hm2.2 f hfm
          simp; omega

theorem latest_le (hist : List Round) (hwf : ∀ r ∈ hist, RoundWF r) : latestTtl hist ≤ 254 := by
  unfold latestTtl
  cases hl : hist.getLast? with
  | none => simp
  | some r =>
    have := (hwf r (List.mem_of_getLast? hl)).2.2
    simp; omega

/-- C10: on every well-formed history the hop table is the window `lowest … highest`, and neither
`hops()` nor `target_hop()` panics -/
theorem window_ok (ms : Nat) (hist : List Round) (hwf : ∀ r ∈ hist, RoundWF r) :
    ∃ fs hs tgt, FlowState.run (FlowState.new (F := F) ms) hist = .ok fs ∧ fs.hopsR = .ok hs ∧
      fs.targetHopR = .ok tgt ∧
      hs.length = (windowTtls hist).length ∧
      (∀ (k t : Nat), (windowTtls hist)[k]? = some t → 1 ≤ t ∧ t ≤ 254 ∧
        hs[k]? = some ((outcomes t hist).foldl (hopStep ms) Hop.default)) ∧
      tgt = (outcomes (if latestTtl hist = 0 then 1 else latestTtl hist) hist).foldl (hopStep ms) Hop.default ∧
      fs.highestTtlForRound = latestTtl hist := by
  obtain ⟨fs, h1, h2, h3, h4, h5, h6, h7, h8⟩ := run_new (F := F) ms hist hwf
  have hlat := latest_le hist hwf
  -- target hop
  have htgt : fs.targetHopR = .ok ((outcomes (if latestTtl hist = 0 then 1 else latestTtl hist) hist).foldl (hopStep ms) Hop.default) := by
    unfold FlowState.targetHopR idx
    rw [h6]
    by_cases hz : latestTtl hist = 0
    · simp only [hz, Nat.lt_irrefl, if_false, if_true, gt_iff_lt]
      have := h8 1 (by omega) (by omega)
      simp at this; simp [this]
    · have hpos : latestTtl hist > 0 := by omega
      simp only [hpos, if_true, hz, if_false]
      rw [h8 _ (by omega) hlat]
  by_cases hz : lowestTtl hist = 0 ∨ highestTtl hist = 0
  · refine ⟨fs, [], _, h1, by simp [FlowState.hopsR, h5, h7, hz], htgt, by simp [windowTtls, hz], ?_, rfl, h6⟩
    intro k t hk; simp [windowTtls, hz] at hk
  · have hlo : lowestTtl hist ≠ 0 := fun h => hz (.inl h)
    have hhi : highestTtl hist ≠ 0 := fun h => hz (.inr h)
    obtain ⟨_, hle, h254⟩ := lowest_le_highest hist hwf hhi
    refine ⟨fs, (fs.hops.take (highestTtl hist)).drop (lowestTtl hist - 1), _, h1, ?_, htgt, ?_, ?_, rfl, h6⟩
    · have : lowestTtl hist - 1 ≤ highestTtl hist ∧ highestTtl hist ≤ fs.hops.length := by omega
      simp [FlowState.hopsR, h5, h7, hz, this]
    · simp [windowTtls, hz, h2]; omega
    · intro k t hk
      simp only [windowTtls, hz, if_false] at hk
      obtain ⟨hlt, hk⟩ := List.getElem?_eq_some_iff.1 hk
      rw [List.getElem_range'] at hk
      simp only [List.length_range'] at hlt
      subst hk
      refine ⟨by omega, by omega, ?_⟩
      rw [List.getElem?_drop, List.getElem?_take]
      have : lowestTtl hist - 1 + k < highestTtl hist := by omega
      simp only [this, if_true]
      have := h8 (lowestTtl hist + 1 * k) (by omega) (by omega)
      rw [← this]; congr 1; omega

/-! ## the whole state: flows, attribution (C15) -/

/-- the (panic free) effect of a well-formed round on a flow's state -/
def FlowState.step (fs : FlowState F) (r : Round) : FlowState F :=
  (tagSlots [] r.probes).foldl FlowState.applyTag (fs.begin r)

theorem step_len (fs : FlowState F) (r : Round) : (fs.step r).hops.length = fs.hops.length := by
  have := (foldTags_fields (F := F) (tagSlots [] r.probes) (fs.begin r)).2.2.2.2.1
  simpa [FlowState.step, FlowState.begin] using this

theorem step_maxSamples (fs : FlowState F) (r : Round) : (fs.step r).maxSamples = fs.maxSamples := by
  have := (foldTags_fields (F := F) (tagSlots [] r.probes) (fs.begin r)).1
  simpa [FlowState.step, FlowState.begin] using this

theorem step_roundCount (fs : FlowState F) (r : Round) : (fs.step r).roundCount = fs.roundCount + 1 := by
  have := (foldTags_fields (F := F) (tagSlots [] r.probes) (fs.begin r)).2.1
  simpa [FlowState.step, FlowState.begin] using this

theorem applyRound_step (fs : FlowState F) (r : Round) (hlen : fs.hops.length = 254) (hwf : RoundWF r) :
    fs.applyRound r = .ok (fs.step r) := applyRound_ok fs r hlen hwf

theorem run_steps (hist : List Round) (hwf : ∀ r ∈ hist, RoundWF r) : ∀ (fs : FlowState F),
    fs.hops.length = 254 → FlowState.run fs hist = .ok (hist.foldl FlowState.step fs) := by
  induction hist with
  | nil => intro fs _; rfl
  | cons r hist ih =>
    intro fs hlen
    simp only [FlowState.run, applyRound_step fs r hlen (hwf r (by simp)), List.foldl_cons]
    exact ih (fun x hx => hwf x (by simp [hx])) _ (by rw [step_len]; exact hlen)

theorem lookupFlow_setFlow (l : List (Nat × FlowState F)) (id id' : Nat) (v : FlowState F) :
    lookupFlow (setFlow l id v) id' = if id' = id then some v else lookupFlow l id' := by
  induction l with
  | nil =>
    simp only [setFlow, lookupFlow]
    by_cases h : id = id' <;> simp [h, eq_comm]
  | cons x l ih =>
    obtain ⟨k, w⟩ := x
    simp only [setFlow]
    by_cases hk : k = id
    · subst hk
      simp only [if_true, lookupFlow]
      by_cases h : k = id' <;> simp [h, eq_comm]
      intro h'; exact absurd h'.symm h
    · simp only [hk, if_false, lookupFlow, ih]
      by_cases h : k = id'
      · subst h; simp [hk]
      · simp [h]

/-- the state of flow `id`, or a fresh one (`entry(flow_id).or_insert_with(..)`) -/
def flowOr (st : State F) (id : Nat) : FlowState F :=
  (lookupFlow st.flows id).getD (FlowState.new st.cfg.maxSamples)

structure StateInv (st : State F) : Prop where
  reg : RegInv st.registry
  bound : st.registry.flows.length ≤ st.cfg.maxFlows
  flows : ∀ id fs, lookupFlow st.flows id = some fs → fs.hops.length = 254 ∧ fs.maxSamples = st.cfg.maxSamples

theorem flowOr_ok (st : State F) (hinv : StateInv st) (id : Nat) :
    (flowOr st id).hops.length = 254 ∧ (flowOr st id).maxSamples = st.cfg.maxSamples := by
  unfold flowOr
  cases h : lookupFlow st.flows id with
  | none => exact ⟨new_len _, rfl⟩
  | some fs => exact hinv.flows id fs h

theorem updateTraceFlow_ok (st : State F) (hinv : StateInv st) (id : Nat) (r : Round) (hwf : RoundWF r) :
    st.updateTraceFlow id r = .ok { st with flows := setFlow st.flows id ((flowOr st id).step r) } := by
  have := applyRound_step (flowOr st id) r (flowOr_ok st hinv id).1 hwf
  unfold State.updateTraceFlow
  unfold flowOr at this
  cases h : lookupFlow st.flows id with
  | none => simp only [h, Option.getD_none] at this; simp [this, flowOr, h]
  | some fs => simp only [h, Option.getD_some] at this; simp [this, flowOr, h]

theorem new_inv (cfg : Cfg) : StateInv (State.new (F := F) cfg) := by
  refine ⟨RegInv_new, by simp [State.new, Registry.new], ?_⟩
  intro id fs h
  simp only [State.new, lookupFlow] at h
  split at h
  · simp at h; subst h; exact ⟨new_len _, rfl⟩
  · simp at h

/-- one `update_from_round` on a well-formed round -/
theorem step_ok (st : State F) (r : Round) (hinv : StateInv st) (hwf : RoundWF r) :
    ∃ st', st.updateFromRound r = .ok st' ∧ StateInv st' ∧ st'.cfg = st.cfg ∧
      st'.registry = (regStep st.cfg.maxFlows st.registry (roundFlow r)).1 ∧
      st'.roundFlowId = ((regStep st.cfg.maxFlows st.registry (roundFlow r)).2).getD st.roundFlowId ∧
      ∀ id, lookupFlow st'.flows id =
        if id = 0 ∨ (regStep st.cfg.maxFlows st.registry (roundFlow r)).2 = some id
        then some ((flowOr st id).step r) else lookupFlow st.flows id := by
  have hspec := regStep_spec st.cfg.maxFlows st.registry (roundFlow r) hinv.reg hinv.bound
  generalize hout : regStep st.cfg.maxFlows st.registry (roundFlow r) = out at hspec
  obtain ⟨s1, s2, s3, s4, s5, _, _⟩ := hspec
  -- the default flow
  have h0 := updateTraceFlow_ok st hinv defaultFlowId r hwf
  let st1 : State F := { st with flows := setFlow st.flows defaultFlowId ((flowOr st defaultFlowId).step r) }
  have hinv1 : ∀ (reg : Registry) (rf : Nat), RegInv reg → reg.flows.length ≤ st.cfg.maxFlows →
      StateInv ({ st1 with registry := reg, roundFlowId := rf } : State F) := by
    intro reg rf hr hb
    refine ⟨hr, hb, ?_⟩
    intro id fs h
    simp only [st1, lookupFlow_setFlow] at h
    split at h
    · simp at h; subst h
      exact ⟨by rw [step_len]; exact (flowOr_ok st hinv _).1, by rw [step_maxSamples]; exact (flowOr_ok st hinv _).2⟩
    · exact hinv.flows id fs h
  have hunf : st.updateFromRound r =
      (match out.2 with
       | some flowId => ({ st1 with registry := out.1, roundFlowId := flowId } : State F).updateTraceFlow flowId r
       | none => .ok { st1 with registry := out.1 }) := by
    unfold State.updateFromRound
    simp only [h0, R.bind_ok, bind, R.bind]
    rw [← hout]
    unfold regStep
    by_cases hlt : st.registry.flows.length < st.cfg.maxFlows
    · simp only [hlt, if_true]
      cases hreg : st.registry.register (roundFlow r) with
      | mk reg id => rfl
    · simp only [hlt, if_false]
      cases hl : st.registry.lookup (roundFlow r) with
      | mk reg o => cases o <;> rfl
  cases ho : out.2 with
  | none =>
    refine ⟨{ st1 with registry := out.1 }, by rw [hunf, ho], hinv1 out.1 st.roundFlowId s1 s2, rfl, rfl, by simp [st1, ho], ?_⟩
    intro id
    simp only [st1, lookupFlow_setFlow, defaultFlowId]
    by_cases h : id = 0 <;> simp [h]
  | some fid =>
    have hfid : fid ≠ 0 := by have := (s5 fid ho).1; omega
    let st2 : State F := { st1 with registry := out.1, roundFlowId := fid }
    have hi2 : StateInv st2 := hinv1 out.1 fid s1 s2
    have h2 := updateTraceFlow_ok st2 hi2 fid r hwf
    have hfo : flowOr st2 fid = flowOr st fid := by
      simp [flowOr, st2, st1, lookupFlow_setFlow, hfid, defaultFlowId]
    refine ⟨{ st2 with flows := setFlow st2.flows fid ((flowOr st2 fid).step r) }, by rw [hunf, ho]; exact h2, ?_, rfl, rfl, by simp [ho, st2], ?_⟩
    · refine ⟨s1, s2, ?_⟩
      intro id fs h
      simp only [lookupFlow_setFlow] at h
      split at h
      · simp at h; subst h
        exact ⟨by rw [step_len]; exact (flowOr_ok st2 hi2 _).1, by rw [step_maxSamples]; exact (flowOr_ok st2 hi2 _).2⟩
      · exact hi2.flows id fs h
    · intro id
      simp only [lookupFlow_setFlow]
      rw [hfo]
      simp only [st2, st1, defaultFlowId, lookupFlow_setFlow]
      by_cases h : id = fid
      · subst h; simp
      · by_cases h0 : id = 0
        · subst h0; simp [h, Ne.symm hfid]
        · simp [h, h0, Ne.symm h]

/-- the flow id each round of a history is attributed to (`none`: registry full and no stored flow
is compatible), computed from the registry alone -/
def attributions (maxFlows : Nat) : Registry → List Round → List (Option Nat)
  | _, [] => []
  | reg, r :: rs =>
    (regStep maxFlows reg (roundFlow r)).2 :: attributions maxFlows (regStep maxFlows reg (roundFlow r)).1 rs

/-- the registry after a history -/
def regRun (maxFlows : Nat) : Registry → List Round → Registry
  | reg, [] => reg
  | reg, r :: rs => regRun maxFlows (regStep maxFlows reg (roundFlow r)).1 rs

/-- the rounds that flow `id` aggregates: all of them for the default flow, otherwise exactly those
attributed to it -/
def roundsFor (id : Nat) : List Round → List (Option Nat) → List Round
  | r :: rs, a :: as => if id = 0 ∨ a = some id then r :: roundsFor id rs as else roundsFor id rs as
  | _, _ => []

theorem attributions_length (mf : Nat) (hist : List Round) : ∀ reg, (attributions mf reg hist).length = hist.length := by
  induction hist with
  | nil => intro _; rfl
  | cons r rs ih => intro reg; simp [attributions, ih]

theorem roundsFor_zero (hist : List Round) : ∀ as, as.length = hist.length → roundsFor 0 hist as = hist := by
  induction hist with
  | nil => intro as _; cases as <;> rfl
  | cons r rs ih =>
    intro as h
    cases as with
    | nil => simp at h
    | cons a as => simp [roundsFor, ih as (by simpa using h)]

/-- C15, bookkeeping: after any well-formed history every flow state is the fold of exactly the
rounds of that flow, the registry is the registry fold, nothing panics -/
theorem state_run (hist : List Round) (hwf : ∀ r ∈ hist, RoundWF r) : ∀ (st : State F), StateInv st →
    ∃ st', State.run st hist = .ok st' ∧ StateInv st' ∧ st'.cfg = st.cfg ∧
      st'.registry = regRun st.cfg.maxFlows st.registry hist ∧
      st'.roundFlowId =
        (((attributions st.cfg.maxFlows st.registry hist).filterMap id).getLast?).getD st.roundFlowId ∧
      ∀ fid, lookupFlow st'.flows fid =
        if roundsFor fid hist (attributions st.cfg.maxFlows st.registry hist) = [] then lookupFlow st.flows fid
        else some ((roundsFor fid hist (attributions st.cfg.maxFlows st.registry hist)).foldl
                    FlowState.step (flowOr st fid)) := by
  induction hist with
  | nil => intro st hinv; exact ⟨st, rfl, hinv, rfl, rfl, rfl, fun fid => by simp [roundsFor]⟩
  | cons r rest ih =>
    intro st hinv
    obtain ⟨st1, a1, a2, a3, a4, a5, a6⟩ := step_ok st r hinv (hwf r (by simp))
    obtain ⟨st', b1, b2, b3, b4, b5, b6⟩ := ih (fun x hx => hwf x (by simp [hx])) st1 a2
    refine ⟨st', by simp [State.run, a1, b1], b2, by rw [b3, a3], ?_, ?_, ?_⟩
    · rw [b4, a3, a4]; rfl
    · rw [b5, a3, a4, a5]
      simp only [attributions, List.filterMap_cons]
      cases (regStep st.cfg.maxFlows st.registry (roundFlow r)).2 with
      | none => simp
      | some x =>
        simp only [id, Option.getD_some, List.getLast?_cons]
    · intro fid
      rw [b6, a3, a4]
      simp only [attributions, roundsFor]
      have hfo : flowOr st1 fid = (lookupFlow st1.flows fid).getD (FlowState.new st.cfg.maxSamples) := by
        simp [flowOr, a3]
      by_cases hc : fid = 0 ∨ (regStep st.cfg.maxFlows st.registry (roundFlow r)).2 = some fid
      · have := a6 fid
        simp only [hc, if_true] at this
        simp only [hc, if_true, hfo, this, Option.getD_some, List.foldl_cons]
        split <;> simp_all
      · have := a6 fid
        simp only [hc, if_false] at this
        simp only [hc, if_false, hfo, this]
        rfl
/-! ## more about histories -/

theorem State.run_append (h1 h2 : List Round) : ∀ (st : State F),
    State.run st (h1 ++ h2) = (State.run st h1 >>= fun st1 => State.run st1 h2) := by
  induction h1 with
  | nil => intro st; rfl
  | cons r rs ih =>
    intro st
    simp only [List.cons_append, State.run]
    cases st.updateFromRound r with
    | ok st1 => simp [ih st1]
    | err e => rfl
    | panic => rfl

theorem regRun_spec (mf : Nat) (hist : List Round) : ∀ reg, RegInv reg → reg.flows.length ≤ mf →
    RegInv (regRun mf reg hist) ∧ (regRun mf reg hist).flows.length ≤ mf ∧
    Registry.le reg (regRun mf reg hist) ∧ reg.flows.length ≤ (regRun mf reg hist).flows.length ∧
    ∀ a ∈ attributions mf reg hist, ∀ id, a = some id → 1 ≤ id ∧ id ≤ (regRun mf reg hist).flows.length := by
  induction hist with
  | nil => intro reg hi hb; exact ⟨hi, hb, Registry.le_refl _, Nat.le_refl _, by simp [attributions]⟩
  | cons r rs ih =>
    intro reg hi hb
    obtain ⟨s1, s2, s3, s4, s5, _, _⟩ := regStep_spec mf reg (roundFlow r) hi hb
    obtain ⟨t1, t2, t3, t4, t5⟩ := ih _ s1 s2
    refine ⟨t1, t2, Registry.le_trans s3 t3, Nat.le_trans s4 t4, ?_⟩
    intro a ha id hid
    simp only [attributions, List.mem_cons] at ha
    rcases ha with rfl | ha
    · have := s5 id hid
      exact ⟨this.1, Nat.le_trans this.2.1 t4⟩
    · exact t5 a ha id hid
/-! ## one probe of a round (C19) -/

theorem forTtl_nil_of_not_mem (t : Nat) (tags : List (Nat × Outcome)) (h : t ∉ tags.map (·.1)) :
    forTtl t tags = [] := by
  induction tags with
  | nil => rfl
  | cons x tags ih =>
    simp only [List.map_cons, List.mem_cons, not_or] at h
    rw [forTtl_cons, if_neg (fun hx => h.1 hx.symm)]
    exact ih h.2

theorem tagSlots_split (a : List Slot) (s : Slot) (b : List Slot) : ∀ p0,
    ∃ X, X.map (·.1) = ttls a ∧
      tagSlots p0 (a ++ s :: b) = X ++ ((tagOf (p0 ++ a) s b).toList ++ tagSlots (p0 ++ a ++ [s]) b) := by
  induction a with
  | nil => intro p0; exact ⟨[], rfl, by simp [tagSlots]⟩
  | cons x a ih =>
    intro p0
    obtain ⟨X, h1, h2⟩ := ih (p0 ++ [x])
    refine ⟨(tagOf p0 x (a ++ s :: b)).toList ++ X, ?_, ?_⟩
    · simp only [List.map_append, h1, ttls, List.filterMap_cons]
      have := tagOf_ttl p0 (a ++ s :: b) x
      cases h : tagOf p0 x (a ++ s :: b) with
      | none => rw [h] at this; simp at this; simp [← this]
      | some y => rw [h] at this; simp at this; simp [← this]
    · simp only [List.cons_append, tagSlots, h2, List.append_assoc, List.singleton_append, List.nil_append]

/-- on an ascending round, the hop of a probing slot receives exactly that slot's outcome -/
theorem roundOutcomes_single (r : Round) (pre post : List Slot) (s : Slot) (t : Nat) (o : Outcome)
    (hsplit : r.probes = pre ++ s :: post) (hasc : (ttls r.probes).Pairwise (· < ·))
    (htag : tagOf pre s post = some (t, o)) : roundOutcomes t r = [o] := by
  have hst : slotTtl s = some t := by
    have := tagOf_ttl pre post s; rw [htag] at this; simpa using this.symm
  have hsp : ttls r.probes = ttls pre ++ t :: ttls post := by
    rw [hsplit]; simp [ttls, List.filterMap_append, List.filterMap_cons, hst]
  rw [hsp, List.pairwise_append, List.pairwise_cons] at hasc
  obtain ⟨_, ⟨hpost, _⟩, hpre⟩ := hasc
  obtain ⟨X, hX, hsplit2⟩ := tagSlots_split pre s post []
  unfold roundOutcomes
  rw [hsplit, hsplit2, forTtl_append, forTtl_append]
  simp only [List.nil_append, htag, Option.toList]
  rw [forTtl_nil_of_not_mem t X (by rw [hX]; intro hm; have := hpre t hm t (by simp); omega)]
  rw [forTtl_nil_of_not_mem t (tagSlots (pre ++ [s]) post)
    (by rw [tagSlots_ttls]; intro hm; have := hpost t hm; omega)]
  simp [forTtl_cons, forTtl]

/-- the effect of a well-formed round on the hop of one of its probing slots -/
theorem hop_after_round (fs : FlowState F) (r : Round) (hlen : fs.hops.length = 254) (hwf : RoundWF r)
    (pre post : List Slot) (s : Slot) (t : Nat) (o : Outcome)
    (hsplit : r.probes = pre ++ s :: post) (htag : tagOf pre s post = some (t, o)) :
    ∃ fs' hop, fs.applyRound r = .ok fs' ∧ fs.hops[t - 1]? = some hop ∧
      fs'.hops[t - 1]? = some (hopStep fs.maxSamples hop o) := by
  have hst : slotTtl s = some t := by
    have := tagOf_ttl pre post s; rw [htag] at this; simpa using this.symm
  have hb := hwf.1 t (mem_ttls (l := r.probes) (by simp [hsplit]) hst)
  have hlt : t - 1 < fs.hops.length := by omega
  have hge : ∀ x ∈ tagSlots [] r.probes, 1 ≤ x.1 := by
    intro x hx
    have : x.1 ∈ ttls r.probes := by rw [← tagSlots_ttls r.probes []]; exact List.mem_map_of_mem hx
    exact (hwf.1 _ this).1
  refine ⟨_, fs.hops[t - 1], applyRound_ok fs r hlen hwf, List.getElem?_eq_getElem hlt, ?_⟩
  have := foldTags_hop (F := F) (tagSlots [] r.probes) hge (t - 1) (fs.begin r)
  rw [this]
  have h1 : t - 1 + 1 = t := by omega
  have h2 := roundOutcomes_single r pre post s t o hsplit hwf.2.1 htag
  unfold roundOutcomes at h2
  simp [h1, h2, FlowState.begin, List.getElem?_eq_getElem hlt]
end TV.Agg
