import TrippyVerif.Model.Strategy
/-
Invariant of the tracing state machine and the step lemmas behind C03, C06, C07, C08, C09
(and the strategy halves of C04 / C16).
-/
namespace TV.Strat
open TV

/-- the probe a slot carries, if any -/
def Slot.probe? : Slot → Option Probe
  | .notSent | .skipped => none
  | .failed p | .awaited p => some p
  | .complete c => some c.probe

/-- number of sequence numbers allocated in the current round -/
def TS.count (s : TS) : Nat := s.sequence - s.roundSeq

/-- `max_sequence()` as a number (no overflow for builder-accepted initial sequences) -/
def maxSeqN (c : Cfg) : Nat :=
  match c.strat, c.v6 with
  | .dublin, true => c.initialSeq + BUFFER_SIZE
  | _, _ => MAX_SEQUENCE

theorem BUFFER_SIZE_eq : BUFFER_SIZE = 512 := rfl
theorem MAX_SEQUENCE_eq : MAX_SEQUENCE = 65023 := rfl

/-- The invariant: holds initially and after every non-failing step, for every environment. -/
structure Inv (c : Cfg) (s : TS) : Prop where
  len : s.buffer.length = BUFFER_SIZE
  seq_ge : s.roundSeq ≤ s.sequence
  count_le : s.count ≤ BUFFER_SIZE
  rs_lt : s.roundSeq < maxSeqN c
  rs_ge : c.initialSeq ≤ s.roundSeq
  ttl_ge : c.firstTtl ≤ s.ttl
  ttl_le : s.ttl ≤ 255
  count_ttl : c.proto ≠ .tcp → s.count = s.ttl - c.firstTtl
  count_ge : s.ttl - c.firstTtl ≤ s.count
  slots : ∀ k sl p, s.buffer[k]? = some sl → sl.probe? = some p →
    p.round ≤ s.round ∧
    (p.round = s.round → k < s.count ∧ p.seq = s.roundSeq + k ∧ c.firstTtl ≤ p.ttl ∧ p.ttl < s.ttl)
  maxrecv : ∀ m, s.maxRecvTtl = some m → c.firstTtl ≤ m ∧ m < s.ttl
  tgt : ∀ t, s.targetTtl = some t → c.firstTtl ≤ t ∧ t ≤ 254

theorem CfgOk.first_ge {c : Cfg} (h : CfgOk c) : 1 ≤ c.firstTtl := h.1
theorem CfgOk.first_le {c : Cfg} (h : CfgOk c) : c.firstTtl ≤ 254 := h.2.1
theorem CfgOk.max_le {c : Cfg} (h : CfgOk c) : c.maxTtl ≤ 254 := h.2.2.1
theorem CfgOk.init_le {c : Cfg} (h : CfgOk c) : c.initialSeq ≤ 64511 := h.2.2.2.1

theorem maxSeqN_le {c : Cfg} (h : CfgOk c) : maxSeqN c ≤ 65023 := by
  have := h.init_le
  unfold maxSeqN
  split <;> simp [BUFFER_SIZE_eq, MAX_SEQUENCE_eq] <;> omega

theorem maxSeqN_gt {c : Cfg} (h : CfgOk c) : c.initialSeq < maxSeqN c := by
  have := h.init_le
  unfold maxSeqN
  split <;> simp [BUFFER_SIZE_eq, MAX_SEQUENCE_eq] <;> omega

theorem maxSequence_eq {c : Cfg} (h : CfgOk c) : maxSequence c = .ok (maxSeqN c) := by
  have := h.init_le
  unfold maxSequence maxSeqN addU16
  cases c.strat <;> cases c.v6 <;> simp [BUFFER_SIZE_eq] <;> omega

theorem inv_init {c : Cfg} (h : CfgOk c) (t0 : Nat) : Inv c (init c t0) where
  len := by simp [init]
  seq_ge := by simp [init]
  count_le := by simp [init, TS.count]
  rs_lt := by simpa [init] using maxSeqN_gt h
  rs_ge := by simp [init]
  ttl_ge := by simp [init]
  ttl_le := by have := h.first_le; simp [init]; omega
  count_ttl := by simp [init, TS.count]
  count_ge := by simp [init, TS.count]
  slots := by
    intro k sl p hk hp
    simp only [init] at hk
    rw [List.getElem?_replicate] at hk
    split at hk
    · cases hk; simp [Slot.probe?] at hp
    · cases hk
  maxrecv := by simp [init]
  tgt := by simp [init]


/-! ### primitives -/

theorem probeData_ok {c : Cfg} (h : CfgOk c) (s : TS) : ∃ d, probeData c s = .ok d := by
  obtain ⟨_, _, _, _, hm⟩ := h
  unfold probeData
  cases hp : c.proto <;> cases hd : c.portDir <;> cases hs : c.strat <;>
    simp [hp, hd, hs] at hm ⊢

theorem Inv.seq_eq {c : Cfg} {s : TS} (h : Inv c s) : s.sequence = s.roundSeq + s.count := by
  have := h.seq_ge; unfold TS.count; omega

theorem Inv.seq_lt {c : Cfg} {s : TS} (hc : CfgOk c) (h : Inv c s) (hcap : s.count < BUFFER_SIZE) :
    s.sequence < 65535 := by
  have h1 := h.seq_eq; have h2 := h.rs_lt; have h3 := maxSeqN_le hc
  simp [BUFFER_SIZE_eq] at hcap; omega

/-- state after `next_probe` -/
def afterNext (s : TS) (p : Probe) : TS :=
  { s with buffer := s.buffer.set s.count (.awaited p), ttl := s.ttl + 1, sequence := s.sequence + 1 }

theorem nextProbe_spec {c : Cfg} {s : TS} (hc : CfgOk c) (h : Inv c s) (hcap : s.count < BUFFER_SIZE)
    (httl : s.ttl ≤ 254) (t : Nat) :
    ∃ p, nextProbe c s t = .ok (afterNext s p, p) ∧ p.seq = s.sequence ∧ p.ttl = s.ttl ∧
      p.round = s.round ∧ p.sent = t := by
  obtain ⟨⟨sp, dp, id, fl⟩, hd⟩ := probeData_ok hc s
  have hseq := h.seq_lt hc hcap
  have hlen := h.len
  have hge := h.seq_ge
  refine ⟨{ seq := s.sequence, ident := id, srcPort := sp, destPort := dp, ttl := s.ttl,
            round := s.round, sent := t, flags := fl }, ?_, rfl, rfl, rfl, rfl⟩
  have hidx : s.sequence - s.roundSeq < s.buffer.length := by
    rw [hlen]; exact hcap
  have h255 : ¬ 255 ≤ s.ttl := by omega
  have hseq' : ¬ 65535 ≤ s.sequence := by omega
  simp [nextProbe, hd, subU, hge, setSlot, hidx, h255, hseq', afterNext, TS.count]


theorem getElem?_set_cases {α} (l : List α) (i k : Nat) (x sl : α)
    (h : (l.set i x)[k]? = some sl) : (k = i ∧ sl = x) ∨ (k ≠ i ∧ l[k]? = some sl) := by
  by_cases hk : i = k
  · subst hk
    rw [List.getElem?_set_self'] at h
    cases hl : l[i]? with
    | none => simp [hl] at h
    | some y => simp [hl] at h; exact Or.inl ⟨rfl, h.symm⟩
  · rw [List.getElem?_set_ne hk] at h
    exact Or.inr ⟨fun e => hk e.symm, h⟩

theorem inv_afterNext {c : Cfg} {s : TS} (h : Inv c s) (hcap : s.count < BUFFER_SIZE)
    (httl : s.ttl ≤ 254) (p : Probe) (hseq : p.seq = s.sequence) (hpt : p.ttl = s.ttl)
    (hr : p.round = s.round) : Inv c (afterNext s p) := by
  have hge := h.seq_ge
  have hcnt : (afterNext s p).count = s.count + 1 := by simp [afterNext, TS.count]; omega
  have hfirst := h.ttl_ge
  refine ⟨?_, ?_, ?_, ?_, ?_, ?_, ?_, ?_, ?_, ?_, ?_, ?_⟩
  · simpa [afterNext] using h.len
  · simp [afterNext]; omega
  · rw [hcnt]; simp [BUFFER_SIZE_eq] at hcap ⊢; omega
  · simpa [afterNext] using h.rs_lt
  · simpa [afterNext] using h.rs_ge
  · simp [afterNext]; omega
  · simp [afterNext]; omega
  · intro hp; rw [hcnt, h.count_ttl hp]; simp [afterNext]; omega
  · rw [hcnt]; have := h.count_ge; simp [afterNext]; omega
  · intro k sl q hk hq
    simp only [afterNext] at hk
    rcases getElem?_set_cases _ _ _ _ _ hk with ⟨rfl, rfl⟩ | ⟨hne, hk'⟩
    · simp [Slot.probe?] at hq; subst hq
      refine ⟨by simp [afterNext, hr], fun _ => ⟨by rw [hcnt]; omega, ?_, by omega, ?_⟩⟩
      · simp [afterNext, hseq]; have := h.seq_eq; omega
      · simp [afterNext]; omega
    · have := h.slots k sl q hk' hq
      refine ⟨by simpa [afterNext] using this.1, fun e => ?_⟩
      have e' : q.round = s.round := by simpa [afterNext] using e
      obtain ⟨a, b, c', d⟩ := this.2 e'
      refine ⟨by rw [hcnt]; omega, by simpa [afterNext] using b, c', by simp [afterNext]; omega⟩
  · intro m hm
    have := h.maxrecv m (by simpa [afterNext] using hm)
    simp [afterNext]; omega
  · intro t ht
    exact h.tgt t (by simpa [afterNext] using ht)


/-- right after a probe was allocated: the last allocated slot holds it, still awaited -/
structure Alloc (c : Cfg) (s : TS) (p : Probe) : Prop where
  inv : Inv c s
  cnt : 1 ≤ s.count
  ttl : c.firstTtl < s.ttl
  slot : s.buffer[s.count - 1]? = some (.awaited p)

theorem alloc_afterNext {c : Cfg} {s : TS} (h : Inv c s) (hcap : s.count < BUFFER_SIZE)
    (httl : s.ttl ≤ 254) (p : Probe) (hseq : p.seq = s.sequence) (hpt : p.ttl = s.ttl)
    (hr : p.round = s.round) : Alloc c (afterNext s p) p := by
  have hge := h.seq_ge
  have hcnt : (afterNext s p).count = s.count + 1 := by simp [afterNext, TS.count]; omega
  refine ⟨inv_afterNext h hcap httl p hseq hpt hr, by omega, ?_, ?_⟩
  · have := h.ttl_ge; simp [afterNext]; omega
  · rw [hcnt]
    have hl : s.count < s.buffer.length := by rw [h.len]; exact hcap
    simp [afterNext, hl]

/-- state after `fail_probe` -/
def afterFail (s : TS) (p : Probe) : TS :=
  { s with buffer := s.buffer.set (s.count - 1) (.failed p) }

theorem failProbe_spec {c : Cfg} {s : TS} {p : Probe} (h : Alloc c s p) :
    failProbe s = .ok (afterFail s p) := by
  have hge := h.inv.seq_ge
  have hc := h.cnt
  have hsl := h.slot
  have hlen : s.count - 1 < s.buffer.length := by
    have := h.inv.count_le; rw [h.inv.len]; omega
  unfold TS.count at hc hsl hlen
  have h1 : 1 ≤ s.sequence - s.roundSeq := hc
  obtain ⟨_, hsl'⟩ := List.getElem?_eq_some_iff.mp hsl
  simp [failProbe, subU, hge, h1, hsl', setSlot, hlen, afterFail, TS.count]

theorem inv_afterFail {c : Cfg} {s : TS} {p : Probe} (h : Alloc c s p) : Inv c (afterFail s p) := by
  have hi := h.inv
  refine ⟨?_, hi.seq_ge, hi.count_le, hi.rs_lt, hi.rs_ge, hi.ttl_ge, hi.ttl_le, hi.count_ttl,
    hi.count_ge, ?_, hi.maxrecv, hi.tgt⟩
  · simpa [afterFail] using hi.len
  · intro k sl q hk hq
    simp only [afterFail] at hk
    rcases getElem?_set_cases _ _ _ _ _ hk with ⟨rfl, rfl⟩ | ⟨hne, hk'⟩
    · simp [Slot.probe?] at hq; subst hq
      exact hi.slots _ _ _ h.slot rfl
    · exact hi.slots k sl q hk' hq

/-- state after `reissue_probe` -/
def afterReissue (s : TS) (p : Probe) : TS :=
  { s with buffer := (s.buffer.set (s.count - 1) .skipped).set s.count (.awaited p),
           sequence := s.sequence + 1 }

theorem reissueProbe_spec {c : Cfg} {s : TS} {p0 : Probe} (hc : CfgOk c) (h : Alloc c s p0)
    (hcap : s.count < BUFFER_SIZE) (t : Nat) :
    ∃ p, reissueProbe c s t = .ok (afterReissue s p, p) ∧ p.seq = s.sequence ∧ p.ttl + 1 = s.ttl ∧
      p.round = s.round ∧ p.sent = t := by
  obtain ⟨⟨sp, dp, id, fl⟩, hd⟩ := probeData_ok hc s
  have hi := h.inv
  have hge := hi.seq_ge
  have hseq := hi.seq_lt hc hcap
  have hcnt := h.cnt
  have httl : 1 ≤ s.ttl := by have := h.ttl; omega
  refine ⟨{ seq := s.sequence, ident := id, srcPort := sp, destPort := dp, ttl := s.ttl - 1,
            round := s.round, sent := t, flags := fl }, ?_, rfl, by simp; omega, rfl, rfl⟩
  have hl1 : s.sequence - s.roundSeq - 1 < s.buffer.length := by
    rw [hi.len]; unfold TS.count at hcap; omega
  have hl2 : s.sequence - s.roundSeq < s.buffer.length := by
    rw [hi.len]; exact hcap
  have h1 : 1 ≤ s.sequence - s.roundSeq := hcnt
  have hseq' : ¬ 65535 ≤ s.sequence := by omega
  have hpd : probeData c { s with buffer := s.buffer.set (s.sequence - s.roundSeq - 1) .skipped }
      = .ok (sp, dp, id, fl) := by
    rw [← hd]; rfl
  simp [reissueProbe, subU, hge, h1, setSlot, hl1, hl2, hpd, httl, hseq', afterReissue, TS.count]


theorem alloc_afterReissue {c : Cfg} {s : TS} {p0 : Probe} (h : Alloc c s p0)
    (hcap : s.count < BUFFER_SIZE) (htcp : c.proto = .tcp) (p : Probe) (hseq : p.seq = s.sequence)
    (hpt : p.ttl + 1 = s.ttl) (hr : p.round = s.round) : Alloc c (afterReissue s p) p := by
  have hi := h.inv
  have hge := hi.seq_ge
  have hcnt : (afterReissue s p).count = s.count + 1 := by simp [afterReissue, TS.count]; omega
  have hc1 := h.cnt
  have httl := h.ttl
  have hl : s.count < s.buffer.length := by rw [hi.len]; exact hcap
  refine ⟨⟨?_, ?_, ?_, hi.rs_lt, hi.rs_ge, hi.ttl_ge, hi.ttl_le, ?_, ?_, ?_, hi.maxrecv, hi.tgt⟩,
    by omega, httl, ?_⟩
  · simpa [afterReissue] using hi.len
  · simp [afterReissue]; omega
  · rw [hcnt]; simp [BUFFER_SIZE_eq] at hcap ⊢; omega
  · intro hp; exact absurd htcp hp
  · rw [hcnt]; have := hi.count_ge; simp [afterReissue]; omega
  · intro k sl q hk hq
    simp only [afterReissue] at hk
    rcases getElem?_set_cases _ _ _ _ _ hk with ⟨rfl, rfl⟩ | ⟨hne, hk'⟩
    · simp [Slot.probe?] at hq; subst hq
      refine ⟨by simp [afterReissue, hr], fun _ => ⟨by rw [hcnt]; omega, ?_, by omega, by simp [afterReissue]; omega⟩⟩
      simp [afterReissue, hseq]; have := hi.seq_eq; omega
    · rcases getElem?_set_cases _ _ _ _ _ hk' with ⟨rfl, rfl⟩ | ⟨hne2, hk''⟩
      · simp [Slot.probe?] at hq
      · have := hi.slots k sl q hk'' hq
        refine ⟨by simpa [afterReissue] using this.1, fun e => ?_⟩
        have e' : q.round = s.round := by simpa [afterReissue] using e
        obtain ⟨a, b, c', d⟩ := this.2 e'
        exact ⟨by rw [hcnt]; omega, by simpa [afterReissue] using b, c', by simpa [afterReissue] using d⟩
  · rw [hcnt]
    have : (s.buffer.set (s.count - 1) Slot.skipped).length = s.buffer.length := by simp
    simp [afterReissue, hl]


/-- the probe of the *current round*, still awaiting its first response, that sequence `q` names -/
def answered (s : TS) (q : Nat) : Option Probe :=
  if s.roundSeq ≤ q then
    match s.buffer[q - s.roundSeq]? with
    | some (.awaited p) => if p.round = s.round then some p else none
    | _ => none
  else none

/-- state after `complete_probe` accepted `r` for the awaited probe `p` -/
def afterComplete (s : TS) (r : SResp) (p : Probe) : TS :=
  { s with
    buffer := s.buffer.set (r.seq - s.roundSeq)
      (.complete { probe := p, host := r.addr, received := r.received, kind := r.kind, tos := r.tos,
                   expCk := r.expCk, actCk := r.actCk, ext := r.ext }),
    targetTtl := newTargetTtl s r.isTarget p.ttl,
    maxRecvTtl := newMaxRecv s p.ttl,
    recvTime := some r.received,
    targetFound := s.targetFound || r.isTarget }

theorem completeProbe_spec {c : Cfg} {s : TS} (h : Inv c s) (r : SResp) (hin : inRound s r.seq = true) :
    completeProbe s r = match answered s r.seq with
      | none => .ok s
      | some p => .ok (afterComplete s r p) := by
  simp only [inRound, Bool.and_eq_true, decide_eq_true_eq] at hin
  obtain ⟨hge, hlt⟩ := hin
  have hlen : r.seq - s.roundSeq < s.buffer.length := by rw [h.len]; exact hlt
  obtain ⟨sl, hsl⟩ : ∃ sl, s.buffer[r.seq - s.roundSeq]? = some sl :=
    ⟨_, List.getElem?_eq_getElem hlen⟩
  unfold completeProbe answered
  simp only [subU, hge, if_true, R.bind_ok, hsl]
  cases sl with
  | awaited p =>
    by_cases hr : p.round = s.round
    · simp [hr, setSlot, hlen, afterComplete]
    · simp [hr]
  | notSent => simp
  | skipped => simp
  | failed p => simp
  | complete cp => simp

theorem answered_props {c : Cfg} {s : TS} (h : Inv c s) {q : Nat} {p : Probe}
    (ha : answered s q = some p) :
    s.roundSeq ≤ q ∧ q < s.sequence ∧ p.seq = q ∧ p.round = s.round ∧ c.firstTtl ≤ p.ttl ∧ p.ttl < s.ttl ∧
      s.buffer[q - s.roundSeq]? = some (.awaited p) := by
  unfold answered at ha
  split at ha
  · rename_i hge
    split at ha
    · rename_i p' hsl
      split at ha
      · rename_i hr
        cases ha
        obtain ⟨a, b, c', d⟩ := (h.slots _ _ _ hsl rfl).2 hr
        have := h.seq_eq
        exact ⟨hge, by omega, by omega, hr, c', d, hsl⟩
      · cases ha
    · cases ha
  · cases ha

theorem inv_afterComplete {c : Cfg} {s : TS} (h : Inv c s) (r : SResp) {p : Probe}
    (ha : answered s r.seq = some p) : Inv c (afterComplete s r p) := by
  obtain ⟨hge, hlt, hseq, hr, hf, ht, hsl⟩ := answered_props h ha
  refine ⟨?_, h.seq_ge, h.count_le, h.rs_lt, h.rs_ge, h.ttl_ge, h.ttl_le, h.count_ttl, h.count_ge,
    ?_, ?_, ?_⟩
  · simpa [afterComplete] using h.len
  · intro k sl q hk hq
    simp only [afterComplete] at hk
    rcases getElem?_set_cases _ _ _ _ _ hk with ⟨rfl, rfl⟩ | ⟨hne, hk'⟩
    · simp [Slot.probe?] at hq; subst hq
      exact h.slots _ _ _ hsl rfl
    · exact h.slots k sl q hk' hq
  · intro m hm
    simp only [afterComplete, newMaxRecv] at hm
    have httl := h.ttl_ge
    cases hmr : s.maxRecvTtl with
    | none => simp [hmr] at hm; subst hm; exact ⟨hf, ht⟩
    | some m0 =>
      simp [hmr] at hm; subst hm
      have := h.maxrecv m0 hmr
      have e : (afterComplete s r p).ttl = s.ttl := rfl
      rw [e]
      exact ⟨by omega, by omega⟩
  · intro t htt
    simp only [afterComplete, newTargetTtl] at htt
    have hle := h.ttl_le
    cases htg : s.targetTtl with
    | none =>
      simp [htg] at htt
      obtain ⟨_, rfl⟩ := htt
      exact ⟨hf, by omega⟩
    | some t0 =>
      have := h.tgt t0 htg
      simp [htg] at htt
      split at htt
      · split at htt
        · cases htt; exact ⟨hf, by omega⟩
        · cases htt; exact this
      · split at htt
        · cases htt
        · cases htt; exact this


/-! ### advance_round -/

def afterAdvance (c : Cfg) (s : TS) : TS :=
  let sq := if s.sequence ≥ maxSeqN c then c.initialSeq else s.sequence
  { s with sequence := sq, targetFound := false, roundSeq := sq, recvTime := none,
           roundStart := s.now, maxRecvTtl := none, round := s.round + 1, ttl := c.firstTtl }

theorem advanceRound_spec {c : Cfg} (hc : CfgOk c) (s : TS) :
    advanceRound c s = .ok (afterAdvance c s) := by
  simp [advanceRound, maxSequence_eq hc, afterAdvance]

theorem inv_afterAdvance {c : Cfg} {s : TS} (hc : CfgOk c) (h : Inv c s) : Inv c (afterAdvance c s) := by
  have hgt := maxSeqN_gt hc
  have hfl := hc.first_le
  refine ⟨h.len, by simp [afterAdvance], by simp [afterAdvance, TS.count], ?_, ?_, by simp [afterAdvance],
    by simp [afterAdvance]; omega, by simp [afterAdvance, TS.count], by simp [afterAdvance, TS.count], ?_,
    by simp [afterAdvance], h.tgt⟩
  · simp only [afterAdvance]; split <;> omega
  · simp only [afterAdvance]
    have := h.rs_ge; have := h.seq_ge
    split <;> omega
  · intro k sl q hk hq
    have := (h.slots k sl q hk hq).1
    refine ⟨by simp [afterAdvance]; omega, fun e => ?_⟩
    simp [afterAdvance] at e; omega

/-! ### send_request -/

/-- the fields `send_request` never touches -/
def sameRound (a b : TS) : Prop :=
  a.roundSeq = b.roundSeq ∧ a.round = b.round ∧ a.roundStart = b.roundStart ∧
  a.targetFound = b.targetFound ∧ a.maxRecvTtl = b.maxRecvTtl ∧ a.targetTtl = b.targetTtl ∧
  a.recvTime = b.recvTime ∧ a.now = b.now

/-- what a non-empty log of `send_probe` calls of one iteration looks like -/
structure SentOk (s0 s' : TS) (log : List (Probe × SendOutcome)) : Prop where
  ttl : s'.ttl = s0.ttl + 1
  seq : s'.sequence = s0.sequence + log.length
  each : ∀ x ∈ log, x.1.ttl = s0.ttl ∧ x.1.round = s0.round ∧ x.1.sent = s0.now
  seqs : log.map (fun x => x.1.seq) = List.range' s0.sequence log.length
  same : sameRound s0 s'

theorem roundHasCapacity_eq {c : Cfg} {s : TS} (h : Inv c s) :
    roundHasCapacity s = .ok (decide (s.count < BUFFER_SIZE)) := by
  simp only [roundHasCapacity, subU, h.seq_ge, if_true, R.bind_ok, TS.count]
  congr

theorem tcpLoop_spec {c : Cfg} (hc : CfgOk c) (htcp : c.proto = .tcp) (s0 : TS) :
    ∀ (os : List SendOutcome) (s : TS) (p : Probe) (log : List (Probe × SendOutcome)),
      Alloc c s p → s.ttl = s0.ttl + 1 → s.sequence = s0.sequence + (log.length + 1) →
      p.seq = s0.sequence + log.length → p.ttl = s0.ttl → p.round = s0.round → p.sent = s0.now →
      (∀ x ∈ log, x.1.ttl = s0.ttl ∧ x.1.round = s0.round ∧ x.1.sent = s0.now) →
      log.map (fun x => x.1.seq) = List.range' s0.sequence log.length → sameRound s0 s →
      tcpLoop c s p log os ≠ .panic ∧
      ∀ s' lg, tcpLoop c s p log os = .ok (s', lg) → Inv c s' ∧ SentOk s0 s' lg ∧ lg ≠ [] := by
  intro os
  induction os with
  | nil =>
    intro s p log ha httl hseq hps hpt hpr hpn hall hseqs hsame
    refine ⟨by simp [tcpLoop], ?_⟩
    intro s' lg h
    simp [tcpLoop] at h
    obtain ⟨rfl, rfl⟩ := h
    refine ⟨ha.inv, ⟨httl, by simp; omega, ?_, ?_, hsame⟩, by simp⟩
    · intro x hx
      rcases List.mem_append.mp hx with hx | hx
      · exact hall x hx
      · simp at hx; subst hx; exact ⟨hpt, hpr, hpn⟩
    · simp [List.range'_concat, hseqs, hps]
  | cons o os ih =>
    intro s p log ha httl hseq hps hpt hpr hpn hall hseqs hsame
    have hlog' : ∀ x ∈ log ++ [(p, o)], x.1.ttl = s0.ttl ∧ x.1.round = s0.round ∧ x.1.sent = s0.now := by
      intro x hx
      rcases List.mem_append.mp hx with hx | hx
      · exact hall x hx
      · simp at hx; subst hx; exact ⟨hpt, hpr, hpn⟩
    have hseqs' : (log ++ [(p, o)]).map (fun x => x.1.seq)
        = List.range' s0.sequence (log ++ [(p, o)]).length := by
      simp [List.range'_concat, hseqs, hps]
    have hfin : ∀ s1 : TS, Inv c s1 → s1.ttl = s.ttl → s1.sequence = s.sequence → sameRound s s1 →
        Inv c s1 ∧ SentOk s0 s1 (log ++ [(p, o)]) ∧ (log ++ [(p, o)]) ≠ [] := by
      intro s1 hi e1 e2 e3
      refine ⟨hi, ⟨by omega, by simp; omega, hlog', hseqs', ?_⟩, by simp⟩
      obtain ⟨a1, a2, a3, a4, a5, a6, a7, a8⟩ := hsame
      obtain ⟨b1, b2, b3, b4, b5, b6, b7, b8⟩ := e3
      exact ⟨by omega, by omega, by omega, by rw [a4, b4], by rw [a5, b5], by rw [a6, b6],
        by rw [a7, b7], by omega⟩
    have hrefl : sameRound s s := ⟨rfl, rfl, rfl, rfl, rfl, rfl, rfl, rfl⟩
    cases o with
    | ok =>
      refine ⟨by simp [tcpLoop, doSend], ?_⟩
      intro s' lg h
      simp [tcpLoop, doSend] at h
      obtain ⟨rfl, rfl⟩ := h
      exact hfin s ha.inv rfl rfl hrefl
    | probeFailed =>
      refine ⟨by simp [tcpLoop, doSend, failProbe_spec ha], ?_⟩
      intro s' lg h
      simp [tcpLoop, doSend, failProbe_spec ha] at h
      obtain ⟨rfl, rfl⟩ := h
      exact hfin _ (inv_afterFail ha) rfl rfl ⟨rfl, rfl, rfl, rfl, rfl, rfl, rfl, rfl⟩
    | fatal =>
      exact ⟨by simp [tcpLoop, doSend], by intro s' lg h; simp [tcpLoop, doSend] at h⟩
    | addrInUse =>
      by_cases hcap : s.count < BUFFER_SIZE
      · obtain ⟨p', hre, hs', ht', hr', hn'⟩ := reissueProbe_spec hc ha hcap s.now
        have halloc := alloc_afterReissue ha hcap htcp p' hs' ht' hr'
        have hnow : s.now = s0.now := by have := hsame.2.2.2.2.2.2.2; omega
        have hrec := ih (afterReissue s p') p' (log ++ [(p, .addrInUse)]) halloc
          (by simp [afterReissue]; omega) (by simp [afterReissue]; omega) (by simp; omega)
          (by omega) (by rw [hr']; have := hsame.2.1; omega) (by rw [hn', hnow]) hlog' hseqs'
          (by
            obtain ⟨a1, a2, a3, a4, a5, a6, a7, a8⟩ := hsame
            exact ⟨a1, a2, a3, a4, a5, a6, a7, a8⟩)
        simp only [tcpLoop, doSend, R.bind_ok, roundHasCapacity_eq ha.inv, hcap, decide_true, if_true, hre]
        exact hrec
      · refine ⟨by simp [tcpLoop, doSend, roundHasCapacity_eq ha.inv, hcap], ?_⟩
        intro s' lg h
        simp [tcpLoop, doSend, roundHasCapacity_eq ha.inv, hcap] at h


/-- the guard of `send_request` -/
def canSend (c : Cfg) (s : TS) : Bool :=
  !s.targetFound && decide (s.ttl ≤ c.maxTtl) &&
    (match s.targetTtl with
     | some t => decide (s.ttl ≤ t)
     | none => decide (s.ttl - s.maxRecvTtl.getD (c.firstTtl - 1) ≤ c.maxInflight))

theorem canSendR_eq {c : Cfg} {s : TS} (hc : CfgOk c) (h : Inv c s) : canSendR c s = .ok (canSend c s) := by
  have hf1 := hc.first_ge
  have httl := h.ttl_ge
  have hbase : s.maxRecvTtl.getD (c.firstTtl - 1) ≤ s.ttl := by
    cases hm : s.maxRecvTtl with
    | none => simp; omega
    | some m => have := h.maxrecv m hm; simp; omega
  simp only [canSendR, subU, hf1, if_true, R.bind_ok, canSend]
  cases s.targetTtl with
  | some t => simp
  | none => simp [hbase]

theorem sendRequest_spec {c : Cfg} {s : TS} (hc : CfgOk c) (h : Inv c s) (sends : List SendOutcome) :
    sendRequest c s sends ≠ .panic ∧
    ∀ s' lg, sendRequest c s sends = .ok (s', lg) →
      Inv c s' ∧ (lg = [] → s' = s ∧ canSend c s = false) ∧
      (lg ≠ [] → canSend c s = true ∧ SentOk s s' lg) := by
  have hml := hc.max_le
  have httl := h.ttl_ge
  unfold sendRequest
  simp only [canSendR_eq hc h, R.bind_ok]
  by_cases hg : canSend c s = true
  · have hg' := hg
    simp only [canSend, Bool.and_eq_true, Bool.not_eq_true', decide_eq_true_eq] at hg'
    obtain ⟨⟨hnf, hmax⟩, hwin⟩ := hg'
    rw [if_pos hg]
    unfold doSends
    have h254 : s.ttl ≤ 254 := by omega
    have hrefl : sameRound s s := ⟨rfl, rfl, rfl, rfl, rfl, rfl, rfl, rfl⟩
    have hsameN : ∀ p, sameRound s (afterNext s p) := fun p => ⟨rfl, rfl, rfl, rfl, rfl, rfl, rfl, rfl⟩
    cases hp : c.proto with
    | tcp =>
      simp only [roundHasCapacity_eq h, R.bind_ok]
      by_cases hcap : s.count < BUFFER_SIZE
      · obtain ⟨p, hnp, hs1, ht1, hr1, hn1⟩ := nextProbe_spec hc h hcap h254 s.now
        have ha := alloc_afterNext h hcap h254 p hs1 ht1 hr1
        have := tcpLoop_spec hc hp s sends (afterNext s p) p [] ha (by simp [afterNext])
          (by simp [afterNext]) (by simpa using hs1) ht1 hr1 hn1 (by simp) (by simp) (hsameN p)
        simp only [hcap, decide_true, if_true, hnp, R.bind_ok]
        refine ⟨this.1, fun s' lg hh => ?_⟩
        obtain ⟨hi, hso, hne⟩ := this.2 s' lg hh
        exact ⟨hi, fun e => absurd e hne, fun _ => ⟨hg, hso⟩⟩
      · simp [hcap]
    | icmp =>
      have hcnt : s.count < BUFFER_SIZE := by
        have := h.count_ttl (by simp [hp]); simp [BUFFER_SIZE_eq]; omega
      obtain ⟨p, hnp, hs1, ht1, hr1, hn1⟩ := nextProbe_spec hc h hcnt h254 s.now
      have ha := alloc_afterNext h hcnt h254 p hs1 ht1 hr1
      simp only [hnp, R.bind_ok]
      have hso : ∀ o s1, s1.ttl = (afterNext s p).ttl → s1.sequence = (afterNext s p).sequence →
          sameRound s s1 → SentOk s s1 [(p, o)] := by
        intro o s1 e1 e2 e3
        exact ⟨by rw [e1]; rfl, by rw [e2]; simp [afterNext], by simp [ht1, hr1, hn1], by simp [hs1], e3⟩
      rcases hh : headOutcome sends with ⟨o, rest⟩
      cases o with
      | ok =>
        simp only [doSend, R.bind_ok]
        refine ⟨by simp, fun s' lg e => ?_⟩
        simp at e; obtain ⟨rfl, rfl⟩ := e
        exact ⟨ha.inv, by simp, fun _ => ⟨hg, hso _ _ rfl rfl (hsameN p)⟩⟩
      | probeFailed =>
        simp only [doSend, failProbe_spec ha, R.bind_ok]
        refine ⟨by simp, fun s' lg e => ?_⟩
        simp at e; obtain ⟨rfl, rfl⟩ := e
        exact ⟨inv_afterFail ha, by simp, fun _ => ⟨hg, hso _ _ rfl rfl (hsameN p)⟩⟩
      | addrInUse => simp [doSend]
      | fatal => simp [doSend]
    | udp =>
      have hcnt : s.count < BUFFER_SIZE := by
        have := h.count_ttl (by simp [hp]); simp [BUFFER_SIZE_eq]; omega
      obtain ⟨p, hnp, hs1, ht1, hr1, hn1⟩ := nextProbe_spec hc h hcnt h254 s.now
      have ha := alloc_afterNext h hcnt h254 p hs1 ht1 hr1
      simp only [hnp, R.bind_ok]
      have hso : ∀ o s1, s1.ttl = (afterNext s p).ttl → s1.sequence = (afterNext s p).sequence →
          sameRound s s1 → SentOk s s1 [(p, o)] := by
        intro o s1 e1 e2 e3
        exact ⟨by rw [e1]; rfl, by rw [e2]; simp [afterNext], by simp [ht1, hr1, hn1], by simp [hs1], e3⟩
      rcases hh : headOutcome sends with ⟨o, rest⟩
      cases o with
      | ok =>
        simp only [doSend, R.bind_ok]
        refine ⟨by simp, fun s' lg e => ?_⟩
        simp at e; obtain ⟨rfl, rfl⟩ := e
        exact ⟨ha.inv, by simp, fun _ => ⟨hg, hso _ _ rfl rfl (hsameN p)⟩⟩
      | probeFailed =>
        simp only [doSend, failProbe_spec ha, R.bind_ok]
        refine ⟨by simp, fun s' lg e => ?_⟩
        simp at e; obtain ⟨rfl, rfl⟩ := e
        exact ⟨inv_afterFail ha, by simp, fun _ => ⟨hg, hso _ _ rfl rfl (hsameN p)⟩⟩
      | addrInUse => simp [doSend]
      | fatal => simp [doSend]
  · have hg' : canSend c s = false := by simpa using hg
    rw [if_neg hg]
    refine ⟨by simp, fun s' lg e => ?_⟩
    simp at e; obtain ⟨rfl, rfl⟩ := e
    exact ⟨h, fun _ => ⟨rfl, hg'⟩, fun e => absurd rfl e⟩


/-! ### recv_response -/

theorem inv_tick {c : Cfg} {s : TS} (h : Inv c s) (dt : Nat) : Inv c (tick s dt) :=
  ⟨h.len, h.seq_ge, h.count_le, h.rs_lt, h.rs_ge, h.ttl_ge, h.ttl_le, h.count_ttl, h.count_ge, h.slots,
    h.maxrecv, h.tgt⟩

/-- **Genuine response** (specification): `r` passes the tuple validation, carries our trace
identifier (or 0), and the sequence number recovered from it names a probe of the round in
progress that is still awaiting its first response.  Returns that probe. -/
def genuine (c : Cfg) (s : TS) (r : Resp) : Option Probe :=
  if validate c r && checkTraceId c (strategyResp c r).traceId && inRound s (strategyResp c r).seq
  then answered s (strategyResp c r).seq else none

theorem answered_tick (s : TS) (dt q : Nat) : answered (tick s dt) q = answered s q := rfl
theorem inRound_tick (s : TS) (dt q : Nat) : inRound (tick s dt) q = inRound s q := rfl

theorem recvResponse_spec {c : Cfg} {s : TS} (h : Inv c s) (dt : Nat) (r : Resp) :
    recvResponse c s dt (.resp r) = match genuine c s r with
      | none => .ok (tick s dt)
      | some p => .ok (afterComplete (tick s dt) (strategyResp c r) p) := by
  unfold recvResponse genuine
  by_cases hv : validate c r = true
  · by_cases ht : checkTraceId c (strategyResp c r).traceId = true
    · by_cases hin : inRound s (strategyResp c r).seq = true
      · have := completeProbe_spec (inv_tick h dt) (strategyResp c r) (by rw [inRound_tick]; exact hin)
        simp only [hv, ht, hin, inRound_tick, Bool.and_self, if_true]
        rw [this, answered_tick]
      · simp [hv, ht, hin, inRound_tick]
    · simp [hv, ht]
  · simp [hv]

theorem recvResponse_inv {c : Cfg} {s : TS} (h : Inv c s) (dt : Nat) (rv : RecvOutcome) :
    recvResponse c s dt rv ≠ .panic ∧ ∀ s', recvResponse c s dt rv = .ok s' → Inv c s' := by
  cases rv with
  | none => exact ⟨by simp [recvResponse], fun s' e => by simp [recvResponse] at e; subst e; exact inv_tick h dt⟩
  | fatal => exact ⟨by simp [recvResponse], fun s' e => by simp [recvResponse] at e⟩
  | resp r =>
    rw [recvResponse_spec h]
    cases hg : genuine c s r with
    | none => exact ⟨by simp, fun s' e => by simp at e; subst e; exact inv_tick h dt⟩
    | some p =>
      refine ⟨by simp, fun s' e => ?_⟩
      simp at e; subst e
      unfold genuine at hg
      split at hg
      · exact inv_afterComplete (inv_tick h dt) _ (by rw [answered_tick]; exact hg)
      · cases hg

/-! ### update_round / publish_trace -/

theorem publishTrace_ok {c : Cfg} {s : TS} (hc : CfgOk c) (h : Inv c s) :
    ∃ r, publishTrace s = .ok r ∧ r.probes = s.buffer.take s.count ∧
      r.reason = (if s.targetFound then .targetFound else .roundTimeLimitExceeded) ∧
      r.largestTtl = (match s.targetTtl with
        | some t => t
        | none => match s.maxRecvTtl with
          | none => 0
          | some m => min (s.ttl - 1) (m + 1)) := by
  have hf := hc.first_ge
  have httl := h.ttl_ge
  have hle := h.ttl_le
  have hcl : s.sequence - s.roundSeq ≤ s.buffer.length := by rw [h.len]; exact h.count_le
  unfold publishTrace probes
  cases htg : s.targetTtl with
  | some t => simp [subU, h.seq_ge, hcl, TS.count]
  | none =>
    cases hm : s.maxRecvTtl with
    | none => simp [subU, h.seq_ge, hcl, TS.count]
    | some m =>
      have := h.maxrecv m hm
      have h1 : 1 ≤ s.ttl := by omega
      have h2 : m + 1 ≤ 255 := by omega
      simp [subU, addU8, h.seq_ge, hcl, TS.count, h1, h2]

theorem updateRound_spec {c : Cfg} {s : TS} (hc : CfgOk c) (h : Inv c s) :
    (roundComplete c s = false → updateRound c s = .ok (s, none)) ∧
    (roundComplete c s = true → ∃ r, publishTrace s = .ok r ∧
      updateRound c s = .ok (afterAdvance c s, some r)) := by
  constructor
  · intro hrc; simp [updateRound, hrc]
  · intro hrc
    obtain ⟨r, hr, _⟩ := publishTrace_ok hc h
    exact ⟨r, hr, by simp [updateRound, hrc, hr, advanceRound_spec hc]⟩

/-! ### one loop iteration -/

theorem iter_inv {c : Cfg} {s : TS} (hc : CfgOk c) (h : Inv c s) (e : IterEnv) :
    iter c s e ≠ .panic ∧ ∀ s' o, iter c s e = .ok (s', o) → Inv c s' := by
  obtain ⟨hnp, hsr⟩ := sendRequest_spec hc h e.sends
  unfold iter
  cases hs : sendRequest c s e.sends with
  | panic => exact absurd hs hnp
  | err er => exact ⟨by simp, fun s' o x => by simp at x⟩
  | ok v =>
    obtain ⟨s1, lg⟩ := v
    have hi1 := (hsr s1 lg hs).1
    obtain ⟨hnp2, hrr⟩ := recvResponse_inv hi1 e.dt e.recv
    simp only [R.bind_ok]
    cases hr : recvResponse c s1 e.dt e.recv with
    | panic => exact absurd hr hnp2
    | err er => exact ⟨by simp, fun s' o x => by simp at x⟩
    | ok s2 =>
      have hi2 := hrr s2 hr
      simp only [R.bind_ok]
      obtain ⟨hu1, hu2⟩ := updateRound_spec hc hi2
      by_cases hrc : roundComplete c s2 = true
      · obtain ⟨r, _, hu⟩ := hu2 hrc
        rw [hu]
        exact ⟨by simp, fun s' o x => by simp at x; obtain ⟨rfl, _⟩ := x; exact inv_afterAdvance hc hi2⟩
      · have hu := hu1 (by simpa using hrc)
        rw [hu]
        exact ⟨by simp, fun s' o x => by simp at x; obtain ⟨rfl, _⟩ := x; exact hi2⟩


/-- decomposition of a successful iteration into its three steps -/
theorem iter_decomp {c : Cfg} {s s' : TS} {e : IterEnv} {o : IterOut} (h : iter c s e = .ok (s', o)) :
    ∃ s1 s2, sendRequest c s e.sends = .ok (s1, o.sent) ∧ recvResponse c s1 e.dt e.recv = .ok s2 ∧
      updateRound c s2 = .ok (s', o.published) := by
  unfold iter at h
  cases hs : sendRequest c s e.sends with
  | panic => simp [hs] at h
  | err er => simp [hs] at h
  | ok v =>
    obtain ⟨s1, lg⟩ := v
    simp only [hs, R.bind_ok] at h
    cases hr : recvResponse c s1 e.dt e.recv with
    | panic => simp [hr] at h
    | err er => simp [hr] at h
    | ok s2 =>
      simp only [hr, R.bind_ok] at h
      cases hu : updateRound c s2 with
      | panic => simp [hu] at h
      | err er => simp [hu] at h
      | ok w =>
        obtain ⟨s3, pb⟩ := w
        simp [hu] at h
        obtain ⟨rfl, rfl⟩ := h
        exact ⟨s1, s2, rfl, hr, hu⟩

/-- states reachable from the initial state by non-failing loop iterations, in any environment -/
inductive Reach (c : Cfg) : TS → Prop
  | init (t0 : Nat) : Reach c (init c t0)
  | step {s s' : TS} (e : IterEnv) (o : IterOut) : Reach c s → iter c s e = .ok (s', o) → Reach c s'

theorem reach_inv {c : Cfg} (hc : CfgOk c) {s : TS} (h : Reach c s) : Inv c s := by
  induction h with
  | init t0 => exact inv_init hc t0
  | step e o _ hit ih => exact (iter_inv hc ih e).2 _ _ hit

/-- the receive step preserves everything `send_request` looks at unless a probe is completed -/
theorem recv_fields {c : Cfg} {s s2 : TS} (h : Inv c s) {dt : Nat} {rv : RecvOutcome}
    (hr : recvResponse c s dt rv = .ok s2) :
    s2.sequence = s.sequence ∧ s2.roundSeq = s.roundSeq ∧ s2.ttl = s.ttl ∧ s2.round = s.round ∧
      s2.roundStart = s.roundStart ∧ s2.now = s.now + dt := by
  cases rv with
  | none => simp [recvResponse] at hr; subst hr; simp [tick]
  | fatal => simp [recvResponse] at hr
  | resp r =>
    rw [recvResponse_spec h] at hr
    cases hg : genuine c s r with
    | none => simp [hg] at hr; subst hr; simp [tick]
    | some p => simp [hg] at hr; subst hr; simp [afterComplete, tick]

end TV.Strat
