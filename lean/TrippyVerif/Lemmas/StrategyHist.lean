import TrippyVerif.Lemmas.Strategy
/-
History lemmas for C01: what each buffer slot holds, in terms of the log of `send_probe` calls
and of accepted responses of the round.
-/
namespace TV.Strat
open TV

/-- the slot a `send_probe` call leaves behind, given its outcome -/
def slotOf : Probe × SendOutcome → Slot
  | (p, .ok) => .awaited p
  | (p, .probeFailed) => .failed p
  | (_, .addrInUse) => .skipped
  | (p, .fatal) => .awaited p

theorem slotOf_addr (x : Probe × SendOutcome) (h : x.2 = .addrInUse) : slotOf x = .skipped := by
  obtain ⟨q, o⟩ := x; simp at h; subst h; rfl

/-- `s'` extends `s0` by the slots of `log` (in order, starting at `s0`'s first free slot) and
leaves the earlier slots alone -/
def Extends (s0 s' : TS) (log : List (Probe × SendOutcome)) : Prop :=
  (∀ k, k < s0.count → s'.buffer[k]? = s0.buffer[k]?) ∧
  (∀ k (h : k < log.length), s'.buffer[s0.count + k]? = some (slotOf log[k]))

theorem tcpLoop_extends {c : Cfg} (hc : CfgOk c) (htcp : c.proto = .tcp) (s0 : TS) (hi0 : Inv c s0) :
    ∀ (os : List SendOutcome) (s : TS) (p : Probe) (log : List (Probe × SendOutcome)),
      Alloc c s p → s.count = s0.count + log.length + 1 → s.roundSeq = s0.roundSeq →
      (∀ x ∈ log, x.2 = .addrInUse) →
      (∀ k, k < s0.count → s.buffer[k]? = s0.buffer[k]?) →
      (∀ k (h : k < log.length), s.buffer[s0.count + k]? = some .skipped) →
      ∀ s' lg, tcpLoop c s p log os = .ok (s', lg) → Extends s0 s' lg := by
  intro os
  induction os with
  | nil =>
    intro s p log ha hcnt hrs hall hlow hlog s' lg h
    simp [tcpLoop] at h
    obtain ⟨rfl, rfl⟩ := h
    refine ⟨hlow, fun k hk => ?_⟩
    simp at hk
    by_cases hk' : k < log.length
    · rw [hlog k hk']
      have : (log ++ [(p, SendOutcome.ok)])[k] = log[k] := by simp [List.getElem_append_left, hk']
      rw [this]
      rw [slotOf_addr _ (hall log[k] (List.getElem_mem hk'))]
    · have hk2 : k = log.length := by omega
      subst hk2
      have hs := ha.slot
      have : s.count - 1 = s0.count + log.length := by omega
      rw [this] at hs
      simp [hs, slotOf]
  | cons o os ih =>
    intro s p log ha hcnt hrs hall hlow hlog s' lg h
    have hfin : ∀ (s1 : TS) (o' : SendOutcome), (∀ k, k ≠ s.count - 1 → s1.buffer[k]? = s.buffer[k]?) →
        s1.buffer[s.count - 1]? = some (slotOf (p, o')) → Extends s0 s1 (log ++ [(p, o')]) := by
      intro s1 o' hsame hslot
      have hidx : s.count - 1 = s0.count + log.length := by omega
      refine ⟨fun k hk => by rw [hsame k (by omega)]; exact hlow k hk, fun k hk => ?_⟩
      simp at hk
      by_cases hk' : k < log.length
      · rw [hsame _ (by omega), hlog k hk']
        have : (log ++ [(p, o')])[k] = log[k] := by simp [List.getElem_append_left, hk']
        rw [this]
        rw [slotOf_addr _ (hall log[k] (List.getElem_mem hk'))]
      · have hk2 : k = log.length := by omega
        subst hk2
        rw [← hidx, hslot]; simp
    cases o with
    | ok =>
      simp [tcpLoop, doSend] at h
      obtain ⟨rfl, rfl⟩ := h
      exact hfin s .ok (fun _ _ => rfl) (by simpa [slotOf] using ha.slot)
    | probeFailed =>
      simp [tcpLoop, doSend, failProbe_spec ha] at h
      obtain ⟨rfl, rfl⟩ := h
      have hl : s.count - 1 < s.buffer.length := by
        have := ha.inv.count_le; rw [ha.inv.len]; have := ha.cnt; omega
      refine hfin _ .probeFailed (fun k hk => ?_) ?_
      · simp only [afterFail]; rw [List.getElem?_set_ne (Ne.symm hk)]
      · simp only [afterFail]; rw [List.getElem?_set_self hl]; rfl
    | fatal => simp [tcpLoop, doSend] at h
    | addrInUse =>
      by_cases hcap : s.count < BUFFER_SIZE
      · obtain ⟨p', hre, hs', ht', hr', hn'⟩ := reissueProbe_spec hc ha hcap s.now
        have halloc := alloc_afterReissue ha hcap htcp p' hs' ht' hr'
        simp only [tcpLoop, doSend, R.bind_ok, roundHasCapacity_eq ha.inv, hcap, decide_true, if_true, hre] at h
        have hge := ha.inv.seq_ge
        have hc1 := ha.cnt
        have hl : s.count < s.buffer.length := by rw [ha.inv.len]; exact hcap
        refine ih (afterReissue s p') p' (log ++ [(p, .addrInUse)]) halloc ?_ ?_ ?_ ?_ ?_ s' lg h
        · simp [afterReissue, TS.count] at *; omega
        · simpa [afterReissue] using hrs
        · intro x hx
          rcases List.mem_append.mp hx with hx | hx
          · exact hall x hx
          · simp at hx; subst hx; rfl
        · intro k hk
          simp only [afterReissue]
          rw [List.getElem?_set_ne (by omega), List.getElem?_set_ne (by omega)]
          exact hlow k hk
        · intro k hk
          simp at hk
          simp only [afterReissue]
          by_cases hk' : k < log.length
          · rw [List.getElem?_set_ne (by omega), List.getElem?_set_ne (by omega)]
            exact hlog k hk'
          · have hk2 : k = log.length := by omega
            subst hk2
            have : s0.count + log.length = s.count - 1 := by omega
            rw [this, List.getElem?_set_ne (by omega), List.getElem?_set_self (by omega)]
      · simp [tcpLoop, doSend, roundHasCapacity_eq ha.inv, hcap] at h


theorem tcpLoop_no_fatal (c : Cfg) : ∀ (os : List SendOutcome) (s : TS) (p : Probe)
    (log : List (Probe × SendOutcome)), (∀ x ∈ log, x.2 ≠ .fatal) →
    ∀ s' lg, tcpLoop c s p log os = .ok (s', lg) → ∀ x ∈ lg, x.2 ≠ .fatal := by
  intro os
  induction os with
  | nil =>
    intro s p log hl s' lg h x hx
    simp [tcpLoop] at h; obtain ⟨_, rfl⟩ := h
    rcases List.mem_append.mp hx with hx | hx
    · exact hl x hx
    · simp at hx; subst hx; simp
  | cons o os ih =>
    intro s p log hl s' lg h
    have hl' : ∀ o', o' ≠ .fatal → ∀ x ∈ log ++ [(p, o')], x.2 ≠ .fatal := by
      intro o' ho x hx
      rcases List.mem_append.mp hx with hx | hx
      · exact hl x hx
      · simp at hx; subst hx; exact ho
    cases o with
    | ok =>
      simp [tcpLoop, doSend] at h; obtain ⟨_, rfl⟩ := h
      exact hl' .ok (by simp)
    | probeFailed =>
      simp only [tcpLoop, doSend] at h
      cases hf : failProbe s with
      | ok s1 => simp [hf] at h; obtain ⟨_, rfl⟩ := h; exact hl' .probeFailed (by simp)
      | err e => simp [hf] at h
      | panic => simp [hf] at h
    | fatal => simp [tcpLoop, doSend] at h
    | addrInUse =>
      simp only [tcpLoop, doSend, R.bind_ok] at h
      cases hcap : roundHasCapacity s with
      | ok b =>
        simp only [hcap, R.bind_ok] at h
        cases b with
        | true =>
          simp only [if_true] at h
          cases hr : reissueProbe c s s.now with
          | ok v =>
            obtain ⟨s1, p1⟩ := v
            simp only [hr, R.bind_ok] at h
            exact ih s1 p1 _ (hl' .addrInUse (by simp)) s' lg h
          | err e => simp [hr] at h
          | panic => simp [hr] at h
        | false => simp at h
      | err e => simp [hcap] at h
      | panic => simp [hcap] at h

theorem sendRequest_extends {c : Cfg} {s : TS} (hc : CfgOk c) (h : Inv c s) (sends : List SendOutcome)
    (s' : TS) (lg : List (Probe × SendOutcome)) (hsr : sendRequest c s sends = .ok (s', lg)) :
    Extends s s' lg ∧ (∀ x ∈ lg, x.2 ≠ .fatal) := by
  have hml := hc.max_le
  unfold sendRequest at hsr
  simp only [canSendR_eq hc h, R.bind_ok] at hsr
  by_cases hg : canSend c s = true
  · rw [if_pos hg] at hsr
    have hg' := hg
    simp only [canSend, Bool.and_eq_true, Bool.not_eq_true', decide_eq_true_eq] at hg'
    have h254 : s.ttl ≤ 254 := by omega
    unfold doSends at hsr
    have hge := h.seq_ge
    -- effect of next_probe on the buffer
    have hnextbuf : ∀ p, (∀ k, k < s.count → (afterNext s p).buffer[k]? = s.buffer[k]?) := by
      intro p k hk; simp only [afterNext]; rw [List.getElem?_set_ne (by omega)]
    cases hp : c.proto with
    | tcp =>
      simp only [hp, roundHasCapacity_eq h, R.bind_ok] at hsr
      by_cases hcap : s.count < BUFFER_SIZE
      · obtain ⟨p, hnp, hs1, ht1, hr1, _⟩ := nextProbe_spec hc h hcap h254 s.now
        have ha := alloc_afterNext h hcap h254 p hs1 ht1 hr1
        simp only [hcap, decide_true, if_true, hnp, R.bind_ok] at hsr
        have hcnt : (afterNext s p).count = s.count + 0 + 1 := by simp [afterNext, TS.count]; omega
        have hext := tcpLoop_extends hc hp s h sends (afterNext s p) p [] ha (by simpa using hcnt) rfl
          (by simp) (hnextbuf p) (by simp) s' lg hsr
        exact ⟨hext, tcpLoop_no_fatal c sends _ p [] (by simp) s' lg hsr⟩
      · simp [hcap] at hsr
    | icmp =>
      have hcnt : s.count < BUFFER_SIZE := by
        have := h.count_ttl (by simp [hp]); simp [BUFFER_SIZE_eq]; omega
      obtain ⟨p, hnp, hs1, ht1, hr1, _⟩ := nextProbe_spec hc h hcnt h254 s.now
      have ha := alloc_afterNext h hcnt h254 p hs1 ht1 hr1
      have hl : s.count < s.buffer.length := by rw [h.len]; exact hcnt
      simp only [hp, hnp, R.bind_ok] at hsr
      rcases hh : headOutcome sends with ⟨o, rest⟩
      rw [hh] at hsr
      cases o with
      | ok =>
        simp [doSend] at hsr; obtain ⟨rfl, rfl⟩ := hsr
        refine ⟨⟨hnextbuf p, fun k hk => ?_⟩, by simp⟩
        simp at hk; subst hk
        simp [afterNext, hl, slotOf]
      | probeFailed =>
        simp [doSend, failProbe_spec ha] at hsr; obtain ⟨rfl, rfl⟩ := hsr
        have hcn : (afterNext s p).count - 1 = s.count := by simp [afterNext, TS.count]; omega
        refine ⟨⟨fun k hk => ?_, fun k hk => ?_⟩, by simp⟩
        · simp only [afterFail, hcn]; rw [List.getElem?_set_ne (by omega)]; exact hnextbuf p k hk
        · simp at hk; subst hk
          simp only [afterFail, hcn, Nat.add_zero]
          rw [List.getElem?_set_self (by simp [afterNext]; exact hl)]; rfl
      | addrInUse => simp [doSend] at hsr
      | fatal => simp [doSend] at hsr
    | udp =>
      have hcnt : s.count < BUFFER_SIZE := by
        have := h.count_ttl (by simp [hp]); simp [BUFFER_SIZE_eq]; omega
      obtain ⟨p, hnp, hs1, ht1, hr1, _⟩ := nextProbe_spec hc h hcnt h254 s.now
      have ha := alloc_afterNext h hcnt h254 p hs1 ht1 hr1
      have hl : s.count < s.buffer.length := by rw [h.len]; exact hcnt
      simp only [hp, hnp, R.bind_ok] at hsr
      rcases hh : headOutcome sends with ⟨o, rest⟩
      rw [hh] at hsr
      cases o with
      | ok =>
        simp [doSend] at hsr; obtain ⟨rfl, rfl⟩ := hsr
        refine ⟨⟨hnextbuf p, fun k hk => ?_⟩, by simp⟩
        simp at hk; subst hk
        simp [afterNext, hl, slotOf]
      | probeFailed =>
        simp [doSend, failProbe_spec ha] at hsr; obtain ⟨rfl, rfl⟩ := hsr
        have hcn : (afterNext s p).count - 1 = s.count := by simp [afterNext, TS.count]; omega
        refine ⟨⟨fun k hk => ?_, fun k hk => ?_⟩, by simp⟩
        · simp only [afterFail, hcn]; rw [List.getElem?_set_ne (by omega)]; exact hnextbuf p k hk
        · simp at hk; subst hk
          simp only [afterFail, hcn, Nat.add_zero]
          rw [List.getElem?_set_self (by simp [afterNext]; exact hl)]; rfl
      | addrInUse => simp [doSend] at hsr
      | fatal => simp [doSend] at hsr
  · rw [if_neg hg] at hsr
    simp at hsr; obtain ⟨rfl, rfl⟩ := hsr
    exact ⟨⟨fun _ _ => rfl, fun k hk => by simp at hk⟩, by simp⟩


/-! ### ghost history of the round in progress -/

/-- the `send_probe` calls (with their outcomes) and the accepted responses of the current round -/
structure Ghost where
  sent : List (Probe × SendOutcome) := []
  accepted : List (Probe × SResp) := []

def mkComplete (p : Probe) (r : SResp) : Complete :=
  { probe := p, host := r.addr, received := r.received, kind := r.kind, tos := r.tos,
    expCk := r.expCk, actCk := r.actCk, ext := r.ext }

/-- what the network did to the probe of one `send_probe` call: the slot it must be reported as -/
def expectedSlot (acc : List (Probe × SResp)) (x : Probe × SendOutcome) : Slot :=
  match x.2 with
  | .ok =>
    match acc.find? (fun a => a.1.seq = x.1.seq) with
    | some a => .complete (mkComplete a.1 a.2)
    | none => .awaited x.1
  | _ => slotOf x

structure GInv (c : Cfg) (s : TS) (g : Ghost) : Prop where
  len : g.sent.length = s.count
  slots : ∀ k (h : k < g.sent.length), s.buffer[k]? = some (expectedSlot g.accepted g.sent[k])
  seqs : ∀ k (h : k < g.sent.length), g.sent[k].1.seq = s.roundSeq + k
  nofatal : ∀ x ∈ g.sent, x.2 ≠ .fatal
  acc : ∀ a ∈ g.accepted, (a.1, SendOutcome.ok) ∈ g.sent

theorem expectedSlot_not_ok (acc : List (Probe × SResp)) (x : Probe × SendOutcome) (h : x.2 ≠ .ok) :
    expectedSlot acc x = slotOf x := by
  obtain ⟨p, o⟩ := x
  cases o <;> simp_all [expectedSlot]

theorem expectedSlot_nil (x : Probe × SendOutcome) (h : x.2 ≠ .fatal) : expectedSlot [] x = slotOf x := by
  obtain ⟨p, o⟩ := x
  cases o <;> simp_all [expectedSlot, slotOf]

/-- sending: the ghost log grows by the iteration's log -/
theorem ginv_send {c : Cfg} {s s' : TS} {g : Ghost} (hc : CfgOk c) (h : Inv c s) (hg : GInv c s g)
    (sends : List SendOutcome) (lg : List (Probe × SendOutcome))
    (hsr : sendRequest c s sends = .ok (s', lg)) :
    GInv c s' { g with sent := g.sent ++ lg } := by
  obtain ⟨hext, hnf⟩ := sendRequest_extends hc h sends s' lg hsr
  obtain ⟨hi', hnil, hcons⟩ := (sendRequest_spec hc h sends).2 s' lg hsr
  by_cases hl : lg = []
  · subst hl; obtain ⟨rfl, _⟩ := hnil rfl; simpa using hg
  · obtain ⟨_, hso⟩ := hcons hl
    have hrs : s'.roundSeq = s.roundSeq := hso.same.1.symm
    have hge := h.seq_ge
    have hcnt : s'.count = s.count + lg.length := by
      have := hso.seq; simp [TS.count, hrs]; omega
    have hseqlg : ∀ k (hk : k < lg.length), lg[k].1.seq = s.sequence + k := by
      intro k hk
      have := congrArg (fun l => l[k]?) hso.seqs
      simp [hk] at this
      exact this
    -- a fresh sequence number is not among the accepted ones
    have hfresh : ∀ k (hk : k < lg.length), g.accepted.find? (fun a => a.1.seq = lg[k].1.seq) = none := by
      intro k hk
      rw [List.find?_eq_none]
      intro a ha hx
      simp at hx
      have hm := hg.acc a ha
      obtain ⟨j, hj, hje⟩ := List.getElem_of_mem hm
      have := hg.seqs j hj
      rw [hje] at this
      have hlen := hg.len
      have := hseqlg k hk
      have hseq := h.seq_eq
      simp at *; omega
    refine ⟨by simp [hg.len, hcnt], ?_, ?_, ?_, ?_⟩
    · intro k hk
      simp at hk
      by_cases hk' : k < g.sent.length
      · rw [List.getElem_append_left hk', hext.1 k (by rw [← hg.len]; exact hk')]
        exact hg.slots k hk'
      · have hk2 : k - g.sent.length < lg.length := by omega
        rw [List.getElem_append_right (by omega)]
        have := hext.2 (k - g.sent.length) hk2
        rw [← hg.len, show g.sent.length + (k - g.sent.length) = k by omega] at this
        rw [this]
        have hx := hnf _ (List.getElem_mem hk2)
        generalize hxe : lg[k - g.sent.length] = x at *
        obtain ⟨q, o⟩ := x
        cases o with
        | ok =>
          have := hfresh (k - g.sent.length) hk2
          rw [hxe] at this
          simp [expectedSlot, this, slotOf]
        | probeFailed => simp [expectedSlot]
        | addrInUse => simp [expectedSlot]
        | fatal => exact absurd rfl hx
    · intro k hk
      simp at hk
      by_cases hk' : k < g.sent.length
      · rw [List.getElem_append_left hk', hrs]; exact hg.seqs k hk'
      · have hk2 : k - g.sent.length < lg.length := by omega
        rw [List.getElem_append_right (by omega), hseqlg _ hk2, hrs]
        have := hg.len; have := h.seq_eq; omega
    · intro x hx
      rcases List.mem_append.mp hx with hx | hx
      · exact hg.nofatal x hx
      · exact hnf x hx
    · intro a ha; exact List.mem_append_left _ (hg.acc a ha)


theorem ginv_tick {c : Cfg} {s : TS} {g : Ghost} (hg : GInv c s g) (dt : Nat) : GInv c (tick s dt) g :=
  ⟨hg.len, hg.slots, hg.seqs, hg.nofatal, hg.acc⟩

/-- accepting a genuine response: exactly that probe's slot becomes `Complete` with the response's
data; the ghost log of accepted responses grows by it -/
theorem ginv_accept {c : Cfg} {s : TS} {g : Ghost} (h : Inv c s) (hg : GInv c s g) (r : SResp) (p : Probe)
    (ha : answered s r.seq = some p) :
    GInv c (afterComplete s r p) { g with accepted := g.accepted ++ [(p, r)] } ∧
    (p, SendOutcome.ok) ∈ g.sent ∧ g.accepted.find? (fun a => a.1.seq = p.seq) = none := by
  obtain ⟨hge, hlt, hseq, hr, _, _, hsl⟩ := answered_props h ha
  have hcnt := h.seq_eq
  have hidx : r.seq - s.roundSeq < g.sent.length := by rw [hg.len]; omega
  have hslot := hg.slots _ hidx
  rw [hsl] at hslot
  -- the log entry at that index is (p, ok) and nothing was accepted for it yet
  have hentry : g.sent[r.seq - s.roundSeq] = (p, SendOutcome.ok) ∧
      g.accepted.find? (fun a => a.1.seq = p.seq) = none := by
    have hnf := hg.nofatal _ (List.getElem_mem hidx)
    have hsq := hg.seqs _ hidx
    generalize g.sent[r.seq - s.roundSeq] = x at *
    obtain ⟨q, o⟩ := x
    cases o with
    | ok =>
      simp only [expectedSlot] at hslot
      cases hf : g.accepted.find? (fun a => a.1.seq = q.seq) with
      | none =>
        simp [hf] at hslot; subst hslot
        exact ⟨rfl, hf⟩
      | some a => simp [hf] at hslot
    | probeFailed => simp [expectedSlot, slotOf] at hslot
    | addrInUse => simp [expectedSlot, slotOf] at hslot
    | fatal => exact absurd rfl hnf
  obtain ⟨hent, hnone⟩ := hentry
  have hmem : (p, SendOutcome.ok) ∈ g.sent := hent ▸ List.getElem_mem hidx
  have hblen : r.seq - s.roundSeq < s.buffer.length := (List.getElem?_eq_some_iff.mp hsl).1
  refine ⟨⟨hg.len, ?_, hg.seqs, hg.nofatal, ?_⟩, hmem, hnone⟩
  · intro k hk
    simp only [afterComplete]
    by_cases hki : k = r.seq - s.roundSeq
    · subst hki
      rw [List.getElem?_set_self hblen, hent]
      simp only [expectedSlot]
      rw [List.find?_append, hnone]
      simp [mkComplete]
    · rw [List.getElem?_set_ne (Ne.symm hki), hg.slots k hk]
      have hsk := hg.seqs k hk
      generalize g.sent[k] = x at *
      obtain ⟨q, o⟩ := x
      cases o with
      | ok =>
        simp only [expectedSlot]
        rw [List.find?_append]
        cases hf : g.accepted.find? (fun a => a.1.seq = q.seq) with
        | some a => simp
        | none =>
          have : ¬ (p.seq = q.seq) := by simp at hsk; omega
          simp [this]
      | probeFailed => simp [expectedSlot]
      | addrInUse => simp [expectedSlot]
      | fatal => simp [expectedSlot]
  · intro a ha'
    rcases List.mem_append.mp ha' with ha' | ha'
    · exact hg.acc a ha'
    · simp at ha'; subst ha'; exact hmem

/-- what the round reports at publication: one entry per `send_probe` call, in order, each the
slot its outcome and the accepted responses dictate -/
theorem published_probes {c : Cfg} {s : TS} {g : Ghost} (hc : CfgOk c) (h : Inv c s) (hg : GInv c s g) :
    ∃ r, publishTrace s = .ok r ∧ r.probes = g.sent.map (expectedSlot g.accepted) := by
  obtain ⟨r, hr, hp, _⟩ := publishTrace_ok hc h
  refine ⟨r, hr, ?_⟩
  rw [hp]
  apply List.ext_getElem?
  intro k
  by_cases hk : k < g.sent.length
  · rw [List.getElem?_take_of_lt (by rw [← hg.len]; exact hk), hg.slots k hk]
    simp [hk]
  · have : s.count ≤ k := by rw [← hg.len]; omega
    rw [List.getElem?_take_eq_none this]
    have hk2 : g.sent.length ≤ k := by omega
    simp [hk2]

end TV.Strat

namespace TV.Strat

/-- the TTL discipline of a round's `send_probe` log: starts at `first`, a re-issue (the entry
after an address-in-use outcome) keeps the TTL, every other entry increases it by one.
`ttlsFrom t log` : the log is well-formed when the next fresh TTL is `t`; returns the next fresh TTL. -/
def ttlsFrom : Nat → List (Probe × SendOutcome) → Option Nat
  | t, [] => some t
  | t, (p, o) :: rest =>
    if p.ttl = t then (if o = .addrInUse then ttlsFrom t rest else ttlsFrom (t + 1) rest) else none

theorem ttlsFrom_append (t : Nat) (l1 l2 : List (Probe × SendOutcome)) :
    ttlsFrom t (l1 ++ l2) = (ttlsFrom t l1).bind fun t' => ttlsFrom t' l2 := by
  induction l1 generalizing t with
  | nil => simp [ttlsFrom]
  | cons x xs ih =>
    obtain ⟨p, o⟩ := x
    simp only [List.cons_append, ttlsFrom]
    split
    · split <;> exact ih _
    · simp

/-- shape of the log of one sending iteration: some re-issues (address in use), then one final
call that was not (sent, or failed to send) -/
def LogShape (lg : List (Probe × SendOutcome)) : Prop :=
  ∃ pre last, lg = pre ++ [last] ∧ (∀ x ∈ pre, x.2 = .addrInUse) ∧
    (last.2 = .ok ∨ last.2 = .probeFailed)

theorem ttlsFrom_reissues (t : Nat) (pre : List (Probe × SendOutcome))
    (hall : ∀ x ∈ pre, x.1.ttl = t) (hin : ∀ x ∈ pre, x.2 = .addrInUse) : ttlsFrom t pre = some t := by
  induction pre with
  | nil => rfl
  | cons x xs ih =>
    obtain ⟨p, o⟩ := x
    have hp : p.ttl = t := hall (p, o) (by simp)
    have ho : o = .addrInUse := hin (p, o) (by simp)
    simp only [ttlsFrom, hp, ho, if_true]
    exact ih (fun z hz => hall z (by simp [hz])) (fun z hz => hin z (by simp [hz]))

/-- one sending iteration consumes exactly one fresh TTL -/
theorem ttlsFrom_iteration (t : Nat) (lg : List (Probe × SendOutcome)) (hs : LogShape lg)
    (hall : ∀ x ∈ lg, x.1.ttl = t) : ttlsFrom t lg = some (t + 1) := by
  obtain ⟨pre, last, rfl, hin, hl⟩ := hs
  rw [ttlsFrom_append, ttlsFrom_reissues t pre (fun x hx => hall x (by simp [hx])) hin]
  obtain ⟨p, o⟩ := last
  have hp : p.ttl = t := hall (p, o) (by simp)
  simp only [Option.bind_some, ttlsFrom, hp, if_true]
  rcases hl with h | h <;> simp at h <;> subst h <;> simp

theorem tcpLoop_shape (c : Cfg) : ∀ (os : List SendOutcome) (s : TS) (p : Probe)
    (log : List (Probe × SendOutcome)), (∀ x ∈ log, x.2 = .addrInUse) →
    ∀ s' lg, tcpLoop c s p log os = .ok (s', lg) → LogShape lg := by
  intro os
  induction os with
  | nil =>
    intro s p log hlog s' lg h
    simp [tcpLoop] at h
    exact ⟨log, (p, .ok), h.2.symm, hlog, Or.inl rfl⟩
  | cons o os ih =>
    intro s p log hlog s' lg h
    cases o with
    | ok =>
      simp [tcpLoop, doSend] at h
      exact ⟨log, (p, .ok), h.2.symm, hlog, Or.inl rfl⟩
    | probeFailed =>
      simp only [tcpLoop, doSend] at h
      cases hf : failProbe s with
      | ok s2 =>
        simp [hf] at h
        exact ⟨log, (p, .probeFailed), h.2.symm, hlog, Or.inr rfl⟩
      | err e => simp [hf] at h
      | panic => simp [hf] at h
    | addrInUse =>
      simp only [tcpLoop, doSend, R.bind_ok] at h
      cases hcap : roundHasCapacity s with
      | ok b =>
        cases b with
        | true =>
          simp only [hcap, R.bind_ok, if_true] at h
          cases hr : reissueProbe c s s.now with
          | ok sp =>
            obtain ⟨s2, p2⟩ := sp
            simp only [hr, R.bind_ok] at h
            exact ih s2 p2 (log ++ [(p, .addrInUse)])
              (by intro x hx; simp at hx; rcases hx with hx | hx; exact hlog x hx; subst hx; rfl) s' lg h
          | err e => simp [hr] at h
          | panic => simp [hr] at h
        | false => simp [hcap] at h
      | err e => simp [hcap] at h
      | panic => simp [hcap] at h
    | fatal => simp [tcpLoop, doSend] at h

theorem sendRequest_shape (c : Cfg) (s : TS) (sends : List SendOutcome) (s' : TS)
    (lg : List (Probe × SendOutcome)) (h : sendRequest c s sends = .ok (s', lg)) (hne : lg ≠ []) :
    LogShape lg := by
  unfold sendRequest at h
  cases hg : canSendR c s with
  | ok b =>
    cases b with
    | false => simp [hg] at h; exact absurd h.2.symm (fun e => hne e.symm)
    | true =>
      simp only [hg, R.bind_ok, if_true] at h
      unfold doSends at h
      have single : ∀ (p : Probe) (o : SendOutcome) (s1 : TS),
          (do let (s, e) ← doSend s1 o
              match e with
              | none => (.ok (s, [(p, o)]) : R (TS × List (Probe × SendOutcome)))
              | some e => .err e) = .ok (s', lg) → LogShape lg := by
        intro p o s1 h
        cases o with
        | ok => simp [doSend] at h; exact ⟨[], (p, .ok), by simp [h.2.symm], by simp, Or.inl rfl⟩
        | probeFailed =>
          simp only [doSend] at h
          cases hf : failProbe s1 with
          | ok s2 => simp [hf] at h; exact ⟨[], (p, .probeFailed), by simp [h.2.symm], by simp, Or.inr rfl⟩
          | err e => simp [hf] at h
          | panic => simp [hf] at h
        | addrInUse => simp [doSend] at h
        | fatal => simp [doSend] at h
      cases hp : c.proto with
      | tcp =>
        simp only [hp] at h
        cases hcap : roundHasCapacity s with
        | ok b =>
          cases b with
          | true =>
            simp only [hcap, R.bind_ok, if_true] at h
            cases hn : nextProbe c s s.now with
            | ok sp =>
              obtain ⟨s1, p⟩ := sp
              simp only [hn, R.bind_ok] at h
              exact tcpLoop_shape c sends s1 p [] (by simp) s' lg h
            | err e => simp [hn] at h
            | panic => simp [hn] at h
          | false => simp [hcap] at h
        | err e => simp [hcap] at h
        | panic => simp [hcap] at h
      | icmp =>
        simp only [hp] at h
        cases hn : nextProbe c s s.now with
        | ok sp =>
          obtain ⟨s1, p⟩ := sp
          simp only [hn, R.bind_ok] at h
          exact single p _ s1 h
        | err e => simp [hn] at h
        | panic => simp [hn] at h
      | udp =>
        simp only [hp] at h
        cases hn : nextProbe c s s.now with
        | ok sp =>
          obtain ⟨s1, p⟩ := sp
          simp only [hn, R.bind_ok] at h
          exact single p _ s1 h
        | err e => simp [hn] at h
        | panic => simp [hn] at h
  | err e => simp [hg] at h
  | panic => simp [hg] at h

end TV.Strat
