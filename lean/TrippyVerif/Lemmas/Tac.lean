/-
Tactic macros shared by the bit-level proofs (no model content).
-/
open Lean in
/-- `dbuf b h n`: destructure buffer `b` into `n` leading cons cells using `h : n ≤ b.length`. -/
syntax "dbuf " ident ident num : tactic
open Lean in
macro_rules
  | `(tactic| dbuf $b:ident $h:ident $n:num) => do
    let k := n.getNat
    if k = 0 then `(tactic| skip) else
    let n' := Syntax.mkNumLit (toString (k - 1))
    `(tactic| (rcases $b:ident with _ | ⟨_, $b:ident⟩
               · (simp only [List.length_nil, List.length_cons] at $h:ident; omega)
               dbuf $b $h $n'))

macro "bit_finish" : tactic => `(tactic| (
  first
  | (simp; done)
  | (simp only [← BitVec.getLsbD_eq_getElem, BitVec.getLsbD_append]; simp; done)
  | (simp; simp only [← BitVec.getLsbD_eq_getElem, BitVec.getLsbD_append]; simp; done)))

-- with `i : Nat` and `hi : i < n` in scope: decide every bit position separately
set_option hygiene false in
macro "bitcases8" : tactic => `(tactic| (
  have hcases : i = 0 ∨ i = 1 ∨ i = 2 ∨ i = 3 ∨ i = 4 ∨ i = 5 ∨ i = 6 ∨ i = 7 := by omega
  rcases hcases with h | h | h | h | h | h | h | h <;> subst h <;> bit_finish))
set_option hygiene false in
macro "bitcases16" : tactic => `(tactic| (
  have hcases : i = 0 ∨ i = 1 ∨ i = 2 ∨ i = 3 ∨ i = 4 ∨ i = 5 ∨ i = 6 ∨ i = 7 ∨ i = 8 ∨ i = 9 ∨ i = 10 ∨ i = 11 ∨ i = 12 ∨ i = 13 ∨ i = 14 ∨ i = 15 := by omega
  rcases hcases with h | h | h | h | h | h | h | h | h | h | h | h | h | h | h | h <;> subst h <;> bit_finish))
set_option hygiene false in
macro "bitcases24" : tactic => `(tactic| (
  have hcases : i = 0 ∨ i = 1 ∨ i = 2 ∨ i = 3 ∨ i = 4 ∨ i = 5 ∨ i = 6 ∨ i = 7 ∨ i = 8 ∨ i = 9 ∨ i = 10 ∨ i = 11 ∨ i = 12 ∨ i = 13 ∨ i = 14 ∨ i = 15 ∨ i = 16 ∨ i = 17 ∨ i = 18 ∨ i = 19 ∨ i = 20 ∨ i = 21 ∨ i = 22 ∨ i = 23 := by omega
  rcases hcases with h | h | h | h | h | h | h | h | h | h | h | h | h | h | h | h | h | h | h | h | h | h | h | h <;> subst h <;> bit_finish))
set_option hygiene false in
macro "bitcases32" : tactic => `(tactic| (
  have hcases : i = 0 ∨ i = 1 ∨ i = 2 ∨ i = 3 ∨ i = 4 ∨ i = 5 ∨ i = 6 ∨ i = 7 ∨ i = 8 ∨ i = 9 ∨ i = 10 ∨ i = 11 ∨ i = 12 ∨ i = 13 ∨ i = 14 ∨ i = 15 ∨ i = 16 ∨ i = 17 ∨ i = 18 ∨ i = 19 ∨ i = 20 ∨ i = 21 ∨ i = 22 ∨ i = 23 ∨ i = 24 ∨ i = 25 ∨ i = 26 ∨ i = 27 ∨ i = 28 ∨ i = 29 ∨ i = 30 ∨ i = 31 := by omega
  rcases hcases with h | h | h | h | h | h | h | h | h | h | h | h | h | h | h | h | h | h | h | h | h | h | h | h | h | h | h | h | h | h | h | h <;> subst h <;> bit_finish))
