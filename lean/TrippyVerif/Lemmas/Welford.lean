import Mathlib.Tactic.Ring
import Mathlib.Tactic.FieldSimp
import Mathlib.Tactic.Linarith
import TrippyVerif.Lemmas.StateAgg
/-
The aggregator's `f64` arithmetic over the exact rationals (C05, real-arithmetic half).

`instNumRat` interprets the operations of `TV.Agg.Num` in ℚ, so that `Hop ℚ` is the aggregator
with exact arithmetic.  IEEE ROUNDING IS NOT MODELLED: these theorems say that the *formulas* the
code uses compute what they should, they do
not bound the floating point error (the harness compares the real `f64` results with the bit-exact
`Float` run of the same model, and with two-pass `f64` formulas at relative tolerance 1e-9).
-/
set_option linter.unusedSectionVars false
set_option linter.unusedSimpArgs false
set_option linter.unusedVariables false
namespace TV.Agg
open TV TV.Strat TV.Reagg

instance instNumRat : Num Rat where
  add := (· + ·)
  sub := (· - ·)
  mul := (· * ·)
  div := (· / ·)
  ofNat n := (n : Rat)
  abs x := |x|
  maxHalf x := max x (1 / 2)
  durMs ns := (ns : Rat) / 1000000
  toDur x := (x * 1000000).floor.toNat

theorem abs_natCast_sub (a b : Nat) : |(a : Rat) - b| = ((absDiff a b : Nat) : Rat) := by
  unfold absDiff
  rcases Nat.le_total a b with h | h
  · rw [abs_of_nonpos (by simp [h])]
    have : a - b = 0 := by omega
    simp [this, Nat.cast_sub h]
  · rw [abs_of_nonneg (by simp [h])]
    have : b - a = 0 := by omega
    simp [this, Nat.cast_sub h]

/-- the jitter in ms as the code computes it -/
theorem jitterMs_eq (a b : Nat) :
    (Num.abs ((Num.durMs a : Rat) - Num.durMs b) : Rat) = ((absDiff a b : Nat) : Rat) / 1000000 := by
  show |(a : Rat) / 1000000 - (b : Rat) / 1000000| = _
  rw [← abs_natCast_sub]
  rcases Nat.le_total a b with h | h
  · have hq : (a : Rat) ≤ b := by exact_mod_cast h
    rw [abs_of_nonpos (by linarith), abs_of_nonpos (by linarith)]; ring
  · have hq : (b : Rat) ≤ a := by exact_mod_cast h
    rw [abs_of_nonneg (by linarith), abs_of_nonneg (by linarith)]; ring

/-- over ℚ the jitter durations are exact -/
instance : ExactDur Rat where
  toDur_diff a b := by
    show ((Num.abs ((Num.durMs a : Rat) - Num.durMs b) : Rat) * 1000000).floor.toNat = _
    rw [jitterMs_eq]
    have : ((absDiff a b : Nat) : Rat) / 1000000 * 1000000 = ((absDiff a b : Nat) : Rat) := by field_simp
    rw [this]; simp [Rat.floor]
  toDur_first a := by
    have h := jitterMs_eq a 0
    have h0 : (Num.durMs 0 : Rat) = Num.ofNat 0 := by show ((0 : Nat) : Rat) / 1000000 = ((0 : Nat) : Rat); simp
    rw [h0] at h
    show ((Num.abs ((Num.durMs a : Rat) - Num.ofNat 0) : Rat) * 1000000).floor.toNat = _
    rw [h, absDiff_zero]
    have : ((a : Nat) : Rat) / 1000000 * 1000000 = (a : Rat) := by field_simp
    rw [this]; simp [Rat.floor]

/-! ## the incremental recurrences, as pure functions of the series -/

/-- `mean += (x - mean) / n` after incrementing `n`; state = (n, mean) -/
def meanStep (s : Nat × Rat) (x : Rat) : Nat × Rat := (s.1 + 1, s.2 + (x - s.2) / ((s.1 + 1 : Nat) : Rat))

/-- Welford's update as coded: `delta = x - mean; mean += delta / n; m2 += delta * (x - mean)`;
state = (n, mean, m2) -/
def welfordStep (s : Nat × Rat × Rat) (x : Rat) : Nat × Rat × Rat :=
  let mean' := s.2.1 + (x - s.2.1) / ((s.1 + 1 : Nat) : Rat)
  (s.1 + 1, mean', s.2.2 + (x - s.2.1) * (x - mean'))

/-- the running mean is the arithmetic mean: `n · mean_n = Σ xᵢ` -/
theorem meanStep_fold (xs : List Rat) :
    (xs.foldl meanStep (0, 0)).1 = xs.length ∧
    ((xs.length : Nat) : Rat) * (xs.foldl meanStep (0, 0)).2 = xs.sum := by
  induction xs using snoc_induction with
  | nil => simp
  | snoc xs x ih =>
    obtain ⟨h1, h2⟩ := ih
    rw [List.foldl_append, List.foldl_cons, List.foldl_nil]
    generalize xs.foldl meanStep (0, 0) = s at h1 h2
    obtain ⟨n, m⟩ := s
    simp only at h1 h2
    subst h1
    refine ⟨by simp [meanStep], ?_⟩
    simp only [meanStep, List.length_append, List.length_cons, List.length_nil, List.sum_append,
      List.sum_cons, List.sum_nil, ← h2]
    have : ((xs.length + 0 + 1 : Nat) : Rat) ≠ 0 := by positivity
    push_cast at this ⊢
    field_simp
    ring

theorem mean_eq (xs : List Rat) (h : xs ≠ []) : (xs.foldl meanStep (0, 0)).2 = xs.sum / xs.length := by
  have := (meanStep_fold xs).2
  have hn : ((xs.length : Nat) : Rat) ≠ 0 := by
    have : xs.length ≠ 0 := fun h' => h (List.length_eq_zero_iff.1 h')
    exact_mod_cast this
  rw [← this]; field_simp

theorem sum_sq_shift (xs : List Rat) (a b : Rat) :
    (xs.map fun x => (x - b) * (x - b)).sum =
      (xs.map fun x => (x - a) * (x - a)).sum + (xs.length : Rat) * ((a - b) * (a - b))
        + 2 * (a - b) * (xs.sum - (xs.length : Rat) * a) := by
  induction xs with
  | nil => simp
  | cons x xs ih => simp only [List.map_cons, List.sum_cons, List.length_cons, ih]; push_cast; ring

/-- Welford's recurrence computes the two-pass quantities: the arithmetic mean and the sum of
squared deviations from it -/
theorem welford_two_pass (xs : List Rat) :
    (xs.foldl welfordStep (0, 0, 0)).1 = xs.length ∧
    ((xs.length : Nat) : Rat) * (xs.foldl welfordStep (0, 0, 0)).2.1 = xs.sum ∧
    (xs.foldl welfordStep (0, 0, 0)).2.2 =
      (xs.map fun x => (x - (xs.foldl welfordStep (0, 0, 0)).2.1) * (x - (xs.foldl welfordStep (0, 0, 0)).2.1)).sum := by
  induction xs using snoc_induction with
  | nil => simp
  | snoc xs x ih =>
    obtain ⟨h1, h2, h3⟩ := ih
    rw [List.foldl_append, List.foldl_cons, List.foldl_nil]
    generalize xs.foldl welfordStep (0, 0, 0) = s at h1 h2 h3
    obtain ⟨n, m, q⟩ := s
    simp only at h1 h2 h3
    subst h1
    have hne : ((xs.length + 1 : Nat) : Rat) ≠ 0 := by positivity
    refine ⟨by simp [welfordStep], ?_, ?_⟩
    · simp only [welfordStep, List.length_append, List.length_cons, List.length_nil, List.sum_append,
        List.sum_cons, List.sum_nil, ← h2]
      push_cast at hne ⊢
      field_simp
      ring
    · simp only [welfordStep, List.map_append, List.map_cons, List.map_nil, List.sum_append,
        List.sum_cons, List.sum_nil]
      rw [sum_sq_shift xs m, ← h3, ← h2]
      push_cast at hne ⊢
      field_simp
      ring

/-
Historical note (not a theorem about the present code): before the repair of state.rs the update was
`hop.m2 += (dur_ms - hop.mean) * (dur_ms - hop.mean)` *after* `hop.mean` had been updated, i.e. both
factors used the new mean.  That increment is Welford's increment scaled by `(n−1)/n`; on the series
1 ms, 3 ms it yields `m2 = 1` where the sum of squared deviations is 2 (`stddev_ms` 1 instead of √2).
The harness oracle `c05-stddev` detects it.
-/

/-! ## the model over ℚ follows these recurrences -/

/-- the round-trip times in ms -/
def msOf (ds : List Nat) : List Rat := ds.map fun (d : Nat) => (d : Rat) / 1000000

theorem msOf_snoc (ds : List Nat) (d : Nat) : msOf (ds ++ [d]) = msOf ds ++ [(d : Rat) / 1000000] := by
  simp [msOf]

/-- C05 (real arithmetic): over ℚ, after any outcomes `os` of a hop,
`mean`  is the running-mean recurrence over the rtts in ms (= their arithmetic mean, `mean_eq`),
`m2`    is Welford's recurrence over the same series (= the sum of squared deviations from the
        mean, `welford_two_pass`),
`javg`  is the running-mean recurrence over the jitter series (= its arithmetic mean). -/
theorem num_fold (ms : Nat) (os : List Outcome) :
    let h := os.foldl (hopStep (F := Rat) ms) Hop.default
    (h.totalRecv, h.mean, h.m2) = (msOf (rtts os)).foldl welfordStep (0, 0, 0) ∧
    (h.totalRecv, h.javg) = (msOf (jitters (rtts os))).foldl meanStep (0, 0) := by
  induction os using snoc_induction with
  | nil => simp [Hop.default, msOf, rtts, jitters, jittersFrom]; rfl
  | snoc os o ih =>
    have hs := stats_fold (F := Rat) ms os
    simp only
    rw [List.foldl_append, List.foldl_cons, List.foldl_nil]
    simp only at ih
    generalize os.foldl (hopStep (F := Rat) ms) Hop.default = h at ih hs
    have hlast : h.last = (rtts os).getLast? := by
      have := congrArg Stats.last hs; simpa [statsOf, reagg] using this
    obtain ⟨i1, i2⟩ := ih
    cases o with
    | failed p => simpa [hopStep, Hop.failed, rtts_snoc, Outcome.rtt] using ⟨i1, i2⟩
    | awaited p l => simpa [hopStep, Hop.awaited, rtts_snoc, Outcome.rtt] using ⟨i1, i2⟩
    | complete c n =>
      have key : ((h.complete ms c).totalRecv, (h.complete ms c).mean, (h.complete ms c).m2) =
            (msOf (rtts (os ++ [Outcome.complete c n]))).foldl welfordStep (0, 0, 0) ∧
          ((h.complete ms c).totalRecv, (h.complete ms c).javg) =
            (msOf (jitters (rtts (os ++ [Outcome.complete c n])))).foldl meanStep (0, 0) := by
        simp only [jitters] at i2
        simp only [rtts_snoc, Outcome.rtt, Option.toList, msOf_snoc, List.foldl_append, List.foldl_cons,
          List.foldl_nil, ← i1, ← i2, jitters, jittersFrom_snoc]
        constructor
        · rfl
        · have hj : (Num.abs ((Num.durMs (c.received - c.probe.sent) : Rat) -
                (match h.last with | some l => Num.durMs l | none => Num.ofNat 0)) : Rat) =
              ((absDiff (c.received - c.probe.sent) ((rtts os).getLast?.getD 0) : Nat) : Rat) / 1000000 := by
            rw [hlast]
            cases hl : (rtts os).getLast? with
            | none =>
              have h0 : (Num.ofNat 0 : Rat) = Num.durMs 0 := by
                show ((0 : Nat) : Rat) = ((0 : Nat) : Rat) / 1000000; simp
              simp only [Option.getD_none, h0]
              exact jitterMs_eq _ 0
            | some l => exact jitterMs_eq _ l
          exact congrArg (fun z : Rat => (h.totalRecv + 1, h.javg + (z - h.javg) / ((h.totalRecv + 1 : Nat) : Rat))) hj
      cases n <;> exact key

/-- the mean the code maintains is the arithmetic mean of the round-trip times (ms) -/
theorem mean_is_arithmetic_mean (ms : Nat) (os : List Outcome) (h : rtts os ≠ []) :
    (os.foldl (hopStep (F := Rat) ms) Hop.default).mean = (msOf (rtts os)).sum / (rtts os).length := by
  have h1 := (num_fold ms os).1
  have hmean : ∀ xs : List Rat, ((xs.foldl welfordStep (0, 0, 0)).1, (xs.foldl welfordStep (0, 0, 0)).2.1) = xs.foldl meanStep (0, 0) := by
    intro xs
    induction xs using snoc_induction with
    | nil => rfl
    | snoc xs x ih =>
      rw [List.foldl_append, List.foldl_append, ← ih]; rfl
  have := congrArg (fun t => t.2.1) h1
  simp only at this
  rw [this]
  have h2 := congrArg Prod.snd (hmean (msOf (rtts os)))
  simp only at h2
  rw [h2, mean_eq _ (by intro h'; apply h; unfold msOf at h'; exact List.map_eq_nil_iff.1 h')]
  simp [msOf]

/-- the average jitter the code maintains is the arithmetic mean of the jitter series (ms) -/
theorem javg_is_mean_jitter (ms : Nat) (os : List Outcome) (h : rtts os ≠ []) :
    (os.foldl (hopStep (F := Rat) ms) Hop.default).javg =
      (msOf (jitters (rtts os))).sum / (rtts os).length := by
  have h2 := congrArg Prod.snd (num_fold ms os).2
  simp only at h2
  have hlen : (jitters (rtts os)).length = (rtts os).length := jittersFrom_length _ _
  have hne : jitters (rtts os) ≠ [] := by
    intro h'; apply h; apply List.length_eq_zero_iff.1; rw [← hlen, h']; rfl
  rw [h2, mean_eq _ (by intro h'; apply hne; unfold msOf at h'; exact List.map_eq_nil_iff.1 h')]
  simp [msOf, hlen]

/-- `m2` is the sum of squared deviations of the round-trip times (ms) from their mean, and `mean`
is that mean -/
theorem m2_is_squared_deviation_sum (ms : Nat) (os : List Outcome) :
    let h := os.foldl (hopStep (F := Rat) ms) Hop.default
    ((rtts os).length : Rat) * h.mean = (msOf (rtts os)).sum ∧
    h.m2 = ((msOf (rtts os)).map fun x => (x - h.mean) * (x - h.mean)).sum := by
  intro h
  have h1 := (num_fold ms os).1
  obtain ⟨w1, w2, w3⟩ := welford_two_pass (msOf (rtts os))
  have hm : h.mean = ((msOf (rtts os)).foldl welfordStep (0, 0, 0)).2.1 := congrArg (fun t => t.2.1) h1
  have hq : h.m2 = ((msOf (rtts os)).foldl welfordStep (0, 0, 0)).2.2 := congrArg (fun t => t.2.2) h1
  have hl : (msOf (rtts os)).length = (rtts os).length := by simp [msOf]
  rw [hl] at w2
  exact ⟨by rw [hm]; exact w2, by rw [hq, hm]; exact w3⟩

/-- the derived getters over ℚ: `0 ≤ loss_pct ≤ 100`, `best ≤ avg_ms ≤ worst` -/
theorem derived_ranges_rat (h : Hop Rat) (hrs : h.totalRecv ≤ h.totalSent) :
    0 ≤ h.lossPct ∧ h.lossPct ≤ 100 ∧
    (∀ b w, h.totalRecv ≠ 0 → b * h.totalRecv ≤ h.totalTime → h.totalTime ≤ w * h.totalRecv →
      (Num.durMs b : Rat) ≤ h.avgMs ∧ h.avgMs ≤ (Num.durMs w : Rat)) := by
  have hpct : ∀ lost sent : Nat, lost ≤ sent → (0 : Rat) ≤ pct lost sent ∧ (pct lost sent : Rat) ≤ 100 := by
    intro lost sent hls
    unfold pct
    split
    · next hpos =>
      show (0 : Rat) ≤ ((lost : Nat) : Rat) / ((sent : Nat) : Rat) * ((100 : Nat) : Rat) ∧
        ((lost : Nat) : Rat) / ((sent : Nat) : Rat) * ((100 : Nat) : Rat) ≤ 100
      have h2 : (0 : Rat) < sent := by exact_mod_cast hpos
      have h1 : (lost : Rat) ≤ sent := by exact_mod_cast hls
      have h0 := div_nonneg (Nat.cast_nonneg (α := Rat) lost) (Nat.cast_nonneg (α := Rat) sent)
      have h3 : (lost : Rat) / sent ≤ 1 := by rw [div_le_iff₀ h2]; linarith
      push_cast
      constructor <;> linarith
    · show (0 : Rat) ≤ ((0 : Nat) : Rat) ∧ ((0 : Nat) : Rat) ≤ 100
      simp
  obtain ⟨p1, p2⟩ := hpct (h.totalSent - h.totalRecv) h.totalSent (Nat.sub_le _ _)
  refine ⟨p1, p2, ?_⟩
  intro b w hr hb hw
  unfold Hop.avgMs
  have hpos : h.totalRecv > 0 := by omega
  simp only [hpos, if_true]
  have hq : (0 : Rat) < (h.totalRecv : Rat) := by exact_mod_cast hpos
  have hbq : (b : Rat) * h.totalRecv ≤ h.totalTime := by exact_mod_cast hb
  have hwq : (h.totalTime : Rat) ≤ w * h.totalRecv := by exact_mod_cast hw
  constructor
  · show (b : Rat) / 1000000 ≤ (h.totalTime : Rat) / 1000000 / (h.totalRecv : Rat)
    rw [le_div_iff₀ hq]; linarith
  · show (h.totalTime : Rat) / 1000000 / (h.totalRecv : Rat) ≤ (w : Rat) / 1000000
    rw [div_le_iff₀ hq]; linarith

end TV.Agg
