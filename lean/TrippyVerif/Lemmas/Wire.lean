import TrippyVerif.Model.Wire
import TrippyVerif.Lemmas.Checksum
import TrippyVerif.Lemmas.Ext
import TrippyVerif.Props.C13
import TrippyVerif.Spec.Decode
import TrippyVerif.Spec.Quote
/-
Helper lemmas for the wire layer (C04 receive half, C11, C02).
-/
namespace TV.Wire
open TV

/-! ### octets -/

theorem hi_lo (n : Nat) (h : n < 65536) : beN (hi n) (lo n) = n := by
  simp only [beN, hi, lo, UInt8.toNat_ofNat']; omega

theorem hi_toNat (n : Nat) (h : n < 65536) : (hi n).toNat = n / 256 := by
  simp only [hi, UInt8.toNat_ofNat']; omega

theorem lo_toNat (n : Nat) : (lo n).toNat = n % 256 := by
  simp only [lo, UInt8.toNat_ofNat']; omega

theorem beN_lt (a b : UInt8) : beN a b < 65536 := by
  have := UInt8.toNat_lt a; have := UInt8.toNat_lt b
  simp only [beN]; omega

theorem ofNat_toNat (n : Nat) (h : n < 256) : (UInt8.ofNat n).toNat = n := by
  simp only [UInt8.toNat_ofNat']; omega

/-! ### reads that are in range -/

theorem rd_ok (b : Buf) (i : Nat) (h : i < b.length) : rd b i = .ok (b.getD i 0) := by
  simp [rd, List.getD, h]

theorem rd16_ok (b : Buf) (off : Nat) (h : off + 1 < b.length) :
    rd16 b off = .ok (beN (b.getD off 0) (b.getD (off + 1) 0)) := by
  simp [rd16, rd_ok b off (by omega), rd_ok b (off + 1) h]

theorem rdSlice_ok (b : Buf) (off n : Nat) (h : off + n ≤ b.length) :
    rdSlice b off n = .ok ((b.drop off).take n) := by
  simp [rdSlice, h]

/-! ### `≠ panic` through `bind` -/

theorem bind_np {α β : Type} {x : R α} {f : α → R β} (hx : x ≠ .panic)
    (hf : ∀ a, x = .ok a → f a ≠ .panic) : (x >>= f) ≠ .panic := by
  cases x with
  | ok a => simpa using hf a rfl
  | err e => simp
  | panic => exact absurd rfl hx

theorem map_np {α β : Type} {x : R α} {f : α → β} (hx : x ≠ .panic) : (f <$> x) ≠ .panic := by
  cases x <;> simp_all

/-! ### slice accessors on views of at least the minimum size -/

theorem ipv4OptionsLength_ok (b : Buf) (h : 0 < b.length) :
    ipv4OptionsLength b = .ok ((b.getD 0 0).toNat % 16 * 4 - 20) := by
  simp [ipv4OptionsLength, rd_ok b 0 h]

theorem ipv4Payload_ok (b : Buf) (h : 0 < b.length) :
    ipv4Payload b = .ok (b.drop (min (20 + ((b.getD 0 0).toNat % 16 * 4 - 20)) b.length)) := by
  simp [ipv4Payload, ipv4OptionsLength_ok b h]

theorem ipv4OptionsRaw_ok (b : Buf) (h : 20 ≤ b.length) :
    ipv4OptionsRaw b =
      .ok ((b.take (min (20 + ((b.getD 0 0).toNat % 16 * 4 - 20)) b.length)).drop 20) := by
  have : ¬ min (20 + ((b.getD 0 0).toNat % 16 * 4 - 20)) b.length < 20 := by omega
  simp only [ipv4OptionsRaw, ipv4OptionsLength_ok b (by omega), R.bind_ok, ip4Hdr, if_neg this]
  rfl

theorem ipv6Payload_ok (b : Buf) (h : 6 ≤ b.length) :
    ipv6Payload b =
      .ok (if b.length ≤ 40 then []
           else (b.take (min (40 + beN (b.getD 4 0) (b.getD 5 0)) b.length)).drop 40) := by
  simp only [ipv6Payload, rd16_ok b 4 (by omega)]
  split <;> simp

theorem udpPayload_ok (b : Buf) (h : 8 ≤ b.length) : udpPayload b = .ok (b.drop 8) := by
  have : ¬ b.length < 8 := by omega
  simp [udpPayload, this]

theorem echoPayload_ok (b : Buf) (h : 8 ≤ b.length) : echoPayload b = .ok (b.drop 8) := by
  have : ¬ b.length < 8 := by omega
  simp [echoPayload, this]

theorem tcpOptionsLength_ok (b : Buf) (h : 12 < b.length) :
    tcpOptionsLength b =
      .ok (if (b.getD 12 0).toNat / 16 > 5 then (b.getD 12 0).toNat / 16 * 4 - 20 else 0) := by
  simp [tcpOptionsLength, rd_ok b 12 h]

theorem tcpOptionsRaw_ne_panic (b : Buf) (h : 20 ≤ b.length) : tcpOptionsRaw b ≠ .panic := by
  simp only [tcpOptionsRaw, tcpOptionsLength_ok b (by omega), R.bind_ok, tcpHdr]
  rw [if_neg (by omega)]
  simp

theorem tcpPayload_ne_panic (b : Buf) (h : 20 ≤ b.length) : tcpPayload b ≠ .panic := by
  simp only [tcpPayload, tcpOptionsLength_ok b (by omega), R.bind_ok]
  split <;> split <;> simp

/-! ### `make_udp_packet` / `calc_udp_checksum` never panic on an address-well-formed configuration -/

/-- the addresses have the length of the family -/
def ChanCfg.AddrOk (c : ChanCfg) : Prop :=
  if c.v6 then c.src.length = 16 ∧ c.dst.length = 16 else c.src.length = 4 ∧ c.dst.length = 4

instance (c : ChanCfg) : Decidable c.AddrOk := by
  unfold ChanCfg.AddrOk; infer_instance

theorem maxUdpBuf_le (c : ChanCfg) : maxUdpBuf c ≤ 1004 := by
  unfold maxUdpBuf; split <;> decide

theorem maxUdpPayload_le (c : ChanCfg) : maxUdpPayload c + 8 ≤ maxUdpBuf c := by
  unfold maxUdpPayload maxUdpBuf; split <;> decide

theorem makeUdp_ok (c : ChanCfg) (hc : c.AddrOk) (sp dp : Nat) (payload : Buf)
    (h : 8 + payload.length ≤ maxUdpBuf c) :
    ∃ ck, ck ≤ 0xFFFF ∧ makeUdp c sp dp payload = .ok (ck,
      hi sp :: lo sp :: hi dp :: lo dp :: hi (8 + payload.length) :: lo (8 + payload.length) ::
        hi ck :: lo ck :: payload) := by
  have hb := maxUdpBuf_le c
  have hlen : (hi sp :: lo sp :: hi dp :: lo dp :: hi (8 + payload.length) ::
      lo (8 + payload.length) :: 0 :: 0 :: payload).length ≤ 65535 := by
    simp only [List.length_cons]; omega
  unfold makeUdp
  simp only [l4Hdr]
  rw [if_neg (by omega)]
  unfold ChanCfg.AddrOk at hc
  by_cases hv : c.v6 = true
  · rw [if_pos hv] at hc
    simp only [hv, if_true, Cksum.udp_ipv6_checksum]
    rw [show Cksum.protoUdp = 17 from rfl, Cksum.ipv6Checksum_eq 3 17 hc.1 hc.2 hlen]
    refine ⟨if Rfc1071.ocsum _ = 0 then 0xFFFF else Rfc1071.ocsum _, ?_, rfl⟩
    split
    · omega
    · unfold Rfc1071.ocsum; omega
  · rw [if_neg hv] at hc
    have hv' : c.v6 = false := by simpa using hv
    simp only [hv', Bool.false_eq_true, if_false, Cksum.udp_ipv4_checksum]
    rw [show Cksum.protoUdp = 17 from rfl, Cksum.ipv4Checksum_eq 3 17 hc.1 hc.2 hlen]
    exact ⟨Rfc1071.ocsum _, by unfold Rfc1071.ocsum; omega, rfl⟩

theorem calcUdpChecksum_ok (c : ChanCfg) (hc : c.AddrOk) (sp dp plen : Nat) :
    ∃ ck, ck ≤ 0xFFFF ∧ calcUdpChecksum c sp dp plen = .ok ck := by
  have hp := maxUdpPayload_le c
  obtain ⟨ck, hck, h⟩ := makeUdp_ok c hc sp dp (List.replicate (min plen (maxUdpPayload c)) c.pattern)
    (by simp only [List.length_replicate]; omega)
  exact ⟨ck, hck, by simp [calcUdpChecksum, h]⟩

/-! ### the receive path -/

theorem extractEchoRequest_ne_panic (l4 : Buf) : extractEchoRequest l4 ≠ .panic := by
  unfold extractEchoRequest
  split
  · simp
  · simp [rd16_ok l4 4 (by simp only [l4Hdr] at *; omega), rd16_ok l4 6 (by simp only [l4Hdr] at *; omega)]

theorem extractUdp_ne_panic (l4 : Buf) : extractUdp l4 ≠ .panic := by
  unfold extractUdp
  split
  · simp
  · rename_i h
    simp only [l4Hdr, Nat.not_lt] at h
    simp [rd16_ok l4 0 (by omega), rd16_ok l4 2 (by omega), rd16_ok l4 4 (by omega),
      rd16_ok l4 6 (by omega)]

theorem extractTcp4_ne_panic (l4 : Buf) : extractTcp4 l4 ≠ .panic := by
  unfold extractTcp4
  simp only [tcpHdr]
  generalize hb : (if l4.length < 20 then l4 ++ List.replicate (20 - l4.length) 0 else l4) = buf
  have hl : 20 ≤ buf.length := by
    subst hb; split
    · simp only [List.length_append, List.length_replicate]; omega
    · omega
  rw [if_neg (by omega)]
  simp [rd16_ok buf 0 (by omega), rd16_ok buf 2 (by omega)]

theorem extractTcp6_ne_panic (l4 : Buf) : extractTcp6 l4 ≠ .panic := by
  unfold extractTcp6
  simp only [tcpHdr]
  split
  · simp
  · rename_i h
    simp only [Nat.not_lt] at h
    simp [rd16_ok l4 0 (by omega), rd16_ok l4 2 (by omega)]

theorem udpHasMagic_ne_panic (l4 : Buf) : udpHasMagic l4 ≠ .panic := by
  unfold udpHasMagic
  split
  · simp
  · rename_i h
    simp only [l4Hdr, Nat.not_lt] at h
    simp [udpPayload_ok l4 h]

theorem trafficClass_ok (ip : Buf) (h : 2 ≤ ip.length) :
    trafficClass ip = .ok ((ip.getD 0 0).toNat % 16 * 16 + (ip.getD 1 0).toNat / 16) := by
  simp [trafficClass, rd_ok ip 0 (by omega), rd_ok ip 1 (by omega)]

theorem protoResp4_ne_panic (c : ChanCfg) (hc : c.AddrOk) (ip : Buf) (h : 20 ≤ ip.length) :
    protoResp4 c ip ≠ .panic := by
  unfold protoResp4
  simp only [rd_ok ip 9 (by omega), rd_ok ip 1 (by omega), R.bind_ok, ipv4Payload_ok ip (by omega),
    rd16_ok ip 4 (by omega), rdSlice_ok ip 16 4 (by omega)]
  cases c.proto <;> simp only <;> split <;> try simp
  · apply bind_np (extractEchoRequest_ne_panic _)
    intro a _; obtain ⟨id, sq⟩ := a; simp
  · apply bind_np (extractUdp_ne_panic _)
    intro a _; obtain ⟨sp, dp, act, plen⟩ := a
    obtain ⟨ck, _, hck⟩ := calcUdpChecksum_ok c hc sp dp plen
    simp [hck]
  · apply bind_np (extractTcp4_ne_panic _)
    intro a _; obtain ⟨sp, dp⟩ := a; simp

theorem protoResp6_ne_panic (c : ChanCfg) (ip : Buf) (h : 40 ≤ ip.length) :
    protoResp6 c ip ≠ .panic := by
  unfold protoResp6
  simp only [rd_ok ip 6 (by omega), R.bind_ok, ipv6Payload_ok ip (by omega),
    trafficClass_ok ip (by omega), rdSlice_ok ip 24 16 (by omega)]
  cases c.proto <;> simp only <;> split <;> try simp
  · apply bind_np (extractEchoRequest_ne_panic _)
    intro a _; obtain ⟨id, sq⟩ := a; simp
  · apply bind_np (extractUdp_ne_panic _)
    intro a _; obtain ⟨sp, dp, act, plen⟩ := a
    simp only
    apply bind_np (udpHasMagic_ne_panic _)
    intro m _; simp
  · apply bind_np (extractTcp6_ne_panic _)
    intro a _; obtain ⟨sp, dp⟩ := a; simp

theorem protoResp_ne_panic (c : ChanCfg) (hc : c.AddrOk) (ip : Buf) : protoResp c ip ≠ .panic := by
  unfold protoResp
  split
  · simp
  · rename_i h
    simp only [ipHdr, Nat.not_lt] at h
    split
    · rename_i hv; simp only [hv, if_true] at h; exact protoResp6_ne_panic c ip h
    · rename_i hv; simp only [hv] at h
      exact protoResp4_ne_panic c hc ip h

theorem extractProbeResp_ne_panic (c : ChanCfg) (hc : c.AddrOk) (icmp src : Buf)
    (h : 8 ≤ icmp.length) : extractProbeResp c icmp src ≠ .panic := by
  unfold extractProbeResp
  simp only [rd_ok icmp 0 (by omega), rd_ok icmp 1 (by omega), rd16_ok icmp 4 (by omega),
    rd16_ok icmp 6 (by omega), R.bind_ok, Ext.codeIsFixed]
  split
  · split
    · apply bind_np (Ext.tracerExtract_ne_panic c.v6 true c.extEnabled icmp h)
      intro a _; obtain ⟨q, e⟩ := a
      simp only
      apply bind_np (protoResp_ne_panic c hc q)
      intro pr _; simp
    · simp
  · split
    · apply bind_np (Ext.tracerExtract_ne_panic c.v6 false c.extEnabled icmp h)
      intro a _; obtain ⟨q, e⟩ := a
      simp only
      apply bind_np (protoResp_ne_panic c hc q)
      intro pr _; simp
    · split
      · cases c.proto <;> simp
      · simp

theorem recvIcmp4_ne_panic (c : ChanCfg) (hc : c.AddrOk) (bytes : Buf) :
    recvIcmp4 c bytes ≠ .panic := by
  unfold recvIcmp4
  split
  · simp
  · rename_i h
    simp only [ip4Hdr, Nat.not_lt] at h
    simp only [rdSlice_ok bytes 12 4 (by omega), ipv4Payload_ok bytes (by omega), R.bind_ok]
    split
    · simp
    · rename_i h8
      simp only [l4Hdr, Nat.not_lt] at h8
      exact extractProbeResp_ne_panic c hc _ _ h8

theorem recvIcmp6_ne_panic (c : ChanCfg) (hc : c.AddrOk) (bytes src : Buf) (hs : src.length ≠ 4) :
    recvIcmp6 c bytes src ≠ .panic := by
  unfold recvIcmp6
  split
  · simp
  · rename_i h
    simp only [l4Hdr, Nat.not_lt] at h
    split
    · simp
    · exact extractProbeResp_ne_panic c hc _ _ h

/-! ## send side (C11) -/

open TV.Rfc1071 TV.Decode

theorem len4 (l : Buf) (h : l.length = 4) : ∃ a b c d, l = [a, b, c, d] := by
  match l, h with
  | [a, b, c, d], _ => exact ⟨a, b, c, d, rfl⟩

theorem makeIpv4_decode (c : ChanCfg) (hs : c.src.length = 4) (hd : c.dst.length = 4)
    (proto : UInt8) (ttl ident : Nat) (payload : Buf)
    (hl : 20 + payload.length ≤ 1024) (ht : ttl ≤ 255) (hi' : ident < 65536) :
    ∃ bytes, makeIpv4 c proto ttl ident payload = .ok bytes ∧ bytes.length = 20 + payload.length ∧
      decodeIPv4 bytes = some
        ({ version := 4, ihl := 5, tos := c.tos.toNat, totalLength := 20 + payload.length,
           ident := ident, reserved := false, df := true, mf := false, fragOffset := 0, ttl := ttl,
           proto := proto.toNat, headerChecksum := 0, src := c.src, dst := c.dst, options := [] },
         payload) := by
  obtain ⟨s0, s1, s2, s3, hs⟩ := len4 _ hs
  obtain ⟨d0, d1, d2, d3, hd⟩ := len4 _ hd
  have h1 : ¬ (20 + payload.length > 1024) := by omega
  have hm : makeIpv4 c proto ttl ident payload = .ok ([0x45, c.tos, hi (20 + payload.length),
      lo (20 + payload.length), hi ident, lo ident, hi Consts.net4_DONT_FRAGMENT,
      lo Consts.net4_DONT_FRAGMENT, UInt8.ofNat ttl, proto, 0, 0] ++ c.src ++ c.dst ++ payload) := by
    have h2 : ¬ (1024 < 20 + payload.length) := by omega
    simp [makeIpv4, MAX_PACKET_SIZE, Consts.channel_MAX_PACKET_SIZE, h2]
  refine ⟨_, hm, ?_, ?_⟩
  · simp [hs, hd]; omega
  · simp only [hs, hd, List.cons_append, List.nil_append, decodeIPv4]
    have e1 : u16 (hi (20 + payload.length)) (lo (20 + payload.length)) = 20 + payload.length :=
      hi_lo _ (by omega)
    have e2 : u16 (hi ident) (lo ident) = ident := hi_lo _ hi'
    have e3 : (UInt8.ofNat ttl).toNat = ttl := ofNat_toNat _ (by omega)
    simp only [e1, e2, e3]
    simp [hi, lo, Consts.net4_DONT_FRAGMENT, u16]

/-- the RFC pseudo header of the configured family -/
def pseudoHdr (c : ChanCfg) (proto : UInt8) (len : Nat) : Buf :=
  if c.v6 then pseudo6 c.src c.dst proto len else pseudo4 c.src c.dst proto len

theorem pseudoHdr_even (c : ChanCfg) (hc : c.AddrOk) (proto : UInt8) (len : Nat) :
    (pseudoHdr c proto len).length % 2 = 0 := by
  unfold pseudoHdr ChanCfg.AddrOk at *
  split <;> rename_i hv <;> simp only [hv, if_true] at hc
  · exact Cksum.pseudo6_length_even _ _ hc.1 hc.2
  · exact Cksum.pseudo4_length_even _ _ (by simpa using hc.1) (by simpa using hc.2)

/-- the UDP packet `make_udp_packet` builds, given its checksum -/
def udpPkt (sp dp ck : Nat) (payload : Buf) : Buf :=
  hi sp :: lo sp :: hi dp :: lo dp :: hi (8 + payload.length) :: lo (8 + payload.length) ::
    hi ck :: lo ck :: payload

/-- RFC 8200 §8.1 / RFC 768: replacing a computed checksum of 0x0000 by 0xFFFF (the other
representation of zero in one's complement arithmetic) keeps the datagram valid -/
theorem verifies_allones (pre d : Buf) (iw : Nat) (hpre : pre.length % 2 = 0)
    (hf : 2 * iw + 1 < d.length) (h : verifies (pre ++ putField iw 0 d)) :
    verifies (pre ++ putField iw 0xFFFF d) := by
  unfold verifies at *
  rw [Cksum.wordSum_append_even _ _ hpre, Cksum.wordSum_putField _ (by omega) d iw hf] at *
  have e : wordSum pre + (wordSum (zeroField iw d) + 65535) =
      (wordSum pre + (wordSum (zeroField iw d) + 0)) + 65535 := by omega
  rw [e]
  revert h
  generalize wordSum pre + (wordSum (zeroField iw d) + 0) = a
  intro h
  unfold fold16 at *
  split at h
  · omega
  · split at h
    · rw [if_neg (by omega), if_pos (by omega)]
    · omega

/-- over IPv6 the checksum `make_udp_packet` stores is never zero -/
theorem makeUdp_nonzero6 (c : ChanCfg) (hv : c.v6 = true) (sp dp : Nat) (payload : Buf)
    (ck : Nat) (pkt : Buf) (h : makeUdp c sp dp payload = .ok (ck, pkt)) : ck ≠ 0 := by
  simp only [makeUdp, hv, if_true] at h
  split at h
  · cases h
  · cases hx : Cksum.udp_ipv6_checksum (hi sp :: lo sp :: hi dp :: lo dp ::
        hi (l4Hdr + payload.length) :: lo (l4Hdr + payload.length) :: 0 :: 0 :: payload) c.src c.dst with
    | ok x =>
      rw [hx] at h
      simp only [R.bind_ok, R.pure_eq] at h
      injection h with h; injection h with h1 _
      rw [← h1]; split <;> omega
    | err e => rw [hx] at h; cases h
    | panic => rw [hx] at h; cases h

theorem makeUdp_spec (c : ChanCfg) (hc : c.AddrOk) (sp dp : Nat) (payload : Buf)
    (h : 8 + payload.length ≤ maxUdpBuf c) :
    ∃ ck, ck ≤ 0xFFFF ∧ makeUdp c sp dp payload = .ok (ck, udpPkt sp dp ck payload) ∧
      verifies (pseudoHdr c 17 (8 + payload.length) ++ udpPkt sp dp ck payload) := by
  have hb := maxUdpBuf_le c
  let d : Buf := hi sp :: lo sp :: hi dp :: lo dp :: hi (8 + payload.length) ::
      lo (8 + payload.length) :: 0 :: 0 :: payload
  have hdl : d.length = 8 + payload.length := by simp [d]; omega
  have hlen : d.length ≤ 65535 := by omega
  have hf : 2 * 3 + 1 < d.length := by omega
  have hput : ∀ ck, putField 3 ck d = udpPkt sp dp ck payload := by
    intro ck; simp [d, putField, udpPkt, hi, lo]
  unfold makeUdp
  simp only [l4Hdr]
  rw [if_neg (by omega)]
  unfold ChanCfg.AddrOk at hc
  unfold pseudoHdr
  by_cases hv : c.v6 = true
  · rw [if_pos hv] at hc
    obtain ⟨ck, h1, h2, h3⟩ := C13.udp_ipv6_checksum_verifies d c.src c.dst hc.1 hc.2 hlen hf
    refine ⟨if ck = 0 then 0xFFFF else ck, by split <;> omega, ?_, ?_⟩
    · simp only [hv, if_true]; rw [show (hi sp :: lo sp :: hi dp :: lo dp :: hi (8 + payload.length) ::
        lo (8 + payload.length) :: 0 :: 0 :: payload) = d from rfl, h1]; rfl
    · simp only [hv, if_true]; rw [← hput, ← hdl]
      split
      · rename_i h0; rw [h0] at h3
        exact verifies_allones _ d 3 (Cksum.pseudo6_length_even _ _ hc.1 hc.2) hf h3
      · exact h3
  · rw [if_neg hv] at hc
    have hv' : c.v6 = false := by simpa using hv
    obtain ⟨ck, h1, h2, h3⟩ := C13.udp_ipv4_checksum_verifies d c.src c.dst hc.1 hc.2 hlen hf
    refine ⟨ck, h2, ?_, ?_⟩
    · simp only [hv', Bool.false_eq_true, if_false]; rw [show (hi sp :: lo sp :: hi dp :: lo dp :: hi (8 + payload.length) ::
        lo (8 + payload.length) :: 0 :: 0 :: payload) = d from rfl, h1]; rfl
    · simp only [hv', Bool.false_eq_true, if_false]; rw [← hput, ← hdl]; exact h3



/-- the Echo Request `make_echo_request_icmp_packet` builds, given its checksum -/
def echoPkt (c : ChanCfg) (ck ident seq n : Nat) : Buf :=
  (if c.v6 then 128 else 8) :: 0 :: hi ck :: lo ck :: hi ident :: lo ident :: hi seq :: lo seq ::
    List.replicate n c.pattern

theorem maxIcmp_facts (c : ChanCfg) : maxIcmpPayload c + 8 ≤ maxIcmpBuf c ∧ maxIcmpBuf c ≤ 1004 := by
  unfold maxIcmpPayload maxIcmpBuf; split <;> decide

theorem makeEchoRequest_spec (c : ChanCfg) (hc : c.AddrOk) (ident seq n : Nat)
    (h : n ≤ maxIcmpPayload c) :
    ∃ ck, ck ≤ 0xFFFF ∧ makeEchoRequest c ident seq n = .ok (echoPkt c ck ident seq n) ∧
      verifies ((if c.v6 then pseudoHdr c 58 (8 + n) else []) ++ echoPkt c ck ident seq n) := by
  have hm := maxIcmp_facts c
  unfold makeEchoRequest
  simp only [l4Hdr]
  rw [if_neg (by omega), if_neg (by omega)]
  unfold ChanCfg.AddrOk at hc
  unfold pseudoHdr echoPkt
  by_cases hv : c.v6 = true
  · rw [if_pos hv] at hc
    let d : Buf := 128 :: 0 :: 0 :: 0 :: hi ident :: lo ident :: hi seq :: lo seq :: List.replicate n c.pattern
    have hdl : d.length = 8 + n := by simp [d]; omega
    obtain ⟨ck, h1, h2, h3⟩ := C13.icmp_ipv6_checksum_verifies d c.src c.dst hc.1 hc.2 (by omega) (by omega)
    refine ⟨ck, h2, ?_, ?_⟩
    · simp only [hv, if_true]
      rw [show (128 :: 0 :: 0 :: 0 :: hi ident :: lo ident :: hi seq :: lo seq :: List.replicate n c.pattern) = d from rfl, h1]
      rfl
    · simp only [hv, if_true]
      have : putField 1 ck d = 128 :: 0 :: hi ck :: lo ck :: hi ident :: lo ident :: hi seq :: lo seq :: List.replicate n c.pattern := by
        exact (Cksum.putField_cons2_succ 0 ck _ _ _).trans (by rw [Cksum.putField_cons2_zero]; rfl)
      rw [← this, ← hdl]; exact h3
  · have hv' : c.v6 = false := by simpa using hv
    let d : Buf := 8 :: 0 :: 0 :: 0 :: hi ident :: lo ident :: hi seq :: lo seq :: List.replicate n c.pattern
    have hdl : d.length = 8 + n := by simp [d]; omega
    obtain ⟨ck, h1, h2, h3⟩ := C13.icmp_ipv4_checksum_verifies d (by omega) (by omega)
    refine ⟨ck, h2, ?_, ?_⟩
    · simp only [hv', Bool.false_eq_true, if_false]
      rw [show (8 :: 0 :: 0 :: 0 :: hi ident :: lo ident :: hi seq :: lo seq :: List.replicate n c.pattern) = d from rfl, h1]
      rfl
    · simp only [hv', Bool.false_eq_true, if_false, List.nil_append]
      have : putField 1 ck d = 8 :: 0 :: hi ck :: lo ck :: hi ident :: lo ident :: hi seq :: lo seq :: List.replicate n c.pattern := by
        exact (Cksum.putField_cons2_succ 0 ck _ _ _).trans (by rw [Cksum.putField_cons2_zero]; rfl)
      rw [← this]; exact h3

/-- swapping two aligned 16-bit words does not change the one's complement sum -/
theorem verifies_swap (pre : Buf) (hpre : pre.length % 2 = 0) (a b c d e f g h i j : UInt8) :
    verifies (pre ++ [a, b, c, d, e, f, g, h, i, j]) →
    verifies (pre ++ [a, b, c, d, e, f, i, j, g, h]) := by
  unfold verifies
  rw [Cksum.wordSum_append_even _ _ hpre, Cksum.wordSum_append_even _ _ hpre]
  have e : wordSum [a, b, c, d, e, f, i, j, g, h] = wordSum [a, b, c, d, e, f, g, h, i, j] := by
    simp only [wordSum]; omega
  rw [e]; exact id


theorem decodeIcmpEcho_echoPkt (c : ChanCfg) (ck ident seq n : Nat) (h1 : ck < 65536)
    (h2 : ident < 65536) (h3 : seq < 65536) :
    decodeIcmpEcho (echoPkt c ck ident seq n) =
      some { type := if c.v6 then 128 else 8, code := 0, checksum := ck, ident := ident, seq := seq,
             data := List.replicate n c.pattern } := by
  have e1 : u16 (hi ck) (lo ck) = ck := hi_lo _ h1
  have e2 : u16 (hi ident) (lo ident) = ident := hi_lo _ h2
  have e3 : u16 (hi seq) (lo seq) = seq := hi_lo _ h3
  simp only [echoPkt, decodeIcmpEcho, e1, e2, e3]
  cases c.v6 <;> simp

theorem decodeUDP_udpPkt (sp dp ck : Nat) (payload : Buf) (h1 : sp < 65536) (h2 : dp < 65536)
    (h3 : ck < 65536) (h4 : 8 + payload.length < 65536) :
    decodeUDP (udpPkt sp dp ck payload) =
      some ({ srcPort := sp, dstPort := dp, length := 8 + payload.length, checksum := ck }, payload) := by
  have e1 : u16 (hi sp) (lo sp) = sp := hi_lo _ h1
  have e2 : u16 (hi dp) (lo dp) = dp := hi_lo _ h2
  have e3 : u16 (hi ck) (lo ck) = ck := hi_lo _ h3
  have e4 : u16 (hi (8 + payload.length)) (lo (8 + payload.length)) = 8 + payload.length := hi_lo _ h4
  simp only [udpPkt, decodeUDP, e1, e2, e3, e4]
  simp

theorem udpPkt_length (sp dp ck : Nat) (payload : Buf) :
    (udpPkt sp dp ck payload).length = 8 + payload.length := by
  simp [udpPkt]; omega

theorem echoPkt_length (c : ChanCfg) (ck ident seq n : Nat) :
    (echoPkt c ck ident seq n).length = 8 + n := by
  simp [echoPkt]; omega

/-- the Paris datagram: checksum field = sequence, payload = the computed checksum -/
def parisPkt (sp dp seq ck : Nat) : Buf :=
  [hi sp, lo sp, hi dp, lo dp, hi 10, lo 10, hi seq, lo seq, hi ck, lo ck]

theorem makeUdpParis_spec (c : ChanCfg) (hc : c.AddrOk) (sp dp seq : Nat) :
    ∃ ck, ck ≤ 0xFFFF ∧ makeUdpParis c sp dp seq = .ok (parisPkt sp dp seq ck) ∧
      makeUdp c sp dp [hi seq, lo seq] = .ok (ck, udpPkt sp dp ck [hi seq, lo seq]) ∧
      verifies (pseudoHdr c 17 10 ++ parisPkt sp dp seq ck) := by
  have hb : 8 + [hi seq, lo seq].length ≤ maxUdpBuf c := by
    simp only [List.length_cons, List.length_nil]; unfold maxUdpBuf; split <;> decide
  obtain ⟨ck, h1, h2, h3⟩ := makeUdp_spec c hc sp dp [hi seq, lo seq] hb
  refine ⟨ck, h1, ?_, h2, ?_⟩
  · simp [makeUdpParis, h2, parisPkt]
  · exact verifies_swap _ (pseudoHdr_even c hc 17 10) _ _ _ _ _ _ _ _ _ _ h3


/-! ## receive side (C02) -/

section recv
open TV.Ext TV.Rfc4884 TV.Quote
attribute [local simp] ip4Hdr ip6Hdr l4Hdr tcpHdr

/-- side conditions of an RFC 4884 body: the extension structure has at least its header and the
length attribute fits its octet -/
def BodyOk (v6 : Bool) (q : Buf) : Body → Prop
  | .plain => True
  | .rfc4884 mode ext => 4 ≤ ext.length ∧ lengthAttr v6 mode q ≤ 255

theorem take_prefix_of_append (q z : Buf) (m N : Nat) (hN : N ≤ m) (hq : N ≤ q.length) :
    ((q.take m) ++ z).take N = q.take N ∧ N ≤ ((q.take m) ++ z).length := by
  constructor
  · rw [List.take_append_of_le_length (by simp; omega), List.take_take]
    congr 1; omega
  · simp; omega

/-- `tracerExtract` in terms of the result of `split` -/
theorem tracerExtract_of_split (fam te en : Bool) (icmp : Buf) (h8 : 8 ≤ icmp.length)
    (a : Buf) (eo : Option Buf)
    (hs : split ((lengthOctet fam icmp).toNat * unitOf fam) (icmp.drop 8) = (a, eo))
    (he : ∀ e, eo = some e → 4 ≤ e.length) :
    ∃ exts, tracerExtract true fam te en icmp =
      .ok (if te && !en then icmp.drop 8 else a, exts) := by
  unfold tracerExtract
  rw [payload_fixed fam _ h8, extension_fixed fam _ h8, payloadRaw_ok _ h8, hs]
  cases te <;> cases en <;> simp
  all_goals
    cases eo with
    | none => simp
    | some e =>
      obtain ⟨xs, hxs, _⟩ := extensionsTryFrom_ok e (he e rfl)
      simp [hxs]

theorem split_zero (q : Buf) : split 0 q = (q, none) ∨
    (split 0 q = (q.take 128, some (q.drop 128)) ∧ 4 ≤ (q.drop 128).length) := by
  unfold split origMin minHeader
  by_cases h1 : q.length > 128
  · by_cases h2 : (q.drop 128).length ≥ 4
    · right; refine ⟨?_, h2⟩; simp only [List.length_drop] at h2; simp [h1, h2]
    · left; simp only [List.length_drop] at h2; simp [h1, h2]
  · left; simp [h1]

/-- Whatever the embedding (plain, RFC 4884 compliant or legacy) and the parse mode, the octets
handed to the IP parser begin with the first `N ≤ 128` octets of the quotation. -/
theorem extract_prefix (v6 te en : Bool) (h : IcmpHdr) (b : Body) (q : Buf) (hb : BodyOk v6 q b)
    (N : Nat) (hN : N ≤ 128) (hq : N ≤ q.length) :
    ∃ q' exts, tracerExtract true v6 te en (icmpMessage v6 h b q) = .ok (q', exts) ∧
      q'.take N = q.take N ∧ N ≤ q'.length := by
  cases b with
  | plain =>
    have hlen : 8 ≤ (icmpHeaderBytes v6 h 0 ++ q).length := by
      unfold icmpHeaderBytes; cases v6 <;> simp
    have hdrop : (icmpHeaderBytes v6 h 0 ++ q).drop 8 = q := by
      unfold icmpHeaderBytes; cases v6 <;> simp
    have hlo : (lengthOctet v6 (icmpHeaderBytes v6 h 0 ++ q)).toNat * unitOf v6 = 0 := by
      unfold icmpHeaderBytes lengthOctet lengthOffset; cases v6 <;> simp
    simp only [icmpMessage]
    rcases split_zero q with hs | ⟨hs, he⟩
    · obtain ⟨exts, hx⟩ := tracerExtract_of_split v6 te en _ hlen q none (by rw [hlo, hdrop, hs])
        (by intro e h; cases h)
      refine ⟨_, exts, hx, ?_⟩
      rw [hdrop]; split <;> exact ⟨rfl, hq⟩
    · obtain ⟨exts, hx⟩ := tracerExtract_of_split v6 te en _ hlen (q.take 128) (some (q.drop 128))
        (by rw [hlo, hdrop, hs]) (by intro e h; cases h; exact he)
      refine ⟨_, exts, hx, ?_⟩
      rw [hdrop]; split
      · exact ⟨rfl, hq⟩
      · have := take_prefix_of_append q [] 128 N hN hq
        simpa using this
  | rfc4884 mode ext =>
    obtain ⟨he, hfit⟩ := hb
    simp only [icmpMessage]
    have hlen := buildIcmp_length v6 h mode q ext
    have hs := splitFixed_built v6 h mode q ext he hfit
    rw [splitWith_fixed v6 _ hlen] at hs
    obtain ⟨exts, hx⟩ := tracerExtract_of_split v6 te en _ hlen _ _ (by injection hs)
      (by intro e h; cases h; exact he)
    have hp : ∀ z : Buf, ((padOrig v6 mode q) ++ z).take N = q.take N ∧
        N ≤ ((padOrig v6 mode q) ++ z).length := by
      intro z
      cases mode with
      | compliant =>
        have := take_prefix_of_append q (List.replicate (paddedLen v6 q.length - q.length) 0 ++ z)
          q.length N hq hq
        simpa [padOrig, padTo] using this
      | legacy =>
        have := take_prefix_of_append q
          (List.replicate (128 - (q.take 128).length) 0 ++ z) 128 N hN hq
        simpa [padOrig, padTo] using this
    refine ⟨_, exts, hx, ?_⟩
    rw [buildIcmp_drop]; split
    · exact hp ext
    · simpa using hp []

theorem extractEchoRequest_cons (a0 a1 a2 a3 a4 a5 a6 a7 : UInt8) (t : Buf) :
    extractEchoRequest (a0 :: a1 :: a2 :: a3 :: a4 :: a5 :: a6 :: a7 :: t) =
      .ok (beN a4 a5, beN a6 a7) := by
  unfold extractEchoRequest
  rw [if_neg (by simp only [List.length_cons, l4Hdr]; omega)]
  simp [rd16, rd]

theorem extractUdp_cons (a0 a1 a2 a3 a4 a5 a6 a7 : UInt8) (t : Buf) :
    extractUdp (a0 :: a1 :: a2 :: a3 :: a4 :: a5 :: a6 :: a7 :: t) =
      .ok (beN a0 a1, beN a2 a3, beN a6 a7, beN a4 a5 - 8) := by
  unfold extractUdp
  rw [if_neg (by simp only [List.length_cons, l4Hdr]; omega)]
  simp [rd16, rd]

theorem extractTcp4_cons (a0 a1 a2 a3 a4 a5 a6 a7 : UInt8) (t : Buf) :
    extractTcp4 (a0 :: a1 :: a2 :: a3 :: a4 :: a5 :: a6 :: a7 :: t) = .ok (beN a0 a1, beN a2 a3) := by
  unfold extractTcp4
  simp only [tcpHdr]
  split
  · rw [if_neg (by simp only [List.length_append, List.length_cons, List.length_replicate]; omega)]
    simp [rd16, rd]
  · simp [rd16, rd]

theorem extractTcp6_of_length (l4 : Buf) (a0 a1 a2 a3 : UInt8) (t : Buf)
    (h : l4 = a0 :: a1 :: a2 :: a3 :: t) (hl : 20 ≤ l4.length) :
    extractTcp6 l4 = .ok (beN a0 a1, beN a2 a3) := by
  unfold extractTcp6
  rw [if_neg (by simp only [tcpHdr]; omega)]
  subst h
  simp [rd16, rd]

/-- the first 28 octets of a quoted IPv4 datagram without options -/
def q4 (tos l0 l1 i0 i1 f0 f1 ttl pr c0 c1 s0 s1 s2 s3 d0 d1 d2 d3 a0 a1 a2 a3 a4 a5 a6 a7 : UInt8) : Buf :=
  [0x45, tos, l0, l1, i0, i1, f0, f1, ttl, pr, c0, c1, s0, s1, s2, s3, d0, d1, d2, d3,
   a0, a1, a2, a3, a4, a5, a6, a7]

theorem q4_payload
    (tos l0 l1 i0 i1 f0 f1 ttl pr c0 c1 s0 s1 s2 s3 d0 d1 d2 d3 a0 a1 a2 a3 a4 a5 a6 a7 : UInt8)
    (tail : Buf) :
    ipv4Payload (q4 tos l0 l1 i0 i1 f0 f1 ttl pr c0 c1 s0 s1 s2 s3 d0 d1 d2 d3 a0 a1 a2 a3 a4 a5 a6 a7 ++ tail) =
      .ok (a0 :: a1 :: a2 :: a3 :: a4 :: a5 :: a6 :: a7 :: tail) := by
  rw [ipv4Payload_ok _ (by simp [q4])]
  have h0 : ((q4 tos l0 l1 i0 i1 f0 f1 ttl pr c0 c1 s0 s1 s2 s3 d0 d1 d2 d3 a0 a1 a2 a3 a4 a5 a6 a7 ++ tail).getD 0 0) = 0x45 := by
    simp [q4]
  have hl : (q4 tos l0 l1 i0 i1 f0 f1 ttl pr c0 c1 s0 s1 s2 s3 d0 d1 d2 d3 a0 a1 a2 a3 a4 a5 a6 a7 ++ tail).length = 28 + tail.length := by
    simp [q4]; omega
  rw [h0, hl]
  have : min (20 + ((0x45 : UInt8).toNat % 16 * 4 - 20)) (28 + tail.length) = 20 := by
    have : (0x45 : UInt8).toNat % 16 * 4 - 20 = 0 := by decide
    omega
  rw [this]
  simp [q4]


theorem q4_length
    (tos l0 l1 i0 i1 f0 f1 ttl pr c0 c1 s0 s1 s2 s3 d0 d1 d2 d3 a0 a1 a2 a3 a4 a5 a6 a7 : UInt8)
    (tail : Buf) :
    (q4 tos l0 l1 i0 i1 f0 f1 ttl pr c0 c1 s0 s1 s2 s3 d0 d1 d2 d3 a0 a1 a2 a3 a4 a5 a6 a7 ++ tail).length
      = 28 + tail.length := by
  simp [q4]; omega

/-- **IPv4 parse lemma**: what `extract_probe_proto_resp` makes of a quotation whose first 28
octets are the IP header (IHL 5) and 8 octets of data — whatever follows. -/
theorem protoResp_q4 (c : ChanCfg) (hc : c.AddrOk) (hv : c.v6 = false)
    (tos l0 l1 i0 i1 f0 f1 ttl pr c0 c1 s0 s1 s2 s3 d0 d1 d2 d3 a0 a1 a2 a3 a4 a5 a6 a7 : UInt8)
    (tail : Buf) :
    protoResp c (q4 tos l0 l1 i0 i1 f0 f1 ttl pr c0 c1 s0 s1 s2 s3 d0 d1 d2 d3 a0 a1 a2 a3 a4 a5 a6 a7 ++ tail) =
      match c.proto with
      | .icmp =>
        if pr = 1 then .ok (some (.icmp (beN a4 a5) (beN a6 a7) (some tos.toNat))) else .ok none
      | .udp =>
        if pr = 17 then
          (fun e => some (.udp (beN i0 i1) (addrNat [d0, d1, d2, d3]) (beN a0 a1) (beN a2 a3)
              (some tos.toNat) e (beN a6 a7) (beN a4 a5 - 8) false)) <$>
            calcUdpChecksum c (beN a0 a1) (beN a2 a3) (beN a4 a5 - 8)
        else .ok none
      | .tcp =>
        if pr = 6 then
          .ok (some (.tcp (addrNat [d0, d1, d2, d3]) (beN a0 a1) (beN a2 a3) (some tos.toNat)))
        else .ok none := by
  have hl := q4_length tos l0 l1 i0 i1 f0 f1 ttl pr c0 c1 s0 s1 s2 s3 d0 d1 d2 d3 a0 a1 a2 a3 a4 a5 a6 a7 tail
  have hlt : ¬ ((q4 tos l0 l1 i0 i1 f0 f1 ttl pr c0 c1 s0 s1 s2 s3 d0 d1 d2 d3 a0 a1 a2 a3 a4 a5 a6 a7 ++ tail).length < ipHdr c) := by
    rw [hl]; simp [ipHdr, hv]; omega
  unfold protoResp
  rw [if_neg hlt]
  simp only [hv, Bool.false_eq_true, if_false]
  unfold protoResp4
  rw [rd_ok _ 9 (by rw [hl]; omega), rd_ok _ 1 (by rw [hl]; omega), q4_payload,
    rd16_ok _ 4 (by rw [hl]; omega), rdSlice_ok _ 16 4 (by rw [hl]; omega)]
  obtain ⟨ck, _, hck⟩ := calcUdpChecksum_ok c hc (beN a0 a1) (beN a2 a3) (beN a4 a5 - 8)
  cases c.proto <;>
    simp [q4, protoIcmp, protoUdp, protoTcp, extractEchoRequest_cons, extractUdp_cons,
      extractTcp4_cons, hck]

/-- a buffer is determined by a long enough prefix and the rest -/
theorem eq_append_of_take {b x : Buf} {n : Nat} (h : b.take n = x) : b = x ++ b.drop n := by
  rw [← h, List.take_append_drop]

theorem getD_append_left (H R : Buf) (i : Nat) (h : i < H.length) :
    (H ++ R).getD i 0 = H.getD i 0 := by
  simp [List.getD, List.getElem?_append_left h]

/-- the part of the quoted IPv6 payload the tracer looks at, given the rest `tail` after the first
eight octets: limited by the quoted payload-length field and by what was quoted -/
def tail6 (H tail : Buf) : Buf :=
  tail.take (min (40 + beN (H.getD 4 0) (H.getD 5 0)) (48 + tail.length) - 48)

theorem ipv6Payload_H (H : Buf) (hH : H.length = 40) (a0 a1 a2 a3 a4 a5 a6 a7 : UInt8) (tail : Buf)
    (hpl : 8 ≤ beN (H.getD 4 0) (H.getD 5 0)) :
    ipv6Payload (H ++ a0 :: a1 :: a2 :: a3 :: a4 :: a5 :: a6 :: a7 :: tail) =
      .ok (a0 :: a1 :: a2 :: a3 :: a4 :: a5 :: a6 :: a7 :: tail6 H tail) := by
  have hl : (H ++ a0 :: a1 :: a2 :: a3 :: a4 :: a5 :: a6 :: a7 :: tail).length = 48 + tail.length := by
    simp [hH]; omega
  rw [ipv6Payload_ok _ (by omega), hl, getD_append_left _ _ 4 (by omega), getD_append_left _ _ 5 (by omega)]
  rw [if_neg (by omega)]
  congr 1
  rw [List.drop_take, List.drop_append_of_le_length (by omega), List.drop_of_length_le (by omega),
    List.nil_append]
  unfold tail6
  generalize hn : min (40 + beN (H.getD 4 0) (H.getD 5 0)) (48 + tail.length) = n
  have hn8 : n - 40 = (n - 48) + 8 := by omega
  rw [hn8]
  simp [List.take_succ_cons]

theorem udpHasMagic_cons (a0 a1 a2 a3 a4 a5 a6 a7 : UInt8) (t : Buf) :
    udpHasMagic (a0 :: a1 :: a2 :: a3 :: a4 :: a5 :: a6 :: a7 :: t) =
      .ok (Consts.net6_MAGIC.isPrefixOf t) := by
  unfold udpHasMagic
  rw [if_neg (by simp only [List.length_cons, l4Hdr]; omega)]
  rw [udpPayload_ok _ (by simp only [List.length_cons]; omega)]
  simp

theorem extractTcp6_cons (a0 a1 a2 a3 a4 a5 a6 a7 : UInt8) (t : Buf) :
    extractTcp6 (a0 :: a1 :: a2 :: a3 :: a4 :: a5 :: a6 :: a7 :: t) =
      if t.length < 12 then .err .pktShort else .ok (beN a0 a1, beN a2 a3) := by
  unfold extractTcp6
  by_cases h : t.length < 12
  · rw [if_pos (by simp only [List.length_cons, tcpHdr]; omega), if_pos h]
  · rw [if_neg (by simp only [List.length_cons, tcpHdr]; omega), if_neg h]
    simp [rd16, rd]

/-- **IPv6 parse lemma**: what `extract_probe_proto_resp` makes of a quotation consisting of a
40-octet IPv6 header `H` whose payload-length field is at least 8, eight octets of payload and
whatever follows. -/
theorem protoResp_H6 (c : ChanCfg) (hv : c.v6 = true) (H : Buf) (hH : H.length = 40)
    (a0 a1 a2 a3 a4 a5 a6 a7 : UInt8) (tail : Buf)
    (hpl : 8 ≤ beN (H.getD 4 0) (H.getD 5 0)) :
    protoResp c (H ++ a0 :: a1 :: a2 :: a3 :: a4 :: a5 :: a6 :: a7 :: tail) =
      let tc := (H.getD 0 0).toNat % 16 * 16 + (H.getD 1 0).toNat / 16
      let dest := addrNat (H.drop 24)
      match c.proto with
      | .icmp =>
        if H.getD 6 0 = 58 then .ok (some (.icmp (beN a4 a5) (beN a6 a7) (some tc))) else .ok none
      | .udp =>
        if H.getD 6 0 = 17 then
          let magic := Consts.net6_MAGIC.isPrefixOf (tail6 H tail)
          .ok (some (.udp 0 dest (beN a0 a1) (beN a2 a3) (some tc) (beN a6 a7) (beN a6 a7)
            (if magic then beN a4 a5 - 8 - 6 else beN a4 a5 - 8) magic))
        else .ok none
      | .tcp =>
        if H.getD 6 0 = 6 then
          if (tail6 H tail).length < 12 then .err .pktShort
          else .ok (some (.tcp dest (beN a0 a1) (beN a2 a3) (some tc)))
        else .ok none := by
  have hl : (H ++ a0 :: a1 :: a2 :: a3 :: a4 :: a5 :: a6 :: a7 :: tail).length = 48 + tail.length := by
    simp [hH]; omega
  have hlt : ¬ ((H ++ a0 :: a1 :: a2 :: a3 :: a4 :: a5 :: a6 :: a7 :: tail).length < ipHdr c) := by
    rw [hl]; simp [ipHdr, hv]; omega
  have hdst : ((H ++ a0 :: a1 :: a2 :: a3 :: a4 :: a5 :: a6 :: a7 :: tail).drop 24).take 16 = H.drop 24 := by
    rw [List.drop_append_of_le_length (by omega), List.take_append_of_le_length (by simp; omega),
      List.take_of_length_le (by simp; omega)]
  unfold protoResp
  rw [if_neg hlt]
  simp only [hv, if_true]
  unfold protoResp6
  rw [rd_ok _ 6 (by rw [hl]; omega), ipv6Payload_H H hH _ _ _ _ _ _ _ _ tail hpl,
    trafficClass_ok _ (by rw [hl]; omega), rdSlice_ok _ 24 16 (by rw [hl]; omega), hdst,
    getD_append_left _ _ 6 (by omega), getD_append_left _ _ 0 (by omega),
    getD_append_left _ _ 1 (by omega)]
  have hm6 : Consts.net6_MAGIC.length = 6 := by decide
  cases c.proto <;>
    simp [protoIcmpV6, protoUdp, protoTcp, extractEchoRequest_cons, extractUdp_cons,
      extractTcp6_cons, udpHasMagic_cons, hm6]
  · split
    · split <;> rfl
    · rfl


theorem icmpMessage_head (v6 : Bool) (h : IcmpHdr) (b : Body) (q : Buf) :
    ∃ rest, icmpMessage v6 h b q = h.type :: h.code :: rest ∧ 6 ≤ rest.length := by
  cases b <;> cases v6 <;>
    simp [icmpMessage, buildIcmp, icmpHeaderBytes] <;> omega

/-- the response built from a protocol response -/
def mkResp (kind : Strat.RespKind) (addr : Buf) (exts : Option (List Extension))
    (pr : Option Strat.ProtoResp) : Option WResp :=
  pr.map fun p => { kind := kind, addr := addr, proto := p, exts := exts }

/-- `extract_probe_resp` on a Time Exceeded (code 0) / Destination Unreachable message: the
RFC 4884 split, then the protocol parser on octets that begin like the quotation. -/
theorem extractProbeResp_error (c : ChanCfg) (te : Bool) (h : IcmpHdr) (b : Body) (q src : Buf)
    (hb : BodyOk c.v6 q b) (N : Nat) (hN : N ≤ 128) (hq : N ≤ q.length)
    (hty : h.type = if te then tyTimeExceeded c.v6 else tyDestUnreachable c.v6)
    (hcode : te = true → h.code = 0) :
    ∃ q' exts, extractProbeResp c (icmpMessage c.v6 h b q) src =
        mkResp (if te then .timeExceeded 0 else .destUnreachable h.code.toNat) src exts
          <$> protoResp c q' ∧
      q'.take N = q.take N ∧ N ≤ q'.length := by
  obtain ⟨rest, hm, hr⟩ := icmpMessage_head c.v6 h b q
  obtain ⟨q', exts, hx, hp, hl⟩ := extract_prefix c.v6 te c.extEnabled h b q hb N hN hq
  refine ⟨q', exts, ?_, hp, hl⟩
  unfold extractProbeResp
  have h0 : rd (icmpMessage c.v6 h b q) 0 = .ok h.type := by rw [hm]; simp [rd]
  have h1 : rd (icmpMessage c.v6 h b q) 1 = .ok h.code := by rw [hm]; simp [rd]
  rw [h0, h1]
  simp only [R.bind_ok, codeIsFixed]
  cases te with
  | true =>
    have hc0 := hcode rfl
    simp only [if_true] at hty
    simp only [hty, if_true, hc0, hx, R.bind_ok]
    have : (0 : UInt8).toNat = 0 := rfl
    simp only [this, if_true]
    cases protoResp c q' <;> simp [mkResp]
  | false =>
    simp only [Bool.false_eq_true, if_false] at hty
    have hne : tyDestUnreachable c.v6 ≠ tyTimeExceeded c.v6 := by
      unfold tyDestUnreachable tyTimeExceeded; cases c.v6 <;> decide
    simp only [hty, if_neg hne, if_true, hx, R.bind_ok, Bool.false_eq_true, if_false]
    cases protoResp c q' <;> simp [mkResp]

/-- `recv_icmp_probe` on a delivered message: the responder is the outer source address (IPv4) /
the address reported by the socket (IPv6) and the ICMP message is handed to `extract_probe_resp` -/
theorem recvIcmp_deliver (c : ChanCfg) (hc : c.AddrOk) (o : Outer4) (responder icmp src : Buf)
    (hr : responder.length = if c.v6 then 16 else 4) (h8 : 8 ≤ icmp.length)
    (hsrc : c.v6 = true → src = responder) :
    recvIcmp c (deliver c o responder icmp) src = extractProbeResp c icmp responder := by
  unfold recvIcmp deliver
  cases hv : c.v6
  · simp only [Bool.false_eq_true, if_false]
    have h4 := (show c.src.length = 4 ∧ c.dst.length = 4 by simpa [ChanCfg.AddrOk, hv] using hc).1
    simp only [hv, Bool.false_eq_true, if_false] at hr
    obtain ⟨r0, r1, r2, r3, hr'⟩ := len4 _ hr
    obtain ⟨s0, s1, s2, s3, hs'⟩ := len4 _ h4
    rw [hr', hs']
    unfold recvIcmp4
    have hl : ([0x45, o.tos, o.l0, o.l1, o.i0, o.i1, o.f0, o.f1, o.ttl, 1, o.c0, o.c1] ++
        [r0, r1, r2, r3] ++ [s0, s1, s2, s3] ++ icmp).length = 20 + icmp.length := by
      simp; omega
    rw [if_neg (by rw [hl]; simp), rdSlice_ok _ 12 4 (by rw [hl]; omega),
      ipv4Payload_ok _ (by rw [hl]; omega), hl]
    have hmin : min (20 + ((([0x45, o.tos, o.l0, o.l1, o.i0, o.i1, o.f0, o.f1, o.ttl, 1, o.c0, o.c1] ++
        [r0, r1, r2, r3] ++ [s0, s1, s2, s3] ++ icmp).getD 0 0).toNat % 16 * 4 - 20))
        (20 + icmp.length) = 20 := by
      have : (([0x45, o.tos, o.l0, o.l1, o.i0, o.i1, o.f0, o.f1, o.ttl, 1, o.c0, o.c1] ++
        [r0, r1, r2, r3] ++ [s0, s1, s2, s3] ++ icmp).getD 0 0) = 0x45 := by simp
      rw [this]
      have : (0x45 : UInt8).toNat % 16 * 4 - 20 = 0 := by decide
      omega
    rw [hmin]
    simp only [R.bind_ok]
    have hd : ([0x45, o.tos, o.l0, o.l1, o.i0, o.i1, o.f0, o.f1, o.ttl, 1, o.c0, o.c1] ++
        [r0, r1, r2, r3] ++ [s0, s1, s2, s3] ++ icmp).drop 20 = icmp := by simp
    have ht : (([0x45, o.tos, o.l0, o.l1, o.i0, o.i1, o.f0, o.f1, o.ttl, 1, o.c0, o.c1] ++
        [r0, r1, r2, r3] ++ [s0, s1, s2, s3] ++ icmp).drop 12).take 4 = [r0, r1, r2, r3] := by simp
    rw [hd, ht, if_neg (by simp; omega)]
  · simp only [if_true]
    simp only [hv, if_true] at hr
    have := hsrc hv
    subst this
    unfold recvIcmp6
    rw [if_neg (by simp; omega)]
    have hne : ¬ (src.isEmpty = true) := by
      intro h; rw [List.isEmpty_iff] at h; rw [h] at hr; simp at hr
    rw [if_neg hne, if_neg (by omega)]


/-- an IPv4 datagram without options from `src` to `dst`: identification `i0 i1`, protocol `pr`,
first eight octets of data `a0 … a7` -/
def IsDatagram4 (src dst : Buf) (d : Buf) (i0 i1 pr a0 a1 a2 a3 a4 a5 a6 a7 : UInt8) : Prop :=
  ∃ tos l0 l1 f0 f1 ttl c0 c1 rest,
    d = [0x45, tos, l0, l1, i0, i1, f0, f1, ttl, pr, c0, c1] ++ src ++ dst ++
      (a0 :: a1 :: a2 :: a3 :: a4 :: a5 :: a6 :: a7 :: rest)

/-- a quotation of such a datagram starts with the rewritten header and the eight octets -/
theorem quote4_take (src dst : Buf) (hs : src.length = 4) (hd : dst.length = 4) (d : Buf)
    (i0 i1 pr a0 a1 a2 a3 a4 a5 a6 a7 : UInt8)
    (h : IsDatagram4 src dst d i0 i1 pr a0 a1 a2 a3 a4 a5 a6 a7) (m : Mut4) (n : Nat) :
    ∃ f0 f1 s0 s1 s2 s3 d0 d1 d2 d3, dst = [d0, d1, d2, d3] ∧
      (quote4 m d n).take 28 =
        q4 m.tos m.len0 m.len1 i0 i1 f0 f1 m.ttl pr m.ck0 m.ck1 s0 s1 s2 s3 d0 d1 d2 d3
          a0 a1 a2 a3 a4 a5 a6 a7 ∧ 28 ≤ (quote4 m d n).length := by
  obtain ⟨tos, l0, l1, f0, f1, ttl, c0, c1, rest, rfl⟩ := h
  obtain ⟨s0, s1, s2, s3, hs'⟩ := len4 _ hs
  obtain ⟨d0, d1, d2, d3, hd'⟩ := len4 _ hd
  refine ⟨f0, f1, s0, s1, s2, s3, d0, d1, d2, d3, hd', ?_, ?_⟩
  · rw [hs', hd']; simp [quote4, mutHdr4, q4]
  · rw [hs', hd']; simp [quote4, mutHdr4]

/-- the IPv4 parser's verdict on the first 28 octets (independent of what follows) -/
def parse4 (c : ChanCfg) (tos i0 i1 pr : UInt8) (dst : Buf) (a0 a1 a2 a3 a4 a5 a6 a7 : UInt8) :
    R (Option Strat.ProtoResp) :=
  match c.proto with
  | .icmp =>
    if pr = 1 then .ok (some (.icmp (beN a4 a5) (beN a6 a7) (some tos.toNat))) else .ok none
  | .udp =>
    if pr = 17 then
      (fun e => some (.udp (beN i0 i1) (addrNat dst) (beN a0 a1) (beN a2 a3)
          (some tos.toNat) e (beN a6 a7) (beN a4 a5 - 8) false)) <$>
        calcUdpChecksum c (beN a0 a1) (beN a2 a3) (beN a4 a5 - 8)
    else .ok none
  | .tcp =>
    if pr = 6 then
      .ok (some (.tcp (addrNat dst) (beN a0 a1) (beN a2 a3) (some tos.toNat)))
    else .ok none

theorem len16 (l : Buf) (h : l.length = 16) :
    ∃ x0 x1 x2 x3 x4 x5 x6 x7 x8 x9 x10 x11 x12 x13 x14 x15,
      l = [x0, x1, x2, x3, x4, x5, x6, x7, x8, x9, x10, x11, x12, x13, x14, x15] := by
  match l, h with
  | [x0, x1, x2, x3, x4, x5, x6, x7, x8, x9, x10, x11, x12, x13, x14, x15], _ =>
    exact ⟨x0, x1, x2, x3, x4, x5, x6, x7, x8, x9, x10, x11, x12, x13, x14, x15, rfl⟩

/-- an IPv6 datagram from `src` to `dst`: next header `nh`, first eight octets of payload
`a0 … a7`, remaining payload `rest`; the payload-length field is consistent -/
def IsDatagram6 (src dst : Buf) (d : Buf) (nh a0 a1 a2 a3 a4 a5 a6 a7 : UInt8) (rest : Buf) : Prop :=
  ∃ b0 b1 b2 b3 p0 p1 hl,
    d = [b0, b1, b2, b3, p0, p1, nh, hl] ++ src ++ dst ++
      (a0 :: a1 :: a2 :: a3 :: a4 :: a5 :: a6 :: a7 :: rest) ∧
    beN p0 p1 = 8 + rest.length

/-- the IPv6 parser's verdict, given the part `t6` of the quoted payload after its first eight
octets that the parser gets to see -/
def parse6 (c : ChanCfg) (tc : Nat) (nh : UInt8) (dst : Buf) (a0 a1 a2 a3 a4 a5 a6 a7 : UInt8)
    (t6 : Buf) : R (Option Strat.ProtoResp) :=
  match c.proto with
  | .icmp =>
    if nh = 58 then .ok (some (.icmp (beN a4 a5) (beN a6 a7) (some tc))) else .ok none
  | .udp =>
    if nh = 17 then
      let magic := Consts.net6_MAGIC.isPrefixOf t6
      .ok (some (.udp 0 (addrNat dst) (beN a0 a1) (beN a2 a3) (some tc) (beN a6 a7) (beN a6 a7)
        (if magic then beN a4 a5 - 8 - 6 else beN a4 a5 - 8) magic))
    else .ok none
  | .tcp =>
    if nh = 6 then
      if t6.length < 12 then .err .pktShort
      else .ok (some (.tcp (addrNat dst) (beN a0 a1) (beN a2 a3) (some tc)))
    else .ok none

theorem tc_roundtrip (tc b1 : UInt8) :
    (UInt8.ofNat (96 + tc.toNat / 16)).toNat % 16 * 16 +
      (UInt8.ofNat (tc.toNat % 16 * 16 + b1.toNat % 16)).toNat / 16 = tc.toNat := by
  have := UInt8.toNat_lt tc
  simp only [UInt8.toNat_ofNat']; omega


/-- the octets `make_ipv4_packet` produces -/
def ip4Bytes (c : ChanCfg) (proto : UInt8) (ttl ident : Nat) (payload : Buf) : Buf :=
  [0x45, c.tos, hi (20 + payload.length), lo (20 + payload.length), hi ident, lo ident,
   hi Consts.net4_DONT_FRAGMENT, lo Consts.net4_DONT_FRAGMENT, UInt8.ofNat ttl, proto, 0, 0] ++
    c.src ++ c.dst ++ payload

theorem makeIpv4_eq (c : ChanCfg) (proto : UInt8) (ttl ident : Nat) (payload : Buf)
    (hl : 20 + payload.length ≤ 1024) :
    makeIpv4 c proto ttl ident payload = .ok (ip4Bytes c proto ttl ident payload) := by
  have h2 : ¬ (1024 < 20 + payload.length) := by omega
  simp [makeIpv4, MAX_PACKET_SIZE, Consts.channel_MAX_PACKET_SIZE, h2, ip4Bytes]

/-- the packet size is in the accepted range of the family -/
def SizeOk (c : ChanCfg) : Prop := (if c.v6 then 48 else 28) ≤ c.packetSize ∧ c.packetSize ≤ 1024

/-- the probe's fields are machine values (`u16` / `u8`) -/
def ProbeOk (p : Strat.Probe) : Prop :=
  p.seq < 65536 ∧ p.ident < 65536 ∧ p.srcPort < 65536 ∧ p.destPort < 65536 ∧ p.ttl ≤ 255

theorem size_facts (c : ChanCfg) (hsz : SizeOk c) :
    ¬ ¬ (minIcmp c ≤ c.packetSize ∧ c.packetSize ≤ MAX_PACKET_SIZE) ∧
    ¬ ¬ (minUdp c ≤ c.packetSize ∧ c.packetSize ≤ MAX_PACKET_SIZE) ∧
    c.packetSize - l4Hdr - ipHdr c ≤ maxIcmpPayload c ∧
    ¬ (c.packetSize - l4Hdr - ipHdr c > maxUdpPayload c) ∧
    8 + (c.packetSize - l4Hdr - ipHdr c) ≤ maxUdpBuf c ∧
    20 + (8 + (c.packetSize - l4Hdr - ipHdr c)) ≤ 1024 := by
  unfold SizeOk at hsz
  cases hv : c.v6 <;>
    simp [hv, minIcmp, minUdp, MAX_PACKET_SIZE, Consts.channel_MAX_PACKET_SIZE, ipHdr,
      maxIcmpPayload, maxUdpPayload, maxUdpBuf,
      Consts.net4_MIN_PACKET_SIZE_ICMP, Consts.net4_MIN_PACKET_SIZE_UDP,
      Consts.net6_MIN_PACKET_SIZE_ICMP, Consts.net6_MIN_PACKET_SIZE_UDP,
      Consts.net4_MAX_ICMP_PAYLOAD_BUF, Consts.net6_MAX_ICMP_PAYLOAD_BUF,
      Consts.net4_MAX_UDP_PAYLOAD_BUF, Consts.net6_MAX_UDP_PAYLOAD_BUF,
      Consts.net4_MAX_UDP_PACKET_BUF, Consts.net6_MAX_UDP_PACKET_BUF] at hsz ⊢ <;> omega

/-- ICMP dispatch in closed form (both families) -/
theorem dispatch_icmp_eq (c : ChanCfg) (hc : c.AddrOk) (hp : c.proto = .icmp) (hsz : SizeOk c)
    (p : Strat.Probe) :
    ∃ ck, ck ≤ 0xFFFF ∧ dispatch c p = .ok
      (if c.v6 then
        [.setHops p.ttl, .sendTo (echoPkt c ck p.ident p.seq (c.packetSize - l4Hdr - ipHdr c)) c.dst 0]
       else
        [.sendTo (ip4Bytes c protoIcmp p.ttl 0
          (echoPkt c ck p.ident p.seq (c.packetSize - l4Hdr - ipHdr c))) c.dst 0]) := by
  obtain ⟨hcond, _, hn, _, _, hfit⟩ := size_facts c hsz
  obtain ⟨ck, hck, he, _⟩ := makeEchoRequest_spec c hc p.ident p.seq _ hn
  refine ⟨ck, hck, ?_⟩
  have hel := echoPkt_length c ck p.ident p.seq (c.packetSize - l4Hdr - ipHdr c)
  simp only [dispatch, hp, dispatchIcmp, if_neg hcond, he, R.bind_ok]
  cases hv : c.v6
  · simp only [Bool.false_eq_true, if_false]
    rw [makeIpv4_eq _ _ _ _ _ (by rw [hel]; exact hfit)]
    rfl
  · simp only [if_true]; rfl

/-- what every raw UDP probe looks like: ports, a consistent length, and where the strategy put
the sequence -/
def UdpShape (c : ChanCfg) (p : Strat.Probe) (udp : Buf) : Prop :=
  ∃ l0 l1 x0 x1 rest,
    udp = hi p.srcPort :: lo p.srcPort :: hi p.destPort :: lo p.destPort :: l0 :: l1 :: x0 :: x1 :: rest ∧
    beN l0 l1 = 8 + rest.length ∧ 20 + (8 + rest.length) ≤ 1024 ∧
    (isParis p.flags = true → beN x0 x1 = p.seq) ∧
    (isParis p.flags = false → c.v6 = true → isDublin p.flags = true →
      rest = Consts.net6_MAGIC ++ List.replicate (p.seq - c.initialSeq) c.pattern) ∧
    (isParis p.flags = false → c.v6 = false →
      calcUdpChecksum c p.srcPort p.destPort rest.length = .ok (beN x0 x1))

/-- raw UDP dispatch in closed form (both families, all three strategies) -/
theorem dispatch_udp_raw_eq (c : ChanCfg) (hc : c.AddrOk) (hp : c.proto = .udp)
    (hpriv : c.privileged = true) (hsz : SizeOk c) (p : Strat.Probe) (hpr : ProbeOk p)
    (hwin : isParis p.flags = false → c.v6 = true → isDublin p.flags = true →
      c.initialSeq ≤ p.seq ∧ p.seq - c.initialSeq ≤ 970) :
    ∃ udp, UdpShape c p udp ∧ dispatch c p = .ok
      (if c.v6 then [.setHops p.ttl, .sendTo udp c.dst 0]
       else [.sendTo (ip4Bytes c protoUdp p.ttl p.ident udp) c.dst p.destPort]) := by
  obtain ⟨_, hcond, _, hpl, hbuf, hfit⟩ := size_facts c hsz
  obtain ⟨h1, h2, h3, h4, h5⟩ := hpr
  have hmb := maxUdpBuf_le c
  cases hfp : isParis p.flags
  · -- classic / Dublin
    by_cases hd6 : c.v6 = true ∧ isDublin p.flags = true
    · obtain ⟨hv, hfd⟩ := hd6
      obtain ⟨hw1, hw2⟩ := hwin hfp hv hfd
      have hml : Consts.net6_MAGIC.length = 6 := by decide
      have hmp : maxUdpPayload c = 976 ∧ maxUdpBuf c = 984 := by
        simp [maxUdpPayload, maxUdpBuf, hv, Consts.net6_MAX_UDP_PAYLOAD_BUF,
          Consts.net6_MAX_UDP_PACKET_BUF]
      have hlen : (Consts.net6_MAGIC ++ List.replicate (p.seq - c.initialSeq) c.pattern).length =
          6 + (p.seq - c.initialSeq) := by simp [hml]
      obtain ⟨ck, hck, hm, _⟩ := makeUdp_spec c hc p.srcPort p.destPort
        (Consts.net6_MAGIC ++ List.replicate (p.seq - c.initialSeq) c.pattern)
        (by rw [hlen, hmp.2]; omega)
      refine ⟨udpPkt p.srcPort p.destPort ck _, ⟨_, _, _, _, _, rfl, hi_lo _ (by rw [hlen]; omega),
        by rw [hlen]; omega, ?_, ?_, ?_⟩, ?_⟩
      · intro h; rw [hfp] at h; cases h
      · intro _ _ _; rfl
      · intro _ h; rw [hv] at h; cases h
      · have hsub : Strat.subU p.seq c.initialSeq = .ok (p.seq - c.initialSeq) := by
          simp [Strat.subU, hw1]
        have hfit6 : ¬ (p.seq - c.initialSeq + Consts.net6_MAGIC.length > maxUdpPayload c) := by
          rw [hml, hmp.1]; omega
        simp only [dispatch, hp, dispatchUdp, if_neg hcond, if_neg hpl, hpriv, if_true,
          dispatchUdpRaw, hfp, hfd, hv, Bool.and_true, Bool.false_eq_true, if_false, hsub,
          R.pure_eq, R.bind_ok, if_neg hfit6, hm]
    · have hd6' : (c.v6 && isDublin p.flags) = false := by
        cases hv : c.v6 <;> cases hfd : isDublin p.flags <;> simp_all
      obtain ⟨ck, hck, hm, _⟩ := makeUdp_spec c hc p.srcPort p.destPort
        (List.replicate (c.packetSize - l4Hdr - ipHdr c) c.pattern)
        (by simp only [List.length_replicate]; exact hbuf)
      refine ⟨udpPkt p.srcPort p.destPort ck
        (List.replicate (c.packetSize - l4Hdr - ipHdr c) c.pattern),
        ⟨_, _, _, _, _, rfl, ?_, ?_, ?_, ?_, ?_⟩, ?_⟩
      · exact hi_lo _ (by simp only [List.length_replicate]; omega)
      · simp only [List.length_replicate]; exact hfit
      · intro h; rw [hfp] at h; cases h
      · intro _ hv hdd; exact absurd ⟨hv, hdd⟩ hd6
      · intro _ _
        have hmin : min (c.packetSize - l4Hdr - ipHdr c) (maxUdpPayload c) =
            c.packetSize - l4Hdr - ipHdr c := by omega
        simp only [List.length_replicate, calcUdpChecksum, hmin, hm, R.bind_ok, R.pure_eq]
        rw [hi_lo _ (by omega)]
      · simp only [dispatch, hp, dispatchUdp, if_neg hcond, if_neg hpl, hpriv, if_true,
          dispatchUdpRaw, hfp, hd6', Bool.false_eq_true, if_false, hm, R.pure_eq, R.bind_ok]
        cases hv : c.v6
        · simp only [Bool.false_eq_true, if_false]
          rw [makeIpv4_eq _ _ _ _ _ (by rw [udpPkt_length]; simp only [List.length_replicate]; exact hfit)]
          rfl
        · rfl
  · -- Paris
    obtain ⟨ck, hck, hm, _, _⟩ := makeUdpParis_spec c hc p.srcPort p.destPort p.seq
    refine ⟨parisPkt p.srcPort p.destPort p.seq ck, ⟨hi 10, lo 10, hi p.seq, lo p.seq,
      [hi ck, lo ck], rfl, hi_lo 10 (by omega), by simp, ?_, ?_, ?_⟩, ?_⟩
    · intro _; exact hi_lo _ h1
    · intro h; rw [hfp] at h; cases h
    · intro h; rw [hfp] at h; cases h
    · simp only [dispatch, hp, dispatchUdp, if_neg hcond, if_neg hpl, hpriv, if_true,
        dispatchUdpRaw, hfp, hm, R.pure_eq, R.bind_ok]
      cases hv : c.v6
      · simp only [Bool.false_eq_true, if_false]
        rw [makeIpv4_eq _ _ _ _ _ (by simp [parisPkt])]
        rfl
      · rfl


end recv

end TV.Wire
