import TrippyVerif.Model.Wire
import TrippyVerif.Lemmas.Checksum
import TrippyVerif.Lemmas.Ext
import TrippyVerif.Props.C13
import TrippyVerif.Spec.Decode
/-
Helper lemmas for the wire layer (C04 receive half, C11, C02).
-/
namespace TV.Wire
open TV

/-! ### octets -/

theorem hi_lo (n : Nat) (h : n < 65536) : beN (hi n) (lo n) = n := by
  simp only [beN, hi, lo, UInt8.toNat_ofNat']; omega

theorem hi_toNat (n : Nat) (h : n < 65536) : (hi n).toNat = n / 256 := by
  simp only [hi, UInt8.toNat_ofNat']; omega

theorem lo_toNat (n : Nat) : (lo n).toNat = n % 256 := by
  simp only [lo, UInt8.toNat_ofNat']; omega

theorem beN_lt (a b : UInt8) : beN a b < 65536 := by
  have := UInt8.toNat_lt a; have := UInt8.toNat_lt b
  simp only [beN]; omega

theorem ofNat_toNat (n : Nat) (h : n < 256) : (UInt8.ofNat n).toNat = n := by
  simp only [UInt8.toNat_ofNat']; omega

/-! ### reads that are in range -/

theorem rd_ok (b : Buf) (i : Nat) (h : i < b.length) : rd b i = .ok (b.getD i 0) := by
  simp [rd, List.getD, h]

theorem rd16_ok (b : Buf) (off : Nat) (h : off + 1 < b.length) :
    rd16 b off = .ok (beN (b.getD off 0) (b.getD (off + 1) 0)) := by
  simp [rd16, rd_ok b off (by omega), rd_ok b (off + 1) h]

theorem rdSlice_ok (b : Buf) (off n : Nat) (h : off + n ≤ b.length) :
    rdSlice b off n = .ok ((b.drop off).take n) := by
  simp [rdSlice, h]

/-! ### `≠ panic` through `bind` -/

theorem bind_np {α β : Type} {x : R α} {f : α → R β} (hx : x ≠ .panic)
    (hf : ∀ a, x = .ok a → f a ≠ .panic) : (x >>= f) ≠ .panic := by
  cases x with
  | ok a => simpa using hf a rfl
  | err e => simp
  | panic => exact absurd rfl hx

theorem map_np {α β : Type} {x : R α} {f : α → β} (hx : x ≠ .panic) : (f <$> x) ≠ .panic := by
  cases x <;> simp_all

/-! ### slice accessors on views of at least the minimum size -/

theorem ipv4OptionsLength_ok (b : Buf) (h : 0 < b.length) :
    ipv4OptionsLength b = .ok ((b.getD 0 0).toNat % 16 * 4 - 20) := by
  simp [ipv4OptionsLength, rd_ok b 0 h]

theorem ipv4Payload_ok (b : Buf) (h : 0 < b.length) :
    ipv4Payload b = .ok (b.drop (min (20 + ((b.getD 0 0).toNat % 16 * 4 - 20)) b.length)) := by
  simp [ipv4Payload, ipv4OptionsLength_ok b h]

theorem ipv4OptionsRaw_ok (b : Buf) (h : 20 ≤ b.length) :
    ipv4OptionsRaw b =
      .ok ((b.take (min (20 + ((b.getD 0 0).toNat % 16 * 4 - 20)) b.length)).drop 20) := by
  have : ¬ min (20 + ((b.getD 0 0).toNat % 16 * 4 - 20)) b.length < 20 := by omega
  simp only [ipv4OptionsRaw, ipv4OptionsLength_ok b (by omega), R.bind_ok, ip4Hdr, if_neg this]
  rfl

theorem ipv6Payload_ok (b : Buf) (h : 6 ≤ b.length) :
    ipv6Payload b =
      .ok (if b.length ≤ 40 then []
           else (b.take (min (40 + beN (b.getD 4 0) (b.getD 5 0)) b.length)).drop 40) := by
  simp only [ipv6Payload, rd16_ok b 4 (by omega)]
  split <;> simp

theorem udpPayload_ok (b : Buf) (h : 8 ≤ b.length) : udpPayload b = .ok (b.drop 8) := by
  have : ¬ b.length < 8 := by omega
  simp [udpPayload, this]

theorem echoPayload_ok (b : Buf) (h : 8 ≤ b.length) : echoPayload b = .ok (b.drop 8) := by
  have : ¬ b.length < 8 := by omega
  simp [echoPayload, this]

theorem tcpOptionsLength_ok (b : Buf) (h : 12 < b.length) :
    tcpOptionsLength b =
      .ok (if (b.getD 12 0).toNat / 16 > 5 then (b.getD 12 0).toNat / 16 * 4 - 20 else 0) := by
  simp [tcpOptionsLength, rd_ok b 12 h]

theorem tcpOptionsRaw_ne_panic (b : Buf) (h : 20 ≤ b.length) : tcpOptionsRaw b ≠ .panic := by
  simp only [tcpOptionsRaw, tcpOptionsLength_ok b (by omega), R.bind_ok, tcpHdr]
  rw [if_neg (by omega)]
  simp

theorem tcpPayload_ne_panic (b : Buf) (h : 20 ≤ b.length) : tcpPayload b ≠ .panic := by
  simp only [tcpPayload, tcpOptionsLength_ok b (by omega), R.bind_ok]
  split <;> split <;> simp

/-! ### `make_udp_packet` / `calc_udp_checksum` never panic on an address-well-formed configuration -/

/-- the addresses have the length of the family -/
def ChanCfg.AddrOk (c : ChanCfg) : Prop :=
  if c.v6 then c.src.length = 16 ∧ c.dst.length = 16 else c.src.length = 4 ∧ c.dst.length = 4

instance (c : ChanCfg) : Decidable c.AddrOk := by
  unfold ChanCfg.AddrOk; infer_instance

theorem maxUdpBuf_le (c : ChanCfg) : maxUdpBuf c ≤ 1004 := by
  unfold maxUdpBuf; split <;> decide

theorem maxUdpPayload_le (c : ChanCfg) : maxUdpPayload c + 8 ≤ maxUdpBuf c := by
  unfold maxUdpPayload maxUdpBuf; split <;> decide

theorem makeUdp_ok (c : ChanCfg) (hc : c.AddrOk) (sp dp : Nat) (payload : Buf)
    (h : 8 + payload.length ≤ maxUdpBuf c) :
    ∃ ck, ck ≤ 0xFFFF ∧ makeUdp c sp dp payload = .ok (ck,
      hi sp :: lo sp :: hi dp :: lo dp :: hi (8 + payload.length) :: lo (8 + payload.length) ::
        hi ck :: lo ck :: payload) := by
  have hb := maxUdpBuf_le c
  have hlen : (hi sp :: lo sp :: hi dp :: lo dp :: hi (8 + payload.length) ::
      lo (8 + payload.length) :: 0 :: 0 :: payload).length ≤ 65535 := by
    simp only [List.length_cons]; omega
  unfold makeUdp
  simp only [l4Hdr]
  rw [if_neg (by omega)]
  unfold ChanCfg.AddrOk at hc
  by_cases hv : c.v6 = true
  · rw [if_pos hv] at hc
    simp only [hv, if_true, Cksum.udp_ipv6_checksum]
    rw [show Cksum.protoUdp = 17 from rfl, Cksum.ipv6Checksum_eq 3 17 hc.1 hc.2 hlen]
    exact ⟨Rfc1071.ocsum _, by unfold Rfc1071.ocsum; omega, rfl⟩
  · rw [if_neg hv] at hc
    have hv' : c.v6 = false := by simpa using hv
    simp only [hv', Bool.false_eq_true, if_false, Cksum.udp_ipv4_checksum]
    rw [show Cksum.protoUdp = 17 from rfl, Cksum.ipv4Checksum_eq 3 17 hc.1 hc.2 hlen]
    exact ⟨Rfc1071.ocsum _, by unfold Rfc1071.ocsum; omega, rfl⟩

theorem calcUdpChecksum_ok (c : ChanCfg) (hc : c.AddrOk) (sp dp plen : Nat) :
    ∃ ck, ck ≤ 0xFFFF ∧ calcUdpChecksum c sp dp plen = .ok ck := by
  have hp := maxUdpPayload_le c
  obtain ⟨ck, hck, h⟩ := makeUdp_ok c hc sp dp (List.replicate (min plen (maxUdpPayload c)) c.pattern)
    (by simp only [List.length_replicate]; omega)
  exact ⟨ck, hck, by simp [calcUdpChecksum, h]⟩

/-! ### the receive path -/

theorem extractEchoRequest_ne_panic (l4 : Buf) : extractEchoRequest l4 ≠ .panic := by
  unfold extractEchoRequest
  split
  · simp
  · simp [rd16_ok l4 4 (by simp only [l4Hdr] at *; omega), rd16_ok l4 6 (by simp only [l4Hdr] at *; omega)]

theorem extractUdp_ne_panic (l4 : Buf) : extractUdp l4 ≠ .panic := by
  unfold extractUdp
  split
  · simp
  · rename_i h
    simp only [l4Hdr, Nat.not_lt] at h
    simp [rd16_ok l4 0 (by omega), rd16_ok l4 2 (by omega), rd16_ok l4 4 (by omega),
      rd16_ok l4 6 (by omega)]

theorem extractTcp4_ne_panic (l4 : Buf) : extractTcp4 l4 ≠ .panic := by
  unfold extractTcp4
  simp only [tcpHdr]
  generalize hb : (if l4.length < 20 then l4 ++ List.replicate (20 - l4.length) 0 else l4) = buf
  have hl : 20 ≤ buf.length := by
    subst hb; split
    · simp only [List.length_append, List.length_replicate]; omega
    · omega
  rw [if_neg (by omega)]
  simp [rd16_ok buf 0 (by omega), rd16_ok buf 2 (by omega)]

theorem extractTcp6_ne_panic (l4 : Buf) : extractTcp6 l4 ≠ .panic := by
  unfold extractTcp6
  simp only [tcpHdr]
  split
  · simp
  · rename_i h
    simp only [Nat.not_lt] at h
    simp [rd16_ok l4 0 (by omega), rd16_ok l4 2 (by omega)]

theorem udpHasMagic_ne_panic (l4 : Buf) : udpHasMagic l4 ≠ .panic := by
  unfold udpHasMagic
  split
  · simp
  · rename_i h
    simp only [l4Hdr, Nat.not_lt] at h
    simp [udpPayload_ok l4 h]

theorem trafficClass_ok (ip : Buf) (h : 2 ≤ ip.length) :
    trafficClass ip = .ok ((ip.getD 0 0).toNat % 16 * 16 + (ip.getD 1 0).toNat / 16) := by
  simp [trafficClass, rd_ok ip 0 (by omega), rd_ok ip 1 (by omega)]

theorem protoResp4_ne_panic (c : ChanCfg) (hc : c.AddrOk) (ip : Buf) (h : 20 ≤ ip.length) :
    protoResp4 c ip ≠ .panic := by
  unfold protoResp4
  simp only [rd_ok ip 9 (by omega), rd_ok ip 1 (by omega), R.bind_ok, ipv4Payload_ok ip (by omega),
    rd16_ok ip 4 (by omega), rdSlice_ok ip 16 4 (by omega)]
  cases c.proto <;> simp only <;> split <;> try simp
  · apply bind_np (extractEchoRequest_ne_panic _)
    intro a _; obtain ⟨id, sq⟩ := a; simp
  · apply bind_np (extractUdp_ne_panic _)
    intro a _; obtain ⟨sp, dp, act, plen⟩ := a
    obtain ⟨ck, _, hck⟩ := calcUdpChecksum_ok c hc sp dp plen
    simp [hck]
  · apply bind_np (extractTcp4_ne_panic _)
    intro a _; obtain ⟨sp, dp⟩ := a; simp

theorem protoResp6_ne_panic (c : ChanCfg) (ip : Buf) (h : 40 ≤ ip.length) :
    protoResp6 c ip ≠ .panic := by
  unfold protoResp6
  simp only [rd_ok ip 6 (by omega), R.bind_ok, ipv6Payload_ok ip (by omega),
    trafficClass_ok ip (by omega), rdSlice_ok ip 24 16 (by omega)]
  cases c.proto <;> simp only <;> split <;> try simp
  · apply bind_np (extractEchoRequest_ne_panic _)
    intro a _; obtain ⟨id, sq⟩ := a; simp
  · apply bind_np (extractUdp_ne_panic _)
    intro a _; obtain ⟨sp, dp, act, plen⟩ := a
    simp only
    apply bind_np (udpHasMagic_ne_panic _)
    intro m _; simp
  · apply bind_np (extractTcp6_ne_panic _)
    intro a _; obtain ⟨sp, dp⟩ := a; simp

theorem protoResp_ne_panic (c : ChanCfg) (hc : c.AddrOk) (ip : Buf) : protoResp c ip ≠ .panic := by
  unfold protoResp
  split
  · simp
  · rename_i h
    simp only [ipHdr, Nat.not_lt] at h
    split
    · rename_i hv; simp only [hv, if_true] at h; exact protoResp6_ne_panic c ip h
    · rename_i hv; simp only [hv] at h
      exact protoResp4_ne_panic c hc ip h

theorem extractProbeResp_ne_panic (c : ChanCfg) (hc : c.AddrOk) (icmp src : Buf)
    (h : 8 ≤ icmp.length) : extractProbeResp c icmp src ≠ .panic := by
  unfold extractProbeResp
  simp only [rd_ok icmp 0 (by omega), rd_ok icmp 1 (by omega), rd16_ok icmp 4 (by omega),
    rd16_ok icmp 6 (by omega), R.bind_ok, Ext.codeIsFixed]
  split
  · split
    · apply bind_np (Ext.tracerExtract_ne_panic c.v6 true c.extEnabled icmp h)
      intro a _; obtain ⟨q, e⟩ := a
      simp only
      apply bind_np (protoResp_ne_panic c hc q)
      intro pr _; simp
    · simp
  · split
    · apply bind_np (Ext.tracerExtract_ne_panic c.v6 false c.extEnabled icmp h)
      intro a _; obtain ⟨q, e⟩ := a
      simp only
      apply bind_np (protoResp_ne_panic c hc q)
      intro pr _; simp
    · split
      · cases c.proto <;> simp
      · simp

theorem recvIcmp4_ne_panic (c : ChanCfg) (hc : c.AddrOk) (bytes : Buf) :
    recvIcmp4 c bytes ≠ .panic := by
  unfold recvIcmp4
  split
  · simp
  · rename_i h
    simp only [ip4Hdr, Nat.not_lt] at h
    simp only [rdSlice_ok bytes 12 4 (by omega), ipv4Payload_ok bytes (by omega), R.bind_ok]
    split
    · simp
    · rename_i h8
      simp only [l4Hdr, Nat.not_lt] at h8
      exact extractProbeResp_ne_panic c hc _ _ h8

theorem recvIcmp6_ne_panic (c : ChanCfg) (hc : c.AddrOk) (bytes src : Buf) (hs : src.length ≠ 4) :
    recvIcmp6 c bytes src ≠ .panic := by
  unfold recvIcmp6
  split
  · simp
  · rename_i h
    simp only [l4Hdr, Nat.not_lt] at h
    split
    · simp
    · exact extractProbeResp_ne_panic c hc _ _ h

/-! ## send side (C11) -/

open TV.Rfc1071 TV.Decode

theorem len4 (l : Buf) (h : l.length = 4) : ∃ a b c d, l = [a, b, c, d] := by
  match l, h with
  | [a, b, c, d], _ => exact ⟨a, b, c, d, rfl⟩

theorem makeIpv4_decode (c : ChanCfg) (hs : c.src.length = 4) (hd : c.dst.length = 4)
    (proto : UInt8) (ttl ident : Nat) (payload : Buf)
    (hl : 20 + payload.length ≤ 1024) (ht : ttl ≤ 255) (hi' : ident < 65536) :
    ∃ bytes, makeIpv4 c proto ttl ident payload = .ok bytes ∧ bytes.length = 20 + payload.length ∧
      decodeIPv4 bytes = some
        ({ version := 4, ihl := 5, tos := c.tos.toNat, totalLength := 20 + payload.length,
           ident := ident, reserved := false, df := true, mf := false, fragOffset := 0, ttl := ttl,
           proto := proto.toNat, headerChecksum := 0, src := c.src, dst := c.dst, options := [] },
         payload) := by
  obtain ⟨s0, s1, s2, s3, hs⟩ := len4 _ hs
  obtain ⟨d0, d1, d2, d3, hd⟩ := len4 _ hd
  have h1 : ¬ (20 + payload.length > 1024) := by omega
  have hm : makeIpv4 c proto ttl ident payload = .ok ([0x45, c.tos, hi (20 + payload.length),
      lo (20 + payload.length), hi ident, lo ident, hi Consts.net4_DONT_FRAGMENT,
      lo Consts.net4_DONT_FRAGMENT, UInt8.ofNat ttl, proto, 0, 0] ++ c.src ++ c.dst ++ payload) := by
    have h2 : ¬ (1024 < 20 + payload.length) := by omega
    simp [makeIpv4, MAX_PACKET_SIZE, Consts.channel_MAX_PACKET_SIZE, h2]
  refine ⟨_, hm, ?_, ?_⟩
  · simp [hs, hd]; omega
  · simp only [hs, hd, List.cons_append, List.nil_append, decodeIPv4]
    have e1 : u16 (hi (20 + payload.length)) (lo (20 + payload.length)) = 20 + payload.length :=
      hi_lo _ (by omega)
    have e2 : u16 (hi ident) (lo ident) = ident := hi_lo _ hi'
    have e3 : (UInt8.ofNat ttl).toNat = ttl := ofNat_toNat _ (by omega)
    simp only [e1, e2, e3]
    simp [hi, lo, Consts.net4_DONT_FRAGMENT, u16]

/-- the RFC pseudo header of the configured family -/
def pseudoHdr (c : ChanCfg) (proto : UInt8) (len : Nat) : Buf :=
  if c.v6 then pseudo6 c.src c.dst proto len else pseudo4 c.src c.dst proto len

theorem pseudoHdr_even (c : ChanCfg) (hc : c.AddrOk) (proto : UInt8) (len : Nat) :
    (pseudoHdr c proto len).length % 2 = 0 := by
  unfold pseudoHdr ChanCfg.AddrOk at *
  split <;> rename_i hv <;> simp only [hv, if_true] at hc
  · exact Cksum.pseudo6_length_even _ _ hc.1 hc.2
  · exact Cksum.pseudo4_length_even _ _ (by simpa using hc.1) (by simpa using hc.2)

/-- the UDP packet `make_udp_packet` builds, given its checksum -/
def udpPkt (sp dp ck : Nat) (payload : Buf) : Buf :=
  hi sp :: lo sp :: hi dp :: lo dp :: hi (8 + payload.length) :: lo (8 + payload.length) ::
    hi ck :: lo ck :: payload

theorem makeUdp_spec (c : ChanCfg) (hc : c.AddrOk) (sp dp : Nat) (payload : Buf)
    (h : 8 + payload.length ≤ maxUdpBuf c) :
    ∃ ck, ck ≤ 0xFFFF ∧ makeUdp c sp dp payload = .ok (ck, udpPkt sp dp ck payload) ∧
      verifies (pseudoHdr c 17 (8 + payload.length) ++ udpPkt sp dp ck payload) := by
  have hb := maxUdpBuf_le c
  let d : Buf := hi sp :: lo sp :: hi dp :: lo dp :: hi (8 + payload.length) ::
      lo (8 + payload.length) :: 0 :: 0 :: payload
  have hdl : d.length = 8 + payload.length := by simp [d]; omega
  have hlen : d.length ≤ 65535 := by omega
  have hf : 2 * 3 + 1 < d.length := by omega
  have hput : ∀ ck, putField 3 ck d = udpPkt sp dp ck payload := by
    intro ck; simp [d, putField, udpPkt, hi, lo]
  unfold makeUdp
  simp only [l4Hdr]
  rw [if_neg (by omega)]
  unfold ChanCfg.AddrOk at hc
  unfold pseudoHdr
  by_cases hv : c.v6 = true
  · rw [if_pos hv] at hc
    obtain ⟨ck, h1, h2, h3⟩ := C13.udp_ipv6_checksum_verifies d c.src c.dst hc.1 hc.2 hlen hf
    refine ⟨ck, h2, ?_, ?_⟩
    · simp only [hv, if_true]; rw [show (hi sp :: lo sp :: hi dp :: lo dp :: hi (8 + payload.length) ::
        lo (8 + payload.length) :: 0 :: 0 :: payload) = d from rfl, h1]; rfl
    · simp only [hv, if_true]; rw [← hput, ← hdl]; exact h3
  · rw [if_neg hv] at hc
    have hv' : c.v6 = false := by simpa using hv
    obtain ⟨ck, h1, h2, h3⟩ := C13.udp_ipv4_checksum_verifies d c.src c.dst hc.1 hc.2 hlen hf
    refine ⟨ck, h2, ?_, ?_⟩
    · simp only [hv', Bool.false_eq_true, if_false]; rw [show (hi sp :: lo sp :: hi dp :: lo dp :: hi (8 + payload.length) ::
        lo (8 + payload.length) :: 0 :: 0 :: payload) = d from rfl, h1]; rfl
    · simp only [hv', Bool.false_eq_true, if_false]; rw [← hput, ← hdl]; exact h3



/-- the Echo Request `make_echo_request_icmp_packet` builds, given its checksum -/
def echoPkt (c : ChanCfg) (ck ident seq n : Nat) : Buf :=
  (if c.v6 then 128 else 8) :: 0 :: hi ck :: lo ck :: hi ident :: lo ident :: hi seq :: lo seq ::
    List.replicate n c.pattern

theorem maxIcmp_facts (c : ChanCfg) : maxIcmpPayload c + 8 ≤ maxIcmpBuf c ∧ maxIcmpBuf c ≤ 1004 := by
  unfold maxIcmpPayload maxIcmpBuf; split <;> decide

theorem makeEchoRequest_spec (c : ChanCfg) (hc : c.AddrOk) (ident seq n : Nat)
    (h : n ≤ maxIcmpPayload c) :
    ∃ ck, ck ≤ 0xFFFF ∧ makeEchoRequest c ident seq n = .ok (echoPkt c ck ident seq n) ∧
      verifies ((if c.v6 then pseudoHdr c 58 (8 + n) else []) ++ echoPkt c ck ident seq n) := by
  have hm := maxIcmp_facts c
  unfold makeEchoRequest
  simp only [l4Hdr]
  rw [if_neg (by omega), if_neg (by omega)]
  unfold ChanCfg.AddrOk at hc
  unfold pseudoHdr echoPkt
  by_cases hv : c.v6 = true
  · rw [if_pos hv] at hc
    let d : Buf := 128 :: 0 :: 0 :: 0 :: hi ident :: lo ident :: hi seq :: lo seq :: List.replicate n c.pattern
    have hdl : d.length = 8 + n := by simp [d]; omega
    obtain ⟨ck, h1, h2, h3⟩ := C13.icmp_ipv6_checksum_verifies d c.src c.dst hc.1 hc.2 (by omega) (by omega)
    refine ⟨ck, h2, ?_, ?_⟩
    · simp only [hv, if_true]
      rw [show (128 :: 0 :: 0 :: 0 :: hi ident :: lo ident :: hi seq :: lo seq :: List.replicate n c.pattern) = d from rfl, h1]
      rfl
    · simp only [hv, if_true]
      have : putField 1 ck d = 128 :: 0 :: hi ck :: lo ck :: hi ident :: lo ident :: hi seq :: lo seq :: List.replicate n c.pattern := by
        exact (Cksum.putField_cons2_succ 0 ck _ _ _).trans (by rw [Cksum.putField_cons2_zero]; rfl)
      rw [← this, ← hdl]; exact h3
  · have hv' : c.v6 = false := by simpa using hv
    let d : Buf := 8 :: 0 :: 0 :: 0 :: hi ident :: lo ident :: hi seq :: lo seq :: List.replicate n c.pattern
    have hdl : d.length = 8 + n := by simp [d]; omega
    obtain ⟨ck, h1, h2, h3⟩ := C13.icmp_ipv4_checksum_verifies d (by omega) (by omega)
    refine ⟨ck, h2, ?_, ?_⟩
    · simp only [hv', Bool.false_eq_true, if_false]
      rw [show (8 :: 0 :: 0 :: 0 :: hi ident :: lo ident :: hi seq :: lo seq :: List.replicate n c.pattern) = d from rfl, h1]
      rfl
    · simp only [hv', Bool.false_eq_true, if_false, List.nil_append]
      have : putField 1 ck d = 8 :: 0 :: hi ck :: lo ck :: hi ident :: lo ident :: hi seq :: lo seq :: List.replicate n c.pattern := by
        exact (Cksum.putField_cons2_succ 0 ck _ _ _).trans (by rw [Cksum.putField_cons2_zero]; rfl)
      rw [← this]; exact h3

/-- swapping two aligned 16-bit words does not change the one's complement sum -/
theorem verifies_swap (pre : Buf) (hpre : pre.length % 2 = 0) (a b c d e f g h i j : UInt8) :
    verifies (pre ++ [a, b, c, d, e, f, g, h, i, j]) →
    verifies (pre ++ [a, b, c, d, e, f, i, j, g, h]) := by
  unfold verifies
  rw [Cksum.wordSum_append_even _ _ hpre, Cksum.wordSum_append_even _ _ hpre]
  have e : wordSum [a, b, c, d, e, f, i, j, g, h] = wordSum [a, b, c, d, e, f, g, h, i, j] := by
    simp only [wordSum]; omega
  rw [e]; exact id


theorem decodeIcmpEcho_echoPkt (c : ChanCfg) (ck ident seq n : Nat) (h1 : ck < 65536)
    (h2 : ident < 65536) (h3 : seq < 65536) :
    decodeIcmpEcho (echoPkt c ck ident seq n) =
      some { type := if c.v6 then 128 else 8, code := 0, checksum := ck, ident := ident, seq := seq,
             data := List.replicate n c.pattern } := by
  have e1 : u16 (hi ck) (lo ck) = ck := hi_lo _ h1
  have e2 : u16 (hi ident) (lo ident) = ident := hi_lo _ h2
  have e3 : u16 (hi seq) (lo seq) = seq := hi_lo _ h3
  simp only [echoPkt, decodeIcmpEcho, e1, e2, e3]
  cases c.v6 <;> simp

theorem decodeUDP_udpPkt (sp dp ck : Nat) (payload : Buf) (h1 : sp < 65536) (h2 : dp < 65536)
    (h3 : ck < 65536) (h4 : 8 + payload.length < 65536) :
    decodeUDP (udpPkt sp dp ck payload) =
      some ({ srcPort := sp, dstPort := dp, length := 8 + payload.length, checksum := ck }, payload) := by
  have e1 : u16 (hi sp) (lo sp) = sp := hi_lo _ h1
  have e2 : u16 (hi dp) (lo dp) = dp := hi_lo _ h2
  have e3 : u16 (hi ck) (lo ck) = ck := hi_lo _ h3
  have e4 : u16 (hi (8 + payload.length)) (lo (8 + payload.length)) = 8 + payload.length := hi_lo _ h4
  simp only [udpPkt, decodeUDP, e1, e2, e3, e4]
  simp

theorem udpPkt_length (sp dp ck : Nat) (payload : Buf) :
    (udpPkt sp dp ck payload).length = 8 + payload.length := by
  simp [udpPkt]; omega

theorem echoPkt_length (c : ChanCfg) (ck ident seq n : Nat) :
    (echoPkt c ck ident seq n).length = 8 + n := by
  simp [echoPkt]; omega

/-- the Paris datagram: checksum field = sequence, payload = the computed checksum -/
def parisPkt (sp dp seq ck : Nat) : Buf :=
  [hi sp, lo sp, hi dp, lo dp, hi 10, lo 10, hi seq, lo seq, hi ck, lo ck]

theorem makeUdpParis_spec (c : ChanCfg) (hc : c.AddrOk) (sp dp seq : Nat) :
    ∃ ck, ck ≤ 0xFFFF ∧ makeUdpParis c sp dp seq = .ok (parisPkt sp dp seq ck) ∧
      makeUdp c sp dp [hi seq, lo seq] = .ok (ck, udpPkt sp dp ck [hi seq, lo seq]) ∧
      verifies (pseudoHdr c 17 10 ++ parisPkt sp dp seq ck) := by
  have hb : 8 + [hi seq, lo seq].length ≤ maxUdpBuf c := by
    simp only [List.length_cons, List.length_nil]; unfold maxUdpBuf; split <;> decide
  obtain ⟨ck, h1, h2, h3⟩ := makeUdp_spec c hc sp dp [hi seq, lo seq] hb
  refine ⟨ck, h1, ?_, h2, ?_⟩
  · simp [makeUdpParis, h2, parisPkt]
  · exact verifies_swap _ (pseudoHdr_even c hc 17 10) _ _ _ _ _ _ _ _ _ _ h3


end TV.Wire
