import TrippyVerif.Model.Wire
import TrippyVerif.Lemmas.Checksum
import TrippyVerif.Lemmas.Ext
/-
Helper lemmas for the wire layer (C04 receive half, C11, C02).
-/
namespace TV.Wire
open TV

/-! ### octets -/

theorem hi_lo (n : Nat) (h : n < 65536) : beN (hi n) (lo n) = n := by
  simp only [beN, hi, lo, UInt8.toNat_ofNat']; omega

theorem hi_toNat (n : Nat) (h : n < 65536) : (hi n).toNat = n / 256 := by
  simp only [hi, UInt8.toNat_ofNat']; omega

theorem lo_toNat (n : Nat) : (lo n).toNat = n % 256 := by
  simp only [lo, UInt8.toNat_ofNat']; omega

theorem beN_lt (a b : UInt8) : beN a b < 65536 := by
  have := UInt8.toNat_lt a; have := UInt8.toNat_lt b
  simp only [beN]; omega

theorem ofNat_toNat (n : Nat) (h : n < 256) : (UInt8.ofNat n).toNat = n := by
  simp only [UInt8.toNat_ofNat']; omega

/-! ### reads that are in range -/

theorem rd_ok (b : Buf) (i : Nat) (h : i < b.length) : rd b i = .ok (b.getD i 0) := by
  simp [rd, List.getD, h]

theorem rd16_ok (b : Buf) (off : Nat) (h : off + 1 < b.length) :
    rd16 b off = .ok (beN (b.getD off 0) (b.getD (off + 1) 0)) := by
  simp [rd16, rd_ok b off (by omega), rd_ok b (off + 1) h]

theorem rdSlice_ok (b : Buf) (off n : Nat) (h : off + n ≤ b.length) :
    rdSlice b off n = .ok ((b.drop off).take n) := by
  simp [rdSlice, h]

/-! ### `≠ panic` through `bind` -/

theorem bind_np {α β : Type} {x : R α} {f : α → R β} (hx : x ≠ .panic)
    (hf : ∀ a, x = .ok a → f a ≠ .panic) : (x >>= f) ≠ .panic := by
  cases x with
  | ok a => simpa using hf a rfl
  | err e => simp
  | panic => exact absurd rfl hx

theorem map_np {α β : Type} {x : R α} {f : α → β} (hx : x ≠ .panic) : (f <$> x) ≠ .panic := by
  cases x <;> simp_all

/-! ### slice accessors on views of at least the minimum size -/

theorem ipv4OptionsLength_ok (b : Buf) (h : 0 < b.length) :
    ipv4OptionsLength b = .ok ((b.getD 0 0).toNat % 16 * 4 - 20) := by
  simp [ipv4OptionsLength, rd_ok b 0 h]

theorem ipv4Payload_ok (b : Buf) (h : 0 < b.length) :
    ipv4Payload b = .ok (b.drop (min (20 + ((b.getD 0 0).toNat % 16 * 4 - 20)) b.length)) := by
  simp [ipv4Payload, ipv4OptionsLength_ok b h]

theorem ipv4OptionsRaw_ok (b : Buf) (h : 20 ≤ b.length) :
    ipv4OptionsRaw b =
      .ok ((b.take (min (20 + ((b.getD 0 0).toNat % 16 * 4 - 20)) b.length)).drop 20) := by
  have : ¬ min (20 + ((b.getD 0 0).toNat % 16 * 4 - 20)) b.length < 20 := by omega
  simp only [ipv4OptionsRaw, ipv4OptionsLength_ok b (by omega), R.bind_ok, ip4Hdr, if_neg this]
  rfl

theorem ipv6Payload_ok (b : Buf) (h : 6 ≤ b.length) :
    ipv6Payload b =
      .ok (if b.length ≤ 40 then []
           else (b.take (min (40 + beN (b.getD 4 0) (b.getD 5 0)) b.length)).drop 40) := by
  simp only [ipv6Payload, rd16_ok b 4 (by omega)]
  split <;> simp

theorem udpPayload_ok (b : Buf) (h : 8 ≤ b.length) : udpPayload b = .ok (b.drop 8) := by
  have : ¬ b.length < 8 := by omega
  simp [udpPayload, this]

theorem echoPayload_ok (b : Buf) (h : 8 ≤ b.length) : echoPayload b = .ok (b.drop 8) := by
  have : ¬ b.length < 8 := by omega
  simp [echoPayload, this]

theorem tcpOptionsLength_ok (b : Buf) (h : 12 < b.length) :
    tcpOptionsLength b =
      .ok (if (b.getD 12 0).toNat / 16 > 5 then (b.getD 12 0).toNat / 16 * 4 - 20 else 0) := by
  simp [tcpOptionsLength, rd_ok b 12 h]

theorem tcpOptionsRaw_ne_panic (b : Buf) (h : 20 ≤ b.length) : tcpOptionsRaw b ≠ .panic := by
  simp only [tcpOptionsRaw, tcpOptionsLength_ok b (by omega), R.bind_ok, tcpHdr]
  rw [if_neg (by omega)]
  simp

theorem tcpPayload_ne_panic (b : Buf) (h : 20 ≤ b.length) : tcpPayload b ≠ .panic := by
  simp only [tcpPayload, tcpOptionsLength_ok b (by omega), R.bind_ok]
  split <;> split <;> simp

/-! ### `make_udp_packet` / `calc_udp_checksum` never panic on an address-well-formed configuration -/

/-- the addresses have the length of the family -/
def ChanCfg.AddrOk (c : ChanCfg) : Prop :=
  if c.v6 then c.src.length = 16 ∧ c.dst.length = 16 else c.src.length = 4 ∧ c.dst.length = 4

instance (c : ChanCfg) : Decidable c.AddrOk := by
  unfold ChanCfg.AddrOk; infer_instance

theorem maxUdpBuf_le (c : ChanCfg) : maxUdpBuf c ≤ 1004 := by
  unfold maxUdpBuf; split <;> decide

theorem maxUdpPayload_le (c : ChanCfg) : maxUdpPayload c + 8 ≤ maxUdpBuf c := by
  unfold maxUdpPayload maxUdpBuf; split <;> decide

theorem makeUdp_ok (c : ChanCfg) (hc : c.AddrOk) (sp dp : Nat) (payload : Buf)
    (h : 8 + payload.length ≤ maxUdpBuf c) :
    ∃ ck, ck ≤ 0xFFFF ∧ makeUdp c sp dp payload = .ok (ck,
      hi sp :: lo sp :: hi dp :: lo dp :: hi (8 + payload.length) :: lo (8 + payload.length) ::
        hi ck :: lo ck :: payload) := by
  have hb := maxUdpBuf_le c
  have hlen : (hi sp :: lo sp :: hi dp :: lo dp :: hi (8 + payload.length) ::
      lo (8 + payload.length) :: 0 :: 0 :: payload).length ≤ 65535 := by
    simp only [List.length_cons]; omega
  unfold makeUdp
  simp only [l4Hdr]
  rw [if_neg (by omega)]
  unfold ChanCfg.AddrOk at hc
  by_cases hv : c.v6 = true
  · rw [if_pos hv] at hc
    simp only [hv, if_true, Cksum.udp_ipv6_checksum]
    rw [show Cksum.protoUdp = 17 from rfl, Cksum.ipv6Checksum_eq 3 17 hc.1 hc.2 hlen]
    exact ⟨Rfc1071.ocsum _, by unfold Rfc1071.ocsum; omega, rfl⟩
  · rw [if_neg hv] at hc
    have hv' : c.v6 = false := by simpa using hv
    simp only [hv', Bool.false_eq_true, if_false, Cksum.udp_ipv4_checksum]
    rw [show Cksum.protoUdp = 17 from rfl, Cksum.ipv4Checksum_eq 3 17 hc.1 hc.2 hlen]
    exact ⟨Rfc1071.ocsum _, by unfold Rfc1071.ocsum; omega, rfl⟩

theorem calcUdpChecksum_ok (c : ChanCfg) (hc : c.AddrOk) (sp dp plen : Nat) :
    ∃ ck, ck ≤ 0xFFFF ∧ calcUdpChecksum c sp dp plen = .ok ck := by
  have hp := maxUdpPayload_le c
  obtain ⟨ck, hck, h⟩ := makeUdp_ok c hc sp dp (List.replicate (min plen (maxUdpPayload c)) c.pattern)
    (by simp only [List.length_replicate]; omega)
  exact ⟨ck, hck, by simp [calcUdpChecksum, h]⟩

/-! ### the receive path -/

theorem extractEchoRequest_ne_panic (l4 : Buf) : extractEchoRequest l4 ≠ .panic := by
  unfold extractEchoRequest
  split
  · simp
  · simp [rd16_ok l4 4 (by simp only [l4Hdr] at *; omega), rd16_ok l4 6 (by simp only [l4Hdr] at *; omega)]

theorem extractUdp_ne_panic (l4 : Buf) : extractUdp l4 ≠ .panic := by
  unfold extractUdp
  split
  · simp
  · rename_i h
    simp only [l4Hdr, Nat.not_lt] at h
    simp [rd16_ok l4 0 (by omega), rd16_ok l4 2 (by omega), rd16_ok l4 4 (by omega),
      rd16_ok l4 6 (by omega)]

theorem extractTcp4_ne_panic (l4 : Buf) : extractTcp4 l4 ≠ .panic := by
  unfold extractTcp4
  simp only [tcpHdr]
  generalize hb : (if l4.length < 20 then l4 ++ List.replicate (20 - l4.length) 0 else l4) = buf
  have hl : 20 ≤ buf.length := by
    subst hb; split
    · simp only [List.length_append, List.length_replicate]; omega
    · omega
  rw [if_neg (by omega)]
  simp [rd16_ok buf 0 (by omega), rd16_ok buf 2 (by omega)]

theorem extractTcp6_ne_panic (l4 : Buf) : extractTcp6 l4 ≠ .panic := by
  unfold extractTcp6
  simp only [tcpHdr]
  split
  · simp
  · rename_i h
    simp only [Nat.not_lt] at h
    simp [rd16_ok l4 0 (by omega), rd16_ok l4 2 (by omega)]

theorem udpHasMagic_ne_panic (l4 : Buf) : udpHasMagic l4 ≠ .panic := by
  unfold udpHasMagic
  split
  · simp
  · rename_i h
    simp only [l4Hdr, Nat.not_lt] at h
    simp [udpPayload_ok l4 h]

theorem trafficClass_ok (ip : Buf) (h : 2 ≤ ip.length) :
    trafficClass ip = .ok ((ip.getD 0 0).toNat % 16 * 16 + (ip.getD 1 0).toNat / 16) := by
  simp [trafficClass, rd_ok ip 0 (by omega), rd_ok ip 1 (by omega)]

theorem protoResp4_ne_panic (c : ChanCfg) (hc : c.AddrOk) (ip : Buf) (h : 20 ≤ ip.length) :
    protoResp4 c ip ≠ .panic := by
  unfold protoResp4
  simp only [rd_ok ip 9 (by omega), rd_ok ip 1 (by omega), R.bind_ok, ipv4Payload_ok ip (by omega),
    rd16_ok ip 4 (by omega), rdSlice_ok ip 16 4 (by omega)]
  cases c.proto <;> simp only <;> split <;> try simp
  · apply bind_np (extractEchoRequest_ne_panic _)
    intro a _; obtain ⟨id, sq⟩ := a; simp
  · apply bind_np (extractUdp_ne_panic _)
    intro a _; obtain ⟨sp, dp, act, plen⟩ := a
    obtain ⟨ck, _, hck⟩ := calcUdpChecksum_ok c hc sp dp plen
    simp [hck]
  · apply bind_np (extractTcp4_ne_panic _)
    intro a _; obtain ⟨sp, dp⟩ := a; simp

theorem protoResp6_ne_panic (c : ChanCfg) (ip : Buf) (h : 40 ≤ ip.length) :
    protoResp6 c ip ≠ .panic := by
  unfold protoResp6
  simp only [rd_ok ip 6 (by omega), R.bind_ok, ipv6Payload_ok ip (by omega),
    trafficClass_ok ip (by omega), rdSlice_ok ip 24 16 (by omega)]
  cases c.proto <;> simp only <;> split <;> try simp
  · apply bind_np (extractEchoRequest_ne_panic _)
    intro a _; obtain ⟨id, sq⟩ := a; simp
  · apply bind_np (extractUdp_ne_panic _)
    intro a _; obtain ⟨sp, dp, act, plen⟩ := a
    simp only
    apply bind_np (udpHasMagic_ne_panic _)
    intro m _; simp
  · apply bind_np (extractTcp6_ne_panic _)
    intro a _; obtain ⟨sp, dp⟩ := a; simp

theorem protoResp_ne_panic (c : ChanCfg) (hc : c.AddrOk) (ip : Buf) : protoResp c ip ≠ .panic := by
  unfold protoResp
  split
  · simp
  · rename_i h
    simp only [ipHdr, Nat.not_lt] at h
    split
    · rename_i hv; simp only [hv, if_true] at h; exact protoResp6_ne_panic c ip h
    · rename_i hv; simp only [hv] at h
      exact protoResp4_ne_panic c hc ip h

theorem extractProbeResp_ne_panic (c : ChanCfg) (hc : c.AddrOk) (icmp src : Buf)
    (h : 8 ≤ icmp.length) : extractProbeResp c icmp src ≠ .panic := by
  unfold extractProbeResp
  simp only [rd_ok icmp 0 (by omega), rd_ok icmp 1 (by omega), rd16_ok icmp 4 (by omega),
    rd16_ok icmp 6 (by omega), R.bind_ok, Ext.codeIsFixed]
  split
  · split
    · apply bind_np (Ext.tracerExtract_ne_panic c.v6 true c.extEnabled icmp h)
      intro a _; obtain ⟨q, e⟩ := a
      simp only
      apply bind_np (protoResp_ne_panic c hc q)
      intro pr _; simp
    · simp
  · split
    · apply bind_np (Ext.tracerExtract_ne_panic c.v6 false c.extEnabled icmp h)
      intro a _; obtain ⟨q, e⟩ := a
      simp only
      apply bind_np (protoResp_ne_panic c hc q)
      intro pr _; simp
    · split
      · cases c.proto <;> simp
      · simp

theorem recvIcmp4_ne_panic (c : ChanCfg) (hc : c.AddrOk) (bytes : Buf) :
    recvIcmp4 c bytes ≠ .panic := by
  unfold recvIcmp4
  split
  · simp
  · rename_i h
    simp only [ip4Hdr, Nat.not_lt] at h
    simp only [rdSlice_ok bytes 12 4 (by omega), ipv4Payload_ok bytes (by omega), R.bind_ok]
    split
    · simp
    · rename_i h8
      simp only [l4Hdr, Nat.not_lt] at h8
      exact extractProbeResp_ne_panic c hc _ _ h8

theorem recvIcmp6_ne_panic (c : ChanCfg) (hc : c.AddrOk) (bytes src : Buf) (hs : src.length ≠ 4) :
    recvIcmp6 c bytes src ≠ .panic := by
  unfold recvIcmp6
  split
  · simp
  · rename_i h
    simp only [l4Hdr, Nat.not_lt] at h
    split
    · simp
    · exact extractProbeResp_ne_panic c hc _ _ h

end TV.Wire
