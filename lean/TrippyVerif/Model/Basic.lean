/-
Core conventions shared by every model (import-free: core Lean only, so that the
driver links as a native `lean_exe`).

`R α` is the outcome of a modelled Rust function:
  * `ok a`    – normal return (for `Result`-returning functions: `Ok(a)`)
  * `err e`   – a Rust `Err(..)` *value*
  * `panic`   – any Rust panic in the dev profile: slice/index out of range, `unwrap`
                on `None`, `unimplemented!`, `unreachable!`, arithmetic overflow,
                failing `debug_assert!`.
-/
namespace TV

inductive Err where
  | pktShort            -- trippy_packet::Error::InsufficientPacketBuffer
  | invalidPacketSize
  | io
  | probeFailed
  | addrInUse
  | capacity            -- Error::InsufficientCapacity
  | missingAddr
  | badConfig
  | other
  deriving Repr, DecidableEq, Inhabited

inductive R (α : Type) where
  | ok    : α → R α
  | err   : Err → R α
  | panic : R α
  deriving Repr, DecidableEq

namespace R

@[inline] def bind {α β : Type} (x : R α) (f : α → R β) : R β :=
  match x with
  | ok a  => f a
  | err e => err e
  | panic => panic

instance : Monad R where
  pure := ok
  bind := bind

@[simp] theorem bind_ok {α β} (a : α) (f : α → R β) : (R.ok a >>= f) = f a := rfl
@[simp] theorem bind_err {α β} (e : Err) (f : α → R β) : ((R.err e : R α) >>= f) = R.err e := rfl
@[simp] theorem bind_panic {α β} (f : α → R β) : ((R.panic : R α) >>= f) = R.panic := rfl
@[simp] theorem pure_eq {α} (a : α) : (pure a : R α) = R.ok a := rfl
@[simp] theorem map_ok {α β} (f : α → β) (a : α) : f <$> (R.ok a) = R.ok (f a) := rfl
@[simp] theorem map_err {α β} (f : α → β) (e : Err) : f <$> (R.err e : R α) = R.err e := rfl
@[simp] theorem map_panic {α β} (f : α → β) : f <$> (R.panic : R α) = R.panic := rfl

def isPanic {α} : R α → Bool
  | panic => true
  | _ => false

def isOk {α} : R α → Bool
  | ok _ => true
  | _ => false

end R

/-- A byte buffer (a Rust `&[u8]` / `&mut [u8]`). -/
abbrev Buf := List UInt8

/-- `Buffer::read(offset)`: indexing panics out of range. -/
def rd (b : Buf) (i : Nat) : R UInt8 :=
  match b[i]? with
  | some x => .ok x
  | none   => .panic

/-- `*Buffer::write(offset) = v` on a mutable buffer. -/
def wr (b : Buf) (i : Nat) (v : UInt8) : R Buf :=
  if i < b.length then .ok (b.set i v) else .panic

/-- `Buffer::get_bytes::<N>(offset)`. -/
def rdN (b : Buf) (off : Nat) : (n : Nat) → R (List UInt8)
  | 0     => .ok []
  | n + 1 => do
      let x ← rd b off
      let xs ← rdN b (off + 1) n
      pure (x :: xs)

/-- `Buffer::set_bytes(offset, bytes)`: `as_slice_mut()[offset..offset+N].copy_from_slice(..)`.
The Rust slice operation panics before writing anything if the range is out of bounds; since a
panic discards the buffer, writing octet by octet gives the same outcome (`N ≥ 1` at every call
site in trippy-packet). -/
def wrN (b : Buf) (off : Nat) : List UInt8 → R Buf
  | []      => .ok b
  | v :: vs => do
      let b' ← wr b off v
      wrN b' (off + 1) vs

/-- big-endian conversions (`uN::from_be_bytes`, `to_be_bytes`) -/
def be16 (a b : UInt8) : UInt16 := (a.toUInt16 <<< (8:UInt16)) ||| b.toUInt16
def hi16 (x : UInt16) : UInt8 := (x >>> (8:UInt16)).toUInt8
def lo16 (x : UInt16) : UInt8 := x.toUInt8
def be32 (a b c d : UInt8) : UInt32 :=
  (a.toUInt32 <<< (24:UInt32)) ||| (b.toUInt32 <<< (16:UInt32)) ||| (c.toUInt32 <<< (8:UInt32))
    ||| d.toUInt32
def b32_0 (x : UInt32) : UInt8 := (x >>> (24:UInt32)).toUInt8
def b32_1 (x : UInt32) : UInt8 := (x >>> (16:UInt32)).toUInt8
def b32_2 (x : UInt32) : UInt8 := (x >>> (8:UInt32)).toUInt8
def b32_3 (x : UInt32) : UInt8 := x.toUInt8

/-- hex helpers for the driver line protocol -/
def hexDigit (n : Nat) : Char :=
  if n < 10 then Char.ofNat (48 + n) else Char.ofNat (87 + n)

def hexOfBytes (b : List UInt8) : String :=
  String.ofList (b.flatMap fun x => [hexDigit (x.toNat / 16), hexDigit (x.toNat % 16)])

def hexVal (c : Char) : Option Nat :=
  if '0' ≤ c ∧ c ≤ '9' then some (c.toNat - 48)
  else if 'a' ≤ c ∧ c ≤ 'f' then some (c.toNat - 87)
  else if 'A' ≤ c ∧ c ≤ 'F' then some (c.toNat - 55)
  else none

def bytesOfHexAux : List Char → List UInt8 → Option (List UInt8)
  | [], acc => some acc.reverse
  | [_], _ => none
  | a :: b :: rest, acc =>
    match hexVal a, hexVal b with
    | some x, some y => bytesOfHexAux rest (UInt8.ofNat (x * 16 + y) :: acc)
    | _, _ => none

/-- "-" denotes the empty byte string -/
def bytesOfHex (s : String) : Option (List UInt8) :=
  if s = "-" then some [] else bytesOfHexAux s.toList []

def hexOrDash (b : List UInt8) : String := if b.isEmpty then "-" else hexOfBytes b

end TV
