import TrippyVerif.Model.Strategy
import TrippyVerif.Gen.CfgLayer
/-
Hand-written model of configuration validation (C16 part B):

  /repo/crates/trippy-core/src/builder.rs   `Builder::build`
  /repo/crates/trippy-tui/src/config.rs     `TrippyConfig::build_config`: the derived `protocol`,
      `port_direction` (with `validate_source_port`), and the validators that concern the tracing
      strategy: `validate_strategy`, `validate_protocol_strategy`, `validate_ttl`,
      `validate_max_inflight`, `validate_packet_size`
  /repo/crates/trippy-tui/src/app.rs        `start_tracer` (which `TrippyConfig` field goes to which
      `Builder` setter)

Tied to the code by the correspondence check `tvh config` (`cfgb build ..` lines run the real
`Builder::build`; `cfgb cli ..` lines run the real `build_config` through `verif_build_config`),
by `Gen/Consts.lean` (`MAX_TTL`, `MAX_INITIAL_SEQUENCE`) and `Gen/CfgLayer.lean` (packet size limits).
A configuration error (`Error::BadConfig`, `anyhow!(..)`) is `err badConfig`.
-/
namespace TV.Builder
open TV TV.Strat

/-- the fields of `Builder` (those that reach `StrategyConfig`, plus the ones only the channel uses
that matter for validation) -/
structure Params where
  v6 : Bool                 -- family of `target_addr`
  target : Nat
  srcV6 : Option Bool       -- family of `source_addr`, when given
  privileged : Bool
  proto : Proto
  packetSize : Nat
  traceId : Nat
  maxRounds : Option Nat
  firstTtl : Nat
  maxTtl : Nat
  grace : Nat
  maxInflight : Nat
  initialSeq : Nat
  strat : MStrat
  portDir : PortDir
  minRound : Nat
  maxRound : Nat
  deriving Repr, DecidableEq

/-- `Tracer::make_strategy_config`: what the tracer hands to `Strategy::new` -/
def toCfg (b : Params) : Cfg :=
  { v6 := b.v6, target := b.target, proto := b.proto, traceId := b.traceId, maxRounds := b.maxRounds,
    firstTtl := b.firstTtl, maxTtl := b.maxTtl, grace := b.grace, maxInflight := b.maxInflight,
    initialSeq := b.initialSeq, strat := b.strat, portDir := b.portDir, minRound := b.minRound,
    maxRound := b.maxRound }

/-- library users: a configuration as builder parameters (source address not given, privileged,
default packet size) -/
def paramsOf (c : Cfg) : Params :=
  { v6 := c.v6, target := c.target, srcV6 := none, privileged := true, proto := c.proto,
    packetSize := Consts.defaults_DEFAULT_STRATEGY_PACKET_SIZE, traceId := c.traceId,
    maxRounds := c.maxRounds, firstTtl := c.firstTtl, maxTtl := c.maxTtl, grace := c.grace,
    maxInflight := c.maxInflight, initialSeq := c.initialSeq, strat := c.strat, portDir := c.portDir,
    minRound := c.minRound, maxRound := c.maxRound }

/-- the first `match (self.protocol, self.port_direction)` of `Builder::build`: `true` = an arm that
returns `Err(BadConfig)`; the guarded arm falls through to `_ => ()` when the guard fails -/
def portDirRejected (b : Params) : Bool :=
  match b.proto, b.portDir with
  | .udp, .none => true
  | .tcp, .none => true
  | .udp, .fixedBoth _ _ => decide (b.strat = .classic)
  | .tcp, .fixedBoth _ _ => true
  | _, _ => false

/-- the `if let Some(source_addr) = self.source_addr { if source_addr.is_ipv4() != self.target_addr.is_ipv4() ..`
check of `Builder::build`: `true` = the source address is of the other family than the target -/
def srcFamilyRejected (b : Params) : Bool :=
  match b.srcV6 with
  | some s => s != b.v6
  | none => false

/-- `Builder::build` -/
def build (b : Params) : R Cfg :=
  if portDirRejected b then .err .badConfig else
  if srcFamilyRejected b then .err .badConfig else
  if b.firstTtl < 1 then .err .badConfig else
  if b.firstTtl > Consts.core_MAX_TTL then .err .badConfig else
  if b.maxTtl > Consts.core_MAX_TTL then .err .badConfig else
  if b.initialSeq > Consts.core_MAX_INITIAL_SEQUENCE then .err .badConfig else
  .ok (toCfg b)

/-! ## the command-line layer -/

/-- `IpAddrFamily` as far as `validate_packet_size` distinguishes it -/
inductive Family | ipv4Only | other
  deriving DecidableEq, Repr

/-- the effective (already layered) option values that `build_config` validates for the strategy,
plus the values that are passed through to the builder unchanged -/
structure Cli where
  /-- `--udp`, `--tcp`, `--icmp` -/
  udp : Bool
  tcp : Bool
  icmp : Bool
  /-- layered `protocol` option (`ProtocolConfig`) -/
  protocolOpt : Proto
  strat : MStrat
  unprivileged : Bool
  sourcePort : Option Nat
  targetPort : Option Nat
  firstTtl : Nat
  maxTtl : Nat
  maxInflight : Nat
  packetSize : Nat
  family : Family
  initialSeq : Nat
  pid : Nat
  -- passed through
  v6 : Bool
  target : Nat
  srcV6 : Option Bool
  traceId : Nat
  maxRounds : Option Nat
  grace : Nat
  minRound : Nat
  maxRound : Nat
  deriving Repr

def ok! : R Unit := .ok ()
def bad : R Unit := .err .badConfig

/-- the derived `protocol` of `build_config`:
`match (args.udp, args.tcp, args.icmp, protocol) { (false,false,false,Udp) | (true,_,_,_) => Udp, .. }` -/
def protocol (a : Cli) : Proto :=
  match a.udp, a.tcp, a.icmp, a.protocolOpt with
  | false, false, false, .udp | true, _, _, _ => .udp
  | false, false, false, .tcp | _, true, _, _ => .tcp
  | false, false, false, .icmp | _, _, true, _ => .icmp

/-- `validate_source_port` -/
def validateSourcePort (p : Nat) : R Unit := if p < 1024 then bad else ok!

/-- the `port_direction` match of `build_config` -/
def portDirection (a : Cli) : R PortDir :=
  match protocol a, a.sourcePort, a.targetPort, a.strat with
  | .icmp, _, _, _ => .ok .none
  | .udp, none, none, _ => .ok (.fixedSrc (max a.pid 1024))
  | .udp, some src, none, _ => do validateSourcePort src; .ok (.fixedSrc src)
  | .tcp, none, none, _ => .ok (.fixedDest 80)
  | .tcp, some src, none, _ => .ok (.fixedSrc src)
  | _, none, some dest, _ => .ok (.fixedDest dest)
  | .udp, some src, some dest, .dublin | .udp, some src, some dest, .paris => do
      validateSourcePort src; .ok (.fixedBoth src dest)
  | _, some _, some _, _ => .err .badConfig

/-- `validate_strategy` -/
def validateStrategy (s : MStrat) (unprivileged : Bool) : R Unit :=
  match s, unprivileged with
  | .dublin, true => bad
  | .paris, true => bad
  | _, _ => ok!

/-- `validate_protocol_strategy` -/
def validateProtocolStrategy (p : Proto) (s : MStrat) : R Unit :=
  match p, s with
  | .tcp, .classic | .icmp, .classic | .udp, _ => ok!
  | .icmp, .paris => bad
  | .icmp, .dublin => bad
  | .tcp, .paris => bad
  | .tcp, .dublin => bad

/-- `validate_ttl` -/
def validateTtl (first max : Nat) : R Unit :=
  if ¬ (1 ≤ first ∧ first ≤ Consts.core_MAX_TTL) then bad
  else if ¬ (1 ≤ max ∧ max ≤ Consts.core_MAX_TTL) then bad
  else if first > max then bad
  else ok!

/-- `validate_max_inflight` -/
def validateMaxInflight (n : Nat) : R Unit := if n = 0 then bad else ok!

/-- `validate_packet_size` -/
def validatePacketSize (f : Family) (size : Nat) : R Unit :=
  let minSize := match f with
    | .ipv4Only => CfgGen.tui_MIN_PACKET_SIZE_IPV4
    | .other => CfgGen.tui_MIN_PACKET_SIZE_IPV6
  if minSize ≤ size ∧ size ≤ CfgGen.tui_MAX_PACKET_SIZE then ok! else bad

/-- the strategy-relevant part of `build_config`, in the order of the code, followed by
`start_tracer`'s `Builder::new(..).….` chain: the `Params` handed to `Builder::build` -/
def cliConfig (a : Cli) : R Params := do
  let pd ← portDirection a
  validateStrategy a.strat a.unprivileged
  validateProtocolStrategy (protocol a) a.strat
  validateTtl a.firstTtl a.maxTtl
  validateMaxInflight a.maxInflight
  validatePacketSize a.family a.packetSize
  .ok { v6 := a.v6, target := a.target, srcV6 := a.srcV6, privileged := !a.unprivileged,
        proto := protocol a, packetSize := a.packetSize, traceId := a.traceId, maxRounds := a.maxRounds,
        firstTtl := a.firstTtl, maxTtl := a.maxTtl, grace := a.grace, maxInflight := a.maxInflight,
        initialSeq := a.initialSeq, strat := a.strat, portDir := pd, minRound := a.minRound,
        maxRound := a.maxRound }

/-- the command-line layer accepts `a` -/
def cliAccepts (a : Cli) : Prop := ∃ p, cliConfig a = .ok p

/-- the builder parameters `start_tracer` uses for `a` (total version: `PortDirection::None` when the
port direction construction fails, which `cliAccepts` excludes) -/
def toBuilder (a : Cli) : Params :=
  { v6 := a.v6, target := a.target, srcV6 := a.srcV6, privileged := !a.unprivileged,
    proto := protocol a, packetSize := a.packetSize, traceId := a.traceId, maxRounds := a.maxRounds,
    firstTtl := a.firstTtl, maxTtl := a.maxTtl, grace := a.grace, maxInflight := a.maxInflight,
    initialSeq := a.initialSeq, strat := a.strat,
    portDir := (match portDirection a with | .ok pd => pd | _ => .none),
    minRound := a.minRound, maxRound := a.maxRound }

/-! ## derived values of `build_config` that are not plain layered options -/

/-- `privilege_mode`: `if unprivileged { Unprivileged } else { Privileged }` (true = unprivileged) -/
def privilegeMode (cliFlag : Bool) (file : Option Bool) (dflt : Bool) : Bool :=
  if CfgGen.cfg_layer_bool_flag cliFlag file dflt then true else false

/-- `Mode` as far as `max_rounds` distinguishes it -/
inductive ModeKind | interactive | report    -- Stream | Tui   vs   Pretty | Markdown | Csv | Json | Dot | Flows | Silent
  deriving DecidableEq, Repr

/-- `max_rounds`: `match mode { Stream | Tui => None, _ => Some(report_cycles) }` -/
def maxRounds (m : ModeKind) (reportCycles : Nat) : Option Nat :=
  match m with
  | .interactive => none
  | .report => some reportCycles

/-- `AddressFamilyConfig` / `IpAddrFamily` -/
inductive AddrFamily | ipv4 | ipv6 | ipv4ThenIpv6 | ipv6ThenIpv4 | system
  deriving DecidableEq, Repr

/-- the derived `addr_family`: `--ipv4` / `--ipv6` override the layered `addr-family` option -/
def addrFamily (ipv4 ipv6 : Bool) (opt : AddrFamily) : AddrFamily :=
  match ipv4, ipv6, opt with
  | false, false, o => o
  | true, _, _ => .ipv4
  | _, true, _ => .ipv6

/-- `tui_max_addrs`: `match tui_max_addrs { Some(n) if n > 0 => Some(n), _ => None }` -/
def tuiMaxAddrs (x : Option Nat) : Option Nat :=
  match x with
  | some n => if n > 0 then some n else none
  | none => none

/-! ## `validate_multi` (trippy-tui config.rs): how many targets a mode / protocol can serve -/

/-- the output modes of the application -/
inductive OutMode | tui | stream | pretty | markdown | csv | json | dot | flows | silent
  deriving DecidableEq, Repr

/-- the report modes that print one trace -/
def OutMode.singleTrace : OutMode → Bool
  | .stream | .pretty | .markdown | .csv | .json => true
  | _ => false

/-- `validate_multi(mode, protocol, targets, dns_resolve_all)`: `true` = accepted -/
def validateMulti (mode : OutMode) (proto : Proto) (nTargets : Nat) (resolveAll : Bool) : Bool :=
  let several := decide (nTargets > 1) || resolveAll
  if mode.singleTrace && several then false
  else match proto with
    | .tcp | .udp => !several
    | .icmp => true

/-- `validate_privilege(privilege_mode, has_privileges, needs_privileges)`: `true` = accepted.  The five arms of the
source: `(Privileged, true, _) | (Unprivileged, _, false) => Ok`, the other three are errors. -/
def validatePrivilege (unprivileged has needs : Bool) : Bool :=
  match unprivileged, has, needs with
  | false, true, _ => true
  | true, _, false => true
  | false, false, true => false
  | false, false, false => false
  | true, false, true => false
  | true, true, true => false

/-! ## the remaining validators of `build_config` (durations in nanoseconds; bounds from `Gen/Consts.lean`) -/

/-- the effective timing options -/
structure Timing where
  readTimeout : Nat
  minRound : Nat
  maxRound : Nat
  grace : Nat
  refresh : Nat
  reportCycles : Nat
  deriving DecidableEq, Repr

/-- `validate_read_timeout`, `validate_round_duration`, `validate_grace_duration`, `validate_tui_refresh_rate`,
`validate_report_cycles`, in the order `build_config` calls them: `true` = all accepted -/
def validateTiming (t : Timing) : Bool :=
  !(t.readTimeout < Consts.tuic_MIN_READ_TIMEOUT_MS || t.readTimeout > Consts.tuic_MAX_READ_TIMEOUT_MS) &&
  !(t.minRound > t.maxRound) &&
  !(t.grace < Consts.tuic_MIN_GRACE_DURATION_MS || t.grace > Consts.tuic_MAX_GRACE_DURATION_MS) &&
  !(t.refresh < Consts.tuic_TUI_MIN_REFRESH_RATE_MS || t.refresh > Consts.tuic_TUI_MAX_REFRESH_RATE_MS) &&
  !(t.reportCycles == 0)

/-- `validate_flows`: the flows and dot reports need a strategy that distinguishes flows -/
def validateFlows (mode : OutMode) (s : MStrat) : Bool :=
  match mode, s with
  | .flows, .classic | .dot, .classic => false
  | _, _ => true

/-- `validate_dns`: the system resolver cannot look AS information up -/
def validateDns (systemResolver asInfo : Bool) : Bool := !(systemResolver && asInfo)

/-- `validate_geoip`: a GeoIP display mode other than off needs a database -/
def validateGeoip (modeOff haveFile : Bool) : Bool := modeOff || haveFile

end TV.Builder
