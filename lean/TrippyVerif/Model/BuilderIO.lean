import TrippyVerif.Model.Builder
import TrippyVerif.Model.StrategyIO
/-
Line protocol for the configuration-validation model (component `cfgb` of the driver).

  cfgb build <proto i|u|t> <strat c|p|d> <portdir n|s:P|d:P|b:S:D> <first> <max> <initial>
             [<v6 0|1> <priv 0|1> [<source_addr family -|4|6>]]
      -> ok | err                                   (`Builder::build`; `v6` = family of the target)
  cfgb cli <udp 0|1><tcp 0|1><icmp 0|1> <protocol i|u|t> <strat c|p|d> <unpriv 0|1> <srcport|-> <dstport|->
           <first> <max> <inflight> <packetsize> <family 4|o> <initial> <pid>
      -> err | ok <proto> <strat> <portdir> <first> <max> <initial> <packetsize> <inflight> <priv 0|1>
                                                    (`TrippyConfig::build_config`, strategy-relevant part)
  cfgb multi <mode> <proto i|u|t> <number of targets> <dns-resolve-all 0|1>
      -> ok | err                                   (`validate_multi`)
  cfgb timing <read-timeout> <min-round> <max-round> <grace> <refresh> <report-cycles>   (nanoseconds)
      -> ok | err                                   (`validate_read_timeout`, `_round_duration`, `_grace_duration`, `_tui_refresh_rate`, `_report_cycles`)
  cfgb modes <mode> <strategy> <system resolver> <as-info> <geoip off> <mmdb given>
      -> ok | err                                   (`validate_flows`, `validate_dns`, `validate_geoip`)
  cfgb priv <unprivileged 0|1> <has 0|1> <needs 0|1>
      -> ok | err                                   (`validate_privilege`)
-/
namespace TV.Builder
open TV TV.Strat

def parseProto (s : String) : Option Proto :=
  match s with | "i" => some .icmp | "u" => some .udp | "t" => some .tcp | _ => none

def parseStrat (s : String) : Option MStrat :=
  match s with | "c" => some .classic | "p" => some .paris | "d" => some .dublin | _ => none

def parseBool (s : String) : Option Bool :=
  match s with | "0" => some false | "1" => some true | _ => none

def showProto : Proto → String | .icmp => "i" | .udp => "u" | .tcp => "t"
def showStrat : MStrat → String | .classic => "c" | .paris => "p" | .dublin => "d"
def showPortDir : PortDir → String
  | .none => "n" | .fixedSrc p => s!"s:{p}" | .fixedDest p => s!"d:{p}" | .fixedBoth a b => s!"b:{a}:{b}"

def mkParams (proto : Proto) (strat : MStrat) (pd : PortDir) (first max initial : Nat) (v6 priv : Bool)
    (src : Option Bool) : Params :=
  { v6 := v6, target := 7, srcV6 := src, privileged := priv, proto := proto,
    packetSize := Consts.defaults_DEFAULT_STRATEGY_PACKET_SIZE, traceId := 0, maxRounds := some 3,
    firstTtl := first, maxTtl := max, grace := Consts.defaults_DEFAULT_STRATEGY_GRACE_DURATION,
    maxInflight := Consts.defaults_DEFAULT_STRATEGY_MAX_INFLIGHT, initialSeq := initial, strat := strat,
    portDir := pd, minRound := Consts.defaults_DEFAULT_STRATEGY_MIN_ROUND_DURATION,
    maxRound := Consts.defaults_DEFAULT_STRATEGY_MAX_ROUND_DURATION }

def answerBuild (b : Params) : String :=
  match build b with
  | .ok _ => "ok"
  | .err _ => "err"
  | .panic => "panic"

def parseSrc (s : String) : Option (Option Bool) :=
  match s with | "-" => some none | "4" => some (some false) | "6" => some (some true) | _ => none

def handleBuild (proto strat pd first max initial : String) (v6 priv : Bool) (src : Option Bool) : Option String := do
  let proto ← parseProto proto
  let strat ← parseStrat strat
  let pd ← parsePortDir pd
  let first ← first.toNat?
  let max ← max.toNat?
  let initial ← initial.toNat?
  pure (answerBuild (mkParams proto strat pd first max initial v6 priv src))

def parseFlags (s : String) : Option (Bool × Bool × Bool) :=
  match s.toList with
  | [a, b, c] => do
    let a ← parseBool (String.singleton a)
    let b ← parseBool (String.singleton b)
    let c ← parseBool (String.singleton c)
    pure (a, b, c)
  | _ => none

def handleCli (args : List String) : Option String :=
  match args with
  | [flags, proto, strat, unpriv, sp, tp, first, max, infl, psize, fam, initial, pid] => do
    let (udp, tcp, icmp) ← parseFlags flags
    let proto ← parseProto proto
    let strat ← parseStrat strat
    let unpriv ← parseBool unpriv
    let sp ← optNat? sp
    let tp ← optNat? tp
    let first ← first.toNat?
    let max ← max.toNat?
    let infl ← infl.toNat?
    let psize ← psize.toNat?
    let fam ← match fam with | "4" => some Family.ipv4Only | "o" => some .other | _ => none
    let initial ← initial.toNat?
    let pid ← pid.toNat?
    let a : Cli := { udp := udp, tcp := tcp, icmp := icmp, protocolOpt := proto, strat := strat,
                     unprivileged := unpriv, sourcePort := sp, targetPort := tp, firstTtl := first,
                     maxTtl := max, maxInflight := infl, packetSize := psize, family := fam,
                     initialSeq := initial, pid := pid, v6 := false, target := 7, srcV6 := none,
                     traceId := pid, maxRounds := none, grace := 0, minRound := 0, maxRound := 0 }
    match cliConfig a with
    | .ok p =>
      pure s!"ok {showProto p.proto} {showStrat p.strat} {showPortDir p.portDir} {p.firstTtl} {p.maxTtl} {p.initialSeq} {p.packetSize} {p.maxInflight} {if p.privileged then 1 else 0}"
    | .err _ => pure "err"
    | .panic => pure "panic"
  | _ => none

/-- driver entry: `args` is the request line split on blanks with the leading `cfgb` removed -/
def handle (args : List String) : Option String :=
  match args with
  | ["build", proto, strat, pd, first, max, initial] => handleBuild proto strat pd first max initial false true none
  | ["build", proto, strat, pd, first, max, initial, v6, priv] => do
    let v6 ← parseBool v6
    let priv ← parseBool priv
    handleBuild proto strat pd first max initial v6 priv none
  | ["build", proto, strat, pd, first, max, initial, v6, priv, src] => do
    let v6 ← parseBool v6
    let priv ← parseBool priv
    let src ← parseSrc src
    handleBuild proto strat pd first max initial v6 priv src
  | "cli" :: rest => handleCli rest
  | ["multi", mode, proto, n, all] => do
    -- cfgb multi <mode> <proto i|u|t> <number of targets> <dns-resolve-all 0|1>  -> ok | err
    let mode ← (match mode with
      | "tui" => some OutMode.tui | "stream" => some .stream | "pretty" => some .pretty | "markdown" => some .markdown
      | "csv" => some .csv | "json" => some .json | "dot" => some .dot | "flows" => some .flows | "silent" => some .silent
      | _ => none)
    let proto ← parseProto proto
    let n ← n.toNat?
    let all ← parseBool all
    pure (if validateMulti mode proto n all then "ok" else "err")
  | ["timing", rt, mn, mx, g, rf, cy] => do
    -- cfgb timing <read-timeout ns> <min-round ns> <max-round ns> <grace ns> <refresh ns> <report cycles>  -> ok | err
    let t : Timing := { readTimeout := ← rt.toNat?, minRound := ← mn.toNat?, maxRound := ← mx.toNat?, grace := ← g.toNat?,
                        refresh := ← rf.toNat?, reportCycles := ← cy.toNat? }
    pure (if validateTiming t then "ok" else "err")
  | ["modes", mode, strat, sys, asinfo, geooff, geofile] => do
    -- cfgb modes <mode> <strategy c|p|d> <system resolver 0|1> <as-info 0|1> <geoip mode off 0|1> <mmdb file given 0|1>  -> ok | err
    let mode ← (match mode with
      | "tui" => some OutMode.tui | "stream" => some .stream | "pretty" => some .pretty | "markdown" => some .markdown
      | "csv" => some .csv | "json" => some .json | "dot" => some .dot | "flows" => some .flows | "silent" => some .silent
      | _ => none)
    let s ← parseStrat strat
    pure (if validateFlows mode s && validateDns (← parseBool sys) (← parseBool asinfo) && validateGeoip (← parseBool geooff) (← parseBool geofile)
          then "ok" else "err")
  | ["priv", u, h, n] => do
    -- cfgb priv <unprivileged 0|1> <has privileges 0|1> <platform needs privileges 0|1>  -> ok | err
    pure (if validatePrivilege (← parseBool u) (← parseBool h) (← parseBool n) then "ok" else "err")
  | _ => none

end TV.Builder
