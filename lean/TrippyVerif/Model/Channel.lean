import TrippyVerif.Model.Wire
/-!
# The Channel layer

Hand-written model of `/repo/crates/trippy-core/src/net/channel.rs`:
`Channel::connect`, the `Network` impl (`send_probe`, `recv_probe`), `dispatch_icmp_probe`,
`dispatch_udp_probe`, `dispatch_tcp_probe`, `recv_icmp_probe`, `recv_tcp_sockets`, `TcpProbe`.
What `Ipv4` / `Ipv6` do with a socket is `TV.Wire` (`Model/Wire.lean`) and reused here.

State (`Chan`): the family configuration (`Wire.ChanCfg`: protocol, addresses, sizes, …), whether
a send socket exists (`send_socket: Option<S>`), the two timeouts, the outstanding TCP probes
(`tcp_probes: ArrayVec<TcpProbe<S>, MAX_TCP_PROBES>`; a socket is identified with its position)
and the virtual clock (`SystemTime::now()`, nanoseconds).

Every panic site of the file is modelled:
* `connect`: `_ => unreachable!()` for source / target addresses of different families;
* `dispatch_icmp_probe` / `dispatch_udp_probe`: `_ => unreachable!()` when there is no send socket;
* `dispatch_tcp_probe`: `self.tcp_probes.push(..)` — `ArrayVec::push` panics when the vector
  already holds `MAX_TCP_PROBES` elements (the socket calls of the dispatch have been made by then);
  since /repo commit 43c3120 an `is_full()` guard returns `Error::InsufficientCapacity` first
  (`send`; the unguarded function is `sendOld`);
* `recv_tcp_sockets`: `self.tcp_probes.remove(i)` (in range by construction);
* `probe.start.elapsed().unwrap_or_default()`: a clock that went backwards gives 0 (`now - start`
  on `Nat`);
* everything `Ipv4` / `Ipv6` can do (`TV.Wire`).
Errors are values (`err`): the channel stays usable after them.

The environment of one `recv_probe` is scripted (`Env`): what `is_readable(read_timeout)` answers,
which datagram the read delivers, and for every outstanding TCP probe what its socket answers to
`is_writable` / `take_error` / `peer_addr` / `icmp_error_info`.  `is_writable().unwrap_or_default()`
turns a failing poll into "not writable".  (`peer_addr` and `shutdown` are taken to succeed.)

## Driver requests (`handle`, leading word `chan` removed; stateful)

    connect <hexsrc> <hexdst> <size> <pattern> <priv 0|1> <tos> <i|u|t> <ext 0|1> <initialSeq>
            <readTimeoutNs> <tcpConnectTimeoutNs> <t0Ns>
        -> ok <ops> | err <kind> | panic           ops: new:icmp4:<raw> | new:icmp6:<raw> | new:udp4:<raw>
                                                    | new:udp6:<raw> | new:recv4:<hexaddr>:<raw> | new:recv6:…
    send <seq> <ident> <sport> <dport> <ttl> <flags> <inject>        inject = - | <call>:<errkind>
        -> ok <ops> tcp=<list> | err <kind> <ops> tcp=<list> | panic | dead
           (<call>, <errkind>, <ops> as for `wire errmap` / `wire send`)
    recv <dtNs> <r|n|e> <dgram> <tcpenv>
        dgram  = x | e | <hexsrc|->:<hexbytes>
        tcpenv = - | <tok>,<tok>,…  with tok = n | e | c:<hexpeer|-> | r | u:<hexaddr> | o | x
        -> <outcome as `wire recv`> @<timeNs> polled=[sp/dp,…] tcp=<list> | panic | dead
    clock <absNs> -> ok
    <list> = - | sp/dp/startNs;…
    kinds: invalid-packet-size | pkt-short | missing-addr | io | probe-failed | addr-in-use | capacity | other
-/
namespace TV.Chan
open TV TV.Wire

/-- `MAX_TCP_PROBES` -/
def MAX_TCP_PROBES : Nat := Consts.channel_MAX_TCP_PROBES

/-- `TcpProbe` (the socket is the entry's position in the list) -/
structure TcpEntry where
  srcPort : Nat
  destPort : Nat
  start : Nat
  deriving DecidableEq, Repr

/-- `Channel<S>` -/
structure Chan where
  cfg : ChanCfg
  /-- `send_socket.is_some()` -/
  hasSend : Bool
  readTimeout : Nat
  tcpTimeout : Nat
  tcp : List TcpEntry
  now : Nat
  deriving Repr

/-- socket constructors called by `connect` -/
inductive ConnOp
  | newIcmpSend (v6 raw : Bool)
  | newUdpSend (v6 raw : Bool)
  | newRecv (v6 : Bool) (addr : Buf) (raw : Bool)
  deriving DecidableEq, Repr

/-- the arguments of `Channel::connect` (`ChannelConfig`) -/
structure ConnCfg where
  src : Buf
  dst : Buf
  packetSize : Nat
  pattern : UInt8
  privileged : Bool
  tos : UInt8
  proto : Strat.Proto
  extEnabled : Bool
  initialSeq : Nat
  readTimeout : Nat
  tcpTimeout : Nat
  deriving Repr

/-- an address is IPv6 iff it has 16 octets (`IpAddr::V6`) -/
def isV6 (a : Buf) : Bool := a.length == 16

/-- `Channel::connect`: the size guard, the sockets, the family configuration -/
def connect (k : ConnCfg) (now : Nat) : R (Chan × List ConnOp) :=
  if k.packetSize > MAX_PACKET_SIZE then .err .invalidPacketSize
  else
    let v6 := isV6 k.src
    let raw := k.privileged
    let sendOps := match k.proto with
      | .icmp => [ConnOp.newIcmpSend v6 raw]
      | .udp => [ConnOp.newUdpSend v6 raw]
      | .tcp => []
    let ops := sendOps ++ [ConnOp.newRecv v6 k.src raw]
    -- `match (config.source_addr, config.target_addr) { (V4, V4) .. (V6, V6) .. _ => unreachable!() }`
    if isV6 k.src != isV6 k.dst then .panic
    else
      .ok ({ cfg := { v6 := v6, src := k.src, dst := k.dst, packetSize := k.packetSize,
                      pattern := k.pattern, privileged := k.privileged, tos := k.tos,
                      proto := k.proto, extEnabled := k.extEnabled, initialSeq := k.initialSeq },
             hasSend := k.proto != .tcp, readTimeout := k.readTimeout,
             tcpTimeout := k.tcpTimeout, tcp := [], now := now }, ops)

/-! ## send -/

/-- which `Socket` method a call is (the names `errorMap` uses) -/
def callOf : SockOp → Call
  | .newSocket _ => .new
  | .bind .. => .bind
  | .setTtl _ => .ttl
  | .setTos _ => .tos
  | .setHops _ => .hops
  | .sendTo .. => .send
  | .connect .. => .conn

/-- the dispatch path of a configuration -/
def pathOf (c : ChanCfg) : Path :=
  match c.proto, c.v6 with
  | .icmp, false => .icmp4
  | .icmp, true => .icmp6
  | .udp, false => if c.privileged then .udpRaw4 else .udp4
  | .udp, true => if c.privileged then .udpRaw6 else .udp6
  | .tcp, false => .tcp4
  | .tcp, true => .tcp6

/-- the outcome of one `send_probe`: the socket calls made and how it ended -/
inductive SendOut
  | ok (ops : List SockOp)
  | err (e : Err) (ops : List SockOp)
  | panic
  deriving DecidableEq, Repr

/-- an I/O error armed for the next call of one `Socket` method -/
abbrev Inject := Option (Call × IoKind)

/-- Run the socket calls `ops` of a dispatch with the armed error: it strikes the first call of its
method; `errorMap` says whether the dispatch carries on (`in_progress`) or ends with which error.
Result: the calls made (up to and including the failing one) and the error, if any. -/
def runOps (path : Path) (inj : Inject) : List SockOp → List SockOp × Option Err
  | [] => ([], none)
  | op :: rest =>
    match inj with
    | none => let r := runOps path none rest; (op :: r.1, r.2)
    | some (call, e) =>
      if callOf op = call then
        match errorMap path call e with
        | .probeFailed => ([op], some .probeFailed)
        | .addrInUse => ([op], some .addrInUse)
        | .fatal => ([op], some .io)
        | .ok | .notCalled => let r := runOps path none rest; (op :: r.1, r.2)
      else let r := runOps path inj rest; (op :: r.1, r.2)

/-- `Network::send_probe` **before** /repo commit 43c3120 (no capacity guard): kept for the witness
theorems about the repaired defect, and as the body the repaired function continues with. -/
def sendOld (ch : Chan) (p : Strat.Probe) (inj : Inject) : Chan × SendOut :=
  match ch.cfg.proto with
  | .tcp =>
    -- `dispatch_tcp_probe`: the family's dispatch, then `self.tcp_probes.push(TcpProbe::new(..))`
    match Wire.dispatch ch.cfg p with
    | .ok ops =>
      (match runOps (pathOf ch.cfg) inj ops with
       | (done, some e) => (ch, .err e done)
       | (done, none) =>
         if ch.tcp.length ≥ MAX_TCP_PROBES then (ch, .panic)     -- `ArrayVec::push` on a full vector
         else ({ ch with tcp := ch.tcp ++ [⟨p.srcPort, p.destPort, ch.now⟩] }, .ok done))
    | .err e => (ch, .err e [])
    | .panic => (ch, .panic)
  | _ =>
    -- `dispatch_icmp_probe` / `dispatch_udp_probe`: `(family, None) => unreachable!()`
    if !ch.hasSend then (ch, .panic)
    else
      match Wire.dispatch ch.cfg p with
      | .ok ops =>
        (match runOps (pathOf ch.cfg) inj ops with
         | (done, some e) => (ch, .err e done)
         | (done, none) => (ch, .ok done))
      | .err e => (ch, .err e [])
      | .panic => (ch, .panic)

/-- `Network::send_probe`.  `dispatch_tcp_probe` starts with
`if self.tcp_probes.is_full() { return Err(Error::InsufficientCapacity); }` — before any socket is
created; everything else is as before (the `push` below the guard can no longer meet a full
vector). -/
def send (ch : Chan) (p : Strat.Probe) (inj : Inject) : Chan × SendOut :=
  match ch.cfg.proto with
  | .tcp =>
    if ch.tcp.length ≥ MAX_TCP_PROBES then (ch, .err .capacity [])
    else sendOld ch p inj
  | _ => sendOld ch p inj

/-! ## receive -/

/-- what the socket of one outstanding TCP probe answers -/
inductive SockEnv
  /-- `is_writable() = Ok(false)` -/
  | notWritable
  /-- `is_writable()` fails: `unwrap_or_default()` makes it `false` -/
  | writableFails
  /-- writable, `take_error() = None`, `peer_addr()` -/
  | connected (peer : Option Buf)
  /-- writable, `SocketError::ConnectionRefused` -/
  | refused
  /-- writable, `SocketError::HostUnreachable`, `icmp_error_info()` -/
  | unreach (a : Buf)
  /-- writable, `SocketError::Other` -/
  | other
  /-- writable, `take_error()` fails -/
  | takeErrorFails
  deriving Repr

/-- answer of `is_readable` / `is_writable` -/
inductive Poll | yes | no | fails
  deriving DecidableEq, Repr

/-- what the read on the receive socket delivers -/
inductive Dgram
  /-- `WouldBlock` -/
  | none
  /-- any other I/O error -/
  | readFails
  /-- a datagram and the address `recv_from` reports (`[]` = `None`; unused for IPv4) -/
  | data (src bytes : Buf)
  deriving Repr

structure Env where
  readable : Poll
  dgram : Dgram
  tcp : List SockEnv
  deriving Repr

def SockEnv.writable : SockEnv → Bool
  | .notWritable | .writableFails => false
  | _ => true

/-- each outstanding probe with its socket's answers (a missing answer = not writable) -/
def pairUp : List TcpEntry → List SockEnv → List (TcpEntry × SockEnv)
  | [], _ => []
  | e :: es, [] => (e, .notWritable) :: pairUp es []
  | e :: es, s :: ss => (e, s) :: pairUp es ss

/-- `probe.start.elapsed().unwrap_or_default() < self.tcp_connect_timeout` -/
def young (now timeout : Nat) (e : TcpEntry) : Bool := decide (now - e.start < timeout)

/-- the sockets polled until the first writable one: (polled and not writable, the writable one,
not polled) -/
def firstWritable : List (TcpEntry × SockEnv) →
    List (TcpEntry × SockEnv) × Option (TcpEntry × SockEnv) × List (TcpEntry × SockEnv)
  | [] => ([], none, [])
  | x :: rest =>
    if x.2.writable then ([], some x, rest)
    else let r := firstWritable rest; (x :: r.1, r.2.1, r.2.2)

/-- `recv_tcp_socket` for the socket found writable -/
def tcpOutcome (c : ChanCfg) (e : TcpEntry) : SockEnv → R (Option WResp)
  | .connected peer => Wire.recvTcp c e.srcPort e.destPort (.connected peer)
  | .refused => Wire.recvTcp c e.srcPort e.destPort .refused
  | .unreach a => Wire.recvTcp c e.srcPort e.destPort (.hostUnreachable a)
  | .other => Wire.recvTcp c e.srcPort e.destPort .other
  | .takeErrorFails => .err .io
  | .notWritable | .writableFails => .ok none      -- not reached: such a socket is not chosen

/-- `Channel::recv_icmp_probe`: `is_readable(read_timeout)?`, then the family's `recv_icmp_probe`
with its 1024-octet buffer -/
def recvIcmpPart (ch : Chan) (env : Env) : R (Option WResp) :=
  match env.readable with
  | .fails => .err .io
  | .no => .ok none
  | .yes =>
    match env.dgram with
    | .none => .ok none                      -- `WouldBlock`
    | .readFails => .err .io
    | .data src bytes => Wire.recvIcmp ch.cfg (bytes.take MAX_PACKET_SIZE) src

/-- result of one `recv_probe`: the new state, the outcome, the probes whose sockets were polled -/
structure RecvResult where
  chan : Chan
  out : R (Option WResp)
  polled : List TcpEntry

/-- `Network::recv_probe` (the clock has been advanced by the caller) -/
def recv (ch : Chan) (env : Env) : RecvResult :=
  match ch.cfg.proto with
  | .tcp =>
    -- `recv_tcp_sockets`: `retain` the young ones, the first writable socket wins
    let kept := (pairUp ch.tcp env.tcp).filter fun x => young ch.now ch.tcpTimeout x.1
    match firstWritable kept with
    | (pre, none, _) =>
      { chan := { ch with tcp := pre.map (·.1) }, out := recvIcmpPart ch env, polled := pre.map (·.1) }
    | (pre, some x, post) =>
      let ch' := { ch with tcp := (pre ++ post).map (·.1) }
      let polled := (pre ++ [x]).map (·.1)
      match tcpOutcome ch.cfg x.1 x.2 with
      | .ok none => { chan := ch', out := recvIcmpPart ch env, polled := polled }
      | r => { chan := ch', out := r, polled := polled }
  | _ => { chan := ch, out := recvIcmpPart ch env, polled := [] }

/-- the wait inside `is_readable` / between calls: the virtual clock moves -/
def advance (ch : Chan) (dt : Nat) : Chan := { ch with now := ch.now + dt }

def setClock (ch : Chan) (t : Nat) : Chan := { ch with now := t }

/-! ## driver entry -/

def showConnOp : ConnOp → String
  | .newIcmpSend v6 raw => s!"new:icmp{if v6 then 6 else 4}:{if raw then 1 else 0}"
  | .newUdpSend v6 raw => s!"new:udp{if v6 then 6 else 4}:{if raw then 1 else 0}"
  | .newRecv v6 a raw => s!"new:recv{if v6 then 6 else 4}:{hexOrDash a}:{if raw then 1 else 0}"

def showErr : Err → String
  | .probeFailed => "probe-failed"
  | .addrInUse => "addr-in-use"
  | .capacity => "capacity"
  | e => Wire.showErr e

def showList (f : α → String) (l : List α) (sep : String) : String :=
  if l.isEmpty then "-" else sep.intercalate (l.map f)

def showTcp (l : List TcpEntry) : String :=
  showList (fun e => s!"{e.srcPort}/{e.destPort}/{e.start}") l ";"

def showPolled (l : List TcpEntry) : String :=
  ",".intercalate (l.map fun e => s!"{e.srcPort}/{e.destPort}")

def showRecv : R (Option WResp) → String
  | .err e => "err " ++ showErr e
  | r => Wire.showRecv r

def parseConn : List String → Option (ConnCfg × Nat)
  | [hs, hd, size, pat, priv, tos, proto, ext, initial, rt, tt, t0] => do
    let src ← bytesOfHex hs
    let dst ← bytesOfHex hd
    if ¬ ((src.length = 4 ∨ src.length = 16) ∧ (dst.length = 4 ∨ dst.length = 16)) then none
    let size ← natBelow size 65536
    let pat ← natBelow pat 256
    let priv ← parseBool priv
    let tos ← natBelow tos 256
    let proto ← match proto with
      | "i" => some Strat.Proto.icmp | "u" => some .udp | "t" => some .tcp | _ => none
    let ext ← parseBool ext
    let initial ← natBelow initial 65536
    let rt ← rt.toNat?
    let tt ← tt.toNat?
    let t0 ← t0.toNat?
    pure ({ src := src, dst := dst, packetSize := size, pattern := UInt8.ofNat pat, privileged := priv,
            tos := UInt8.ofNat tos, proto := proto, extEnabled := ext, initialSeq := initial,
            readTimeout := rt, tcpTimeout := tt }, t0)
  | _ => none

def parseInject (s : String) : Option Inject :=
  if s = "-" then some none
  else match s.splitOn ":" with
    | [c, e] => do
      let c ← parseCall c
      let e ← parseIoKind e
      pure (some (c, e))
    | _ => none

def parseSockEnv (s : String) : Option SockEnv :=
  match s.splitOn ":" with
  | ["n"] => some .notWritable
  | ["e"] => some .writableFails
  | ["c", "-"] => some (.connected none)
  | ["c", h] => (bytesOfHex h).map fun a => .connected (some a)
  | ["r"] => some .refused
  | ["u", h] => (bytesOfHex h).map .unreach
  | ["o"] => some .other
  | ["x"] => some .takeErrorFails
  | _ => none

def parseEnvList (s : String) : Option (List SockEnv) :=
  if s = "-" then some [] else (s.splitOn ",").mapM parseSockEnv

def parsePoll : String → Option Poll
  | "r" => some .yes | "n" => some .no | "e" => some .fails | _ => none

def parseDgram (s : String) : Option Dgram :=
  if s = "x" then some .none
  else if s = "e" then some .readFails
  else match s.splitOn ":" with
    | [hs, hb] => do
      let a ← bytesOfHex hs
      let b ← bytesOfHex hb
      pure (.data a b)
    | _ => none

/-- driver state of the `chan` component -/
structure DSt where
  cur : Option Chan := none

/-- requests with the leading word `chan` stripped -/
def handle (d : DSt) (args : List String) : DSt × String :=
  match args with
  | "connect" :: rest =>
    match parseConn rest with
    | none => (d, "bad-op")
    | some (k, t0) =>
      match connect k t0 with
      | .ok (ch, ops) => ({ cur := some ch }, "ok " ++ showList showConnOp ops ";")
      | .err e => ({ cur := none }, "err " ++ showErr e)
      | .panic => ({ cur := none }, "panic")
  | ["clock", t] =>
    match t.toNat?, d.cur with
    | some t, some ch => ({ cur := some (setClock ch t) }, "ok")
    | some _, none => (d, "ok")
    | none, _ => (d, "bad-op")
  | "send" :: rest =>
    if rest.length ≠ 7 then (d, "bad-op") else
    match parseProbe (rest.take 6), parseInject (rest.getD 6 "") with
    | some p, some inj =>
      match d.cur with
      | none => (d, "dead")
      | some ch =>
        let (ch', out) := send ch p inj
        match out with
        | .ok ops => ({ cur := some ch' }, s!"ok {showList showOp ops ";"} tcp={showTcp ch'.tcp}")
        | .err e ops =>
          ({ cur := some ch' }, s!"err {showErr e} {showList showOp ops ";"} tcp={showTcp ch'.tcp}")
        | .panic => ({ cur := none }, "panic")
    | _, _ => (d, "bad-op")
  | ["recv", dt, rd, dg, envs] =>
    match dt.toNat?, parsePoll rd, parseDgram dg, parseEnvList envs with
    | some dt, some rd, some dg, some envs =>
      match d.cur with
      | none => (d, "dead")
      | some ch =>
        let ch := advance ch dt
        let r := recv ch { readable := rd, dgram := dg, tcp := envs }
        match r.out with
        | .panic => ({ cur := none }, "panic")
        | out =>
          ({ cur := some r.chan },
           s!"{showRecv out} @{ch.now} polled=[{showPolled r.polled}] tcp={showTcp r.chan.tcp}")
    | _, _, _, _ => (d, "bad-op")
  | _ => (d, "bad-op")

end TV.Chan
